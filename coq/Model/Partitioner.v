(* M4b: afkak/partitioner.py:131-219  RoundRobinPartitioner / HashedPartitioner
   plus the UTF-8 coercion of text keys (bytearray(key, "UTF-8")). *)
From AV Require Import Base.Util Model.Murmur.
From Coq Require Import Sorting.Mergesort Orders.

Module ZOrder <: TotalLeBool.
  Definition t := Z.
  Definition leb := Z.leb.
  Theorem leb_total : forall a1 a2, leb a1 a2 = true \/ leb a2 a1 = true.
  Proof. intros a b; unfold leb. destruct (Z.leb_spec a b); [now left|right].
         apply Z.leb_le. apply Z.lt_le_incl. assumption. Qed.
End ZOrder.
Module ZSort := Sort ZOrder.
Definition zsort : list Z -> list Z := ZSort.sort.

(* ---- UTF-8 (CPython str.encode("UTF-8"); lone surrogates raise) ---- *)
Definition utf8_cp (c : Z) : option (list Z) :=
  if (c <? 0) then None
  else if (c <? 0x80) then Some [c]
  else if (c <? 0x800) then Some [0xC0 + c / 64; 0x80 + c mod 64]
  else if (c <? 0xD800) || ((0xDFFF <? c) && (c <? 0x10000)) then
    Some [0xE0 + c / 4096; 0x80 + (c / 64) mod 64; 0x80 + c mod 64]
  else if (c <? 0x10000) then None (* surrogate *)
  else if (c <? 0x110000) then
    Some [0xF0 + c / 262144; 0x80 + (c / 4096) mod 64; 0x80 + (c / 64) mod 64; 0x80 + c mod 64]
  else None.

Fixpoint utf8 (cps : list Z) : option (list Z) :=
  match cps with
  | [] => Some []
  | c :: r => match utf8_cp c, utf8 r with
              | Some a, Some b => Some (a ++ b)
              | _, _ => None
              end
  end.

(* ---- UTF-8 decoder written from the table of RFC 3629 section 3/4 (the SPECIFICATION the encoder above is proved
        against in Proofs/PartitionerUtf8.v): shortest form only (lead bytes C2..DF, E0..EF, F0..F4; a 3-byte form
        decodes to >= 0x800, a 4-byte form to 0x10000..0x10FFFF), continuation bytes 80..BF, no surrogates. ---- *)
Definition is_cont (b : Z) : bool := (0x80 <=? b) && (b <=? 0xBF).
Definition is_scalar (c : Z) : bool :=
  (0 <=? c) && (c <? 0x110000) && negb ((0xD800 <=? c) && (c <=? 0xDFFF)).

Fixpoint utf8_decode (l : list Z) : option (list Z) :=
  match l with
  | [] => Some []
  | b0 :: r =>
      if (0 <=? b0) && (b0 <? 0x80) then option_map (cons b0) (utf8_decode r)
      else if (0xC2 <=? b0) && (b0 <=? 0xDF) then
        match r with
        | b1 :: r1 =>
            if is_cont b1 then option_map (cons ((b0 - 0xC0) * 64 + (b1 - 0x80))) (utf8_decode r1) else None
        | _ => None
        end
      else if (0xE0 <=? b0) && (b0 <=? 0xEF) then
        match r with
        | b1 :: b2 :: r2 =>
            let c := (b0 - 0xE0) * 4096 + (b1 - 0x80) * 64 + (b2 - 0x80) in
            if is_cont b1 && is_cont b2 && (0x800 <=? c) && is_scalar c
            then option_map (cons c) (utf8_decode r2) else None
        | _ => None
        end
      else if (0xF0 <=? b0) && (b0 <=? 0xF4) then
        match r with
        | b1 :: b2 :: b3 :: r3 =>
            let c := (b0 - 0xF0) * 262144 + (b1 - 0x80) * 4096 + (b2 - 0x80) * 64 + (b3 - 0x80) in
            if is_cont b1 && is_cont b2 && is_cont b3 && (0x10000 <=? c) && is_scalar c
            then option_map (cons c) (utf8_decode r3) else None
        | _ => None
        end
      else None
  end.

(* ---- HashedPartitioner.partition: partitioner.py:206-219 ---- *)
Definition hashed_index (key : list Z) (n : Z) : Z :=
  (Z.land (pure_murmur2 key) 0x7FFFFFFF) mod n.

Definition hashed_partition (key : list Z) (parts : list Z) : option Z :=
  match parts with
  | [] => None (* ZeroDivisionError *)
  | _ => nth_error parts (Z.to_nat (hashed_index key (Z.of_nat (length parts))))
  end.

Definition hashed_partition_text (cps : list Z) (parts : list Z) : option Z :=
  match utf8 cps with
  | Some key => hashed_partition key parts
  | None => None
  end.

(* ---- RoundRobinPartitioner: partitioner.py:131-162 ----
   cycle(partitions) iterates over the list as PASSED; self.partitions keeps the sorted copy.
   [start] is the value randint(0, n-1) returned (0 when randomStart is off): an input. *)
Record rr := { rr_sorted : list Z; rr_cyc : list Z; rr_pos : nat }.

Definition rr_set (parts : list Z) (start : nat) : option rr :=
  match parts with
  | [] => None  (* randint(0,-1) raises / next(cycle([])) raises *)
  | _ => Some {| rr_sorted := zsort parts; rr_cyc := parts;
                 rr_pos := Nat.modulo start (length parts) |}
  end.

Definition rr_next (s : rr) : option (Z * rr) :=
  match nth_error (rr_cyc s) (rr_pos s) with
  | Some p => Some (p, {| rr_sorted := rr_sorted s; rr_cyc := rr_cyc s;
                          rr_pos := Nat.modulo (S (rr_pos s)) (length (rr_cyc s)) |})
  | None => None
  end.

Definition rr_partition (s : rr) (parts : list Z) (start : nat) : option (Z * rr) :=
  if zlist_eqb (rr_sorted s) parts then rr_next s
  else match rr_set parts start with
       | Some s' => rr_next s'
       | None => None
       end.

(* run a history of calls from a state; outputs until the first error *)
Fixpoint rr_run (s : rr) (calls : list (list Z * nat)) : list Z :=
  match calls with
  | [] => []
  | (parts, start) :: r =>
      match rr_partition s parts start with
      | Some (p, s') => p :: rr_run s' r
      | None => [-1]
      end
  end.

(* The property speaks about ASCENDING lists only.  For the differential run the selections are therefore compared
   exactly up to the first non-ascending list of a history; from there on only "is a member of the supplied list"
   (-2) / "is not" (-3) is compared, so that a rewrite which treats non-ascending lists differently (e.g. cycling over
   the sorted copy) is not an alarm. *)
Fixpoint rr_run_canon (s : rr) (exact : bool) (calls : list (list Z * nat)) : list Z :=
  match calls with
  | [] => []
  | (parts, start) :: r =>
      let exact' := exact && zlist_eqb (zsort parts) parts in
      match rr_partition s parts start with
      | Some (p, s') =>
          (if exact' then p else if existsb (Z.eqb p) parts then -2 else -3) :: rr_run_canon s' exact' r
      | None => [-1]
      end
  end.

(* ---- Java reference: org.apache.kafka.common.utils.Utils.murmur2 with int32 semantics ---- *)
Definition wrap (x : Z) : Z := (x + 0x80000000) mod 0x100000000 - 0x80000000.
Definition jmul (a b : Z) : Z := wrap (a * b).
Definition jshl (a : Z) (n : Z) : Z := wrap (Z.shiftl a n).
Definition jushr (a : Z) (n : Z) : Z := wrap (ushr a n).
Definition jadd (a b : Z) : Z := wrap (a + b).
Definition JM : Z := wrap 0x5BD1E995.
Definition JSEED : Z := wrap 0x9747B28C.

Definition jmix (h b0 b1 b2 b3 : Z) : Z :=
  let k := jadd (jadd (jadd (Z.land b0 255) (jshl (Z.land b1 255) 8))
                      (jshl (Z.land b2 255) 16)) (jshl (Z.land b3 255) 24) in
  let k := jmul k JM in
  let k := Z.lxor k (jushr k 24) in
  let k := jmul k JM in
  let h := jmul h JM in
  Z.lxor h k.

Fixpoint jblocks (h : Z) (l : list Z) {struct l} : Z :=
  match l with
  | b0 :: b1 :: b2 :: b3 :: r => jblocks (jmix h b0 b1 b2 b3) r
  | [b0; b1; b2] =>
      let h := Z.lxor h (jshl (Z.land b2 255) 16) in
      let h := Z.lxor h (jshl (Z.land b1 255) 8) in
      let h := Z.lxor h (Z.land b0 255) in
      jmul h JM
  | [b0; b1] =>
      let h := Z.lxor h (jshl (Z.land b1 255) 8) in
      let h := Z.lxor h (Z.land b0 255) in
      jmul h JM
  | [b0] => jmul (Z.lxor h (Z.land b0 255)) JM
  | [] => h
  end.

Definition murmur2_java (data : list Z) : Z :=
  let h := jblocks (Z.lxor JSEED (Z.of_nat (length data))) data in
  let h := Z.lxor h (jushr h 13) in
  let h := jmul h JM in
  Z.lxor h (jushr h 15).

(* Java: Utils.toPositive(murmur2(key)) % numPartitions *)
Definition java_partition (data : list Z) (n : Z) : Z :=
  (Z.land (murmur2_java data) 0x7FFFFFFF) mod n.

(* signed view of an unsigned byte, as a Java byte[] holds it *)
Definition sbyte (b : Z) : Z := if (b <? 128) then b else b - 256.

(* ---- case-line entry point ---- *)


Fixpoint parse_calls (fuel : nat) (l : list Z) : list (list Z * nat) :=
  match fuel with
  | O => []
  | S f =>
      match take_lp l with
      | Some (parts, st :: r) => (parts, Z.to_nat st) :: parse_calls f r
      | _ => []
      end
  end.

Definition opt_out (o : option Z) : list Z :=
  match o with Some p => [1; p] | None => [0] end.

Definition run_case (c : list Z) : list Z :=
  match c with
  | 1 :: r => match take_lp r with Some (d, _) => [pure_murmur2 d] | None => [-99] end
  | 2 :: r => match take_lp r with
              | Some (k, r2) => match take_lp r2 with
                                | Some (ps, _) => opt_out (hashed_partition k ps)
                                | None => [-99] end
              | None => [-99] end
  | 3 :: r => match take_lp r with
              | Some (k, r2) => match take_lp r2 with
                                | Some (ps, _) => opt_out (hashed_partition_text k ps)
                                | None => [-99] end
              | None => [-99] end
  | 4 :: r => match take_lp r with
              | Some (ps, st :: r2) =>
                  match rr_set ps (Z.to_nat st) with
                  | Some s => rr_run s (parse_calls (length r2) r2)
                  | None => [-1]
                  end
              | _ => [-99] end
  | 5 :: r => match take_lp r with
              | Some (d, _) => [murmur2_java (map sbyte d) mod 0x100000000] | None => [-99] end
  | 6 :: r => match take_lp r with
              | Some (ps, st :: r2) =>
                  match rr_set ps (Z.to_nat st) with
                  | Some s => rr_run_canon s (zlist_eqb (zsort ps) ps) (parse_calls (length r2) r2)
                  | None => [-1]
                  end
              | _ => [-99] end
  | 7 :: r => match take_lp r with
              | Some (cps, _) => match utf8 cps with Some b => 1 :: b | None => [0] end
              | None => [-99] end
  (* 8: the Java client's  murmur2(key)  as a signed int, then  toPositive(murmur2(key)) % n  for each n *)
  | 8 :: r => match take_lp r with
              | Some (d, ns) =>
                  (* = murmur2_java sd :: map (java_partition sd) ns, java_partition unfolded to hash the key once *)
                  let h := murmur2_java (map sbyte d) in
                  h :: map (fun n => (Z.land h 0x7FFFFFFF) mod n) ns
              | None => [-99] end
  | _ => [-99]
  end.
