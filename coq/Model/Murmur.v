(* M4a: afkak/partitioner.py:29-99  pure_murmur2, transcribed statement by statement.
   Integers are unbounded Z; every "& mod32bits" of the Python is written out. *)
From AV Require Import Base.Util.

Definition M32 : Z := 0xFFFFFFFF.
Definition MM : Z := 0x5BD1E995.
Definition SEED : Z := 0x9747B28C.

Definition mask32 (x : Z) : Z := Z.land x M32.
(* (k % 0x100000000) >> r : the Python spelling of Java's k >>> r *)
Definition ushr (k r : Z) : Z := Z.shiftr (k mod 0x100000000) r.

(* one 4-byte block:  partitioner.py:57-75 *)
Definition mix_block (h b0 b1 b2 b3 : Z) : Z :=
  let k := Z.land b0 255 + Z.shiftl (Z.land b1 255) 8
           + Z.shiftl (Z.land b2 255) 16 + Z.shiftl (Z.land b3 255) 24 in
  let k := mask32 k in
  let k := mask32 (k * MM) in
  let k := mask32 (Z.lxor k (ushr k 24)) in
  let k := mask32 (k * MM) in
  let h := mask32 (h * MM) in
  mask32 (Z.lxor h k).

(* the loop over length//4 blocks followed by the tail switch: partitioner.py:56-91.
   Structural recursion on the byte list, four at a time. *)
Fixpoint blocks (h : Z) (l : list Z) {struct l} : Z :=
  match l with
  | b0 :: b1 :: b2 :: b3 :: r => blocks (mix_block h b0 b1 b2 b3) r
  | [b0; b1; b2] =>
      let h := mask32 (Z.lxor h (Z.shiftl (Z.land b2 255) 16)) in
      let h := mask32 (Z.lxor h (Z.shiftl (Z.land b1 255) 8)) in
      let h := mask32 (Z.lxor h (Z.land b0 255)) in
      mask32 (h * MM)
  | [b0; b1] =>
      let h := mask32 (Z.lxor h (Z.shiftl (Z.land b1 255) 8)) in
      let h := mask32 (Z.lxor h (Z.land b0 255)) in
      mask32 (h * MM)
  | [b0] =>
      let h := mask32 (Z.lxor h (Z.land b0 255)) in
      mask32 (h * MM)
  | [] => h
  end.

(* partitioner.py:93-99 *)
Definition fmix (h : Z) : Z :=
  let h := mask32 (Z.lxor h (ushr h 13)) in
  let h := mask32 (h * MM) in
  mask32 (Z.lxor h (ushr h 15)).

Definition pure_murmur2_seed (seed : Z) (data : list Z) : Z :=
  fmix (blocks (Z.lxor seed (Z.of_nat (length data))) data).

Definition pure_murmur2 (data : list Z) : Z := pure_murmur2_seed SEED data.
