(* The reader language: the primitive readers of /repo/afkak/_util.py (read_short_bytes, read_int_string,
   read_short_ascii, read_short_text, relative_unpack) work on (data, cur) with an INTEGER cursor, length tests and
   slices.  harness/py2dsl.py translates their source into terms of [rstmt]; this file says what the statement forms
   mean; Proofs/ReadDSLSound.v proves that the translated readers are the suffix-based readers of Model.Prim that every
   codec model is built on:   reader(data, cur)  =  Prim reader on data[cur:],  new cursor = len data - len rest.

   Python forms covered:
     if len(data) < cur + K: raise X(...)        RIfRaise (RLt RLen (RAdd RCur K)) X     (_buffer_underflow(..) = BufferUnderflowError)
     (v,) = struct.unpack(">h", data[a:b])       RUnpack1 Fh a b v
     size = struct.calcsize(fmt)                 RCalcSize v                              (fmt = the reader's parameter)
     out = struct.unpack(fmt, data[a:b])         RUnpackAll a b v
     if v == -1: return None, E                  RIfReturnNone (REq ..) E
     cur += E                                    RAdvance E
     out = data[a:b]                             RSlice a b v
     return v, E                                 RReturn v E
   and   b, cur = read_short_bytes(data, cur); return b.decode("ascii"), cur              RDecoded callee codec

   Integer expressions: cur, len(data), a local, a constant, a sum.  Slices data[a:b] are modelled for 0 <= a <= b
   (anything else is Err TypeErr here: the soundness theorems show it does not occur for 0 <= cur). *)
From AV Require Import Base.Util Model.Prim.

Inductive rexpr : Set := RCur | RLen | RVar (i : nat) | RConst (z : Z) | RAdd (a b : rexpr).
Inductive rcond : Set := RLt (a b : rexpr) | REq (a b : rexpr).

Inductive rstmt : Set :=
| RIfRaise (c : rcond) (e : err)
| RUnpack1 (f : ifmt) (lo hi : rexpr) (target : nat)
| RCalcSize (target : nat)
| RUnpackAll (lo hi : rexpr) (target : nat)
| RIfReturnNone (c : rcond) (newcur : rexpr)
| RAdvance (e : rexpr)
| RSlice (lo hi : rexpr) (target : nat)
| RReturn (v : nat) (newcur : rexpr).

Inductive rval : Set := RUnbound | RNone | RInt (z : Z) | RBytes (b : list Z) | RTuple (l : list Z).

Definition renv := list rval.
Fixpoint rget (i : nat) (e : renv) : rval :=
  match i, e with
  | O, v :: _ => v
  | S k, _ :: r => rget k r
  | _, [] => RUnbound
  end.
Fixpoint rset (i : nat) (v : rval) (e : renv) : renv :=
  match i, e with
  | O, _ :: r => v :: r
  | O, [] => [v]
  | S k, x :: r => x :: rset k v r
  | S k, [] => RUnbound :: rset k v []
  end.

Section RInterp.
  Variable fmt : list ifmt.          (* relative_unpack's format argument ([] for the other readers) *)
  Variable data : list Z.

  Fixpoint reval (x : rexpr) (e : renv) (cur : Z) : res Z :=
    match x with
    | RCur => Ok cur
    | RLen => Ok (len data)
    | RVar i => match rget i e with RInt z => Ok z | RUnbound => Err NameErr | _ => Err TypeErr end
    | RConst z => Ok z
    | RAdd a b => do x <- reval a e cur; do y <- reval b e cur; Ok (x + y)
    end.

  Definition rtest (c : rcond) (e : renv) (cur : Z) : res bool :=
    match c with
    | RLt a b => do x <- reval a e cur; do y <- reval b e cur; Ok (x <? y)
    | REq a b => do x <- reval a e cur; do y <- reval b e cur; Ok (x =? y)
    end.

  (* data[lo:hi] *)
  Definition py_slice (lo hi : Z) : res (list Z) :=
    if (lo <? 0) || (hi <? lo) then Err TypeErr
    else Ok (take (Z.to_nat (hi - lo)) (drop (Z.to_nat lo) data)).

  (* struct.unpack(fmt, b): struct.error unless b has exactly calcsize(fmt) bytes *)
  Fixpoint unpack_all (fs : list ifmt) (b : list Z) : res (list Z) :=
    match fs with
    | [] => match b with [] => Ok [] | _ => Err StructErr end
    | f :: r => match unpack f b with
                | Ok (v, b') => do vs <- unpack_all r b'; Ok (v :: vs)
                | Err _ => Err StructErr
                end
    end.
  Definition calcsize (fs : list ifmt) : Z := Z.of_nat (fold_right (fun f n => (fmt_size f + n)%nat) O fs).

  (* the body: statements in order; `return` ends it; falling off the end returns None, which the caller cannot unpack *)
  Fixpoint rexec (p : list rstmt) (e : renv) (cur : Z) : res (rval * Z) :=
    match p with
    | [] => Err TypeErr
    | s :: rest =>
        match s with
        | RIfRaise c x => do b <- rtest c e cur; if b then Err x else rexec rest e cur
        | RUnpack1 f lo hi t =>
            do a <- reval lo e cur; do b <- reval hi e cur; do sl <- py_slice a b;
            do vs <- unpack_all [f] sl;
            match vs with [v] => rexec rest (rset t (RInt v) e) cur | _ => Err StructErr end
        | RCalcSize t => rexec rest (rset t (RInt (calcsize fmt)) e) cur
        | RUnpackAll lo hi t =>
            do a <- reval lo e cur; do b <- reval hi e cur; do sl <- py_slice a b;
            do vs <- unpack_all fmt sl; rexec rest (rset t (RTuple vs) e) cur
        | RIfReturnNone c nc => do b <- rtest c e cur; if b then (do n <- reval nc e cur; Ok (RNone, n)) else rexec rest e cur
        | RAdvance x => do d <- reval x e cur; rexec rest e (cur + d)
        | RSlice lo hi t => do a <- reval lo e cur; do b <- reval hi e cur; do sl <- py_slice a b; rexec rest (rset t (RBytes sl) e) cur
        | RReturn v nc => do n <- reval nc e cur;
                          match rget v e with RUnbound => Err NameErr | x => Ok (x, n) end
        end
    end.
End RInterp.

(* a reader given by its statements *)
Definition rrun (p : list rstmt) (fmt : list ifmt) (data : list Z) (cur : Z) : res (rval * Z) := rexec fmt data p [] cur.

(* read_short_ascii / read_short_text:  b, cur = <callee>(data, cur); return b.decode(<codec>), cur *)
Inductive codec_name : Set := CAscii | CUtf8.
Record rdecoded : Set := mk_rdecoded { rd_callee : nat (* 0 = read_short_bytes *); rd_codec : codec_name }.
Definition codec_valid (c : codec_name) : list Z -> bool := match c with CAscii => ascii_valid | CUtf8 => utf8_valid end.
(* None.decode is AttributeError; undecodable bytes are UnicodeDecodeError; the text is carried as its bytes *)
Definition rrun_decoded (callee : list rstmt) (d : rdecoded) (data : list Z) (cur : Z) : res (rval * Z) :=
  do (v, n) <- rrun callee [] data cur;
  match v with
  | RNone => Err AttrErr
  | RBytes b => if codec_valid (rd_codec d) b then Ok (RBytes b, n) else Err UnicodeErr
  | _ => Err AttrErr
  end.
