(* M0a: wire primitives.
     afkak/_util.py:87-201   write_int_string, write_short_ascii/text/bytes,
                             read_short_bytes/ascii/text, read_int_string, relative_unpack
     struct.pack / struct.unpack with the big-endian integer formats used by afkak/kafkacodec.py
                             (">b" ">B" ">h" ">H" ">i" ">I" ">q" and their concatenations).

   Conventions
   * bytes = [list Z], every element in 0..255 ([bytes_ok]); [None] = Python None (null), [Some []] = b"".
   * Python's (data, cur) reader style is modelled on the remaining suffix: a reader takes data[cur:] and returns
     (value, data[new_cur:]).  This is equivalent to the Python code now that lengths below -1 are rejected
     (fix e0719d1): no reader ever moves the cursor backwards or looks before cur.
   * Exceptions: [res A := Ok a | Err e].  Mapping from Python exception classes to [err] (the driver
     harness/props/codec_lib.py holds the same table, [err_code] gives the integer used in traces):

       Underflow      1   afkak.common.BufferUnderflowError
       Checksum       2   afkak.common.ChecksumError
       FetchTooSmall  3   afkak.common.ConsumerFetchSizeTooSmall
       Protocol       4   afkak.common.ProtocolError
       InvalidMessage 5   afkak.common.InvalidMessageError        (not raised by the code modelled here)
       StructErr      6   struct.error
       TypeErr        7   TypeError        (e.g. len(None) when a message-set entry has length -1)
       UnicodeErr     8   UnicodeError     (UnicodeDecodeError / UnicodeEncodeError)
       Unsupported    9   afkak.common.UnsupportedCodecError      (create_message_set, codec not in {0,1,2})
       Fuel          10   model only: recursion depth exhausted (no Python counterpart below RecursionError)
       AttrErr       11   AttributeError   (None.decode in read_short_ascii/read_short_text on a null string)
       NotImpl       12   NotImplementedError (snappy_encode/snappy_decode when python-snappy is absent)
       CodecErr      13   decompression failure: OSError (gzip.BadGzipFile), EOFError, zlib.error
       NameErr       14   UnboundLocalError (KafkaCodec._encode_message_set with magic not in {0,1}, non-empty list)
       OracleMiss    15   model only: the compression oracle of a case line has no entry for the queried bytes

   Outside the model: argument *types* (str vs bytes vs other objects: the TypeError raised by the isinstance
   guards of write_short_ascii/text/bytes, "can't concat str to bytes" in write_int_string, struct.error for
   non-integer arguments); byte strings of 2^31 bytes or more are modelled (StructErr) but never exercised. *)
From AV Require Import Base.Util Model.Partitioner.

Inductive err : Set :=
| Underflow | Checksum | FetchTooSmall | Protocol | InvalidMessage | StructErr | TypeErr | UnicodeErr
| Unsupported | Fuel | AttrErr | NotImpl | CodecErr | NameErr | OracleMiss.

Inductive res (A : Type) : Type := Ok (a : A) | Err (e : err).
Arguments Ok {A} a.
Arguments Err {A} e.

Definition bind {A B} (r : res A) (f : A -> res B) : res B :=
  match r with Ok a => f a | Err e => Err e end.
Notation "'do' x <- e ; k" := (bind e (fun x => k)) (at level 200, x pattern, e at level 100, k at level 200).

Definition err_code (e : err) : Z :=
  match e with
  | Underflow => 1 | Checksum => 2 | FetchTooSmall => 3 | Protocol => 4 | InvalidMessage => 5
  | StructErr => 6 | TypeErr => 7 | UnicodeErr => 8 | Unsupported => 9 | Fuel => 10
  | AttrErr => 11 | NotImpl => 12 | CodecErr => 13 | NameErr => 14 | OracleMiss => 15
  end.

Definition err_of_code (c : Z) : option err :=
  match c with
  | 1 => Some Underflow | 2 => Some Checksum | 3 => Some FetchTooSmall | 4 => Some Protocol
  | 5 => Some InvalidMessage | 6 => Some StructErr | 7 => Some TypeErr | 8 => Some UnicodeErr
  | 9 => Some Unsupported | 10 => Some Fuel | 11 => Some AttrErr | 12 => Some NotImpl
  | 13 => Some CodecErr | 14 => Some NameErr | 15 => Some OracleMiss
  | _ => None
  end.

Definition err_eqb (a b : err) : bool := err_code a =? err_code b.

Definition bytes := list Z.
Definition len (b : list Z) : Z := Z.of_nat (length b).

(* ------------------------------------------------------------------ big-endian two's complement *)

(* the n low-order base-256 digits of v, most significant first; v may be negative
   (Coq's / and mod are floored, so this IS the two's-complement encoding of v modulo 256^n) *)
Fixpoint enc_be (nbytes : nat) (v : Z) : list Z :=
  match nbytes with
  | O => []
  | S k => ((v / 256 ^ Z.of_nat k) mod 256) :: enc_be k v
  end.

Fixpoint dec_be_unsigned (l : list Z) : Z :=
  match l with
  | [] => 0
  | b :: r => b * 256 ^ Z.of_nat (length r) + dec_be_unsigned r
  end.

Definition dec_be_signed (l : list Z) : Z :=
  let u := dec_be_unsigned l in
  let m := 256 ^ Z.of_nat (length l) in
  if (2 * u <? m) then u else u - m.

(* range guards: exactly the values struct.pack accepts for the format *)
Definition in_i8 (v : Z) : bool := (-128 <=? v) && (v <=? 127).
Definition in_u8 (v : Z) : bool := (0 <=? v) && (v <=? 255).
Definition in_i16 (v : Z) : bool := (-32768 <=? v) && (v <=? 32767).
Definition in_u16 (v : Z) : bool := (0 <=? v) && (v <=? 65535).
Definition in_i32 (v : Z) : bool := (-2147483648 <=? v) && (v <=? 2147483647).
Definition in_u32 (v : Z) : bool := (0 <=? v) && (v <=? 4294967295).
Definition in_i64 (v : Z) : bool := (-9223372036854775808 <=? v) && (v <=? 9223372036854775807).

(* struct formats *)
Inductive ifmt : Set := Fb | FB | Fh | FH | Fi | FI | Fq.

Definition fmt_size (f : ifmt) : nat :=
  match f with Fb | FB => 1 | Fh | FH => 2 | Fi | FI => 4 | Fq => 8 end%nat.
Definition fmt_signed (f : ifmt) : bool :=
  match f with Fb | Fh | Fi | Fq => true | FB | FH | FI => false end.
Definition fmt_in (f : ifmt) (v : Z) : bool :=
  match f with
  | Fb => in_i8 v | FB => in_u8 v | Fh => in_i16 v | FH => in_u16 v
  | Fi => in_i32 v | FI => in_u32 v | Fq => in_i64 v
  end.

(* struct.pack(">" + f, v): struct.error exactly when v is outside the format's range *)
Definition pack (f : ifmt) (v : Z) : res (list Z) :=
  if fmt_in f v then Ok (enc_be (fmt_size f) v) else Err StructErr.

Definition write_i8 := pack Fb.
Definition write_u8 := pack FB.
Definition write_i16 := pack Fh.
Definition write_u16 := pack FH.
Definition write_i32 := pack Fi.
Definition write_u32 := pack FI.
Definition write_i64 := pack Fq.

(* struct.pack(">f1f2...", v1, v2, ...): one field after the other; the result is an error iff any field is out of
   range (which field is reported first is not observable: the exception class is the same) *)
Fixpoint pack_list (fs : list (ifmt * Z)) : res (list Z) :=
  match fs with
  | [] => Ok []
  | (f, v) :: r => do a <- pack f v; do b <- pack_list r; Ok (a ++ b)
  end.

(* relative_unpack(">" + f, data, cur)  _util.py:187-194, on the suffix data[cur:]:
   BufferUnderflowError when fewer than calcsize bytes remain.  A multi-field format is a sequence of
   single-field reads: the total size check fails iff one of the sequential checks fails, with the same error. *)
Definition unpack (f : ifmt) (data : list Z) : res (Z * list Z) :=
  let n := fmt_size f in
  if Nat.ltb (length data) n then Err Underflow
  else let b := take n data in
       Ok (if fmt_signed f then dec_be_signed b else dec_be_unsigned b, drop n data).

Definition read_i8 := unpack Fb.
Definition read_u8 := unpack FB.
Definition read_i16 := unpack Fh.
Definition read_u16 := unpack FH.
Definition read_i32 := unpack Fi.
Definition read_u32 := unpack FI.
Definition read_i64 := unpack Fq.

(* ------------------------------------------------------------------ string writers *)

(* _util.py:87-90 *)
Definition write_int_string (s : option (list Z)) : res (list Z) :=
  match s with
  | None => write_i32 (-1)
  | Some b => do h <- write_i32 (len b); Ok (h ++ b)      (* struct.error only for len >= 2^31 *)
  end.

(* _util.py:129-150  (the isinstance(b, bytes) TypeError is outside the model) *)
Definition write_short_bytes (s : option (list Z)) : res (list Z) :=
  match s with
  | None => Ok [255; 255]                                   (* _NULL_SHORT_STRING = pack(">h", -1) *)
  | Some b => if (32767 <? len b) then Err StructErr
              else do h <- write_i16 (len b); Ok (h ++ b)
  end.

(* _util.py:93-108  text is a list of code points; str.encode("ascii") raises UnicodeEncodeError for any >= 128 *)
Definition ascii_cps (cps : list Z) : bool := forallb (fun c => (0 <=? c) && (c <? 128)) cps.
Definition write_short_ascii (s : option (list Z)) : res (list Z) :=
  match s with
  | None => Ok [255; 255]
  | Some cps => if ascii_cps cps then write_short_bytes (Some cps) else Err UnicodeErr
  end.

(* _util.py:111-126  str.encode("utf-8") = Model.Partitioner.utf8 (lone surrogates raise UnicodeEncodeError) *)
Definition write_short_text (s : option (list Z)) : res (list Z) :=
  match s with
  | None => Ok [255; 255]
  | Some cps => match utf8 cps with
                | Some b => write_short_bytes (Some b)
                | None => Err UnicodeErr
                end
  end.

(* ------------------------------------------------------------------ string readers *)

(* common shape of read_short_bytes (_util.py:153-168, f = Fh) and read_int_string (_util.py:181-196, f = Fi):
     fewer than 2/4 bytes left           -> BufferUnderflowError
     length = -1                         -> (None, cur + size)
     length < -1                         -> ProtocolError
     fewer than length bytes left        -> BufferUnderflowError
     otherwise                           -> (data[cur:cur+length], cur+length)          *)
Definition read_string (f : ifmt) (data : list Z) : res (option (list Z) * list Z) :=
  do (n, r) <- unpack f data;
  if (n =? -1) then Ok (None, r)
  else if (n <? -1) then Err Protocol
  else if (len r <? n) then Err Underflow
  else Ok (Some (take (Z.to_nat n) r), drop (Z.to_nat n) r).

Definition read_short_bytes := read_string Fh.
Definition read_int_string := read_string Fi.

(* CPython's strict UTF-8 decoder accepts exactly: no overlong forms, no surrogates, nothing above U+10FFFF *)
Definition cont (b : Z) : bool := (0x80 <=? b) && (b <=? 0xBF).
Definition btw (lo b hi : Z) : bool := (lo <=? b) && (b <=? hi).
Fixpoint utf8_valid (l : list Z) {struct l} : bool :=
  match l with
  | [] => true
  | b0 :: r0 =>
      if btw 0 b0 0x7F then utf8_valid r0
      else match r0 with
           | [] => false
           | b1 :: r1 =>
               if btw 0xC2 b0 0xDF then cont b1 && utf8_valid r1
               else match r1 with
                    | [] => false
                    | b2 :: r2 =>
                        if (b0 =? 0xE0) then btw 0xA0 b1 0xBF && cont b2 && utf8_valid r2
                        else if (b0 =? 0xED) then btw 0x80 b1 0x9F && cont b2 && utf8_valid r2
                        else if btw 0xE1 b0 0xEF then cont b1 && cont b2 && utf8_valid r2
                        else match r2 with
                             | [] => false
                             | b3 :: r3 =>
                                 if (b0 =? 0xF0) then btw 0x90 b1 0xBF && cont b2 && cont b3 && utf8_valid r3
                                 else if btw 0xF1 b0 0xF3 then cont b1 && cont b2 && cont b3 && utf8_valid r3
                                 else if (b0 =? 0xF4) then btw 0x80 b1 0x8F && cont b2 && cont b3 && utf8_valid r3
                                 else false
                             end
                    end
           end
  end.
Definition ascii_valid (l : list Z) : bool := forallb (fun b => btw 0 b 0x7F) l.

(* _util.py:171-178.  The decoded text is represented by its BYTES (the driver compares value.encode(...));
   validity under the codec is modelled ([ascii_valid], [utf8_valid] -> UnicodeDecodeError).
   A null string (-1) makes the code call None.decode: AttributeError. *)
Definition read_short_decoded (valid : list Z -> bool) (data : list Z) : res (list Z * list Z) :=
  do (ob, r) <- read_short_bytes data;
  match ob with
  | None => Err AttrErr
  | Some b => if valid b then Ok (b, r) else Err UnicodeErr
  end.
Definition read_short_ascii := read_short_decoded ascii_valid.
Definition read_short_text := read_short_decoded utf8_valid.
