(* A small deep-embedded language for afkak's request encoders (translator tie, DESIGN.md 10.2b).
   harness/py2enc.py translates the SOURCE of each KafkaCodec.encode_* classmethod to a term of [prog] on every run;
   coq/Model/EncAst.v holds the expected term per encoder; coq/Proofs/EncDSLSound.v proves once per encoder
       forall args, run ast_X (args as values) = Model.Requests.encode_X args;
   the per-run obligation is  generated_X = ast_X  (syntactic equality, by computation).

   Values are untyped (like Python's): integers, byte/text strings or None, lists, tuples, records with named fields.
   Variables are LEVELS: the parameters of the function in order (cls excluded), then one level per enclosing `for`
   (the loop element; `for a, b in d.items()` binds the pair, a = EIdx v 0, b = EIdx v 1).  Local names of the source
   never appear: a renaming is invisible.  Local assignments of pure expressions are substituted by the translator.

   Semantics of a statement list = concatenation of what each statement appends, evaluated in order, the first error
   wins (Python's exception).  `message += x` chains, `message = [..]; message.append(x); b"".join(message)` and
   `a + b` all translate to the same item list. *)
From Coq Require Import String.
From AV Require Import Base.Util Model.Prim Model.MsgSet Model.Requests.

Inductive val :=
| VInt (z : Z)
| VStr (s : option (list Z))          (* bytes or str (code points) or None *)
| VMsgs (ms : list message)
| VList (l : list val)
| VTup (l : list val)
| VRec (fs : list (string * val)).

Inductive ex :=
| EVar (level : nat)
| EConst (z : Z)
| EIdx (e : ex) (i : nat)             (* component of a tuple (dict item: 0 = key, 1 = value) *)
| EField (e : ex) (name : string)     (* attribute access *)
| ELen (e : ex)                       (* len() of a string, list or dict *)
| EGroup (e : ex)                     (* group_by_topic_and_partition(e) as the list of its items, each value again a
                                         list of items *)
| EKeys (e : ex)                      (* iterating a dict directly: its keys *)
| EIfGe (e : ex) (c : Z) (a b : ex).  (* a if e >= c else b *)

Inductive item :=
| IPack (fields : list (ifmt * ex))   (* struct.pack(">...", ...) *)
| IPackStar (f : ifmt) (e : ex)       (* struct.pack(">f%sf" % len(e), len(e), *e) *)
| IHeader (cid corr key ver : ex)     (* cls._encode_message_header(cid, corr, key, api_version=ver) *)
| IAscii (e : ex)                     (* write_short_ascii *)
| IText (e : ex)                      (* write_short_text *)
| IShortBytes (e : ex)                (* write_short_bytes *)
| IIntString (e : ex)                 (* write_int_string *)
| IRaw (e : ex)                       (* a bytes value appended as it is *)
| IFor (e : ex) (body : list item)    (* for x in e: body *)
| ILetMsgSet (msgs magic : ex) (body : list item).
                                      (* x = KafkaCodec._encode_message_set(msgs, magic=magic); body   (x = a new level).
                                         Restricted semantics: the clock is not modelled here - a format-1 message
                                         without timestamp is stamped 0; Proofs.EncDSLSound relates it to the model for
                                         message lists that carry their timestamps *)

Definition prog : Type := list item.

(* ---- values ---- *)
Fixpoint assoc (name : string) (fs : list (string * val)) : option val :=
  match fs with
  | [] => None
  | (n, v) :: r => if String.eqb n name then Some v else assoc name r
  end.

Definition vfield (name : string) (v : val) : option val :=
  match v with VRec fs => assoc name fs | _ => None end.

Definition vtopic (v : val) : text :=
  match vfield "topic" v with Some (VStr s) => s | _ => None end.
Definition vpartition (v : val) : Z :=
  match vfield "partition" v with Some (VInt z) => z | _ => 0 end.

(* the dict of dicts built by _util.group_by_topic_and_partition, as nested item lists *)
Definition vgroup (l : list val) : list val :=
  map (fun tp => VTup [VStr (fst tp); VList (map (fun pp => VTup [VInt (fst pp); snd pp]) (snd tp))])
      (group_by_topic_and_partition vtopic vpartition l).

Fixpoint eval (env : list val) (e : ex) : option val :=
  match e with
  | EVar n => nth_error env n
  | EConst z => Some (VInt z)
  | EIdx e i => match eval env e with Some (VTup l) => nth_error l i | _ => None end
  | EField e name => match eval env e with Some v => vfield name v | None => None end
  | ELen e => match eval env e with
              | Some (VStr (Some b)) => Some (VInt (len b))
              | Some (VList l) => Some (VInt (llen l))
              | Some (VMsgs l) => Some (VInt (llen l))
              | _ => None
              end
  | EGroup e => match eval env e with Some (VList l) => Some (VList (vgroup l)) | _ => None end
  | EKeys e => match eval env e with
               | Some (VList l) => Some (VList (map (fun kv => match kv with VTup (k :: _) => k | _ => kv end) l))
               | _ => None
               end
  | EIfGe e c a b => match eval env e with
                     | Some (VInt z) => if (c <=? z) then eval env a else eval env b
                     | _ => None
                     end
  end.

Definition eval_int (env : list val) (e : ex) : res Z :=
  match eval env e with Some (VInt z) => Ok z | _ => Err TypeErr end.
Definition eval_str (env : list val) (e : ex) : res (option (list Z)) :=
  match eval env e with Some (VStr s) => Ok s | _ => Err TypeErr end.

Fixpoint eval_fields (env : list val) (fs : list (ifmt * ex)) : res (list (ifmt * Z)) :=
  match fs with
  | [] => Ok []
  | (f, e) :: r => do z <- eval_int env e; do t <- eval_fields env r; Ok ((f, z) :: t)
  end.

Fixpoint ints_of (l : list val) : res (list Z) :=
  match l with
  | [] => Ok []
  | VInt z :: r => do t <- ints_of r; Ok (z :: t)
  | _ :: _ => Err TypeErr
  end.

Fixpoint run_item (i : item) (env : list val) {struct i} : res (list Z) :=
  match i with
  | IPack fs => do zs <- eval_fields env fs; pack_list zs
  | IPackStar f e =>
      match eval env e with
      | Some (VList l) => do zs <- ints_of l; pack_list ((f, len zs) :: map (fun x => (f, x)) zs)
      | _ => Err TypeErr
      end
  | IHeader cid corr key ver =>
      do c <- eval_str env cid; do co <- eval_int env corr; do k <- eval_int env key; do v <- eval_int env ver;
      match c with Some b => encode_message_header b co k v | None => Err TypeErr end
  | IAscii e => do s <- eval_str env e; write_short_ascii s
  | IText e => do s <- eval_str env e; write_short_text s
  | IShortBytes e => do s <- eval_str env e; write_short_bytes s
  | IIntString e => do s <- eval_str env e; write_int_string s
  | IRaw e => do s <- eval_str env e; match s with Some b => Ok b | None => Err TypeErr end
  | IFor e body =>
      match eval env e with
      | Some (VList l) =>
          enc_all (fun v => (fix run_items (its : list item) : res (list Z) :=
                               match its with
                               | [] => Ok []
                               | it :: r => do a <- run_item it (env ++ [v]); do b <- run_items r; Ok (a ++ b)
                               end) body) l
      | _ => Err TypeErr
      end
  | ILetMsgSet msgs magic body =>
      match eval env msgs with
      | Some (VMsgs ms) =>
          do mg <- eval_int env magic;
          do b <- encode_message_set (fun _ => 0) O ms None mg;
          (fix run_items (its : list item) : res (list Z) :=
             match its with
             | [] => Ok []
             | it :: r => do a <- run_item it (env ++ [VStr (Some b)]); do t <- run_items r; Ok (a ++ t)
             end) body
      | _ => Err TypeErr
      end
  end.

Fixpoint run (p : prog) (env : list val) : res (list Z) :=
  match p with
  | [] => Ok []
  | it :: r => do a <- run_item it env; do b <- run r env; Ok (a ++ b)
  end.

Lemma enc_all_ext {A} (f g : A -> res (list Z)) l : (forall a, In a l -> f a = g a) -> enc_all f l = enc_all g l.
Proof.
  induction l as [|x r IH]; intros H; cbn [enc_all]; [reflexivity|].
  rewrite (H x (or_introl eq_refl)), IH; [reflexivity|]. intros a I. apply H. right. exact I.
Qed.

(* the loop body is the statement list run with the element appended to the environment *)
Lemma run_item_for e body env :
  run_item (IFor e body) env =
  match eval env e with
  | Some (VList l) => enc_all (fun v => run body (env ++ [v])) l
  | _ => Err TypeErr
  end.
Proof.
  cbn [run_item]. destruct (eval env e) as [[z|s|ms|l|l|fs]|]; try reflexivity.
  apply enc_all_ext. intros v _. induction body as [|it r IH]; cbn [run]; [reflexivity|]. now rewrite IH.
Qed.

Lemma run_item_let msgs magic body env :
  run_item (ILetMsgSet msgs magic body) env =
  match eval env msgs with
  | Some (VMsgs ms) =>
      do mg <- eval_int env magic;
      do b <- encode_message_set (fun _ => 0) O ms None mg;
      run body (env ++ [VStr (Some b)])
  | _ => Err TypeErr
  end.
Proof.
  cbn [run_item]. destruct (eval env msgs) as [[z|s|ms|l|l|fs]|]; try reflexivity.
  destruct (eval_int env magic) as [mg|]; cbn [bind]; [|reflexivity].
  destruct (encode_message_set (fun _ => 0) O ms None mg) as [b|]; cbn [bind]; [|reflexivity].
  induction body as [|it r IH]; cbn [run]; [reflexivity|]. now rewrite IH.
Qed.
