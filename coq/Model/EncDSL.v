(* A small deep-embedded language for afkak's request encoders (translator tie, DESIGN.md 10.2b).
   harness/py2enc.py translates the SOURCE of each KafkaCodec.encode_* classmethod to a term of [prog] on every run;
   coq/Model/EncAst.v holds the expected term per encoder; coq/Proofs/EncDSLSound.v proves once per encoder
       forall args, run ast_X (args as values) = Model.Requests.encode_X args;
   the per-run obligation is  generated_X = ast_X  (syntactic equality, by computation).

   Values are untyped (like Python's): integers, byte/text strings or None, lists, tuples, records with named fields.
   Variables are LEVELS: the parameters of the function in order (cls excluded), then one level per enclosing `for`
   (the loop element; `for a, b in d.items()` binds the pair, a = EIdx v 0, b = EIdx v 1).  Local names of the source
   never appear: a renaming is invisible.  Local assignments of pure expressions are substituted by the translator.

   Semantics of a statement list = concatenation of what each statement appends, evaluated in order, the first error
   wins (Python's exception).  `message += x` chains, `message = [..]; message.append(x); b"".join(message)` and
   `a + b` all translate to the same item list. *)
From Coq Require Import String.
From AV Require Import Base.Util Model.Prim Model.Crc Model.MsgSet Model.Requests.

Inductive val :=
| VInt (z : Z)
| VStr (s : option (list Z))          (* bytes or str (code points) or None *)
| VNone                               (* None where the other values are not strings (Message.timestamp, offset=None) *)
| VList (l : list val)
| VTup (l : list val)
| VRec (fs : list (string * val)).

Inductive ex :=
| EVar (level : nat)
| EConst (z : Z)
| EIdx (e : ex) (i : nat)             (* component of a tuple (dict item: 0 = key, 1 = value) *)
| EField (e : ex) (name : string)     (* attribute access *)
| ELen (e : ex)                       (* len() of a string, list or dict *)
| EGroup (e : ex)                     (* group_by_topic_and_partition(e) as the list of its items, each value again a
                                         list of items *)
| EKeys (e : ex)                      (* iterating a dict directly: its keys *)
| EIfGe (e : ex) (c : Z) (a b : ex)   (* a if e >= c else b *)
| EIfNone (e : ex) (a b : ex)         (* a if e is None else b *)
| EAdd (a b : ex)
| EMul (a b : ex)
| ENone.                              (* the constant None *)

(* tests of `if` statements *)
Inductive cond :=
| CEq (e : ex) (z : Z)                (* e == z *)
| CIsNone (e : ex).                   (* e is None *)

Inductive item :=
| IPack (fields : list (ifmt * ex))   (* struct.pack(">...", ...) *)
| IPackStar (f : ifmt) (e : ex)       (* struct.pack(">f%sf" % len(e), len(e), *e) *)
| IHeader (cid corr key ver : ex)     (* cls._encode_message_header(cid, corr, key, api_version=ver) *)
| IAscii (e : ex)                     (* write_short_ascii *)
| IText (e : ex)                      (* write_short_text *)
| IShortBytes (e : ex)                (* write_short_bytes *)
| IIntString (e : ex)                 (* write_int_string *)
| IRaw (e : ex)                       (* a bytes value appended as it is *)
| IFor (e : ex) (body : list item)    (* for x in e: body *)
| ILetMsgSet (msgs magic : ex) (body : list item)
                                      (* x = KafkaCodec._encode_message_set(msgs, magic=magic); body   (x = a new level);
                                         meaning: Model.MsgSet.encode_message_set with offset None *)
| IForIdx (e : ex) (body : list item) (* for x in e: body; ...; v += step   (two new levels: the ITERATION NUMBER, then x;
                                         the translator writes v as v0 + number * step) *)
| ICond (c : cond) (th el : list item)  (* if c: th else: el *)
| IRaise (e : err)                    (* raise *)
| ICrc (body : list item)             (* m = body; crc = zlib.crc32(m) & 0xFFFFFFFF; struct.pack('>I', crc) + m *)
| ILetNow (body : list item)          (* x = int(time.time() * 1000); body   (x = a new level; consumes one clock reading) *)
| ILetMessage (m : ex) (body : list item).
                                      (* x = KafkaCodec._encode_message(m); body; meaning: Model.MsgSet.encode_message *)

Definition prog : Type := list item.

(* ---- values ---- *)
Fixpoint assoc (name : string) (fs : list (string * val)) : option val :=
  match fs with
  | [] => None
  | (n, v) :: r => if String.eqb n name then Some v else assoc name r
  end.

Definition vfield (name : string) (v : val) : option val :=
  match v with VRec fs => assoc name fs | _ => None end.

Definition vtopic (v : val) : text :=
  match vfield "topic" v with Some (VStr s) => s | _ => None end.
Definition vpartition (v : val) : Z :=
  match vfield "partition" v with Some (VInt z) => z | _ => 0 end.

(* the dict of dicts built by _util.group_by_topic_and_partition, as nested item lists *)
Definition vgroup (l : list val) : list val :=
  map (fun tp => VTup [VStr (fst tp); VList (map (fun pp => VTup [VInt (fst pp); snd pp]) (snd tp))])
      (group_by_topic_and_partition vtopic vpartition l).

Fixpoint eval (env : list val) (e : ex) : option val :=
  match e with
  | EVar n => nth_error env n
  | EConst z => Some (VInt z)
  | EIdx e i => match eval env e with Some (VTup l) => nth_error l i | _ => None end
  | EField e name => match eval env e with Some v => vfield name v | None => None end
  | ELen e => match eval env e with
              | Some (VStr (Some b)) => Some (VInt (len b))
              | Some (VList l) => Some (VInt (llen l))
              | _ => None
              end
  | EGroup e => match eval env e with Some (VList l) => Some (VList (vgroup l)) | _ => None end
  | EKeys e => match eval env e with
               | Some (VList l) => Some (VList (map (fun kv => match kv with VTup (k :: _) => k | _ => kv end) l))
               | _ => None
               end
  | EIfGe e c a b => match eval env e with
                     | Some (VInt z) => if (c <=? z) then eval env a else eval env b
                     | _ => None
                     end
  | EIfNone e a b => match eval env e with
                     | Some VNone | Some (VStr None) => eval env a
                     | Some _ => eval env b
                     | None => None
                     end
  | EAdd a b => match eval env a, eval env b with Some (VInt x), Some (VInt y) => Some (VInt (x + y)) | _, _ => None end
  | EMul a b => match eval env a, eval env b with Some (VInt x), Some (VInt y) => Some (VInt (x * y)) | _, _ => None end
  | ENone => Some VNone
  end.

Definition eval_cond (env : list val) (c : cond) : option bool :=
  match c with
  | CEq e z => match eval env e with Some (VInt x) => Some (x =? z) | _ => None end
  | CIsNone e => match eval env e with
                 | Some VNone | Some (VStr None) => Some true
                 | Some _ => Some false
                 | None => None
                 end
  end.

(* a Message object: record with the attribute names of afkak.common.Message *)
Definition msg_of_val (v : val) : option message :=
  match vfield "magic" v, vfield "attributes" v, vfield "key" v, vfield "value" v, vfield "timestamp" v with
  | Some (VInt mg), Some (VInt att), Some (VStr k), Some (VStr x), Some ts =>
      match ts with
      | VInt t => Some (mkMessage mg att k x (Some t))
      | VNone => Some (mkMessage mg att k x None)
      | _ => None
      end
  | _, _, _, _, _ => None
  end.

Fixpoint msgs_of_vals (l : list val) : option (list message) :=
  match l with
  | [] => Some []
  | v :: r => match msg_of_val v, msgs_of_vals r with Some m, Some ms => Some (m :: ms) | _, _ => None end
  end.

Definition eval_int (env : list val) (e : ex) : res Z :=
  match eval env e with Some (VInt z) => Ok z | _ => Err TypeErr end.
Definition eval_str (env : list val) (e : ex) : res (option (list Z)) :=
  match eval env e with Some (VStr s) => Ok s | _ => Err TypeErr end.

Fixpoint eval_fields (env : list val) (fs : list (ifmt * ex)) : res (list (ifmt * Z)) :=
  match fs with
  | [] => Ok []
  | (f, e) :: r => do z <- eval_int env e; do t <- eval_fields env r; Ok ((f, z) :: t)
  end.

Fixpoint ints_of (l : list val) : res (list Z) :=
  match l with
  | [] => Ok []
  | VInt z :: r => do t <- ints_of r; Ok (z :: t)
  | _ :: _ => Err TypeErr
  end.

Fixpoint run_item (i : item) (env : list val) {struct i} : res (list Z) :=
  match i with
  | IPack fs => do zs <- eval_fields env fs; pack_list zs
  | IPackStar f e =>
      match eval env e with
      | Some (VList l) => do zs <- ints_of l; pack_list ((f, len zs) :: map (fun x => (f, x)) zs)
      | _ => Err TypeErr
      end
  | IHeader cid corr key ver =>
      do c <- eval_str env cid; do co <- eval_int env corr; do k <- eval_int env key; do v <- eval_int env ver;
      match c with Some b => encode_message_header b co k v | None => Err TypeErr end
  | IAscii e => do s <- eval_str env e; write_short_ascii s
  | IText e => do s <- eval_str env e; write_short_text s
  | IShortBytes e => do s <- eval_str env e; write_short_bytes s
  | IIntString e => do s <- eval_str env e; write_int_string s
  | IRaw e => do s <- eval_str env e; match s with Some b => Ok b | None => Err TypeErr end
  | IFor e body =>
      match eval env e with
      | Some (VList l) =>
          enc_all (fun v => (fix run_items (its : list item) : res (list Z) :=
                               match its with
                               | [] => Ok []
                               | it :: r => do a <- run_item it (env ++ [v]); do b <- run_items r; Ok (a ++ b)
                               end) body) l
      | _ => Err TypeErr
      end
  | ILetMsgSet _ _ _ | IForIdx _ _ | ICond _ _ _ | IRaise _ | ICrc _ | ILetNow _ | ILetMessage _ _ =>
      Err Fuel                          (* not part of the clock-free fragment: see [runc] *)
  end.

Fixpoint run (p : prog) (env : list val) : res (list Z) :=
  match p with
  | [] => Ok []
  | it :: r => do a <- run_item it env; do b <- run r env; Ok (a ++ b)
  end.

Lemma enc_all_ext {A} (f g : A -> res (list Z)) l : (forall a, In a l -> f a = g a) -> enc_all f l = enc_all g l.
Proof.
  induction l as [|x r IH]; intros H; cbn [enc_all]; [reflexivity|].
  rewrite (H x (or_introl eq_refl)), IH; [reflexivity|]. intros a I. apply H. right. exact I.
Qed.

(* the loop body is the statement list run with the element appended to the environment *)
Lemma run_item_for e body env :
  run_item (IFor e body) env =
  match eval env e with
  | Some (VList l) => enc_all (fun v => run body (env ++ [v])) l
  | _ => Err TypeErr
  end.
Proof.
  cbn [run_item]. destruct (eval env e) as [[z|s| |l|l|fs]|]; try reflexivity.
  apply enc_all_ext. intros v _. induction body as [|it r IH]; cbn [run]; [reflexivity|]. now rewrite IH.
Qed.

(* ------------------------------------------------------------------ the full interpreter: clock and compression oracle
   State = the number k of clock readings made so far; the j-th reading of int(time.time() * 1000) is [clock j].
   [runc p env clock k] = the bytes and the new k, or the exception. *)
Definition cres : Type := res (list Z * nat).

Fixpoint foldc (f : nat -> val -> nat -> cres) (l : list val) (i : nat) (k : nat) : cres :=
  match l with
  | [] => Ok ([], k)
  | v :: r => do ak <- f i v k; do bk <- foldc f r (S i) (snd ak); Ok (fst ak ++ fst bk, snd bk)
  end.

Definition pure_c (r : res (list Z)) (k : nat) : cres := do b <- r; Ok (b, k).

Fixpoint runc_item (i : item) (env : list val) (clock : nat -> Z) (k : nat) {struct i} : cres :=
  let go := fix go (its : list item) (env : list val) (k : nat) : cres :=
              match its with
              | [] => Ok ([], k)
              | it :: r => do ak <- runc_item it env clock k; do bk <- go r env (snd ak); Ok (fst ak ++ fst bk, snd bk)
              end in
  match i with
  | IFor e body =>
      match eval env e with
      | Some (VList l) => foldc (fun _ v k => go body (env ++ [v]) k) l O k
      | _ => Err TypeErr
      end
  | IForIdx e body =>
      match eval env e with
      | Some (VList l) => foldc (fun n v k => go body (env ++ [VInt (Z.of_nat n); v]) k) l O k
      | _ => Err TypeErr
      end
  | ICond c th el =>
      match eval_cond env c with
      | Some true => go th env k
      | Some false => go el env k
      | None => Err TypeErr
      end
  | IRaise e => Err e
  | ICrc body => do bk <- go body env k; Ok (enc_be 4 (Crc.crc32 (fst bk)) ++ fst bk, snd bk)
  | ILetNow body => go body (env ++ [VInt (clock k)]) (S k)
  | ILetMessage m body =>
      match eval env m with
      | Some v => match msg_of_val v with
                  | Some msg => do b <- encode_message (clock k) msg;
                                go body (env ++ [VStr (Some b)]) (if uses_clock msg then S k else k)
                  | None => Err TypeErr
                  end
      | None => Err TypeErr
      end
  | ILetMsgSet msgs magic body =>
      match eval env msgs with
      | Some (VList l) =>
          match msgs_of_vals l with
          | Some ms => do mg <- eval_int env magic;
                       do b <- encode_message_set clock k ms None mg;
                       go body (env ++ [VStr (Some b)]) (k + clock_uses ms)%nat
          | None => Err TypeErr
          end
      | _ => Err TypeErr
      end
  | _ => pure_c (run_item i env) k
  end.

Fixpoint runc (p : prog) (env : list val) (clock : nat -> Z) (k : nat) : cres :=
  match p with
  | [] => Ok ([], k)
  | it :: r => do ak <- runc_item it env clock k; do bk <- runc r env clock (snd ak); Ok (fst ak ++ fst bk, snd bk)
  end.

(* the inner `go` of runc_item IS runc *)
Lemma runc_go clock (its : list item) : forall env k,
  (fix go (its : list item) (env : list val) (k : nat) : cres :=
     match its with
     | [] => Ok ([], k)
     | it :: r => do ak <- runc_item it env clock k; do bk <- go r env (snd ak); Ok (fst ak ++ fst bk, snd bk)
     end) its env k = runc its env clock k.
Proof. induction its as [|it r IH]; intros env k; cbn [runc]; [reflexivity|]. destruct (runc_item it env clock k) as [ak|]; cbn [bind]; [|reflexivity]. now rewrite IH. Qed.

(* ---- one equation per item, with the bodies as [runc] ---- *)
Lemma foldc_ext f g l : forall i k, (forall i v k, f i v k = g i v k) -> foldc f l i k = foldc g l i k.
Proof.
  induction l as [|v r IH]; intros i k H; cbn [foldc]; [reflexivity|]. rewrite H.
  destruct (g i v k) as [ak|]; cbn [bind]; [|reflexivity]. now rewrite IH.
Qed.

Lemma runc_item_for e body env clock k :
  runc_item (IFor e body) env clock k =
  match eval env e with
  | Some (VList l) => foldc (fun _ v k => runc body (env ++ [v]) clock k) l O k
  | _ => Err TypeErr
  end.
Proof.
  cbn [runc_item]. destruct (eval env e) as [[z|s| |l|l|fs]|]; try reflexivity.
  apply foldc_ext. intros. apply runc_go.
Qed.

Lemma runc_item_foridx e body env clock k :
  runc_item (IForIdx e body) env clock k =
  match eval env e with
  | Some (VList l) => foldc (fun n v k => runc body (env ++ [VInt (Z.of_nat n); v]) clock k) l O k
  | _ => Err TypeErr
  end.
Proof.
  cbn [runc_item]. destruct (eval env e) as [[z|s| |l|l|fs]|]; try reflexivity.
  apply foldc_ext. intros. apply runc_go.
Qed.

Lemma runc_item_cond c th el env clock k :
  runc_item (ICond c th el) env clock k =
  match eval_cond env c with
  | Some true => runc th env clock k
  | Some false => runc el env clock k
  | None => Err TypeErr
  end.
Proof. cbn [runc_item]. destruct (eval_cond env c) as [[|]|]; try reflexivity; apply runc_go. Qed.

Lemma runc_item_crc body env clock k :
  runc_item (ICrc body) env clock k =
  do bk <- runc body env clock k; Ok (enc_be 4 (Crc.crc32 (fst bk)) ++ fst bk, snd bk).
Proof. cbn [runc_item]. now rewrite runc_go. Qed.

Lemma runc_item_letnow body env clock k :
  runc_item (ILetNow body) env clock k = runc body (env ++ [VInt (clock k)]) clock (S k).
Proof. cbn [runc_item]. apply runc_go. Qed.

Lemma runc_item_letmessage m body env clock k :
  runc_item (ILetMessage m body) env clock k =
  match eval env m with
  | Some v => match msg_of_val v with
              | Some msg => do b <- encode_message (clock k) msg;
                            runc body (env ++ [VStr (Some b)]) clock (if uses_clock msg then S k else k)
              | None => Err TypeErr
              end
  | None => Err TypeErr
  end.
Proof.
  cbn [runc_item]. destruct (eval env m) as [v|]; [|reflexivity]. destruct (msg_of_val v) as [msg|]; [|reflexivity].
  destruct (encode_message (clock k) msg); cbn [bind]; [apply runc_go|reflexivity].
Qed.

Lemma runc_item_letmsgset msgs magic body env clock k :
  runc_item (ILetMsgSet msgs magic body) env clock k =
  match eval env msgs with
  | Some (VList l) =>
      match msgs_of_vals l with
      | Some ms => do mg <- eval_int env magic;
                   do b <- encode_message_set clock k ms None mg;
                   runc body (env ++ [VStr (Some b)]) clock (k + clock_uses ms)%nat
      | None => Err TypeErr
      end
  | _ => Err TypeErr
  end.
Proof.
  cbn [runc_item]. destruct (eval env msgs) as [[z|s| |l|l|fs]|]; try reflexivity.
  destruct (msgs_of_vals l) as [ms|]; [|reflexivity].
  destruct (eval_int env magic); cbn [bind]; [|reflexivity].
  destruct (encode_message_set clock k ms None a); cbn [bind]; [apply runc_go|reflexivity].
Qed.

(* programs without loops, lets, branches: the clock is not touched *)
Definition simple_item (i : item) : bool :=
  match i with
  | IPack _ | IPackStar _ _ | IHeader _ _ _ _ | IAscii _ | IText _ | IShortBytes _ | IIntString _ | IRaw _ => true
  | _ => false
  end.

Lemma runc_simple p env clock k : forallb simple_item p = true -> runc p env clock k = pure_c (run p env) k.
Proof.
  induction p as [|it r IH]; intros H; [reflexivity|].
  cbn [forallb] in H. apply andb_prop in H. destruct H as [Hi Hr].
  assert (E : runc_item it env clock k = pure_c (run_item it env) k) by (destruct it; try discriminate Hi; reflexivity).
  change (runc (it :: r) env clock k)
    with (do ak <- runc_item it env clock k; do bk <- runc r env clock (snd ak); Ok (fst ak ++ fst bk, snd bk)).
  change (run (it :: r) env) with (do a <- run_item it env; do b <- run r env; Ok (a ++ b)).
  rewrite E. unfold pure_c. destruct (run_item it env) as [a|]; cbn [bind fst snd]; [|reflexivity].
  rewrite (IH Hr). unfold pure_c. destruct (run r env); cbn [bind fst snd]; reflexivity.
Qed.

Lemma runc_item_simple it env clock k : simple_item it = true -> runc_item it env clock k = pure_c (run_item it env) k.
Proof. intros H. destruct it; try discriminate H; reflexivity. Qed.
