(* M7: afkak/brokerclient.py:44-79 (_RequestState), 86-462 (_KafkaBrokerClient) as a state machine
     step : state -> event -> state * list output
   composed with M6 (Model/Framing.v) for the bytes the transport delivers to KafkaProtocol
   (_protocol.py:36-60).

   ENVIRONMENT + API ALPHABET (type [event]) — what the world and the caller can do to one broker client:
     EMake rid expect   makeRequest(rid, <bytes>, expectResponse=expect)
     ECancel h          .cancel() on the Deferred that the h-th Deferred-returning makeRequest call returned
     EConnOk            the pending endpoint.connect() Deferred fires with a protocol      (enabled iff an attempt is pending)
     EConnFail          ... fires with a Failure                                          (enabled iff an attempt is pending)
     ELost              transport reports connectionLost to the protocol                  (enabled iff connected)
     EData chunk        transport delivers bytes to KafkaProtocol.dataReceived            (enabled iff connected)
     EFrame body        = EData (encode_frame body) on an empty receive buffer: one whole frame
     EFire              the reactor fires the back-off timer                              (enabled iff a timer is armed)
     EClose             close()
     EDisconnect        disconnect()
     EUpdate same addr  updateMetadata(new) ; same = (new.node_id == self.node_id); addr = abstract (host, port)
   A disabled event (one the environment cannot produce in that state: there is no Deferred / transport /
   DelayedCall to act on) is a no-op with no output.

   OBSERVABLES (type [output]):
     OConnect addr      endpointFactory(reactor, host, port).connect(self)  with the current address
     OWrite h rid       proto.sendString(request of Deferred h, correlation id rid)
     OSched k           reactor.callLater(retryPolicy(k), ..)   — k is the failure COUNT passed to the policy;
                        the float itself is checked bit-for-bit by the driver (BUILDING.md, float rule)
     OCancelTimer       the back-off DelayedCall is cancelled
     OCancelAttempt     the pending connect Deferred is cancelled
     OLose              transport.loseConnection()  (a REQUEST; the loss itself is the later event ELost)
     ODef h o           the Deferred of handle h fires with outcome o
     OCloseFired        the Deferred returned by close() fires
     ORaised k          the API call / dataReceived raised (1 DuplicateRequestError, 2 AssertionError (second close),
                        3 ValueError (updateMetadata), 4 BufferUnderflowError (frame < 4 bytes), 5 KeyError (canceller))
     OErr k h           anomaly, proved unreachable: 1 AlreadyCalledError on request Deferred h,
                        2 AlreadyCalledError on the close Deferred, 3 out of fuel

   Twisted Deferred semantics (DESIGN.md section 2): a Deferred is a fire-once cell; callback/errback on a fired cell is
   AlreadyCalledError (OErr, not a silent no-op); d.cancel() on a pending cell runs the canceller, then errbacks
   CancelledError if still pending; on a fired cell it does nothing.
   Handles: the h-th call of makeRequest that returns a Deferred (i.e. does not raise) has handle h (0-based);
   s_dlog records, per handle, the correlation id bound into its canceller (functools.partial, brokerclient.py:234).

   Outside the model: request payload bytes (only the correlation id and the handle identify a request; sendString is assumed
   not to raise, i.e. requests are shorter than 4 GiB and transport.write does not raise, so brokerclient.py:370-373 is
   not modelled); log output.
   User callbacks/errbacks that synchronously re-enter the client are not events of THIS machine.  Where the Deferred
   fires in tail position of a method (handleResponse, Deferred.cancel after the canceller, makeRequest on a closed
   client) the re-entrant call equals the same call made as the next event (for two frames of one chunk: by
   C06_client_chunking); the harness checks this on the real code (brokerclient_lib.reentrant_part / tree_part).  It is
   NOT true inside the two loops that fire Deferreds while iterating over the table - _sendQueued (callback of a
   no-reply request) and close() (errbacks): those are modelled by Model/BrokerClientHook.v (IConnOk / IClose take the
   calls made by user code as a parameter), which is a conservative extension of this file (C10_reentrant_conservative).
   An endpoint whose connect() completes synchronously is equal to the event following immediately, because
   _connect() is the last statement of both its callers (checked by brokerclient_lib.sync_connect_part). *)
From AV Require Import Base.Util Model.Framing.

Inductive connector_t :=
| CNone        (* self.connector is None *)
| CAttempt     (* the Deferred of a pending endpoint.connect() *)
| CTimer       (* the Deferred of deferLater(delay): back-off *)
| CStale.      (* an already fired Deferred left in self.connector by close() (brokerclient.py:285-286) *)

Inductive down_t := DNone | DPending | DFired.       (* self._dDown: None / pending / fired *)

Record req := mkReq {                                  (* _RequestState, brokerclient.py:44-79 *)
  r_id : Z;              (* correlationId *)
  r_h : nat;             (* handle of its Deferred d *)
  r_expect : bool;       (* expectResponse *)
  r_sent : bool;         (* sent is not None *)
  r_cancelled : bool     (* cancelled is not None *)
}.

(* The request table with the Deferred cells: everything makeRequest / handleResponse / cancel touch. *)
Record tbl := mkT {
  t_reqs : list req;             (* self.requests (OrderedDict): insertion order = issue order *)
  t_dlog : list Z;               (* correlation id of every Deferred ever returned by makeRequest; index = handle *)
  t_fired : list nat             (* handles of fired request Deferreds *)
}.

Record state := mkS {
  s_t : tbl;
  s_proto : bool;                (* self.proto is not None *)
  s_rxbuf : list Z;              (* self.proto._unprocessed *)
  s_connector : connector_t;     (* self.connector *)
  s_down : down_t;               (* self._dDown *)
  s_failures : nat;              (* self._failures *)
  s_addr : Z                     (* (self.host, self.port) *)
}.

Definition init : state := mkS (mkT [] [] []) false [] CNone DNone 0 0.     (* __init__, brokerclient.py:100-137 *)

Inductive event :=
| EMake (rid : Z) (expect : bool) | ECancel (h : nat)
| EConnOk | EConnFail | ELost | EData (chunk : list Z) | EFrame (body : list Z)
| EFire | EClose | EDisconnect | EUpdate (same : bool) (addr : Z).

Inductive outcome :=
| Succ (frame : list Z)     (* d.callback(response bytes) *)
| SuccNone                  (* d.callback(None): no-reply request written *)
| FailCancelled             (* CancelledError *)
| FailClosed.               (* ClientError: broker client closed *)

Inductive output :=
| OConnect (addr : Z) | OWrite (h : nat) (rid : Z) | OSched (k : nat) | OCancelTimer | OCancelAttempt
| OLose | ODef (h : nat) (o : outcome) | OCloseFired | ORaised (k : Z) | OErr (k : Z) (h : nat).

(* ---- field setters ---- *)
Definition t_with_reqs (t : tbl) (x : list req) : tbl := mkT x (t_dlog t) (t_fired t).
Definition with_t (s : state) (x : tbl) : state :=
  mkS x (s_proto s) (s_rxbuf s) (s_connector s) (s_down s) (s_failures s) (s_addr s).
Definition with_proto (s : state) (x : bool) : state :=
  mkS (s_t s) x (s_rxbuf s) (s_connector s) (s_down s) (s_failures s) (s_addr s).
Definition with_rxbuf (s : state) (x : list Z) : state :=
  mkS (s_t s) (s_proto s) x (s_connector s) (s_down s) (s_failures s) (s_addr s).
Definition with_connector (s : state) (x : connector_t) : state :=
  mkS (s_t s) (s_proto s) (s_rxbuf s) x (s_down s) (s_failures s) (s_addr s).
Definition with_down (s : state) (x : down_t) : state :=
  mkS (s_t s) (s_proto s) (s_rxbuf s) (s_connector s) x (s_failures s) (s_addr s).
Definition with_failures (s : state) (x : nat) : state :=
  mkS (s_t s) (s_proto s) (s_rxbuf s) (s_connector s) (s_down s) x (s_addr s).
Definition with_addr (s : state) (x : Z) : state :=
  mkS (s_t s) (s_proto s) (s_rxbuf s) (s_connector s) (s_down s) (s_failures s) x.

(* ---- the OrderedDict, keyed by correlation id ---- *)
Definition lookup (rid : Z) (rs : list req) : option req := find (fun r => r_id r =? rid) rs.
Definition del (rid : Z) (rs : list req) : list req := filter (fun r => negb (r_id r =? rid)) rs.
Definition upd (rid : Z) (f : req -> req) (rs : list req) : list req :=
  map (fun r => if r_id r =? rid then f r else r) rs.

Definition set_sent (b : bool) (r : req) : req := mkReq (r_id r) (r_h r) (r_expect r) b (r_cancelled r).
Definition set_cancelled (r : req) : req := mkReq (r_id r) (r_h r) (r_expect r) (r_sent r) true.

Definition is_fired (t : tbl) (h : nat) : bool := existsb (Nat.eqb h) (t_fired t).

(* Deferred.callback / errback on the request Deferred of handle h *)
Definition fire (t : tbl) (h : nat) (o : outcome) : tbl * list output :=
  if is_fired t h then (t, [OErr 1 h]) else (mkT (t_reqs t) (t_dlog t) (h :: t_fired t), [ODef h o]).

(* self._dDown.callback(None) *)
Definition fire_down (s : state) : state * list output :=
  match s_down s with
  | DPending => (with_down s DFired, [OCloseFired])
  | _ => (s, [OErr 2 0])
  end.

(* _sendRequest(tReq), brokerclient.py:365-380 *)
Definition send_request (t : tbl) (r : req) : tbl * list output :=
  let t1 := t_with_reqs t (upd (r_id r) (set_sent true) (t_reqs t)) in       (* tReq.sent = now *)
  let w := [OWrite (r_h r) (r_id r)] in                                      (* self.proto.sendString(tReq.request) *)
  if r_expect r then (t1, w)
  else                                                                       (* del self.requests[id]; d.callback(None) *)
    let (t2, o) := fire (t_with_reqs t1 (del (r_id r) (t_reqs t1))) (r_h r) SuccNone in (t2, w ++ o).

(* _sendQueued, brokerclient.py:382-386: iterate over a snapshot of the values, in dict order *)
Fixpoint send_each (t : tbl) (snap : list req) : tbl * list output :=
  match snap with
  | [] => (t, [])
  | r :: rest =>
      if r_sent r then send_each t rest
      else let (t1, o1) := send_request t r in
           let (t2, o2) := send_each t1 rest in (t2, o1 ++ o2)
  end.
Definition send_queued (t : tbl) : tbl * list output := send_each t (t_reqs t).

(* tryConnect, brokerclient.py:421-429 *)
Definition try_connect (s : state) : state * list output :=
  (with_connector s CAttempt, [OConnect (s_addr s)]).

(* _connect, brokerclient.py:414-462: self._failures = 0; tryConnect() *)
Definition connect (s : state) : state * list output := try_connect (with_failures s 0).

Definition lift (s : state) (x : tbl * list output) : state * list output := (with_t s (fst x), snd x).

(* makeRequest, brokerclient.py:167-246 *)
Definition make_request (s : state) (rid : Z) (expect : bool) : state * list output :=
  let t := s_t s in
  match lookup rid (t_reqs t) with
  | Some _ => (s, [ORaised 1])                                               (* 211-219 *)
  | None =>
      let h := length (t_dlog t) in
      match s_down s with
      | DNone =>
          let r := mkReq rid h expect false false in
          let t1 := mkT (t_reqs t ++ [r]) (t_dlog t ++ [rid]) (t_fired t) in (* 230-236 *)
          if s_proto s then lift s (send_request t1 r)                       (* 239-242 *)
          else match s_connector s with
               | CNone => connect (with_t s t1)                              (* 244-245 *)
               | _ => (with_t s t1, [])
               end
      | _ => lift s (fire (mkT (t_reqs t) (t_dlog t ++ [rid]) (t_fired t)) h FailClosed)   (* 222-227: return fail(ClientError) *)
      end
  end.

(* d.cancel() on handle h; the canceller is _cancelRequest(rid), brokerclient.py:388-400 *)
Definition cancel (t : tbl) (h : nat) : tbl * list output :=
  match nth_error (t_dlog t) h with
  | None => (t, [])                                                          (* no such Deferred *)
  | Some rid =>
      if is_fired t h then (t, [])                                           (* already called: nothing *)
      else
        match lookup rid (t_reqs t) with
        | None => (t, [ORaised 5])                                           (* self.requests[correlationId] KeyError *)
        | Some r =>
            let t1 := if r_sent r
                      then t_with_reqs t (upd rid set_cancelled (t_reqs t))  (* tombstone *)
                      else t_with_reqs t (del rid (t_reqs t)) in
            fire t1 h FailCancelled                                          (* if not self.called: errback(CancelledError) *)
        end
  end.

(* handleResponse, brokerclient.py:336-361 *)
Definition handle_response (t : tbl) (frame : list Z) : tbl * list output :=
  match corr_id frame with
  | None => (t, [ORaised 4])
  | Some cid =>
      match lookup cid (t_reqs t) with
      | None => (t, [])                                                      (* unexpected id: logged *)
      | Some r =>
          let t1 := t_with_reqs t (del cid (t_reqs t)) in                    (* pop *)
          if r_cancelled r then (t1, [])                                     (* late reply to a cancelled request: logged *)
          else fire t1 (r_h r) (Succ frame)
      end
  end.

Fixpoint deliver (t : tbl) (frames : list (list Z)) : tbl * list output :=
  match frames with
  | [] => (t, [])
  | f :: r => let (t1, o1) := handle_response t f in
              let (t2, o2) := deliver t1 r in (t2, o1 ++ o2)
  end.

(* KafkaProtocol.dataReceived(chunk) *)
Definition data_in (s : state) (chunk : list Z) : state * list output :=
  let (fs, e) := data_received ok4 (s_rxbuf s) chunk in
  let (t1, o1) := deliver (s_t s) fs in
  let s2 := with_rxbuf (with_t s t1) (rx_newbuf (s_rxbuf s) chunk e) in
  match e with
  | RxLimit _ => (s2, o1 ++ [OLose])                                         (* lengthLimitExceeded, _protocol.py:53-60 *)
  | RxFuel => (s2, o1 ++ [OErr 3 0])
  | _ => (s2, o1)
  end.

(* close(): fail the remaining requests, last inserted first (popitem(True)), brokerclient.py:298-301 *)
Fixpoint fail_all (t : tbl) (rs : list req) : tbl * list output :=
  match rs with
  | [] => (t, [])
  | r :: rest =>
      if r_cancelled r then fail_all t rest
      else let (t1, o1) := fire t (r_h r) FailClosed in
           let (t2, o2) := fail_all t1 rest in (t2, o1 ++ o2)
  end.

Definition step (s : state) (e : event) : state * list output :=
  match e with
  | EMake rid expect => make_request s rid expect
  | ECancel h => lift s (cancel (s_t s) h)
  | EConnOk =>                                                               (* cbConnect, 431-439 *)
      match s_connector s with
      | CAttempt =>
          let s1 := with_rxbuf (with_proto (with_connector (with_failures s 0) CNone) true) [] in
          match s_down s1 with
          | DNone => lift s1 (send_queued (s_t s1))
          | _ => (s1, [OLose])
          end
      | _ => (s, [])
      end
  | EConnFail =>                                                             (* ebConnect, 441-456 *)
      match s_connector s with
      | CAttempt =>
          match s_down s with
          | DNone =>
              let k := S (s_failures s) in
              (with_connector (with_failures s k) CTimer, [OSched k])
          | _ => fire_down (with_connector s CStale)                         (* return fail -> connectingFailed *)
          end
      | _ => (s, [])
      end
  | EFire =>                                                                 (* cbDelayed, 458-459 *)
      match s_connector s with
      | CTimer => try_connect s
      | _ => (s, [])
      end
  | ELost =>                                                                 (* _connectionLost, 308-334 *)
      if s_proto s then
        let rs := map (set_sent false) (filter (fun r => negb (r_cancelled r)) (t_reqs (s_t s))) in
        let s1 := with_t (with_rxbuf (with_proto s false) []) (t_with_reqs (s_t s) rs) in
        match s_down s1 with
        | DNone => match rs with [] => (s1, []) | _ => connect s1 end
        | _ => fire_down s1
        end
      else (s, [])
  | EData chunk => if s_proto s then data_in s chunk else (s, [])
  | EFrame body => if s_proto s then data_in s (encode_frame body) else (s, [])
  | EClose =>                                                                (* close, 260-302 *)
      match s_down s with
      | DNone =>
          let s0 := with_down s DPending in
          let '(s1, o1) :=
            if s_proto s0 then (s0, [OLose])                                 (* 270-271 *)
            else match s_connector s0 with
                 | CNone => fire_down s0                                     (* 287-289 *)
                 | CAttempt =>                                               (* 272-286: cancel -> ebConnect returns fail -> connectingFailed *)
                     let (s', o') := fire_down (with_connector s0 CStale) in (s', OCancelAttempt :: o')
                 | CTimer =>
                     let (s', o') := fire_down (with_connector s0 CStale) in (s', OCancelTimer :: o')
                 | CStale => (s0, [])
                 end in
          let (t2, o2) := fail_all (t_with_reqs (s_t s1) []) (rev (t_reqs (s_t s1))) in
          (with_t s1 t2, o1 ++ o2)
      | _ => (s, [ORaised 2])                                                (* assert self._dDown is None *)
      end
  | EDisconnect => if s_proto s then (s, [OLose]) else (s, [])               (* 248-258 *)
  | EUpdate same addr => if same then (with_addr s addr, []) else (s, [ORaised 3])   (* 148-165 *)
  end.

Fixpoint run (s : state) (evs : list event) : state * list output :=
  match evs with
  | [] => (s, [])
  | e :: r => let (s1, o1) := step s e in
              let (s2, o2) := run s1 r in (s2, o1 ++ o2)
  end.

(* ------------------------------------------------------------------------------------------------
   case line = concatenated events:
     1 rid expect | 2 h | 3 | 4 | 5 | 6 <lp chunk> | 7 <lp body> | 8 | 9 | 10 | 11 same addr
   trace = per event:  0, connected() as 0/1, then the outputs:
     1 addr | 2 h rid | 3 k | 4 | 5 | 6 | 7 h 1 <lp frame> | 7 h 2 | 7 h 3 | 7 h 4 | 8 | 9 kind | 10 kind h *)
Fixpoint parse_events (fuel : nat) (l : list Z) : option (list event) :=
  match fuel with
  | O => None
  | S f =>
      let k := fun ev r => match parse_events f r with Some es => Some (ev :: es) | None => None end in
      match l with
      | [] => Some []
      | 1 :: rid :: ex :: r => k (EMake rid (negb (ex =? 0))) r
      | 2 :: h :: r => if h <? 0 then None else k (ECancel (Z.to_nat h)) r
      | 3 :: r => k EConnOk r
      | 4 :: r => k EConnFail r
      | 5 :: r => k ELost r
      | 6 :: r => match take_lp r with Some (c, r2) => k (EData c) r2 | None => None end
      | 7 :: r => match take_lp r with Some (c, r2) => k (EFrame c) r2 | None => None end
      | 8 :: r => k EFire r
      | 9 :: r => k EClose r
      | 10 :: r => k EDisconnect r
      | 11 :: sm :: a :: r => k (EUpdate (negb (sm =? 0)) a) r
      | _ => None
      end
  end.

Definition enc_out (o : output) : list Z :=
  match o with
  | OConnect a => [1; a]
  | OWrite h rid => [2; Z.of_nat h; rid]
  | OSched k => [3; Z.of_nat k]
  | OCancelTimer => [4]
  | OCancelAttempt => [5]
  | OLose => [6]
  | ODef h (Succ f) => 7 :: Z.of_nat h :: 1 :: lpz f
  | ODef h SuccNone => [7; Z.of_nat h; 2]
  | ODef h FailCancelled => [7; Z.of_nat h; 3]
  | ODef h FailClosed => [7; Z.of_nat h; 4]
  | OCloseFired => [8]
  | ORaised k => [9; k]
  | OErr k h => [10; k; Z.of_nat h]
  end.

(* The Deferred of close() reaches the caller only when close() returns, so whether it fired is observable
   only at the end of that step: the canonical trace lists OCloseFired after the other outputs of its step. *)
Definition is_closefired (o : output) : bool := match o with OCloseFired => true | _ => false end.
Definition canon_outs (o : list output) : list output :=
  filter (fun x => negb (is_closefired x)) o ++ filter is_closefired o.

Fixpoint run_enc (s : state) (evs : list event) : list Z :=
  match evs with
  | [] => []
  | e :: r => let (s1, o1) := step s e in
              0 :: (if s_proto s1 then 1 else 0) :: flat_map enc_out (canon_outs o1) ++ run_enc s1 r
  end.

Definition run_case (c : list Z) : list Z :=
  match parse_events (S (length c)) c with
  | Some es => run_enc init es
  | None => [-99]
  end.
