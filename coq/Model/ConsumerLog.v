(* Specification vocabulary for C02 / C03 (definitions only): the honest-broker environment over a partition log,
   and MONITORS - small automata that read a run of Model/Consumer.v as the sequence of (event, outputs of the step)
   pairs, i.e. only what the harness also observes on the implementation (events it injects, calls and Deferred
   outcomes it records), and reject (None) when the property they restate is violated.
   The theorems of Props/C02.v and Props/C03.v say: for every configuration and every event list (consistent with an
   honest broker where the log matters) no monitor ever rejects the model's run.  harness/props/C02.py and C03.py
   run the same automata, re-written in Python, over the implementation's own trace. *)
From AV Require Import Base.Util Model.Consumer.

(* ---------- monitors ---------- *)
Section Mon.
Variable G : Type.
Variable gev : G -> event -> G.                (* what the monitor notes when the environment delivers an event *)
Variable gout : G -> output -> option G.       (* ... when the consumer produces an output; None = violation *)

Fixpoint gouts (g : G) (o : list output) : option G :=
  match o with
  | [] => Some g
  | x :: r => match gout g x with Some g' => gouts g' r | None => None end
  end.

(* the monitor over a run: list of (event, outputs of that step) *)
Fixpoint mon_run (g : G) (tr : list (event * list output)) : option G :=
  match tr with
  | [] => Some g
  | (e, o) :: r => match gouts (gev g e) o with Some g' => mon_run g' r | None => None end
  end.
End Mon.
Arguments gouts {G} gout g o.
Arguments mon_run {G} gev gout g tr.

Definition obs (tr : list tstep) : list (event * list output) :=
  map (fun t => match t with (_, e, o, _) => (e, o) end) tr.

(* the run of the model from its initial state, as the harness sees it *)
Definition model_obs (fuel : nat) (c : cfg) (maxatt buf : Z) (evs : list event) : list (event * list output) :=
  obs (run_steps fuel (init c maxatt buf) evs).
Definition run_fuel_ok (fuel : nat) (c : cfg) (maxatt buf : Z) (evs : list event) : bool :=
  forallb (fun t => match t with (_, _, o, _) => fuel_ok o end) (run_steps fuel (init c maxatt buf) evs).

(* ---------- monitor REQ: one fetch / offset request, one refetch timer, one commit request outstanding;
              last_committed_offset only ever holds what the broker acknowledged or reported ---------- *)
Record greq := mkQ {
  q_rk : option Z;            (* kind of the outstanding offset / fetch request (R_OFFREQ, R_OFFFETCH, R_FETCH) *)
  q_tm : bool;                (* a refetch DelayedCall is armed *)
  q_co : option (option Z);   (* outstanding OffsetCommitRequest: the offset it carries *)
  q_lc : option Z             (* last offset acknowledged by a commit reply / reported by an offset-fetch reply *)
}.
Definition q0 : greq := mkQ None false None None.

Definition req_ev (g : greq) (e : event) : greq :=
  match e with
  | EReqOk v =>
    match q_rk g with
    | Some k => if k =? R_OFFREQ then mkQ None (q_tm g) (q_co g) (q_lc g)
                else if k =? R_OFFFETCH then mkQ None (q_tm g) (q_co g) (if v =? -1 then None else Some v)
                else g                                     (* not an answer to a fetch request: the event is ignored *)
    | None => g
    end
  | EFetchOk _ _ =>
    match q_rk g with
    | Some k => if k =? R_FETCH then mkQ None (q_tm g) (q_co g) (q_lc g) else g
    | None => g
    end
  | EReqFail _ => mkQ None (q_tm g) (q_co g) (q_lc g)
  | EFireRetry => mkQ (q_rk g) false (q_co g) (q_lc g)
  | ECommitOk => match q_co g with Some off => mkQ (q_rk g) (q_tm g) None off | None => g end
  | ECommitFail _ => mkQ (q_rk g) (q_tm g) None (q_lc g)
  | _ => g
  end.

Definition req_send (g : greq) (k : Z) : option greq :=
  match q_rk g with
  | None => Some (mkQ (Some k) (q_tm g) (q_co g) (q_lc g))
  | Some _ => None                                         (* VIOLATION: a second request while one is outstanding *)
  end.

Definition req_out (g : greq) (o : output) : option greq :=
  match o with
  | OOffReq _ => req_send g R_OFFREQ
  | OOffFetch => req_send g R_OFFFETCH
  | OFetch _ _ => req_send g R_FETCH
  | OCancelReq k => if k =? R_COMMIT then Some (mkQ (q_rk g) (q_tm g) None (q_lc g))
                    else Some (mkQ None (q_tm g) (q_co g) (q_lc g))
  | OSched k _ => if k =? T_RETRY then
                    (if q_tm g then None                   (* VIOLATION: a second refetch timer *)
                     else Some (mkQ (q_rk g) true (q_co g) (q_lc g)))
                  else Some g
  | OCancelTimer k => if k =? T_RETRY then Some (mkQ (q_rk g) false (q_co g) (q_lc g)) else Some g
  | OCommit off _ => match q_co g with
                     | None => Some (mkQ (q_rk g) (q_tm g) (Some off) (q_lc g))
                     | Some _ => None                      (* VIOLATION: a second commit request in flight *)
                     end
  | OEnd _ lc => if oz_eqb lc (q_lc g) then Some g
                 else None                                 (* VIOLATION: last_committed_offset not acknowledged / reported *)
  | _ => Some g
  end.

(* what REQ knows is a function of the model state *)
Definition req_abs (s : state) : greq :=
  mkQ (match s_req s with Some (k, false) => Some k | _ => None end)
      (rcall_active s)
      (match s_creq s with Some (off, _, _) => Some off | None => None end)
      (s_lc s).

(* ---------- the honest broker over a partition log ---------- *)
(* a partition log, as far as the consumer model sees it: the offsets of its entries, strictly increasing, gaps allowed
   (compaction).  Keys and values travel with the offsets (SourcedMessage built from the decoded message as is,
   consumer.py:948-956) and are compared on the implementation side against the simulated broker's log. *)
Fixpoint increasing (l : list Z) : Prop :=
  match l with
  | [] => True
  | x :: r => match r with [] => True | y :: _ => x < y end /\ increasing r
  end.
Fixpoint increasingb (l : list Z) : bool :=
  match l with
  | [] => true
  | x :: r => match r with [] => true | y :: _ => x <? y end && increasingb r
  end.

(* the entries of the log with  lo <= offset < hi *)
Definition seg (lo hi : Z) (log : list Z) : list Z := filter (fun x => (lo <=? x) && (x <? hi)) log.
Definition from (lo : Z) (log : list Z) : list Z := filter (fun x => lo <=? x) log.

(* an honest reply to fetch(off, max_bytes): a contiguous run of the log that starts at or before the first entry
   >= off (a compressed wrapper is returned whole, so entries below off may precede), cut anywhere by max_bytes *)
Definition honest (log : list Z) (off : Z) (offs : list Z) : Prop :=
  exists pre post, log = pre ++ offs ++ post /\ Forall (fun x => x < off) pre.
Fixpoint is_prefix (a b : list Z) : bool :=
  match a, b with
  | [], _ => true
  | x :: a', y :: b' => (x =? y) && is_prefix a' b'
  | _ :: _, [] => false
  end.
Definition honestb (log : list Z) (off : Z) (offs : list Z) : bool :=
  match offs with
  | [] => true
  | h :: _ => forallb (fun x => x <? off) (filter (fun x => x <? h) log) && is_prefix offs (filter (fun x => h <=? x) log)
  end.

(* ---------- monitor PW: the processor-call window ----------
   Reconstructs from what the harness observes - the plan oracle (EPlan), processor invocations (OCallProc), the
   return of an API call made from inside the processor (ORet / ORaised), cancellations (OCancelProc) and the firing
   of the Deferred a processor returned (EProcFire) - whether a processor result is pending and which offset was last
   processed SUCCESSFULLY.  It rejects: a processor invocation while the previous one has not returned or its result
   is pending (C02 no_overlap); an empty block; a commit request whose offset is not the last successfully processed
   one (C03 commit_le_processed, first half); an end-of-step last_processed_offset that differs from it. *)
Inductive pst := PIdle | PApi (l r : Z) | PPend (l : Z).      (* l = offset of the last message of the block *)
Record gpw := mkPW { w_st : pst; w_plan : list (Z * Z); w_lp : option Z }.
Definition pw0 : gpw := mkPW PIdle [] None.

(* the processor call with result code r returned: 0 success, 2 a pending Deferred, anything else a failure *)
Definition pw_finish (g : gpw) (l r : Z) : gpw :=
  if r =? 2 then mkPW (PPend l) (w_plan g) (w_lp g)
  else if r =? 0 then mkPW PIdle (w_plan g) (Some l)
  else mkPW PIdle (w_plan g) (w_lp g).

Definition pw_ev (g : gpw) (e : event) : gpw :=
  match e with
  | EPlan i r => mkPW (w_st g) (w_plan g ++ [(i, r)]) (w_lp g)
  | EProcFire ok => match w_st g with
                    | PPend l => mkPW PIdle (w_plan g) (if ok then Some l else w_lp g)
                    | _ => g
                    end
  | _ => g
  end.

Definition pw_out (g : gpw) (o : output) : option gpw :=
  match o with
  | OCallProc blk =>
    match w_st g, blk with
    | PIdle, m0 :: _ =>
      let p := match w_plan g with [] => (0, 2) | p :: _ => p end in
      let g1 := mkPW PIdle (match w_plan g with [] => [] | _ :: r => r end) (w_lp g) in
      let l := List.last blk m0 in
      if (fst p =? 1) || (fst p =? 2) || (fst p =? 3)
      then Some (mkPW (PApi l (snd p)) (w_plan g1) (w_lp g1))        (* it calls stop() / commit() / shutdown() first *)
      else Some (pw_finish g1 l (snd p))
    | _, _ => None                       (* VIOLATION: invoked while not idle / with no messages *)
    end
  | ORet _ | ORaised _ => match w_st g with PApi l r => Some (pw_finish g l r) | _ => Some g end
  | OCancelProc => match w_st g with
                   | PPend _ => Some (mkPW PIdle (w_plan g) (w_lp g))
                   | _ => None             (* VIOLATION: nothing pending to cancel *)
                   end
  | OCommit off _ => if oz_eqb off (w_lp g) then Some g else None      (* VIOLATION: commit ahead of / behind processing *)
  | OEnd lp _ => if oz_eqb lp (w_lp g) then Some g else None
  | _ => Some g
  end.

(* outside a processor call PW's state is a function of the model state; m = Some (l, r): inside the call window *)
Definition pw_abs (m : option (Z * Z)) (s : state) : gpw :=
  mkPW (match m with
        | Some (l, r) => PApi l r
        | None => match s_proc s with Some (l, _, _) => PPend l | None => PIdle end
        end) (s_plan s) (s_lp s).
(* stopping, stopped, or the start Deferred has fired: no block is handed to the processor in such a state *)
Definition dead (s : state) : bool := s_stopping s || negb (startd_unfired s).
