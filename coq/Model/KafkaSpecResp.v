(* S-Kafka, response side: an INDEPENDENT encoder of Kafka responses and message sets, written from the grammar of
   the Kafka protocol guide (https://kafka.apache.org/protocol) for exactly the API versions afkak speaks.
   It models NO afkak code and imports nothing of the afkak models (only the shared list vocabulary and the
   CRC-32 function, which is a model of zlib/IEEE 802.3, not of afkak).  The same grammar is transcribed in Python
   in harness/kafkaspec_resp.py; the two transcriptions are compared byte for byte on every run of the C05 check.

   Protocol primitive types (protocol guide, "Protocol Primitive Types"):
     INT8/INT16/INT32/INT64   big-endian two's complement
     STRING                   INT16 length N, then N bytes (UTF-8).  Length must not be negative.
     NULLABLE_STRING          as STRING; null is encoded as length -1
     BYTES                    INT32 length N, then N bytes
     NULLABLE_BYTES           as BYTES; null is encoded as length -1
     RECORDS                  NULLABLE_BYTES holding a message set
     ARRAY(T)                 INT32 count N, then N times T        (a null array, -1, is not used by these versions)
   Response => ResponseHeader body,  ResponseHeader(v0) => correlation_id:INT32

   Strings are carried as their UTF-8 bytes ([list Z], every element 0..255). *)
From AV Require Import Base.Util Model.Crc.

(* ------------------------------------------------------------------ primitive types *)
(* byte k (0 = least significant) of the two's-complement representation of v; / and mod are floored *)
Definition byte_at (v k : Z) : Z := (v / 2 ^ (8 * k)) mod 256.

Definition INT8 (v : Z) : list Z := [byte_at v 0].
Definition INT16 (v : Z) : list Z := [byte_at v 1; byte_at v 0].
Definition INT32 (v : Z) : list Z := [byte_at v 3; byte_at v 2; byte_at v 1; byte_at v 0].
Definition INT64 (v : Z) : list Z :=
  [byte_at v 7; byte_at v 6; byte_at v 5; byte_at v 4; byte_at v 3; byte_at v 2; byte_at v 1; byte_at v 0].

Definition blen {A} (b : list A) : Z := Z.of_nat (length b).

Definition STRING (s : list Z) : list Z := INT16 (blen s) ++ s.
Definition NULLABLE_STRING (s : option (list Z)) : list Z :=
  match s with None => INT16 (-1) | Some b => STRING b end.
Definition BYTES (b : list Z) : list Z := INT32 (blen b) ++ b.
Definition NULLABLE_BYTES (b : option (list Z)) : list Z :=
  match b with None => INT32 (-1) | Some x => BYTES x end.
Definition ARRAY {A} (elem : A -> list Z) (xs : list A) : list Z := INT32 (blen xs) ++ flat_map elem xs.

(* ------------------------------------------------------------------ Produce (api key 0)
   Produce Response (Version: 0) => [responses]
     responses => name [partition_responses]
       name => STRING
       partition_responses => index error_code base_offset
         index => INT32   error_code => INT16   base_offset => INT64
   Produce Response (Version: 1) => [responses] throttle_time_ms
     throttle_time_ms => INT32
   Produce Response (Version: 2) => [responses] throttle_time_ms
       partition_responses => index error_code base_offset log_append_time_ms
         log_append_time_ms => INT64 *)
Record s_produce_part := mk_s_produce_part
  { spp_index : Z; spp_error : Z; spp_base_offset : Z; spp_log_append_time : Z }.
Record s_produce_topic := mk_s_produce_topic { spt_name : list Z; spt_parts : list s_produce_part }.
Record s_produce := mk_s_produce { sp_corr : Z; sp_topics : list s_produce_topic; sp_throttle : Z }.

Definition enc_produce_part (ver : Z) (p : s_produce_part) : list Z :=
  INT32 (spp_index p) ++ INT16 (spp_error p) ++ INT64 (spp_base_offset p)
  ++ (if (2 <=? ver) then INT64 (spp_log_append_time p) else []).
Definition enc_produce_topic (ver : Z) (t : s_produce_topic) : list Z :=
  STRING (spt_name t) ++ ARRAY (enc_produce_part ver) (spt_parts t).
Definition enc_produce (ver : Z) (r : s_produce) : list Z :=
  INT32 (sp_corr r) ++ ARRAY (enc_produce_topic ver) (sp_topics r)
  ++ (if (1 <=? ver) then INT32 (sp_throttle r) else []).

(* ------------------------------------------------------------------ Fetch (api key 1)
   Fetch Response (Version: 0) => [responses]
     responses => topic [partitions]
       topic => STRING
       partitions => partition_index error_code high_watermark records
         partition_index => INT32  error_code => INT16  high_watermark => INT64  records => RECORDS
   Fetch Response (Version: 1, 2) => throttle_time_ms [responses]
     throttle_time_ms => INT32 *)
Record s_fetch_part := mk_s_fetch_part
  { sfp_index : Z; sfp_error : Z; sfp_hwm : Z; sfp_records : option (list Z) }.
Record s_fetch_topic := mk_s_fetch_topic { sft_name : list Z; sft_parts : list s_fetch_part }.
Record s_fetch := mk_s_fetch { sf_corr : Z; sf_throttle : Z; sf_topics : list s_fetch_topic }.

Definition enc_fetch_part (p : s_fetch_part) : list Z :=
  INT32 (sfp_index p) ++ INT16 (sfp_error p) ++ INT64 (sfp_hwm p) ++ NULLABLE_BYTES (sfp_records p).
Definition enc_fetch_topic (t : s_fetch_topic) : list Z :=
  STRING (sft_name t) ++ ARRAY enc_fetch_part (sft_parts t).
Definition enc_fetch (ver : Z) (r : s_fetch) : list Z :=
  INT32 (sf_corr r) ++ (if (1 <=? ver) then INT32 (sf_throttle r) else [])
  ++ ARRAY enc_fetch_topic (sf_topics r).

(* ------------------------------------------------------------------ ListOffsets (api key 2)
   ListOffsets Response (Version: 0) => [topics]
     topics => name [partitions]
       partitions => partition_index error_code [old_style_offsets]
         partition_index => INT32  error_code => INT16  old_style_offsets => INT64 *)
Record s_offsets_part := mk_s_offsets_part { sop_index : Z; sop_error : Z; sop_offsets : list Z }.
Record s_offsets_topic := mk_s_offsets_topic { sot_name : list Z; sot_parts : list s_offsets_part }.
Record s_offsets := mk_s_offsets { so_corr : Z; so_topics : list s_offsets_topic }.

Definition enc_offsets_part (p : s_offsets_part) : list Z :=
  INT32 (sop_index p) ++ INT16 (sop_error p) ++ ARRAY INT64 (sop_offsets p).
Definition enc_offsets_topic (t : s_offsets_topic) : list Z :=
  STRING (sot_name t) ++ ARRAY enc_offsets_part (sot_parts t).
Definition enc_offsets (r : s_offsets) : list Z :=
  INT32 (so_corr r) ++ ARRAY enc_offsets_topic (so_topics r).

(* ------------------------------------------------------------------ Metadata (api key 3)
   Metadata Response (Version: 0) => [brokers] [topics]
     brokers => node_id host port
       node_id => INT32  host => STRING  port => INT32
     topics => error_code name [partitions]
       error_code => INT16  name => STRING
       partitions => error_code partition_index leader_id [replica_nodes] [isr_nodes]
         error_code => INT16  partition_index => INT32  leader_id => INT32
         replica_nodes => INT32  isr_nodes => INT32 *)
Record s_broker := mk_s_broker { sb_node : Z; sb_host : list Z; sb_port : Z }.
Record s_meta_part := mk_s_meta_part
  { smp_error : Z; smp_index : Z; smp_leader : Z; smp_replicas : list Z; smp_isr : list Z }.
Record s_meta_topic := mk_s_meta_topic { smt_error : Z; smt_name : list Z; smt_parts : list s_meta_part }.
Record s_metadata := mk_s_metadata { sm_corr : Z; sm_brokers : list s_broker; sm_topics : list s_meta_topic }.

Definition enc_broker (b : s_broker) : list Z := INT32 (sb_node b) ++ STRING (sb_host b) ++ INT32 (sb_port b).
Definition enc_meta_part (p : s_meta_part) : list Z :=
  INT16 (smp_error p) ++ INT32 (smp_index p) ++ INT32 (smp_leader p)
  ++ ARRAY INT32 (smp_replicas p) ++ ARRAY INT32 (smp_isr p).
Definition enc_meta_topic (t : s_meta_topic) : list Z :=
  INT16 (smt_error t) ++ STRING (smt_name t) ++ ARRAY enc_meta_part (smt_parts t).
Definition enc_metadata (r : s_metadata) : list Z :=
  INT32 (sm_corr r) ++ ARRAY enc_broker (sm_brokers r) ++ ARRAY enc_meta_topic (sm_topics r).

(* ------------------------------------------------------------------ OffsetCommit (api key 8)
   OffsetCommit Response (Version: 0, 1, 2) => [topics]
     topics => name [partitions]
       partitions => partition_index error_code
         partition_index => INT32  error_code => INT16 *)
Record s_commit_part := mk_s_commit_part { scp_index : Z; scp_error : Z }.
Record s_commit_topic := mk_s_commit_topic { sct_name : list Z; sct_parts : list s_commit_part }.
Record s_commit := mk_s_commit { sc_corr : Z; sc_topics : list s_commit_topic }.

Definition enc_commit_part (p : s_commit_part) : list Z := INT32 (scp_index p) ++ INT16 (scp_error p).
Definition enc_commit_topic (t : s_commit_topic) : list Z :=
  STRING (sct_name t) ++ ARRAY enc_commit_part (sct_parts t).
Definition enc_commit (r : s_commit) : list Z := INT32 (sc_corr r) ++ ARRAY enc_commit_topic (sc_topics r).

(* ------------------------------------------------------------------ OffsetFetch (api key 9)
   OffsetFetch Response (Version: 0, 1) => [topics]
     topics => name [partitions]
       partitions => partition_index committed_offset metadata error_code
         partition_index => INT32  committed_offset => INT64  metadata => NULLABLE_STRING  error_code => INT16 *)
Record s_ofetch_part := mk_s_ofetch_part
  { sgp_index : Z; sgp_offset : Z; sgp_metadata : option (list Z); sgp_error : Z }.
Record s_ofetch_topic := mk_s_ofetch_topic { sgt_name : list Z; sgt_parts : list s_ofetch_part }.
Record s_ofetch := mk_s_ofetch { sg_corr : Z; sg_topics : list s_ofetch_topic }.

Definition enc_ofetch_part (p : s_ofetch_part) : list Z :=
  INT32 (sgp_index p) ++ INT64 (sgp_offset p) ++ NULLABLE_STRING (sgp_metadata p) ++ INT16 (sgp_error p).
Definition enc_ofetch_topic (t : s_ofetch_topic) : list Z :=
  STRING (sgt_name t) ++ ARRAY enc_ofetch_part (sgt_parts t).
Definition enc_ofetch (r : s_ofetch) : list Z := INT32 (sg_corr r) ++ ARRAY enc_ofetch_topic (sg_topics r).

(* ------------------------------------------------------------------ FindCoordinator (api key 10)
   FindCoordinator Response (Version: 0) => error_code node_id host port
     error_code => INT16  node_id => INT32  host => STRING  port => INT32 *)
Record s_coordinator := mk_s_coordinator
  { sk_corr : Z; sk_error : Z; sk_node : Z; sk_host : list Z; sk_port : Z }.
Definition enc_coordinator (r : s_coordinator) : list Z :=
  INT32 (sk_corr r) ++ INT16 (sk_error r) ++ INT32 (sk_node r) ++ STRING (sk_host r) ++ INT32 (sk_port r).

(* ------------------------------------------------------------------ JoinGroup (api key 11)
   JoinGroup Response (Version: 0) => error_code generation_id protocol_name leader member_id [members]
     error_code => INT16  generation_id => INT32  protocol_name => STRING  leader => STRING  member_id => STRING
     members => member_id metadata
       member_id => STRING  metadata => BYTES *)
Record s_member := mk_s_member { smb_id : list Z; smb_metadata : list Z }.
Record s_join := mk_s_join
  { sj_corr : Z; sj_error : Z; sj_generation : Z; sj_protocol : list Z; sj_leader : list Z;
    sj_member : list Z; sj_members : list s_member }.
Definition enc_member (m : s_member) : list Z := STRING (smb_id m) ++ BYTES (smb_metadata m).
Definition enc_join (r : s_join) : list Z :=
  INT32 (sj_corr r) ++ INT16 (sj_error r) ++ INT32 (sj_generation r) ++ STRING (sj_protocol r)
  ++ STRING (sj_leader r) ++ STRING (sj_member r) ++ ARRAY enc_member (sj_members r).

(* ------------------------------------------------------------------ Heartbeat (12), LeaveGroup (13), SyncGroup (14)
   Heartbeat Response (Version: 0) => error_code          error_code => INT16
   LeaveGroup Response (Version: 0) => error_code         error_code => INT16
   SyncGroup Response (Version: 0) => error_code assignment
     error_code => INT16  assignment => BYTES *)
Record s_errcode := mk_s_errcode { se_corr : Z; se_error : Z }.
Definition enc_errcode (r : s_errcode) : list Z := INT32 (se_corr r) ++ INT16 (se_error r).
Definition enc_heartbeat := enc_errcode.
Definition enc_leave := enc_errcode.

Record s_sync := mk_s_sync { ss_corr : Z; ss_error : Z; ss_assignment : list Z }.
Definition enc_sync (r : s_sync) : list Z := INT32 (ss_corr r) ++ INT16 (ss_error r) ++ BYTES (ss_assignment r).

(* ------------------------------------------------------------------ ApiVersions (api key 18)
   ApiVersions Response (Version: 0) => error_code [api_keys]
     error_code => INT16
     api_keys => api_key min_version max_version
       api_key => INT16  min_version => INT16  max_version => INT16 *)
Record s_apikey := mk_s_apikey { sa_key : Z; sa_min : Z; sa_max : Z }.
Record s_apiversions := mk_s_apiversions { sv_corr : Z; sv_error : Z; sv_keys : list s_apikey }.
Definition enc_apikey (k : s_apikey) : list Z := INT16 (sa_key k) ++ INT16 (sa_min k) ++ INT16 (sa_max k).
Definition enc_apiversions (r : s_apiversions) : list Z :=
  INT32 (sv_corr r) ++ INT16 (sv_error r) ++ ARRAY enc_apikey (sv_keys r).

(* ------------------------------------------------------------------ consumer embedded protocol (inside JoinGroup
   member metadata and SyncGroup assignment; "ConsumerProtocolSubscription" / "ConsumerProtocolAssignment" v0)
   Subscription => version [topics] user_data
     version => INT16  topics => STRING  user_data => NULLABLE_BYTES
   Assignment => version [assigned_partitions] user_data
     assigned_partitions => topic [partitions]
       topic => STRING  partitions => INT32
     user_data => NULLABLE_BYTES *)
Record s_subscription := mk_s_subscription
  { sub_version : Z; sub_topics : list (list Z); sub_user_data : option (list Z) }.
Definition enc_subscription (r : s_subscription) : list Z :=
  INT16 (sub_version r) ++ ARRAY STRING (sub_topics r) ++ NULLABLE_BYTES (sub_user_data r).

Record s_assigned := mk_s_assigned { sas_topic : list Z; sas_partitions : list Z }.
Record s_assignment := mk_s_assignment
  { asg_version : Z; asg_topics : list s_assigned; asg_user_data : option (list Z) }.
Definition enc_assigned (a : s_assigned) : list Z := STRING (sas_topic a) ++ ARRAY INT32 (sas_partitions a).
Definition enc_assignment (r : s_assignment) : list Z :=
  INT16 (asg_version r) ++ ARRAY enc_assigned (asg_topics r) ++ NULLABLE_BYTES (asg_user_data r).

(* ------------------------------------------------------------------ message sets, message formats 0 and 1
   (protocol guide / "Messagesets" of the 0.10 documentation)
     MessageSet => [Offset MessageSize Message]        NOT preceded by an INT32 count
       Offset => INT64   MessageSize => INT32
     Message(v0) => Crc MagicByte Attributes Key Value
     Message(v1) => Crc MagicByte Attributes Timestamp Key Value
       Crc => INT32 (CRC-32 of everything after the Crc field)   MagicByte => INT8   Attributes => INT8
       Timestamp => INT64   Key => NULLABLE_BYTES   Value => NULLABLE_BYTES
     Attributes bits 0..2: compression codec (0 none, 1 gzip, 2 snappy, 3 lz4); bit 3 timestamp type (v1).
   Compression: the producer/broker encodes a message set, compresses it and stores it as the Value of a single
   "wrapper" message whose codec bits name the compression.
   Offsets inside a wrapper:
     magic 0   the inner messages carry their absolute log offsets;
     magic 1   (KIP-31) the inner messages carry relative offsets; the wrapper carries the absolute offset of the
               LAST inner message:  absolute(inner) = wrapper_offset - last_inner_offset + inner_offset.
               A broker writes inner offsets 0..n-1, so a wrapper at W holds W-n+1 .. W. *)
Record kmsg := mk_kmsg
  { k_magic : Z; k_attr : Z; k_ts : Z (* used by magic 1 only *); k_key : option (list Z); k_value : option (list Z) }.

Definition enc_kmsg_body (m : kmsg) : list Z :=
  INT8 (k_magic m) ++ INT8 (k_attr m) ++ (if (k_magic m =? 1) then INT64 (k_ts m) else [])
  ++ NULLABLE_BYTES (k_key m) ++ NULLABLE_BYTES (k_value m).
Definition enc_kmsg (m : kmsg) : list Z := INT32 (crc32 (enc_kmsg_body m)) ++ enc_kmsg_body m.
Definition enc_entry (offset : Z) (msg : list Z) : list Z := INT64 offset ++ INT32 (blen msg) ++ msg.
Definition enc_kset (l : list (Z * kmsg)) : list Z :=
  flat_map (fun om => enc_entry (fst om) (enc_kmsg (snd om))) l.

(* a stored message set as a tree: plain messages and compressed wrappers, nested to any depth.
   [gz] is the compression function (gzip); nothing is assumed about it here. *)
Inductive ktree : Type :=
| KLeaf (offset : Z) (m : kmsg)
| KWrap (offset magic attr ts : Z) (key : option (list Z)) (kids : list ktree).

Fixpoint enc_ktree (gz : list Z -> list Z) (t : ktree) : list Z :=
  match t with
  | KLeaf off m => enc_entry off (enc_kmsg m)
  | KWrap off magic attr ts key kids =>
      enc_entry off (enc_kmsg (mk_kmsg magic attr ts key (Some (gz (flat_map (enc_ktree gz) kids)))))
  end.
Definition enc_kforest (gz : list Z -> list Z) (ts : list ktree) : list Z := flat_map (enc_ktree gz) ts.

(* what a consumer must see: (absolute offset, message) in log order, by the offset rules above *)
Definition last_off {A} (l : list (Z * A)) : option Z :=
  match rev l with [] => None | (o, _) :: _ => Some o end.
Definition relocate {A} (wrapper_offset : Z) (inner : list (Z * A)) : list (Z * A) :=
  match last_off inner with
  | None => []
  | Some lo => map (fun om => (wrapper_offset - lo + fst om, snd om)) inner
  end.
Fixpoint log_of (t : ktree) : list (Z * kmsg) :=
  match t with
  | KLeaf off m => [(off, m)]
  | KWrap off magic _ _ _ kids =>
      let inner := flat_map log_of kids in
      if (magic =? 0) then inner else relocate off inner
  end.
Definition log_of_forest (ts : list ktree) : list (Z * kmsg) := flat_map log_of ts.

Fixpoint kdepth (t : ktree) : nat :=
  match t with
  | KLeaf _ _ => O
  | KWrap _ _ _ _ _ kids => S (fold_right Nat.max O (map kdepth kids))
  end.
Definition kdepth_forest (ts : list ktree) : nat := fold_right Nat.max O (map kdepth ts).

(* ------------------------------------------------------------------ KIP-31 from the broker's side (the DEFINITION of
   the format-1 offsets, not a formula for recovering them).
   The log assigns the messages of a batch their absolute offsets a_0 < a_1 < ... < a_k.  When the batch is stored
   compressed in format 1, every inner message carries its offset RELATIVE to a base (the offset the first message of
   the batch had when it was written: r_i = a_i - base, so a fresh batch has r = 0,1,..,k; after log compaction some
   inner messages are gone and the survivors keep their r_i: gaps, possibly r_0 > 0), and the wrapper carries the
   ABSOLUTE offset of the LAST inner message, a_k.  A consumer must report the messages at a_0 .. a_k.
   [abs] = the (absolute offset, message) pairs of the batch as the log knows them: this is what must come back. *)
Definition broker_batch_v1 (base attr ts : Z) (key : option (list Z)) (abs : list (Z * kmsg)) : ktree :=
  KWrap (match last_off abs with Some a => a | None => 0 end) 1 attr ts key
        (map (fun am => KLeaf (fst am - base) (snd am)) abs).
(* format 0: inner messages carry their absolute offsets, the wrapper carries the last one *)
Definition broker_batch_v0 (attr ts : Z) (key : option (list Z)) (abs : list (Z * kmsg)) : ktree :=
  KWrap (match last_off abs with Some a => a | None => 0 end) 0 attr ts key
        (map (fun am => KLeaf (fst am) (snd am)) abs).

(* Attributes bit 3 of a format-1 message is its timestamp type (0 CreateTime, 1 LogAppendTime); format 0 has none *)
Definition k_tstype (m : kmsg) : Z := if (k_magic m =? 1) then (k_attr m / 8) mod 2 else 0.
