(* M8a: request routing of afkak/client.py KafkaClient (C07).  Definitions only.
     _send_broker_aware_request 1240-1371, _get_leader_for_partition 996-1015,
     _get_coordinator_for_group 1017-1029, _send_request_to_coordinator 1373-1403,
     _send_broker_unaware_request 1109-1164, _send_bootstrap_request 1176-1238,
     load_metadata_for_topics 468-527, load_coordinator_for_group 586-650, _normalize_hosts 1406-1454.

   The environment is a SCRIPT: for every broker-agnostic request the order random.shuffle produced (read
   back from the implementation) and the outcome of each successive try; for every per-broker request
   whether the broker answered (with which decoded responses) or the request failed.  "For all schedules
   and fault sequences" is "for all scripts".  The order in which brokers answer is not part of the script:
   the code waits on a DeferredList (1344) whose result is in request order whatever the answer order; the
   driver varies the answer order to validate exactly that.

   Outside this model: two client operations overlapping in time (each operation here runs to completion,
   with its metadata loads nested inside it), close() while per-broker requests are in flight (C20),
   request time-outs as such (C11: here a time-out is one way of "the request failed"), reconnect loops of a
   broker client whose connection attempt was refused (C10; the driver winds them up). *)
From AV Require Import Base.Util Model.ClientMeta.

Record payload := { p_topic : Z; p_part : Z; p_tag : Z }.
Definition p_key (p : payload) : tpk := (p_topic p, p_part p).

(* ---- grouping: client.py:1282, 1305 ------------------------------------------------------------ *)
(* payloads_by_broker = collections.defaultdict(list); payloads_by_broker[leader.node_id].append(payload) *)
Fixpoint dappend (n : Z) (p : payload) (d : list (Z * list payload)) : list (Z * list payload) :=
  match d with
  | [] => [(n, [p])]
  | e :: r => if n =? fst e then (fst e, snd e ++ [p]) :: r else e :: dappend n p r
  end.
Definition group_by_node (resolved : list (payload * Z)) : list (Z * list payload) :=
  fold_left (fun d pn => dappend (snd pn) (fst pn) d) resolved [].

(* ---- collecting the per-broker results: client.py:1344-1357 ------------------------------------- *)
Inductive outcome := OFail | OOk (rs : list resp).

Fixpoint collect (expect : bool) (reqs : list (list payload)) (outs : list outcome)
         (acc : list (tpk * resp)) (failed : list payload) : list (tpk * resp) * list payload :=
  match reqs, outs with
  | ps :: reqs', o :: outs' =>
      match o with
      | OFail => collect expect reqs' outs' acc (failed ++ ps)                              (* 1347-1352 *)
      | OOk rs =>
          if expect
          then collect expect reqs' outs' (fold_left (fun a r => dset tp_eqb (r_key r) r a) rs acc) failed  (* 1356-1357 *)
          else collect expect reqs' outs' acc failed                                        (* 1353-1354 *)
      end
  | _, _ => (acc, failed)
  end.

(* 1366: [acc[k] for k in original_keys if k in acc] *)
Definition reorder (keys : list tpk) (acc : list (tpk * resp)) : list resp :=
  flat_map (fun k => match dget tp_eqb k acc with Some r => [r] | None => [] end) keys.

(* ---- broker-agnostic requests: client.py:1109-1238 ---------------------------------------------- *)
Inductive kout := KFail | KResp | KClose.
  (* a try on a known broker: the request failed with a KafkaError (silent broker: time-out) /
     the broker answered / close() was called meanwhile *)
Inductive bout := BConnFail | BReqFail | BResp | BCloseConn | BCloseReq.
  (* a try on a bootstrap host: connect failed / request failed or timed out / answered /
     close() while connecting / close() while the request was pending *)
Inductive target := TKnown (n : Z) (a : addr) | TBoot (a : addr).
Inductive tout := OK_ (k : kout) | OB_ (b : bout).
Inductive ures := UOk | UClientError | UCancelled | UUnavailable | UKeyError | UScript.
Definition ulog := list (target * tout).

Record uscript := { u_shuf : list Z; u_kouts : list kout; u_bshuf : list addr; u_bouts : list bout }.

(* 1143: node_ids.sort(reverse=True, key=connected) - stable, connected (True) first *)
Fixpoint cinsert (key : Z -> bool) (x : Z) (l : list Z) : list Z :=
  match l with
  | [] => [x]
  | y :: r => if implb (key y) (key x) then x :: l else y :: cinsert key x r
  end.
Definition csort (key : Z -> bool) (l : list Z) : list Z := fold_right (cinsert key) [] l.

(* boolean permutation test (the shuffled list must be a permutation of what was shuffled) *)
Section PermB.
  Context {A : Type} (eqb : A -> A -> bool).
  Fixpoint remove1 (x : A) (l : list A) : option (list A) :=
    match l with
    | [] => None
    | y :: r => if eqb x y then Some r
                else match remove1 x r with Some r' => Some (y :: r') | None => None end
    end.
  Fixpoint perm_b (a b : list A) : bool :=
    match a with
    | [] => is_nil b
    | x :: r => match remove1 x b with Some b' => perm_b r b' | None => false end
    end.
End PermB.

(* 1145-1159 *)
Fixpoint known_loop (st : state) (order : list Z) (outs : list kout) (log : ulog)
  : state * ulog * option ures :=
  match order with
  | [] => (st, log, None)
  | n :: rest =>
      if s_closed st then (st, log, Some UClientError)            (* 1146 -> 912-913, outside the try *)
      else match outs with
           | [] => (st, log, Some UScript)
           | o :: outs' =>
               match request_on st n with                         (* 1146, 1149 *)
               | None => (st, log, Some UKeyError)
               | Some (st1, a) =>
                   let log' := log ++ [(TKnown n a, OK_ o)] in
                   match o with
                   | KResp => (st1, log', Some UOk)                              (* 1150-1151 *)
                   | KFail => known_loop st1 rest outs' log'                     (* 1152-1159 *)
                   | KClose => known_loop (close_early st1) rest outs' log'
                       (* close(): the pending request fails with ClientError, a KafkaError: caught; the cache is
                          reset only after the operation has run to its end (ClientMeta.close_finish) *)
                   end
               end
           end
  end.

(* 1205-1238 *)
Fixpoint boot_loop (st : state) (hosts : list addr) (outs : list bout) (log : ulog)
  : state * ulog * ures :=
  match hosts with
  | [] => (st, log, if s_closed st then UCancelled else UUnavailable)   (* 1236-1238 *)
  | h :: rest =>
      if s_closed st then (st, log, UCancelled)                         (* 1208-1210 *)
      else match outs with
           | [] => (st, log, UScript)
           | o :: outs' =>
               let log' := log ++ [(TBoot h, OB_ o)] in
               match o with
               | BResp => (st, log', UOk)                                (* 1231-1232 *)
               | BConnFail | BReqFail => boot_loop st rest outs' log'    (* 1214-1216, 1222-1230 *)
               | BCloseConn | BCloseReq => boot_loop (close_early st) rest outs' log'
                   (* close() cancels the Deferred registered by _cancel_on_close: except Exception *)
               end
           end
  end.

Definition fallback_order (st : state) (shuf : list Z) : list Z := csort (connected st) shuf.

(* 1109-1164 *)
Definition unaware (st : state) (u : uscript) : state * ulog * ures :=
  if s_closed st then (st, [], UClientError)                                        (* 1129-1130 *)
  else if negb (perm_b Z.eqb (u_shuf u) (map fst (s_brokers st))) then (st, [], UScript)   (* 1132-1134 *)
  else match known_loop st (fallback_order st (u_shuf u)) (u_kouts u) [] with
       | (st1, log, Some r) => (st1, log, r)
       | (st1, log, None) =>                                                         (* 1164 *)
           if negb (perm_b addr_eqb (u_bshuf u) (s_boot st1)) then (st1, log, UScript)    (* 1205-1206 *)
           else boot_loop st1 (u_bshuf u) (u_bouts u) log
       end.

(* ---- load_metadata_for_topics: client.py:468-527 ------------------------------------------------ *)
Inductive lres := LTrue | LNone | LUnavail (cause : ures) | LKeyError | LScript.

Definition load_metadata (st : state) (full : bool) (u : uscript) (r : rawresp)
  : state * ulog * list Z * lres :=
  match unaware st u with
  | (st1, log, UOk) =>
      let '(st2, gone, ok) := merge st1 (norm_resp r) full in                (* 503-506 *)
      (st2, log, gone, if ok then LTrue else LKeyError)
      (* a KeyError raised inside the callback is NOT seen by _handleMetadataErr (addCallbacks, 526) *)
  | (st1, log, UCancelled) => (st1, log, [], LNone)                          (* 510-514 *)
  | (st1, log, UScript) => (st1, log, [], LScript)
  | (st1, log, c) => (st1, log, [], LUnavail c)                              (* 520-522 *)
  end.

(* ---- load_coordinator_for_group: client.py:586-650 ---------------------------------------------- *)
Definition load_coordinator (st : state) (g : Z) (u : uscript) (c : Z * bmeta) : state * ulog * bool :=
  match unaware st u with
  | (st1, log, UOk) =>
      if fst c =? 0 then (coord_ok st1 g (snd c), log, true)                (* 618-623 *)
      else (reset_group st1 g, log, false)                                   (* 618 raises -> 625-635 *)
  | (st1, log, _) => (reset_group st1 g, log, false)                         (* 625-635 *)
  end.

(* ---- resolution: client.py:1292-1306 ------------------------------------------------------------ *)
Inductive load := LoadMeta (u : uscript) (r : rawresp) | LoadCoord (u : uscript) (c : Z * bmeta).

Inductive ekind :=
| EValue                    (* 1277-1278 empty payload list *)
| ELeaderUnavailable        (* 1296-1299 *)
| EPartitionUnavailable     (* 1012-1013 *)
| ECoordinatorNotAvailable  (* 1302-1303, 633, 1384-1385 *)
| EKafkaUnavailable         (* 520: the metadata load failed *)
| EClientError              (* 912-913 *)
| EKeyErrorMerge            (* 568 escaping through load_metadata_for_topics *)
| EKeyErrorBroker           (* 915: unreachable from well-formed states, see Proofs *)
| ETimedOut                 (* _send_request_to_coordinator: the request failed *)
| EScript.

(* what one load did: kind (0 metadata / 1 coordinator), the topic or group asked for, the tries, the
   broker clients closed by it, and its result code *)
Record loadev := { le_kind : Z; le_id : Z; le_log : ulog; le_gone : list Z; le_res : Z }.

Definition lres_code (r : lres) : Z :=
  match r with
  | LTrue => 1 | LNone => 2
  | LUnavail UUnavailable => 3 | LUnavail UClientError => 4 | LUnavail _ => 6
  | LKeyError => 5 | LScript => -97
  end.

(* one resolved payload, with the cache as it was when the leader / coordinator was read *)
Record rstep := { rs_payload : payload; rs_node : Z; rs_state : state }.

(* 996-1015 + 1295-1299 *)
Definition resolve_leader (st : state) (p : payload) (loads : list load)
  : state * list load * list loadev * (Z + ekind) :=
  let k := p_key p in
  let '(st1, loads1, evs, err) :=
    match leader_of st k with
    | Some (Some _) => (st, loads, [], None)
    | _ =>                                                                     (* 1009-1010 *)
        match loads with
        | LoadMeta u r :: loads' =>
            let '(st', log, gone, res) := load_metadata st false u r in
            let ev := {| le_kind := 0; le_id := p_topic p; le_log := log; le_gone := gone; le_res := lres_code res |} in
            match res with
            | LTrue | LNone => (st', loads', [ev], None)
            | LUnavail _ => (st', loads', [ev], Some EKafkaUnavailable)
            | LKeyError => (st', loads', [ev], Some EKeyErrorMerge)
            | LScript => (st', loads', [ev], Some EScript)
            end
        | _ => (st, loads, [], Some EScript)
        end
    end in
  match err with
  | Some e => (st1, loads1, evs, inr e)
  | None =>
      match leader_of st1 k with
      | None => (st1, loads1, evs, inr EPartitionUnavailable)                  (* 1012-1013 *)
      | Some None => (st1, loads1, evs, inr ELeaderUnavailable)                (* 1296-1299 *)
      | Some (Some bm) => (st1, loads1, evs, inl (fst bm))                     (* 1305 leader.node_id *)
      end
  end.

(* 1017-1029 + 1301-1303 *)
Definition resolve_coord (st : state) (g : Z) (loads : list load)
  : state * list load * list loadev * (Z + ekind) :=
  match dget Z.eqb g (s_g2c st) with
  | Some bm => (st, loads, [], inl (fst bm))
  | None =>                                                                    (* 1026-1027 *)
      match loads with
      | LoadCoord u c :: loads' =>
          let '(st1, log, ok) := load_coordinator st g u c in
          let ev := {| le_kind := 1; le_id := g; le_log := log; le_gone := []; le_res := if ok then 1 else 0 |} in
          if ok then
            match dget Z.eqb g (s_g2c st1) with
            | Some bm => (st1, loads', [ev], inl (fst bm))
            | None => (st1, loads', [ev], inr ECoordinatorNotAvailable)        (* 1302-1303 *)
            end
          else (st1, loads', [ev], inr ECoordinatorNotAvailable)               (* 633 *)
      | _ => (st, loads, [], inr EScript)
      end
  end.

Definition resolve_one (st : state) (group : option Z) (p : payload) (loads : list load) :=
  match group with
  | None => resolve_leader st p loads
  | Some g => resolve_coord st g loads
  end.

Fixpoint resolve_loop (st : state) (group : option Z) (ps : list payload) (loads : list load)
         (acc : list rstep) (evs : list loadev) : state * list loadev * (list rstep + ekind) :=
  match ps with
  | [] => (st, evs, inl acc)
  | p :: rest =>
      match resolve_one st group p loads with
      | (st1, loads1, ev, inr e) => (st1, evs ++ ev, inr e)
      | (st1, loads1, ev, inl n) =>
          resolve_loop st1 group rest loads1
                       (acc ++ [{| rs_payload := p; rs_node := n; rs_state := st1 |}]) (evs ++ ev)
      end
  end.

(* ---- the per-broker requests: client.py:1329-1341 ----------------------------------------------- *)
Record reqev := { rq_node : Z; rq_addr : addr; rq_payloads : list payload }.
Inductive rout := RFail | ROk (rs : list resp).
Definition to_outcome (o : rout) : outcome := match o with ROk rs => OOk rs | _ => OFail end.

Fixpoint send_requests (st : state) (groups : list (Z * list payload)) (outs : list rout) (sent : list reqev)
  : state * list reqev * option ekind :=
  match groups with
  | [] => (st, sent, None)
  | (n, ps) :: rest =>
      if s_closed st then (st, sent, Some EClientError)                        (* 1330 -> 912-913 *)
      else match outs with
           | [] => (st, sent, Some EScript)
           | o :: outs' =>
               match request_on st n with                                      (* 1330, 1339 *)
               | None => (st, sent, Some EKeyErrorBroker)
               | Some (st1, a) =>
                   send_requests st1 rest outs' (sent ++ [{| rq_node := n; rq_addr := a; rq_payloads := ps |}])
               end
           end
  end.

Inductive sres :=
| SOk (rs : list resp)
| SFailed (rs : list resp) (failed : list payload)        (* FailedPayloadsError(responses, failed_payloads) *)
| SErr (e : ekind).

Record aresult := { a_state : state; a_loads : list loadev; a_resolved : list rstep;
                    a_reqs : list reqev; a_res : sres }.

Definition resolved_pairs (rs : list rstep) : list (payload * Z) := map (fun r => (rs_payload r, rs_node r)) rs.

(* 1240-1371.  [expect] = decode_fn is not None *)
Definition aware (st : state) (group : option Z) (expect : bool) (ps : list payload)
           (loads : list load) (outs : list rout) : aresult :=
  match ps with
  | [] => {| a_state := st; a_loads := []; a_resolved := []; a_reqs := []; a_res := SErr EValue |}  (* 1277-1278 *)
  | _ =>
      match resolve_loop st group ps loads [] [] with
      | (st1, evs, inr e) =>
          {| a_state := st1; a_loads := evs; a_resolved := []; a_reqs := []; a_res := SErr e |}
      | (st1, evs, inl resolved) =>
          let groups := group_by_node (resolved_pairs resolved) in
          match send_requests st1 groups outs [] with
          | (st2, sent, Some e) =>
              {| a_state := st2; a_loads := evs; a_resolved := resolved; a_reqs := sent; a_res := SErr e |}
          | (st2, sent, None) =>
              let '(acc, failed) := collect expect (map snd groups) (map to_outcome outs) [] [] in
              let responses := reorder (map p_key ps) acc in                    (* 1306, 1366 *)
              match failed with
              | [] => {| a_state := st2; a_loads := evs; a_resolved := resolved; a_reqs := sent;
                         a_res := SOk responses |}                              (* 1371 *)
              | _ => {| a_state := reset_all st2; a_loads := evs; a_resolved := resolved; a_reqs := sent;
                        a_res := SFailed responses failed |}                    (* 1367-1369 *)
              end
          end
      end
  end.

(* ---- the public send_*_request methods: aware + _handle_responses (client.py:652-809) ------------ *)
Inductive pres :=
| POk (rs : list resp)
| PRaise (errno : Z)
| PType
| PFailed (rs : list resp) (failed : list payload)
| PErr (e : ekind).

Definition send_public (st : state) (group : option Z) (fail expect : bool) (ps : list payload)
           (loads : list load) (outs : list rout) : aresult * state * pres :=
  let r := aware st group expect ps loads outs in
  match a_res r with
  | SOk rs =>
      match handle_responses (a_state r) group fail rs [] with
      | (st', HOk out) => (r, st', POk out)
      | (st', HRaise e) => (r, st', PRaise e)
      | (st', HType) => (r, st', PType)
      end
  | SFailed rs f => (r, a_state r, PFailed rs f)
  | SErr e => (r, a_state r, PErr e)
  end.

Definition send_direct (st : state) (group : option Z) (expect : bool) (ps : list payload)
           (loads : list load) (outs : list rout) : aresult * state * pres :=
  let r := aware st group expect ps loads outs in
  (r, a_state r, match a_res r with SOk rs => POk rs | SFailed rs f => PFailed rs f | SErr e => PErr e end).

(* ---- _send_request_to_coordinator: client.py:1373-1403 ------------------------------------------ *)
Definition send_coord (st : state) (g : Z) (p : payload) (loads : list load) (o : rout)
  : aresult * state * pres :=
  match resolve_coord st g loads with
  | (st1, _, evs, inr e) =>
      ({| a_state := st1; a_loads := evs; a_resolved := []; a_reqs := []; a_res := SErr e |}, st1, PErr e)
  | (st1, _, evs, inl n) =>
      let resolved := [{| rs_payload := p; rs_node := n; rs_state := st1 |}] in
      if s_closed st1 then                                                     (* 1386 -> 912-913 *)
        ({| a_state := st1; a_loads := evs; a_resolved := resolved; a_reqs := []; a_res := SErr EClientError |},
         st1, PErr EClientError)
      else
        match request_on st1 n with
        | None => ({| a_state := st1; a_loads := evs; a_resolved := resolved; a_reqs := [];
                      a_res := SErr EKeyErrorBroker |}, st1, PErr EKeyErrorBroker)
        | Some (st2, a) =>
            let sent := [{| rq_node := n; rq_addr := a; rq_payloads := [p] |}] in
            match o with
            | ROk (r :: _) =>                                                   (* 1400-1403 *)
                let ar := {| a_state := st2; a_loads := evs; a_resolved := resolved; a_reqs := sent;
                             a_res := SOk [r] |} in
                match handle_responses st2 (Some g) true [r] [] with
                | (st3, HOk out) => (ar, st3, POk out)
                | (st3, HRaise e) => (ar, st3, PRaise e)
                | (st3, HType) => (ar, st3, PType)
                end
            | ROk [] => ({| a_state := st2; a_loads := evs; a_resolved := resolved; a_reqs := sent;
                            a_res := SErr EScript |}, st2, PErr EScript)
            | _ => ({| a_state := st2; a_loads := evs; a_resolved := resolved; a_reqs := sent;
                       a_res := SErr ETimedOut |}, st2, PErr ETimedOut)        (* 1396: the failure propagates *)
            end
        end
  end.

(* ---- _normalize_hosts: client.py:1406-1454 ------------------------------------------------------ *)
(* An item is a string "host" / "host:port" (after the split on ",", 1438-1441; host and port text are
   stripped, 1446-1448) or a (host, port) tuple (1450-1452).  The result is sorted(set(...)): tuples compare
   by host, then by port.  Generic in the host type: strings (lists of code points) for the function itself,
   integers for the histories of ClientRun. *)
Inductive hitem (H : Type) := HStr (h : H) (port : option Z) | HTuple (h : H) (port : Z).
Arguments HStr {H}. Arguments HTuple {H}.

Section Normalize.
  Context {H : Type} (hleb heqb : H -> H -> bool) (strip : H -> H).
  Definition hp_leb (a b : H * Z) : bool :=
    if heqb (fst a) (fst b) then snd a <=? snd b else hleb (fst a) (fst b).
  Definition hp_eqb (a b : H * Z) : bool := heqb (fst a) (fst b) && (snd a =? snd b).
  Fixpoint hinsert (x : H * Z) (l : list (H * Z)) : list (H * Z) :=
    match l with
    | [] => [x]
    | y :: r => if hp_eqb x y then l else if hp_leb x y then x :: l else y :: hinsert x r
    end.
  Definition sorted_set (l : list (H * Z)) : list (H * Z) := fold_right hinsert [] l.
  Definition norm_item (i : hitem H) : H * Z :=
    match i with
    | HStr h po => (strip h, match po with Some p => p | None => 9092 end)   (* DefaultKafkaPort *)
    | HTuple h p => (h, p)
    end.
  Definition normalize_hosts (items : list (hitem H)) : list (H * Z) := sorted_set (map norm_item items).
End Normalize.

(* str.strip() on an ASCII string (hosts must be ASCII): 9-13, 28-31 and 32 are white space *)
Definition is_ws (c : Z) : bool := (c =? 32) || ((9 <=? c) && (c <=? 13)) || ((28 <=? c) && (c <=? 31)).
Fixpoint lstrip (s : list Z) : list Z :=
  match s with c :: r => if is_ws c then lstrip r else s | [] => [] end.
Definition str_strip (s : list Z) : list Z := rev (lstrip (rev (lstrip s))).
(* str < str: code point lexicographic *)
Fixpoint str_leb (a b : list Z) : bool :=
  match a, b with
  | [], _ => true
  | _ :: _, [] => false
  | x :: a', y :: b' => if x =? y then str_leb a' b' else x <? y
  end.
Definition normalize_hosts_str := normalize_hosts str_leb zlist_eqb str_strip.
Definition normalize_hosts_z := normalize_hosts Z.leb Z.eqb (fun h : Z => h).
