(* Value-returning programs of the encoder language: the module-level constructors of afkak/kafkacodec.py
   (create_message, create_gzip_message, create_snappy_message, create_message_set) return Message objects or lists of
   them, not bytes.  Same conventions as Model/EncDSL.v (levels, untyped values, scripted clock); in addition the
   compression functions of afkak.codec are the ORACLE of Model.MsgSet.
   Calls denote the MODEL of the callee (each callee has its own translated term and soundness theorem):
     KafkaCodec._encode_message_set(msgs)   Model.MsgSet.encode_message_set .. None 0
     gzip_encode / snappy_encode            gz_enc orc / Model.MsgSet.snappy_encode orc
     create_message(p, key=k, magic=m)      Model.MsgSet.create_message (next clock reading when m = 1)
     create_gzip_message / create_snappy_message(msgs, magic)   Model.MsgSet.create_gzip_message / create_snappy_message *)
From Coq Require Import String.
From AV Require Import Base.Util Model.Prim Model.Crc Model.MsgSet Model.Requests Model.EncDSL.
Open Scope string_scope.
Open Scope list_scope.

Inductive vex :=
| XE (e : ex)
| XMessage (magic attr key value ts : ex)     (* Message(magic, attr, key, value, timestamp=ts) *)
| XList1 (x : vex).                           (* [x] *)

(* statements that extend the list under construction *)
Inductive bitem :=
| BCond (c : cond) (th el : list bitem)
| BExtendCreate (coll payload key magic : ex).  (* acc.extend([create_message(payload, key=key, magic=magic) for y in coll]);
                                                   y is a new level *)

Inductive vprog :=
| VRet (x : vex)
| VRaise (e : err)
| VCond (c : cond) (a b : vprog)
| VLetNow (body : vprog)
| VLetMsgSet (msgs : ex) (body : vprog)                  (* x = KafkaCodec._encode_message_set(msgs) *)
| VLetCodec (kind : Z) (e : ex) (body : vprog)           (* x = gzip_encode(e) (kind 1) / snappy_encode(e) (kind 2) *)
| VLetBuild (outer : ex) (items : list bitem) (body : vprog)
                                                         (* acc = []; for x in outer: items;  then acc is a new level *)
| VLetWrapper (kind : Z) (msgs magic : ex) (body : vprog). (* x = create_gzip_message(msgs, magic) / create_snappy_message *)

Definition as_str (v : val) : val := match v with VNone => VStr None | _ => v end.
Definition as_ts (v : val) : val := match v with VStr None => VNone | _ => v end.

Definition message_rec (mg at_ k x ts : val) : val :=
  VRec [("magic", mg); ("attributes", at_); ("key", as_str k); ("value", as_str x); ("timestamp", as_ts ts)].

Definition msg_val (m : message) : val :=
  VRec [("magic", VInt (m_magic m)); ("attributes", VInt (m_attr m)); ("key", VStr (m_key m)); ("value", VStr (m_value m));
        ("timestamp", match m_ts m with Some t => VInt t | None => VNone end)].

Fixpoint veval (env : list val) (x : vex) : option val :=
  match x with
  | XE e => eval env e
  | XMessage mg at_ k v ts =>
      match eval env mg, eval env at_, eval env k, eval env v, eval env ts with
      | Some a, Some b, Some c, Some d, Some e => Some (message_rec a b c d e)
      | _, _, _, _, _ => None
      end
  | XList1 y => match veval env y with Some v => Some (VList [v]) | None => None end
  end.

Definition vres : Type := res (val * nat).
Definition lres : Type := res (list val * nat).

(* [create_message(payload, key=key, magic=magic) for y in l]: one clock reading per message when magic = 1 *)
Fixpoint comp_create (env : list val) (payload key magic : ex) (clock : nat -> Z) (l : list val) (k : nat) : lres :=
  match l with
  | [] => Ok ([], k)
  | y :: r =>
      match eval (env ++ [y]) payload, eval (env ++ [y]) key, eval (env ++ [y]) magic with
      | Some p, Some ky, Some (VInt mg) =>
          match as_str p, as_str ky with
          | VStr ps, VStr ks =>
              do rk <- comp_create env payload key magic clock r (if (mg =? 1)%Z then S k else k);
              Ok (msg_val (create_message (clock k) ps ks mg) :: fst rk, snd rk)
          | _, _ => Err TypeErr
          end
      | _, _, _ => Err TypeErr
      end
  end.

Fixpoint brun_item (b : bitem) (env : list val) (clock : nat -> Z) (k : nat) {struct b} : lres :=
  let go := fix go (bs : list bitem) (k : nat) : lres :=
              match bs with
              | [] => Ok ([], k)
              | x :: r => do ak <- brun_item x env clock k; do bk <- go r (snd ak); Ok (fst ak ++ fst bk, snd bk)
              end in
  match b with
  | BCond c th el =>
      match eval_cond env c with
      | Some true => go th k
      | Some false => go el k
      | None => Err TypeErr
      end
  | BExtendCreate coll payload key magic =>
      match eval env coll with
      | Some (VList l) => comp_create env payload key magic clock l k
      | _ => Err TypeErr
      end
  end.

Fixpoint brun (bs : list bitem) (env : list val) (clock : nat -> Z) (k : nat) : lres :=
  match bs with
  | [] => Ok ([], k)
  | x :: r => do ak <- brun_item x env clock k; do bk <- brun r env clock (snd ak); Ok (fst ak ++ fst bk, snd bk)
  end.

Fixpoint bloop (bs : list bitem) (env : list val) (clock : nat -> Z) (l : list val) (k : nat) : lres :=
  match l with
  | [] => Ok ([], k)
  | x :: r => do ak <- brun bs (env ++ [x]) clock k; do bk <- bloop bs env clock r (snd ak); Ok (fst ak ++ fst bk, snd bk)
  end.

Definition codec_call (orc : oracle) (kind : Z) (b : list Z) : res (list Z) :=
  if (kind =? 1)%Z then gz_enc orc b else if (kind =? 2)%Z then snappy_encode orc b else Err TypeErr.

Fixpoint vrun (p : vprog) (env : list val) (orc : oracle) (clock : nat -> Z) (k : nat) : vres :=
  match p with
  | VRet x => match veval env x with Some v => Ok (v, k) | None => Err TypeErr end
  | VRaise e => Err e
  | VCond c a b =>
      match eval_cond env c with
      | Some true => vrun a env orc clock k
      | Some false => vrun b env orc clock k
      | None => Err TypeErr
      end
  | VLetNow body => vrun body (env ++ [VInt (clock k)]) orc clock (S k)
  | VLetMsgSet msgs body =>
      match eval env msgs with
      | Some (VList l) =>
          match msgs_of_vals l with
          | Some ms => do b <- encode_message_set clock k ms None 0;
                       vrun body (env ++ [VStr (Some b)]) orc clock (k + clock_uses ms)%nat
          | None => Err TypeErr
          end
      | _ => Err TypeErr
      end
  | VLetCodec kind e body =>
      match eval env e with
      | Some (VStr (Some b)) => do z <- codec_call orc kind b; vrun body (env ++ [VStr (Some z)]) orc clock k
      | _ => Err TypeErr
      end
  | VLetBuild outer items body =>
      match eval env outer with
      | Some (VList l) => do ak <- bloop items env clock l k; vrun body (env ++ [VList (fst ak)]) orc clock (snd ak)
      | _ => Err TypeErr
      end
  | VLetWrapper kind msgs magic body =>
      match eval env msgs, eval env magic with
      | Some (VList l), Some (VInt mg) =>
          match msgs_of_vals l with
          | Some ms =>
              do w <- (if (kind =? 1)%Z then create_gzip_message orc clock k ms mg
                       else if (kind =? 2)%Z then create_snappy_message orc clock k ms mg else Err TypeErr);
              vrun body (env ++ [msg_val w]) orc clock
                   (k + clock_uses ms + (if (mg =? 1)%Z then 1 else 0))%nat
          | None => Err TypeErr
          end
      | _, _ => Err TypeErr
      end
  end.

Lemma brun_go clock env (bs : list bitem) : forall k,
  (fix go (bs : list bitem) (k : nat) : lres :=
     match bs with
     | [] => Ok ([], k)
     | x :: r => do ak <- brun_item x env clock k; do bk <- go r (snd ak); Ok (fst ak ++ fst bk, snd bk)
     end) bs k = brun bs env clock k.
Proof. induction bs as [|x r IH]; intros k; cbn [brun]; [reflexivity|]. destruct (brun_item x env clock k); cbn [bind]; [|reflexivity]. now rewrite IH. Qed.

Lemma brun_item_cond c th el env clock k :
  brun_item (BCond c th el) env clock k =
  match eval_cond env c with
  | Some true => brun th env clock k
  | Some false => brun el env clock k
  | None => Err TypeErr
  end.
Proof. cbn [brun_item]. destruct (eval_cond env c) as [[|]|]; try reflexivity; apply brun_go. Qed.
