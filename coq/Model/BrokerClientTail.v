(* M7t: user code called from a REPLY callback.  handleResponse (brokerclient.py:336-361) ends with
   `tReq.d.callback(response)`: the callbacks the caller attached to the Deferred of makeRequest run INSIDE handleResponse,
   inside KafkaProtocol.stringReceived, inside IntNStringReceiver.dataReceived's loop over the complete frames of the
   buffer.  They may call back into the broker client: cancel() of any request, makeRequest(), disconnect(), close().

   [data_in_c s chunk inter] transcribes dataReceived(chunk) with such callbacks: when the Deferred of handle h fires
   with a response, the calls [assoc inter h] are made at that point, in order; while the loop runs Twisted holds the
   WHOLE buffer in self._unprocessed (basic.py:713) and stores the unconsumed rest only after the loop (748). *)
From AV Require Import Base.Util Model.Framing Model.BrokerClient.

Inductive call := KCancel (h : nat) | KMake (rid : Z) (expect : bool) | KDisc | KClose.

Definition call_ev (c : call) : event :=
  match c with
  | KCancel h => ECancel h
  | KMake rid ex => EMake rid ex
  | KDisc => EDisconnect
  | KClose => EClose
  end.

Fixpoint cassoc (l : list (nat * list call)) (h : nat) : list call :=
  match l with
  | [] => []
  | (h', x) :: r => if Nat.eqb h' h then x else cassoc r h
  end.

(* which Deferred, if any, a handleResponse call completed with a response *)
Definition fired_succ (o : list output) : option nat :=
  match o with
  | [ODef h (Succ _)] => Some h
  | _ => None
  end.

(* handleResponse(frame), the user callback included *)
Definition handle_response_c (inter : list (nat * list call)) (s : state) (frame : list Z) : state * list output :=
  let (t1, o1) := handle_response (s_t s) frame in
  let s1 := with_t s t1 in
  match fired_succ o1 with
  | Some h => let (s2, o2) := run s1 (map call_ev (cassoc inter h)) in (s2, o1 ++ o2)     (* inside d.callback(response) *)
  | None => (s1, o1)
  end.

Fixpoint deliver_c (inter : list (nat * list call)) (s : state) (frames : list (list Z)) : state * list output :=
  match frames with
  | [] => (s, [])
  | f :: r => let (s1, o1) := handle_response_c inter s f in
              let (s2, o2) := deliver_c inter s1 r in (s2, o1 ++ o2)
  end.

(* KafkaProtocol.dataReceived(chunk) *)
Definition data_in_c (inter : list (nat * list call)) (s : state) (chunk : list Z) : state * list output :=
  let (fs, e) := data_received ok4 (s_rxbuf s) chunk in
  let s0 := with_rxbuf s (s_rxbuf s ++ chunk) in                    (* self._unprocessed = alldata *)
  let (s1, o1) := deliver_c inter s0 fs in
  let s2 := with_rxbuf s1 (rx_newbuf (s_rxbuf s) chunk e) in
  match e with
  | RxLimit _ => (s2, o1 ++ [OLose])
  | RxFuel => (s2, o1 ++ [OErr 3 0])
  | _ => (s2, o1)
  end.

(* the sequential history it is claimed to equal, for a buffer-aligned stream of whole frames: each frame as its own
   event, followed by the calls of the callback it triggered, as ordinary events *)
Fixpoint tail_events (inter : list (nat * list call)) (s : state) (frames : list (list Z)) : list event :=
  match frames with
  | [] => []
  | f :: r =>
      let (s1, o1) := step s (EFrame f) in
      let cs := match fired_succ o1 with Some h => map call_ev (cassoc inter h) | None => [] end in
      EFrame f :: cs ++ tail_events inter (fst (run s1 cs)) r
  end.
