(* M8b: the metadata cache of afkak/client.py KafkaClient (C08, used by C07).
   Definitions only.  Line numbers refer to /repo/afkak/client.py and /repo/afkak/brokerclient.py.

   Vocabulary.  Hosts, topics and consumer groups are integers (the driver maps id <-> name).
     addr  = (host, port)                    bmeta = (node_id, addr)      = BrokerMetadata
     tpk   = (topic, partition)              = TopicAndPartition
   Python dicts are association lists with the dict discipline: [dset] overwrites the first entry with
   that key in place or appends (insertion order kept), [dget] reads the first entry, [ddel] removes the key.

   Outside this model: partition_meta (never pruned, not named by the property), replicas/isr, the
   partition error code (client.py:560-568 never looks at it), _coordinator_fetches (concurrent loads of
   one group), correlation ids, time-outs (C11), close_dlist (C20). *)
From AV Require Import Base.Util.

Definition addr := (Z * Z)%type.
Definition bmeta := (Z * addr)%type.
Definition tpk := (Z * Z)%type.

Definition tp_eqb (a b : tpk) : bool := Z.eqb (fst a) (fst b) && Z.eqb (snd a) (snd b).
Definition addr_eqb (a b : addr) : bool := Z.eqb (fst a) (fst b) && Z.eqb (snd a) (snd b).

Section Dict.
  Context {K V : Type} (eqb : K -> K -> bool).
  Fixpoint dget (k : K) (d : list (K * V)) : option V :=
    match d with
    | [] => None
    | e :: r => if eqb k (fst e) then Some (snd e) else dget k r
    end.
  Fixpoint dset (k : K) (v : V) (d : list (K * V)) : list (K * V) :=
    match d with
    | [] => [(k, v)]
    | e :: r => if eqb k (fst e) then (k, v) :: r else e :: dset k v r
    end.
  Definition ddel (k : K) (d : list (K * V)) : list (K * V) :=
    filter (fun e => negb (eqb k (fst e))) d.
  Definition dmem (k : K) (d : list (K * V)) : bool :=
    match dget k d with Some _ => true | None => false end.
End Dict.

Definition zmem (x : Z) (l : list Z) : bool := existsb (Z.eqb x) l.

(* list.sort() on partition ids: insertion sort (stable; result = the sorted permutation) *)
Fixpoint zinsert (x : Z) (l : list Z) : list Z :=
  match l with
  | [] => [x]
  | y :: r => if x <=? y then x :: l else y :: zinsert x r
  end.
Fixpoint zisort (l : list Z) : list Z :=
  match l with [] => [] | x :: r => zinsert x (zisort r) end.

(* ---- state ----------------------------------------------------------------------------------- *)
(* one _KafkaBrokerClient as far as routing is concerned: the address the next connection attempt will
   use (brokerclient.py:124-126, 148-165) and the peer address of the live connection, if any
   (brokerclient.py:304-306 connected() <-> c_conn <> None). *)
Record client := { c_target : addr; c_conn : option addr }.

Record state := {
  s_brokers : list (Z * addr);              (* client.py:226  self._brokers *)
  s_clients : list (Z * client);            (* client.py:215  self.clients *)
  s_t2b : list (tpk * option bmeta);        (* client.py:216  self.topics_to_brokers *)
  s_tparts : list (Z * list Z);             (* client.py:220  self.topic_partitions *)
  s_terrs : list (Z * Z);                   (* client.py:221  self.topic_errors *)
  s_g2c : list (Z * bmeta);                 (* client.py:218  self._group_to_coordinator *)
  s_boot : list addr;                       (* client.py:272  self._bootstrap_hosts *)
  s_closed : bool                           (* client.py:227  self._closing *)
}.

Definition init_state (boot : list addr) : state :=
  {| s_brokers := []; s_clients := []; s_t2b := []; s_tparts := []; s_terrs := []; s_g2c := [];
     s_boot := boot; s_closed := false |}.

Definition set_brokers (st : state) v := {| s_brokers := v; s_clients := s_clients st; s_t2b := s_t2b st;
  s_tparts := s_tparts st; s_terrs := s_terrs st; s_g2c := s_g2c st; s_boot := s_boot st; s_closed := s_closed st |}.
Definition set_clients (st : state) v := {| s_brokers := s_brokers st; s_clients := v; s_t2b := s_t2b st;
  s_tparts := s_tparts st; s_terrs := s_terrs st; s_g2c := s_g2c st; s_boot := s_boot st; s_closed := s_closed st |}.
Definition set_t2b (st : state) v := {| s_brokers := s_brokers st; s_clients := s_clients st; s_t2b := v;
  s_tparts := s_tparts st; s_terrs := s_terrs st; s_g2c := s_g2c st; s_boot := s_boot st; s_closed := s_closed st |}.
Definition set_tparts (st : state) v := {| s_brokers := s_brokers st; s_clients := s_clients st; s_t2b := s_t2b st;
  s_tparts := v; s_terrs := s_terrs st; s_g2c := s_g2c st; s_boot := s_boot st; s_closed := s_closed st |}.
Definition set_terrs (st : state) v := {| s_brokers := s_brokers st; s_clients := s_clients st; s_t2b := s_t2b st;
  s_tparts := s_tparts st; s_terrs := v; s_g2c := s_g2c st; s_boot := s_boot st; s_closed := s_closed st |}.
Definition set_g2c (st : state) v := {| s_brokers := s_brokers st; s_clients := s_clients st; s_t2b := s_t2b st;
  s_tparts := s_tparts st; s_terrs := s_terrs st; s_g2c := v; s_boot := s_boot st; s_closed := s_closed st |}.
Definition set_boot (st : state) v := {| s_brokers := s_brokers st; s_clients := s_clients st; s_t2b := s_t2b st;
  s_tparts := s_tparts st; s_terrs := s_terrs st; s_g2c := s_g2c st; s_boot := v; s_closed := s_closed st |}.
Definition set_closed (st : state) v := {| s_brokers := s_brokers st; s_clients := s_clients st; s_t2b := s_t2b st;
  s_tparts := s_tparts st; s_terrs := s_terrs st; s_g2c := s_g2c st; s_boot := s_boot st; s_closed := v |}.

(* the public queries *)
Definition leader_of (st : state) (k : tpk) : option (option bmeta) := dget tp_eqb k (s_t2b st).
(* client.py:331-332 metadata_error_for_topic: topic_errors.get(topic, UnknownTopicOrPartitionError.errno) *)
Definition metadata_error_for_topic (st : state) (t : Z) : Z :=
  match dget Z.eqb t (s_terrs st) with Some e => e | None => 3 end.
(* client.py:328-329 *)
Definition has_metadata_for_topic (st : state) (t : Z) : bool := dmem Z.eqb t (s_tparts st).

(* ---- resets: client.py:274-326 ---------------------------------------------------------------- *)
(* client.py:285-301, one topic *)
Definition reset_topic (st : state) (t : Z) : state :=
  let st1 :=
    match dget Z.eqb t (s_tparts st) with
    | None => st                                                      (* 288-289 KeyError: pass *)
    | Some ps =>
        let t2b' := fold_left (fun d p => ddel tp_eqb (t, p) d) ps (s_t2b st) in   (* 291-295 *)
        set_tparts (set_t2b st t2b') (ddel Z.eqb t (s_tparts st))                  (* 296 *)
    end in
  set_terrs st1 (ddel Z.eqb t (s_terrs st1)).                          (* 298-301 *)

Definition reset_topics (st : state) (ts : list Z) : state := fold_left reset_topic ts st.

(* client.py:313-316 *)
Definition reset_group (st : state) (g : Z) : state := set_g2c st (ddel Z.eqb g (s_g2c st)).
Definition reset_groups (st : state) (gs : list Z) : state := fold_left reset_group gs st.

(* client.py:318-326 *)
Definition reset_all (st : state) : state :=
  set_g2c (set_terrs (set_tparts (set_t2b st []) []) []) [].

(* client.py:368-392 close(): _closing, clients = None (every broker client closed), reset_all_metadata *)
Definition close_client (st : state) : state * list Z :=
  (reset_all (set_closed (set_clients st []) true), map fst (s_clients st)).

(* close() called by the environment while a request of the RUNNING operation is pending: client.py:383-389
   (_closing, every broker client closed, bootstrap Deferreds cancelled) fail that request synchronously, so the
   rest of the operation runs - and reads the cache - inside close(), BEFORE reset_all_metadata() at 391 ... *)
Definition close_early (st : state) : state := set_closed (set_clients st []) true.
(* ... which takes effect once the operation during which close() was called has run to its end *)
Definition close_finish (st0 st' : state) : state :=
  if negb (s_closed st0) && s_closed st' then reset_all st' else st'.

(* ---- _update_brokers: client.py:963-994 -------------------------------------------------------- *)
(* 980: brokers_by_id = {bm.node_id: bm for bm in brokers} *)
Definition by_id (bs : list bmeta) : list (Z * addr) :=
  fold_left (fun d b => dset Z.eqb (fst b) (snd b) d) bs [].

(* 981: self._brokers.update(brokers_by_id) *)
Definition dupdate (d : list (Z * addr)) (u : list (Z * addr)) : list (Z * addr) :=
  fold_left (fun d e => dset Z.eqb (fst e) (snd e) d) u d.

(* 984-987: clients that exist get updateMetadata (brokerclient.py:148-165: host/port of FUTURE
   connections; the live connection is kept) *)
Definition retarget (bid : list (Z * addr)) (c : Z * client) : Z * client :=
  match dget Z.eqb (fst c) bid with
  | Some a => (fst c, {| c_target := a; c_conn := c_conn (snd c) |})
  | None => c
  end.

(* returns the new state and the node ids whose broker client was closed (990-994) *)
Definition update_brokers (st : state) (bs : list bmeta) (remove : bool) : state * list Z :=
  let bid := by_id bs in
  let st1 := set_brokers st (dupdate (s_brokers st) bid) in
  let cl1 := map (retarget bid) (s_clients st) in
  if remove then
    (set_clients st1 (filter (fun c => dmem Z.eqb (fst c) bid) cl1),
     map fst (filter (fun c => negb (dmem Z.eqb (fst c) bid)) cl1))
  else (set_clients st1 cl1, []).

(* ---- metadata response as decoded by kafkacodec.py:791-839 ------------------------------------- *)
(* raw wire order (duplicates possible) *)
Record rawtopic := { rt_err : Z; rt_id : Z; rt_parts : list (Z * Z * Z) (* perr, partition, leader *) }.
Record rawresp := { rr_brokers : list bmeta; rr_topics : list rawtopic }.

(* decoded: three nested dicts (806-811, 821-844): the last entry for a key wins, at the position of the
   first.  The partition error code is dropped here because nothing in client.py reads it. *)
Record nresp := {
  n_brokers : list (Z * addr);                   (* node -> address *)
  n_topics : list (Z * (Z * list (Z * Z)))       (* topic -> (topic_error, partition -> leader) *)
}.

Definition norm_parts (ps : list (Z * Z * Z)) : list (Z * Z) :=
  fold_left (fun d e => dset Z.eqb (snd (fst e)) (snd e) d) ps [].
Definition norm_topics (ts : list rawtopic) : list (Z * (Z * list (Z * Z))) :=
  fold_left (fun d t => dset Z.eqb (rt_id t) (rt_err t, norm_parts (rt_parts t)) d) ts [].
Definition norm_resp (r : rawresp) : nresp :=
  {| n_brokers := by_id (rr_brokers r); n_topics := norm_topics (rr_topics r) |}.

(* ---- _merge_topic_metadata: client.py:529-569 -------------------------------------------------- *)
(* 560-568, the partitions of one topic.  [tps] is the list being built in topic_partitions[topic].
   false = KeyError from brokers[meta.leader] (568): the leader is neither -1 nor a broker of THIS response. *)
Fixpoint merge_parts (nb : list (Z * addr)) (t : Z) (parts : list (Z * Z)) (tps : list Z)
         (t2b : list (tpk * option bmeta)) : list Z * list (tpk * option bmeta) * bool :=
  match parts with
  | [] => (tps, t2b, true)
  | (p, leader) :: r =>
      let tps' := tps ++ [p] in                                                   (* 561 *)
      if leader =? -1 then merge_parts nb t r tps' (dset tp_eqb (t, p) None t2b)  (* 564-566 *)
      else match dget Z.eqb leader nb with
           | Some a => merge_parts nb t r tps' (dset tp_eqb (t, p) (Some (leader, a)) t2b)   (* 568 *)
           | None => (tps', t2b, false)
           end
  end.

(* 548-569, one topic of the response *)
Definition merge_topic (nb : list (Z * addr)) (st : state) (te : Z * (Z * list (Z * Z))) : state * bool :=
  let '(t, (err, parts)) := te in
  let st1 := reset_topic st t in                                      (* 549 *)
  let st2 := set_terrs st1 (dset Z.eqb t err (s_terrs st1)) in        (* 550 *)
  match parts with
  | [] => (st2, true)                                                 (* 551-557 continue *)
  | _ =>
      match merge_parts nb t parts [] (s_t2b st2) with
      | (tps, t2b', true) =>
          (set_tparts (set_t2b st2 t2b') (dset Z.eqb t (zisort tps) (s_tparts st2)), true)    (* 559-569 *)
      | (tps, t2b', false) =>
          (set_tparts (set_t2b st2 t2b') (dset Z.eqb t tps (s_tparts st2)), false)            (* KeyError at 568 *)
      end
  end.

(* 547, the topics of the response in dict order; stops at the first KeyError *)
Fixpoint merge_topics (nb : list (Z * addr)) (topics : list (Z * (Z * list (Z * Z)))) (st : state)
  : state * bool :=
  match topics with
  | [] => (st, true)
  | te :: r =>
      match merge_topic nb st te with
      | (st', true) => merge_topics nb r st'
      | (st', false) => (st', false)
      end
  end.

Definition is_nil {A} (l : list A) : bool := match l with [] => true | _ => false end.

(* returns (state, closed broker clients, ok); ok = false: KeyError escaped, the merge stopped half-way *)
Definition merge (st : state) (nr : nresp) (full : bool) : state * list Z * bool :=
  let remove := full && negb (is_nil (n_brokers nr)) in                    (* 540 *)
  let '(st1, gone) := update_brokers st (n_brokers nr) remove in           (* 543 *)
  let '(st2, ok) := merge_topics (n_brokers nr) (n_topics nr) st1 in
  (st2, gone, ok).

(* ---- coordinator answer: client.py:614-623 ----------------------------------------------------- *)
Definition coord_ok (st : state) (g : Z) (bm : bmeta) : state :=
  fst (update_brokers (set_g2c st (dset Z.eqb g bm (s_g2c st))) [bm] false).

(* ---- _handle_responses: client.py:869-902 ------------------------------------------------------ *)
(* a decoded per-partition response: topic, partition, error code, tag (whatever else it carries) *)
Record resp := { r_topic : Z; r_part : Z; r_err : Z; r_tag : Z }.
Definition r_key (r : resp) : tpk := (r_topic r, r_part r).

Inductive hres :=
| HOk (out : list resp)
| HRaise (errno : Z)        (* fail_on_error: the BrokerResponseError subclass for this errno *)
| HType.                    (* reset_consumer_group_metadata(None): _coerce_consumer_group raises TypeError *)

Definition is_topic_err (e : Z) : bool := (e =? 3) || (e =? 6).               (* 874 *)
Definition is_group_err (e : Z) : bool := (e =? 14) || (e =? 15) || (e =? 16). (* 884 *)

Fixpoint handle_responses (st : state) (group : option Z) (fail : bool) (rs : list resp) (out : list resp)
  : state * hres :=
  match rs with
  | [] => (st, HOk (rev out))
  | r :: rest =>
      let e := r_err r in
      if e =? 0 then handle_responses st group fail rest (r :: out)
      else if is_topic_err e then
        let st1 := reset_topic st (r_topic r) in                          (* 881 *)
        if fail then (st1, HRaise e) else handle_responses st1 group fail rest (r :: out)
      else if is_group_err e then
        match group with
        | None => (st, HType)                                             (* 891 with consumer_group=None *)
        | Some g =>
            let st1 := reset_group st g in
            if fail then (st1, HRaise e) else handle_responses st1 group fail rest (r :: out)
        end
      else if fail then (st, HRaise e) else handle_responses st group fail rest (r :: out)
  end.

(* ---- broker clients: client.py:904-924, brokerclient.py:167-246, 414-461 ------------------------ *)
(* _get_brokerclient without the _closing test (callers do it).  None = KeyError self._brokers[node_id] *)
Definition get_client (st : state) (n : Z) : option state :=
  if dmem Z.eqb n (s_clients st) then Some st
  else match dget Z.eqb n (s_brokers st) with
       | Some a => Some (set_clients st (s_clients st ++ [(n, {| c_target := a; c_conn := None |})]))
       | None => None
       end.

(* _get_brokerclient + makeRequest: the request travels on the live connection if there is one, else a
   connection to the client's current target is made (a refused attempt is retried by the broker client
   until it succeeds, brokerclient.py:414-461: environment noise that the driver injects but the model
   does not see).  Returns the state and the address the request was sent to. *)
Definition request_on (st : state) (n : Z) : option (state * addr) :=
  match get_client st n with
  | None => None
  | Some st1 =>
      match dget Z.eqb n (s_clients st1) with
      | None => None
      | Some c =>
          match c_conn c with
          | Some a => Some (st1, a)
          | None =>
              let c' := {| c_target := c_target c; c_conn := Some (c_target c) |} in
              Some (set_clients st1 (dset Z.eqb n c' (s_clients st1)), c_target c)
          end
      end
  end.

(* environment: the connection of node n's client is lost while idle (brokerclient.py:308-334) *)
Definition drop_conn (st : state) (n : Z) : state :=
  match dget Z.eqb n (s_clients st) with
  | Some c => set_clients st (dset Z.eqb n {| c_target := c_target c; c_conn := None |} (s_clients st))
  | None => st
  end.

Definition connected (st : state) (n : Z) : bool :=
  match dget Z.eqb n (s_clients st) with
  | Some c => match c_conn c with Some _ => true | None => false end
  | None => false                                                          (* client.py:1140 KeyError *)
  end.

(* ---- invariant of reachable states -------------------------------------------------------------- *)
(* every cached (topic, partition) is listed in topic_partitions[topic]; every cached leader / coordinator
   node is in _brokers; every broker client aims at the address _brokers has for its node.
   Boolean, so Examples can compute it. *)
Definition wf_t2b_entry (st : state) (e : tpk * option bmeta) : bool :=
  match dget Z.eqb (fst (fst e)) (s_tparts st) with
  | Some ps => zmem (snd (fst e)) ps
  | None => false
  end &&
  match snd e with
  | Some bm => dmem Z.eqb (fst bm) (s_brokers st)
  | None => true
  end.
Definition wf (st : state) : bool :=
  forallb (wf_t2b_entry st) (s_t2b st) &&
  forallb (fun e => dmem Z.eqb (fst (snd e)) (s_brokers st)) (s_g2c st) &&
  forallb (fun c => match dget Z.eqb (fst c) (s_brokers st) with
                    | Some a => addr_eqb a (c_target (snd c))      (* a client's target is the node's latest address *)
                    | None => false
                    end) (s_clients st).

(* response well-formedness: what a truthful broker sends (decoded form has unique keys by construction) *)
Fixpoint nodupb (l : list Z) : bool :=
  match l with [] => true | x :: r => negb (zmem x r) && nodupb r end.
Definition leaders_known (nr : nresp) : bool :=
  forallb (fun t => forallb (fun pl => (snd pl =? -1) || dmem Z.eqb (snd pl) (n_brokers nr)) (snd (snd t)))
          (n_topics nr).
Definition keys_unique (nr : nresp) : bool :=
  nodupb (map fst (n_brokers nr)) && nodupb (map fst (n_topics nr)) &&
  forallb (fun t => nodupb (map fst (snd (snd t)))) (n_topics nr).
Definition resp_wf (nr : nresp) : bool := keys_unique nr && leaders_known nr.
