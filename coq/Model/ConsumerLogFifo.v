(* Specification vocabulary for C02 / C03, second part (definitions only): the monitors about what reaches the
   processor in relation to what was fetched (FIFO) and to the partition log (LOG).  See Model/ConsumerLog.v. *)
From AV Require Import Base.Util Model.Consumer Model.ConsumerLog.

(* ---------- monitor FIFO: what reaches the processor is exactly what was extracted, in order ----------
   Its state is the list of messages extracted from accepted fetch replies and not yet handed to the processor.
   An accepted reply to the fetch request for offset [last] appends  fst (extract last offs)  (the messages the
   extraction loop of _handle_fetch_response keeps); a processor invocation must take a non-empty prefix. *)
Definition fifo_out (g : list Z) (o : output) : option (list Z) :=
  match o with
  | OCallProc blk =>
    match blk with
    | [] => None
    | _ :: _ => if is_prefix blk g then Some (drop (length blk) g) else None     (* VIOLATION: gap, repeat, reordering *)
    end
  | _ => Some g
  end.

(* the messages already extracted and waiting in the model state: the rest of the block in progress, then the
   messages of a reply parked behind it *)
Definition queued (s : state) : list Z := match s_proc s with Some (_, rest, _) => rest | None => [] end.
Definition pext (s : state) : list Z :=
  match s_mblock s with Some (Some (offs, _)) => fst (extract (s_foff s) offs) | _ => [] end.
