(* Specification vocabulary for C02 / C03, second part (definitions only): the monitors about what reaches the
   processor in relation to what was fetched (FIFO) and to the partition log (LOG).  See Model/ConsumerLog.v. *)
From AV Require Import Base.Util Model.Consumer Model.ConsumerLog.

(* ---------- monitor FIFO: what reaches the processor is exactly what was extracted, in order ----------
   Its state is the list of messages extracted from accepted fetch replies and not yet handed to the processor.
   An accepted reply to the fetch request for offset [last] appends  fst (extract last offs)  (the messages the
   extraction loop of _handle_fetch_response keeps); a processor invocation must take a non-empty prefix. *)
Definition fifo_out (g : list Z) (o : output) : option (list Z) :=
  match o with
  | OCallProc blk =>
    match blk with
    | [] => None
    | _ :: _ => if is_prefix blk g then Some (drop (length blk) g) else None     (* VIOLATION: gap, repeat, reordering *)
    end
  | _ => Some g
  end.

(* the messages already extracted and waiting in the model state: the rest of the block in progress, then the
   messages of a reply parked behind it *)
Definition queued (s : state) : list Z := match s_proc s with Some (_, rest, _) => rest | None => [] end.
Definition pext (s : state) : list Z :=
  match s_mblock s with Some (Some (offs, _)) => fst (extract (s_foff s) offs) | _ => [] end.

(* monitors whose event rule may look at the model state the event arrives in (is the start accepted? which
   request does the reply answer? at which fetch offset is it extracted?) *)
Section MonS.
Variable G : Type.
Variable gev : G -> state -> event -> G.
Variable gout : G -> output -> option G.
Fixpoint mon_run_s (g : G) (tr : list tstep) : option G :=
  match tr with
  | [] => Some g
  | (s, e, o, _) :: r => match gouts gout (gev g s e) o with Some g' => mon_run_s g' r | None => None end
  end.
End MonS.
Arguments mon_run_s {G} gev gout g tr.

Definition fetch_accepted (s : state) : bool := match s_req s with Some (k, false) => k =? R_FETCH | _ => false end.

(* FIFO: an accepted start forgets what the stopped consumer had dropped; an accepted fetch reply is extracted at the
   current fetch offset *)
Definition fifo_ev (g : list Z) (s : state) (e : event) : list Z :=
  match e with
  | EStart _ => if is_none (s_startd s) then [] else g
  | EFetchOk offs _ => if fetch_accepted s then g ++ fst (extract (s_foff s) offs) else g
  | _ => g
  end.
