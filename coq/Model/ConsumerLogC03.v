(* Specification vocabulary for C03 (definitions only): the monitors whose acceptance of every run of Model/Consumer.v
   the theorems of Props/C03.v state.  They read a run as the harness does - the events it injects, the outputs the
   consumer produces - except for one bit of the state an event arrives in: whether a start() is accepted (the
   consumer is stopped), which the harness reads off the outcome of the call.  See Model/ConsumerLog.v for REQ and PW,
   Model/ConsumerLogFifo.v for mon_run_s. *)
From AV Require Import Base.Util Model.Consumer Model.ConsumerLog Model.ConsumerLogFifo.

(* ---------- monitor PWB: the processor-call window with the failure discipline (fix 55bad16, F-C03-1) ----------
   PW (Model/ConsumerLog.v) plus one bit: b_bad is set when a processor invocation is seen to FAIL - it raised
   (result code other than 0 / 2 in the plan), the Deferred it returned failed (EProcFire false) or was cancelled by
   the consumer (OCancelProc) - and cleared by an accepted start().  While it is set NO block may be handed to the
   processor: after a processor failure nothing further is delivered until the application starts the consumer again. *)
Definition fails (r : Z) : bool := negb (r =? 2) && negb (r =? 0).
Record gpwb := mkPB { b_pw : gpw; b_bad : bool }.
Definition pwb0 : gpwb := mkPB pw0 false.

Definition pwb_ev (g : gpwb) (s : state) (e : event) : gpwb :=
  match e with
  | EStart _ => if is_none (s_startd s) then mkPB (b_pw g) false else g
  | EProcFire ok => mkPB (pw_ev (b_pw g) e) (match w_st (b_pw g) with PPend _ => b_bad g || negb ok | _ => b_bad g end)
  | _ => mkPB (pw_ev (b_pw g) e) (b_bad g)
  end.

Definition bad_after (g : gpwb) (o : output) : bool :=
  match o with
  | OCallProc _ => match w_plan (b_pw g) with
                   | [] => false
                   | p :: _ => if (fst p =? 1) || (fst p =? 2) || (fst p =? 3) then false else fails (snd p)
                   end
  | ORet _ | ORaised _ => match w_st (b_pw g) with PApi _ r => b_bad g || fails r | _ => b_bad g end
  | OCancelProc => true
  | _ => b_bad g
  end.
Definition pwb_out (g : gpwb) (o : output) : option gpwb :=
  if (match o with OCallProc _ => b_bad g | _ => false end) then None   (* VIOLATION: a block delivered after a failure *)
  else match pw_out (b_pw g) o with
       | Some g' => Some (mkPB g' (bad_after g o))
       | None => None
       end.

(* ---------- monitor C3: commits against what was delivered and processed, and the coordinator's offset store ----------
   On top of PWB it keeps, since the last accepted start() (the current "epoch"):
     m_D    the messages handed to the processor, in order
     m_ok   the messages of the invocations that completed SUCCESSFULLY, in order
     m_cur  the block whose outcome is not known yet (the call has not returned, or the Deferred it returned is pending;
            a start() is accepted only by a stopped consumer, which has none: m_cur is [] then)
   and over the whole run
     m_ends the last offset of every successfully completed block
     m_co   the offset carried by the commit request outstanding from the consumer's point of view
     m_sent the offset carried by every commit request ever sent
     m_store the offset store of an honest coordinator: a commit request answered with error 0 (ECommitOk while a
             request is outstanding) stores the offset that request carried; nothing else changes it.
   It rejects what PWB rejects and a commit request (OCommit off) unless
     - off is the last offset of the most recent successful invocation (PW's rule), and
     - the successfully processed messages of this epoch are a PREFIX of the delivered ones (nothing delivered before a
       processed message is unprocessed), and if anything was processed in this epoch off is the last of them. *)
Record gc3 := mkC3 {
  m_b : gpwb; m_cur : list Z; m_D : list Z; m_ok : list Z;
  m_ends : list Z; m_co : option (option Z); m_sent : list (option Z); m_store : option Z
}.
Definition c30 : gc3 := mkC3 pwb0 [] [] [] [] None [] None.

Definition set_b (g : gc3) (b : gpwb) : gc3 := mkC3 b (m_cur g) (m_D g) (m_ok g) (m_ends g) (m_co g) (m_sent g) (m_store g).
(* the invocation of block m_cur is known to have ended with result code r *)
Definition c3_finish (g : gc3) (r : Z) : gc3 :=
  if r =? 2 then g
  else if r =? 0 then mkC3 (m_b g) [] (m_D g) (m_ok g ++ m_cur g) (m_ends g ++ [List.last (m_cur g) 0]) (m_co g) (m_sent g) (m_store g)
  else mkC3 (m_b g) [] (m_D g) (m_ok g) (m_ends g) (m_co g) (m_sent g) (m_store g).

Definition c3_ev (g : gc3) (s : state) (e : event) : gc3 :=
  let b' := pwb_ev (m_b g) s e in
  match e with
  | EStart _ => if is_none (s_startd s) then mkC3 b' (m_cur g) (m_cur g) [] (m_ends g) (m_co g) (m_sent g) (m_store g) else g
  | EProcFire ok => match w_st (b_pw (m_b g)) with
                    | PPend _ => set_b (c3_finish g (if ok then 0 else 1)) b'
                    | _ => set_b g b'
                    end
  | ECommitOk => match m_co g with
                 | Some off => mkC3 b' (m_cur g) (m_D g) (m_ok g) (m_ends g) None (m_sent g) off
                 | None => set_b g b'
                 end
  | ECommitFail _ => mkC3 b' (m_cur g) (m_D g) (m_ok g) (m_ends g) None (m_sent g) (m_store g)
  | _ => set_b g b'
  end.

Definition commit_ok (g : gc3) (off : option Z) : bool :=
  is_prefix (m_ok g) (m_D g)
  && match m_ok g with [] => true | x :: r => oz_eqb off (Some (List.last (m_ok g) 0)) end.

Definition c3_out (g : gc3) (o : output) : option gc3 :=
  match pwb_out (m_b g) o with
  | None => None
  | Some b' =>
    match o with
    | OCallProc blk =>
      let g1 := mkC3 b' blk (m_D g ++ blk) (m_ok g) (m_ends g) (m_co g) (m_sent g) (m_store g) in
      Some (match w_st (b_pw b') with
            | PApi _ _ => g1
            | PPend _ => g1
            | PIdle => c3_finish g1 (if b_bad b' then 1 else 0)
            end)
    | ORet _ | ORaised _ => match w_st (b_pw (m_b g)) with
                            | PApi _ r => Some (set_b (c3_finish g r) b')
                            | _ => Some (set_b g b')
                            end
    | OCancelProc => Some (set_b (c3_finish g 1) b')
    | OCommit off _ =>
      if commit_ok g off
      then Some (mkC3 b' (m_cur g) (m_D g) (m_ok g) (m_ends g) (Some off) (m_sent g ++ [off]) (m_store g))
      else None                      (* VIOLATION: commit ahead of a delivered, unprocessed message *)
    | OCancelReq k => if k =? R_COMMIT then Some (mkC3 b' (m_cur g) (m_D g) (m_ok g) (m_ends g) None (m_sent g) (m_store g))
                      else Some (set_b g b')
    | _ => Some (set_b g b')
    end
  end.

(* what "processed" means for an offset held by the coordinator or carried by a request *)
Definition processed_end (g : gc3) (off : option Z) : Prop :=
  match off with Some l => In l (m_ends g) | None => True end.

(* ---------- monitor REQ2: REQ plus the commit-retry timer ----------
   REQ (Model/ConsumerLog.v) and one more bit, q_ct: the DelayedCall that retries a failed commit request is armed.
   It rejects what REQ rejects, and moreover: arming the commit-retry timer while a commit request is outstanding or the
   timer is already armed; sending a commit request while the timer is armed (the timer's own firing disarms it first).
   Hence: a commit request outstanding and a retry pending are mutually exclusive, at every moment. *)
Record greq2 := mkQ2 { q2 : greq; q_ct : bool }.
Definition q20 : greq2 := mkQ2 q0 false.
Definition req2_ev (g : greq2) (e : event) : greq2 :=
  match e with
  | EFireCommitRetry => mkQ2 (req_ev (q2 g) e) false
  | _ => mkQ2 (req_ev (q2 g) e) (q_ct g)
  end.
Definition req2_out (g : greq2) (o : output) : option greq2 :=
  match req_out (q2 g) o with
  | None => None
  | Some g' =>
    match o with
    | OSched k _ => if k =? T_COMMIT then
                      (if q_ct g || is_some (q_co (q2 g)) then None     (* VIOLATION: retry armed while a request / retry is pending *)
                       else Some (mkQ2 g' true))
                    else Some (mkQ2 g' (q_ct g))
    | OCancelTimer k => Some (mkQ2 g' (if k =? T_COMMIT then false else q_ct g))
    | OCommit _ _ => if q_ct g then None                                 (* VIOLATION: request sent while a retry is armed *)
                     else Some (mkQ2 g' false)
    | _ => Some (mkQ2 g' (q_ct g))
    end
  end.
Definition req2_abs (s : state) : greq2 := mkQ2 (req_abs s) (ccall_active s).
