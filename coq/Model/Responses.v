(* M3: afkak's response decoders, transcribed from /repo/afkak/kafkacodec.py (the tree after the fix: commits
   b4aff1b, daa6c65, e551ee6, e0719d1, 1ba19d3):
     490-512    decode_api_versions_response            514-522    get_response_correlation_id
     584-638    decode_produce_response (v0 / v2)       688-716    decode_fetch_response
     747-768    decode_offset_response                  790-839    decode_metadata_response (MAX_BROKERS = 1024)
     854-865    decode_consumermetadata_response        912-928    decode_offset_commit_response
     957-977    decode_offset_fetch_response            1010-1023  decode_join_group_protocol_metadata
     1025-1044  decode_join_group_response              1060-1068  decode_leave_group_response
     1086-1094  decode_heartbeat_response               1118-1127  decode_sync_group_response
     1141-1159  decode_sync_group_member_assignment
   on top of the primitives of Model.Prim (relative_unpack, read_short_*, read_int_string) and the message-set
   decoder of Model.MsgSet.  These are ALL the public decoders of class KafkaCodec (the two private ones,
   _decode_message_set_iter/_decode_message, are Model.MsgSet).

   Conventions (as Model.Prim / Model.MsgSet)
   * Readers work on the remaining suffix data[cur:].  relative_unpack with a multi-field format (">ihq") is the
     sequence of the single-field reads: same values, and BufferUnderflowError iff one of them underflows.
   * Text is represented by its BYTES (read_short_ascii / read_short_text check decodability: UnicodeErr, and a
     null string is AttrErr); the driver compares value.encode(...).
   * GENERATORS.  decode_produce/fetch/offset/offset_commit/offset_fetch_response are generators.  What a consumer
     can observe is the sequence of items yielded and then exhaustion or an exception: [gen A] = (items yielded,
     Ok remaining-bytes | Err e).  (The remaining bytes of an exhausted generator are not observable; they thread
     the cursor through nested loops.)
   * `for _ in range(n)` with n read from the wire: [for_range] runs on the integer n (n <= 0: no iteration) with
     loop fuel S (length data); every iteration body starts with a read of at least 2 bytes, so the fuel is never
     exhausted (Err Fuel is excluded by the theorems, which prove an Ok result).  No [nat] is ever built from a
     wire integer.
   * dicts (metadata brokers/topics/partitions, assignment topics) are association lists in insertion order with
     Python's update rule [dict_set] (an existing key keeps its position, the value is replaced); traces sort them.
   * FetchResponse.messages is the lazy generator _decode_message_set_iter(message_set): modelled by its full
     observable behaviour [dres] (Model.MsgSet.dec_set) with the compression oracle and the nesting budget.

   Outside the model: decode_produce_response with api_version < 0 raises ValueError when CALLED (the model function
   returns None there); nativeString(host) is the identity on the ASCII text read_short_ascii returns. *)
From AV Require Import Base.Util Model.Prim Model.Crc Model.MsgSet.

(* ------------------------------------------------------------------ generator plumbing *)
Definition gen (A : Type) : Type := (list A * res (list Z))%type.

Definition gfail {A} (e : err) : gen A := ([], Err e).

(* `for _ in range(n): body` where body consumes data and may yield *)
Fixpoint for_range {A} (body : list Z -> gen A) (fuel : nat) (n : Z) (data : list Z) : gen A :=
  if (n <=? 0) then ([], Ok data)
  else match fuel with
       | O => gfail Fuel
       | S f =>
           match body data with
           | (ys, Ok rest) => let (zs, out) := for_range body f (n - 1) rest in (ys ++ zs, out)
           | (ys, Err e) => (ys, Err e)
           end
       end.
Definition loop {A} (body : list Z -> gen A) (n : Z) (data : list Z) : gen A :=
  for_range body (S (length data)) n data.

(* a loop that only collects values (no yield): list of the values read, or the first exception *)
Definition one {A} (rd : list Z -> res (A * list Z)) (data : list Z) : gen A :=
  match rd data with Ok (a, rest) => ([a], Ok rest) | Err e => gfail e end.
Definition read_n {A} (rd : list Z -> res (A * list Z)) (n : Z) (data : list Z) : res (list A * list Z) :=
  match loop (one rd) n data with
  | (xs, Ok rest) => Ok (xs, rest)
  | (_, Err e) => Err e
  end.

(* relative_unpack(">%di" % n, data, cur):  n < 0 -> struct.error ("bad char in struct format");
   fewer than 4n bytes -> BufferUnderflowError; otherwise the n-tuple *)
Definition read_ints (n : Z) (data : list Z) : res (list Z * list Z) :=
  if (n <? 0) then Err StructErr
  else if (len data <? 4 * n) then Err Underflow
  else read_n read_i32 n data.

(* the shape shared by five generators:
     for _ in range(num_topics):
         topic, cur = read_short_ascii(data, cur)
         (num_partitions,), cur = relative_unpack(">i", data, cur)
         for _ in range(num_partitions): <part topic> *)
Definition by_topic {A} (part : list Z -> list Z -> gen A) (data : list Z) : gen A :=
  match (do (t, r1) <- read_short_ascii data; do (np, r2) <- read_i32 r1; Ok (t, np, r2)) with
  | Ok (t, np, r2) => loop (part t) np r2
  | Err e => gfail e
  end.

(* ------------------------------------------------------------------ get_response_correlation_id  :514-522 *)
Definition get_response_correlation_id (data : list Z) : res Z :=
  do (corr, _) <- read_i32 data; Ok corr.

(* ------------------------------------------------------------------ decode_api_versions_response  :490-512
   relative_unpack(">ihi") then struct.iter_unpack(">hhh", data[cur:]): the count field is read and IGNORED; the
   rest of the buffer is cut into 6-byte records; struct.error unless its length is a multiple of 6. *)
Record api_version := mk_api_version { av_key : Z; av_min : Z; av_max : Z }.
Record api_versions_response := mk_api_versions_response { avr_error : Z; avr_versions : list api_version }.

Definition read_api_version (d : list Z) : res (api_version * list Z) :=
  do (k, r1) <- read_i16 d; do (mn, r2) <- read_i16 r1; do (mx, r3) <- read_i16 r2;
  Ok (mk_api_version k mn mx, r3).

Fixpoint iter_unpack {A} (rd : list Z -> res (A * list Z)) (fuel : nat) (data : list Z) : res (list A) :=
  match data with
  | [] => Ok []
  | _ :: _ => match fuel with
              | O => Err Fuel
              | S f => do (a, r) <- rd data; do t <- iter_unpack rd f r; Ok (a :: t)
              end
  end.

Definition decode_api_versions_response (data : list Z) : res api_versions_response :=
  do (corr, r1) <- read_i32 data; do (error, r2) <- read_i16 r1; do (count, r3) <- read_i32 r2;
  if negb (len r3 mod 6 =? 0) then Err StructErr
  else do vs <- iter_unpack read_api_version (length r3) r3;
       Ok (mk_api_versions_response error vs).

(* ------------------------------------------------------------------ decode_produce_response  :584-638 *)
Record produce_item := mk_produce_item { pi_topic : list Z; pi_partition : Z; pi_error : Z; pi_offset : Z }.

(* :601  relative_unpack(">ihq") *)
Definition produce_part_v0 (topic : list Z) (data : list Z) : gen produce_item :=
  match (do (p, r1) <- read_i32 data; do (e, r2) <- read_i16 r1; do (o, r3) <- read_i64 r2; Ok (p, e, o, r3)) with
  | Ok (p, e, o, r3) => ([mk_produce_item topic p e o], Ok r3)
  | Err e => gfail e
  end.
(* :626  relative_unpack(">ihqq"): log_append_time_ms is read and dropped *)
Definition produce_part_v2 (topic : list Z) (data : list Z) : gen produce_item :=
  match (do (p, r1) <- read_i32 data; do (e, r2) <- read_i16 r1; do (o, r3) <- read_i64 r2;
         do (lat, r4) <- read_i64 r3; Ok (p, e, o, r4)) with
  | Ok (p, e, o, r4) => ([mk_produce_item topic p e o], Ok r4)
  | Err e => gfail e
  end.

Definition topics_after_header {A} (part : list Z -> list Z -> gen A) (data : list Z) : gen A :=
  match (do (corr, r1) <- read_i32 data; do (nt, r2) <- read_i32 r1; Ok (nt, r2)) with
  | Ok (nt, r2) => loop (by_topic part) nt r2
  | Err e => gfail e
  end.

Definition decode_produce_v0 (data : list Z) : gen produce_item := topics_after_header produce_part_v0 data.
(* :630  after the loops the throttle time is read (and dropped): an exception there comes after every item *)
Definition decode_produce_v2 (data : list Z) : gen produce_item :=
  match topics_after_header produce_part_v2 data with
  | (ys, Ok rest) => match read_i32 rest with
                     | Ok (_, rest') => (ys, Ok rest')
                     | Err e => (ys, Err e)
                     end
  | (ys, Err e) => (ys, Err e)
  end.
(* :632-638  api_version 0 -> v0; >= 1 -> the VERSION 2 layout (also for version 1, whose responses have no
   log_append_time: see C05_produce_v1_refuted); < 0 -> ValueError at call time (None) *)
Definition decode_produce_response (api_version : Z) (data : list Z) : option (gen produce_item) :=
  if (api_version =? 0) then Some (decode_produce_v0 data)
  else if (1 <=? api_version) then Some (decode_produce_v2 data)
  else None.

(* ------------------------------------------------------------------ decode_fetch_response  :688-716 *)
Record fetch_item := mk_fetch_item
  { fi_topic : list Z; fi_partition : Z; fi_error : Z; fi_hwm : Z;
    fi_messages : dres (* list(FetchResponse.messages): pairs yielded, then outcome *) }.

(* :715  KafkaCodec._decode_message_set_iter(message_set or b""): a null record set (size -1) is treated as the
   empty one (fix 1ba19d3; before it len(None) raised TypeError on the first next()) *)
Definition messages_of (depth : nat) (orc : oracle) (message_set : option (list Z)) : dres :=
  dec_set depth orc (match message_set with Some b => b | None => [] end).

Definition fetch_part (depth : nat) (orc : oracle) (topic : list Z) (data : list Z) : gen fetch_item :=
  match (do (p, r1) <- read_i32 data; do (e, r2) <- read_i16 r1; do (h, r3) <- read_i64 r2;
         do (ms, r4) <- read_int_string r3; Ok (p, e, h, ms, r4)) with
  | Ok (p, e, h, ms, r4) => ([mk_fetch_item topic p e h (messages_of depth orc ms)], Ok r4)
  | Err e => gfail e
  end.

(* :696-699  api_version 0: ">ii"; >= 2: ">iii"; anything else leaves num_topics unbound: UnboundLocalError when
   the generator is first advanced *)
Definition decode_fetch_response (api_version : Z) (depth : nat) (orc : oracle) (data : list Z) : gen fetch_item :=
  if (api_version =? 0) then topics_after_header (fetch_part depth orc) data
  else if (2 <=? api_version) then
    match (do (corr, r1) <- read_i32 data; do (throttle, r2) <- read_i32 r1; do (nt, r3) <- read_i32 r2;
           Ok (nt, r3)) with
    | Ok (nt, r3) => loop (by_topic (fetch_part depth orc)) nt r3
    | Err e => gfail e
    end
  else gfail NameErr.

(* ------------------------------------------------------------------ decode_offset_response  :747-768 *)
Record offset_item := mk_offset_item
  { oi_topic : list Z; oi_partition : Z; oi_error : Z; oi_offsets : list Z }.

Definition offset_part (topic : list Z) (data : list Z) : gen offset_item :=
  match (do (p, r1) <- read_i32 data; do (e, r2) <- read_i16 r1; do (n, r3) <- read_i32 r2;
         do (offs, r4) <- read_n read_i64 n r3; Ok (p, e, offs, r4)) with
  | Ok (p, e, offs, r4) => ([mk_offset_item topic p e offs], Ok r4)
  | Err e => gfail e
  end.
Definition decode_offset_response (data : list Z) : gen offset_item := topics_after_header offset_part data.

(* ------------------------------------------------------------------ decode_offset_commit_response  :912-928 *)
Record commit_item := mk_commit_item { ci_topic : list Z; ci_partition : Z; ci_error : Z }.
Definition commit_part (topic : list Z) (data : list Z) : gen commit_item :=
  match (do (p, r1) <- read_i32 data; do (e, r2) <- read_i16 r1; Ok (p, e, r2)) with
  | Ok (p, e, r2) => ([mk_commit_item topic p e], Ok r2)
  | Err e => gfail e
  end.
Definition decode_offset_commit_response (data : list Z) : gen commit_item := topics_after_header commit_part data.

(* ------------------------------------------------------------------ decode_offset_fetch_response  :957-977 *)
Record ofetch_item := mk_ofetch_item
  { gi_topic : list Z; gi_partition : Z; gi_offset : Z; gi_metadata : option (list Z); gi_error : Z }.
Definition ofetch_part (topic : list Z) (data : list Z) : gen ofetch_item :=
  match (do (p, r1) <- read_i32 data; do (o, r2) <- read_i64 r1; do (md, r3) <- read_short_bytes r2;
         do (e, r4) <- read_i16 r3; Ok (p, o, md, e, r4)) with
  | Ok (p, o, md, e, r4) => ([mk_ofetch_item topic p o md e], Ok r4)
  | Err e => gfail e
  end.
Definition decode_offset_fetch_response (data : list Z) : gen ofetch_item := topics_after_header ofetch_part data.

(* ------------------------------------------------------------------ decode_metadata_response  :790-839 *)
Definition MAX_BROKERS : Z := 1024.

Record broker_metadata := mk_broker_metadata { bm_node : Z; bm_host : list Z; bm_port : Z }.
Record partition_metadata := mk_partition_metadata
  { pm_topic : list Z; pm_partition : Z; pm_error : Z; pm_leader : Z; pm_replicas : list Z; pm_isr : list Z }.
Record topic_metadata := mk_topic_metadata
  { tm_topic : list Z; tm_error : Z; tm_partitions : list (Z * partition_metadata) (* dict by partition id *) }.

(* d[k] = v *)
Fixpoint dict_set {K V} (eqb : K -> K -> bool) (d : list (K * V)) (k : K) (v : V) : list (K * V) :=
  match d with
  | [] => [(k, v)]
  | (k', v') :: r => if eqb k' k then (k', v) :: r else (k', v') :: dict_set eqb r k v
  end.
Definition dict_of {K V} (eqb : K -> K -> bool) (kvs : list (K * V)) : list (K * V) :=
  fold_left (fun d kv => dict_set eqb d (fst kv) (snd kv)) kvs [].

Definition read_broker (d : list Z) : res (broker_metadata * list Z) :=
  do (node, r1) <- read_i32 d; do (host, r2) <- read_short_ascii r1; do (port, r3) <- read_i32 r2;
  Ok (mk_broker_metadata node host port, r3).

Definition read_partition_metadata (topic : list Z) (d : list Z) : res (partition_metadata * list Z) :=
  do (perr, r1) <- read_i16 d; do (p, r2) <- read_i32 r1; do (leader, r3) <- read_i32 r2;
  do (nrep, r4) <- read_i32 r3;
  do (replicas, r5) <- read_ints nrep r4;
  do (nisr, r6) <- read_i32 r5;
  do (isr, r7) <- read_ints nisr r6;
  Ok (mk_partition_metadata topic p perr leader replicas isr, r7).

Definition read_topic_metadata (d : list Z) : res (topic_metadata * list Z) :=
  do (terr, r1) <- read_i16 d; do (name, r2) <- read_short_ascii r1; do (np, r3) <- read_i32 r2;
  do (pms, r4) <- read_n (read_partition_metadata name) np r3;
  Ok (mk_topic_metadata name terr (dict_of Z.eqb (map (fun pm => (pm_partition pm, pm)) pms)), r4).

Definition decode_metadata_response (data : list Z)
  : res (list (Z * broker_metadata) * list (list Z * topic_metadata)) :=
  do (corr, r1) <- read_i32 data; do (nb, r2) <- read_i32 r1;
  if (MAX_BROKERS <? nb) then Err InvalidMessage
  else
    do (bs, r3) <- read_n read_broker nb r2;
    do (nt, r4) <- read_i32 r3;
    do (ts, _) <- read_n read_topic_metadata nt r4;
    Ok (dict_of Z.eqb (map (fun b => (bm_node b, b)) bs),
        dict_of zlist_eqb (map (fun t => (tm_topic t, t)) ts)).

(* ------------------------------------------------------------------ decode_consumermetadata_response  :854-865 *)
Record coordinator_response := mk_coordinator_response
  { cr_error : Z; cr_node : Z; cr_host : list Z; cr_port : Z }.
Definition decode_consumermetadata_response (data : list Z) : res coordinator_response :=
  do (corr, r1) <- read_i32 data; do (error, r2) <- read_i16 r1; do (node, r3) <- read_i32 r2;
  do (host, r4) <- read_short_ascii r3;
  do (port, _) <- read_i32 r4;
  Ok (mk_coordinator_response error node host port).

(* ------------------------------------------------------------------ decode_join_group_protocol_metadata  :1010-1023 *)
Record protocol_metadata := mk_protocol_metadata
  { jm_version : Z; jm_subscriptions : list (list Z); jm_user_data : option (list Z) }.
Definition decode_join_group_protocol_metadata (data : list Z) : res protocol_metadata :=
  do (version, r1) <- read_i16 data; do (n, r2) <- read_i32 r1;
  do (subs, r3) <- read_n read_short_text n r2;
  do (user_data, _) <- read_int_string r3;
  Ok (mk_protocol_metadata version subs user_data).

(* ------------------------------------------------------------------ decode_join_group_response  :1025-1044 *)
Record join_member := mk_join_member { jmb_id : list Z; jmb_metadata : option (list Z) }.
Record join_response := mk_join_response
  { jr_error : Z; jr_generation : Z; jr_protocol : list Z; jr_leader : list Z; jr_member : list Z;
    jr_members : list join_member }.
Definition read_join_member (d : list Z) : res (join_member * list Z) :=
  do (id, r1) <- read_short_text d; do (md, r2) <- read_int_string r1; Ok (mk_join_member id md, r2).
Definition decode_join_group_response (data : list Z) : res join_response :=
  do (corr, r1) <- read_i32 data; do (error, r2) <- read_i16 r1; do (generation, r3) <- read_i32 r2;
  do (protocol, r4) <- read_short_text r3;
  do (leader, r5) <- read_short_text r4;
  do (member, r6) <- read_short_text r5;
  do (n, r7) <- read_i32 r6;
  do (members, _) <- read_n read_join_member n r7;
  Ok (mk_join_response error generation protocol leader member members).

(* ------------------------------------------------------------------ leave group :1060-1068, heartbeat :1086-1094 *)
Definition decode_error_only (data : list Z) : res Z :=
  do (corr, r1) <- read_i32 data; do (error, _) <- read_i16 r1; Ok error.
Definition decode_leave_group_response := decode_error_only.
Definition decode_heartbeat_response := decode_error_only.

(* ------------------------------------------------------------------ decode_sync_group_response  :1118-1127 *)
Definition decode_sync_group_response (data : list Z) : res (Z * option (list Z)) :=
  do (corr, r1) <- read_i32 data; do (error, r2) <- read_i16 r1;
  do (assignment, _) <- read_int_string r2;
  Ok (error, assignment).

(* ------------------------------------------------------------------ decode_sync_group_member_assignment  :1141-1159
   version <> 0 -> ProtocolError (after the two header fields were read); assignments is a dict by topic *)
Record member_assignment := mk_member_assignment
  { ma_version : Z; ma_assignments : list (list Z * list Z); ma_user_data : option (list Z) }.
Definition read_assigned (d : list Z) : res ((list Z * list Z) * list Z) :=
  do (topic, r1) <- read_short_ascii d; do (np, r2) <- read_i32 r1; do (parts, r3) <- read_ints np r2;
  Ok ((topic, parts), r3).
Definition decode_sync_group_member_assignment (data : list Z) : res member_assignment :=
  do (version, r1) <- read_i16 data; do (n, r2) <- read_i32 r1;
  if negb (version =? 0) then Err Protocol
  else
    do (asg, r3) <- read_n read_assigned n r2;
    do (user_data, _) <- read_int_string r3;
    Ok (mk_member_assignment version (dict_of zlist_eqb asg) user_data).
