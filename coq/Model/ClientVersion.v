(* M8c: API version selection.
     afkak/client.py:236        self._api_versions = None if enable_protocol_version_discovery else 0
     afkak/client.py:810-836    KafkaClient.fetch_api_versions
     afkak/client.py:838-850    KafkaClient.get_api_version        (after fix 0d1beff: lookup by API key)
     afkak/client.py:852-860    KafkaClient._handle_api_version_update
     afkak/client.py:693-700    send_produce_request: encoder and decoder both get api_version=api_ver
     afkak/client.py:732-741    send_fetch_request:   encoder and decoder both get api_version=api_ver
     afkak/producer.py:350-360  Producer._send_requests waits for the version lookup (fix b457d1e / f6d21e5)
     afkak/producer.py:403-406  message format: magic 1 iff client._api_versions != 0
     afkak/kafkacodec.py:559-565, 665-669   header version written by the two encoders (Model.Requests)
     afkak/kafkacodec.py:632-638, 696-699   which response layout the two decoders use for an api_version

   The value of KafkaClient._api_versions is [vstate]: None / 0 / the advertised list.
   An ApiVersions attempt made through _send_broker_unaware_request has one of three [outcome]s:
     Answer code table   a response arrived and decoded to ApiVersionResponse(code, table)
     Unavailable         KafkaUnavailableError (no broker answered within the client timeout)
     OtherFailure        any other exception: it propagates, _api_versions stays None, the caller's Deferred fails
   Part 1 is the single-flow function (one lookup at a time), part 2 a small event machine in which several
   get_api_version calls may be in progress at once (each has its own request outstanding). *)
From AV Require Import Base.Util Model.Requests.

Record api_entry := mkEntry { e_key : Z; e_min : Z; e_max : Z }.      (* afkak.common.ApiVersion *)
Definition table : Type := list api_entry.

Inductive vstate := VUnknown | VFallback | VTable (t : table).       (* None | 0 | resp.api_versions *)

Inductive outcome := Answer (error_code : Z) (t : table) | Unavailable | OtherFailure.

(* client.py:236 *)
Definition init_versions (discovery : bool) : vstate := if discovery then VUnknown else VFallback.

(* client.py:852-860 *)
Definition handle_api_version_update (error_code : Z) (t : table) : vstate :=
  if (error_code =? 0) then VTable t else VFallback.

Inductive lookup_result := Pending | Failed | Resolved (st : vstate).

(* client.py:810-836, entered with _api_versions None and nothing else running.
   `while self._api_versions is None and api_version_failures < 3`: an answer ends the loop through `break`
   (whatever its error code); after three KafkaUnavailableError the loop ends with resp None and
   _handle_api_version_update(ApiVersionResponse(-1, [])) stores 0.  [outs] = the outcomes of the successive
   attempts; running out of outcomes = the request is still outstanding. *)
Fixpoint fetch_api_versions_from (failures : nat) (outs : list outcome) : lookup_result :=
  if Nat.leb 3 failures then Resolved (handle_api_version_update (-1) [])
  else match outs with
       | [] => Pending
       | Answer code t :: _ => Resolved (handle_api_version_update code t)
       | Unavailable :: r => fetch_api_versions_from (S failures) r
       | OtherFailure :: _ => Failed
       end.
Definition fetch_api_versions (outs : list outcome) : lookup_result := fetch_api_versions_from O outs.

(* the state in which get_api_version continues after `if self._api_versions is None: yield fetch_api_versions()` *)
Definition resolve (st : vstate) (outs : list outcome) : lookup_result :=
  match st with
  | VUnknown => fetch_api_versions outs
  | _ => Resolved st
  end.

(* client.py:845-850 on a resolved state: the max_version of the FIRST entry whose api_key is [key], else 0.
   (VUnknown cannot occur here: `for ... in None` would be a TypeError - [None].) *)
Fixpoint table_lookup (t : table) (key : Z) : Z :=
  match t with
  | [] => 0
  | e :: r => if (e_key e =? key) then e_max e else table_lookup r key
  end.
Definition version_for (st : vstate) (key : Z) : option Z :=
  match st with
  | VUnknown => None
  | VFallback => Some 0
  | VTable t => Some (table_lookup t key)
  end.

(* kafkacodec.py:632-638 decode_produce_response: layout v0 for 0, layout v2 for >= 1, ValueError below 0 *)
Definition produce_decoder_layout (api_version : Z) : option Z :=
  if (api_version =? 0) then Some 0 else if (1 <=? api_version) then Some 2 else None.
(* kafkacodec.py:696-699 decode_fetch_response: layout v0 for 0, the throttle_time layout (v1 = v2) for >= 2;
   for 1 and for negative values neither branch binds num_topics: UnboundLocalError *)
Definition fetch_decoder_layout (api_version : Z) : option Z :=
  if (api_version =? 0) then Some 0 else if (2 <=? api_version) then Some 2 else None.

(* producer.py:403: evaluated only after the lookup resolved (producer.py:350) *)
Definition producer_magic (st : vstate) : option Z :=
  match st with
  | VUnknown => None
  | VFallback => Some 0
  | VTable _ => Some 1
  end.

Record choice := mkChoice {
  ch_produce_arg : Z;                (* api_ver handed to encode_produce_request AND decode_produce_response *)
  ch_produce_header : Z;             (* version written in the Produce request header *)
  ch_produce_decoder : option Z;     (* layout the reply is decoded with *)
  ch_fetch_arg : Z;
  ch_fetch_header : Z;
  ch_fetch_decoder : option Z;
  ch_magic : Z                       (* format of the messages the Producer builds *)
}.

Definition choose (st : vstate) : option choice :=
  match version_for st PRODUCE_KEY, version_for st FETCH_KEY, producer_magic st with
  | Some pv, Some fv, Some mg =>
      Some (mkChoice pv (produce_header_version pv) (produce_decoder_layout pv)
                     fv (fetch_header_version fv) (fetch_decoder_layout fv) mg)
  | _, _, _ => None
  end.

(* discovery flag + outcomes of the ApiVersions attempts  ->  what the client and the producer then use *)
Definition negotiate (discovery : bool) (outs : list outcome) : option choice :=
  match resolve (init_versions discovery) outs with
  | Resolved st => choose st
  | _ => None
  end.

(* ------------------------------------------------------------------ part 2: overlapping lookups
   Every get_api_version call that finds _api_versions None starts its OWN fetch_api_versions (client.py:843-844):
   nothing is shared between concurrent calls except the cell self._api_versions.
     Call id           a get_api_version call begins (a Producer batch, a Consumer's first fetch, ...)
     Reply id outcome  the ApiVersions request of call [id] completes
     Reset             cached metadata is dropped (after a failed send, on request, at close)
   The FIRST lookup to finish decides (fixes 276cfa2, 8e462bd): client.py:824-828 stores an answer (table, or 0 for
   an answer carrying an error code) only while the cell is still None; client.py:822 re-tests `_api_versions is None`
   after a KafkaUnavailableError; client.py:834-842: when the loop ended without an answer of ITS OWN, 0 is stored
   only if the cell is still None. *)
Inductive event := Call (id : nat) | Reply (id : nat) (o : outcome)
                 | Reset.   (* reset_all_metadata / reset_topic_metadata / reset_consumer_group_metadata
                               (client.py:274-326; reset_all_metadata runs on every failed send, client.py:1367, and
                               in close(), client.py:391): none of them touches _api_versions *)

Record cstate := mkC { cell : vstate; waiting : list (nat * nat) }.     (* (call id, api_version_failures) *)

Definition init_c (discovery : bool) : cstate := mkC (init_versions discovery) [].

Fixpoint find_call (id : nat) (w : list (nat * nat)) : option nat :=
  match w with
  | [] => None
  | (i, f) :: r => if Nat.eqb i id then Some f else find_call id r
  end.
Definition remove_call (id : nat) (w : list (nat * nat)) : list (nat * nat) :=
  filter (fun x => negb (Nat.eqb (fst x) id)) w.
Definition is_unknown (st : vstate) : bool := match st with VUnknown => true | _ => false end.

Definition step (s : cstate) (e : event) : cstate :=
  match e with
  | Call id =>
      if is_unknown (cell s) then
        match find_call id (waiting s) with
        | None => mkC (cell s) (waiting s ++ [(id, O)])       (* first attempt sent *)
        | Some _ => s                                          (* ids are unique: ignored *)
        end
      else s                                                   (* resolved already: answers at once *)
  | Reply id o =>
      match find_call id (waiting s) with
      | None => s                                              (* not enabled *)
      | Some f =>
          match o with
          | Answer code t =>                                     (* fix 8e462bd: client.py:824-828 *)
              mkC (if is_unknown (cell s) then handle_api_version_update code t else cell s)
                  (remove_call id (waiting s))
          | OtherFailure => mkC (cell s) (remove_call id (waiting s))
          | Unavailable =>
              if is_unknown (cell s) && Nat.ltb (S f) 3
              then mkC (cell s) (map (fun x => if Nat.eqb (fst x) id then (id, S f) else x) (waiting s))
              else mkC (if is_unknown (cell s) then handle_api_version_update (-1) [] else cell s)
                       (remove_call id (waiting s))          (* fix 276cfa2: client.py:833-837 *)
          end
      end
  | Reset => s
  end.

Definition run_events (discovery : bool) (evs : list event) : cstate := fold_left step evs (init_c discovery).

(* no two lookups overlap: every Call is issued while no other call is waiting for its answer *)
Fixpoint single_flow_from (s : cstate) (evs : list event) : bool :=
  match evs with
  | [] => true
  | e :: r =>
      match e, waiting s with
      | Call _, _ :: _ => false
      | _, _ => single_flow_from (step s e) r
      end
  end.
Definition single_flow (discovery : bool) (evs : list event) : bool := single_flow_from (init_c discovery) evs.
