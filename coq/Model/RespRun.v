(* Runner entry point `resp` for Model.Responses (afkak's response decoders) and Model.KafkaSpecResp (the independent
   grammar encoder).  Extraction in Run/ExResp.v, Python side harness/props/C05.py.

   CASE LINES (flat integer lists; LP / OLP / MSG / ORACLE / DRES as in Model.CodecRun):
     LP(x) = n x1..xn     OLP(x) = -1 | LP(x)     text is given / reported as its bytes
     ERR = the single integer err_code e >= 1 (Model.Prim)
     GEN(item) = n item*n outcome        outcome 0 = generator exhausted, otherwise the err code of the exception
                                         raised after the n items were yielded

   decoders (afkak, Model.Responses): the input is the response bytes
      1 LP(data)                  get_response_correlation_id      -> 0 corr | ERR
      2 LP(data)                  decode_api_versions_response     -> 0 error n (key min max)*n | ERR
      3 ver LP(data)              decode_produce_response(data, ver), ver >= 0, drained
                                                                   -> GEN(LP(topic) partition error offset)
      4 ver depth ORACLE LP(data) decode_fetch_response(data, ver) drained, every .messages drained
                                                                   -> GEN(LP(topic) partition error hwm DRES)
      5 LP(data)                  decode_offset_response           -> GEN(LP(topic) partition error LP(offsets))
      6 LP(data)                  decode_metadata_response         -> 0 nb (key node LP(host) port)*nb
                                                                        nt (LP(key) LP(name) error np
                                                                            (key partition LP(topic) error leader
                                                                             LP(replicas) LP(isr))*np)*nt | ERR
                                                                      dicts sorted by key (key = the dict key,
                                                                      the other fields are those of the value)
      7 LP(data)                  decode_consumermetadata_response -> 0 error node LP(host) port | ERR
      8 LP(data)                  decode_offset_commit_response    -> GEN(LP(topic) partition error)
      9 LP(data)                  decode_offset_fetch_response     -> GEN(LP(topic) partition offset OLP(metadata) error)
     10 LP(data)                  decode_join_group_protocol_metadata -> 0 version n LP(topic)*n OLP(user_data) | ERR
     11 LP(data)                  decode_join_group_response       -> 0 error generation LP(protocol) LP(leader)
                                                                        LP(member) n (LP(id) OLP(metadata))*n | ERR
     12 LP(data)                  decode_leave_group_response      -> 0 error | ERR
     13 LP(data)                  decode_heartbeat_response        -> 0 error | ERR
     14 LP(data)                  decode_sync_group_response       -> 0 error OLP(assignment) | ERR
     15 LP(data)                  decode_sync_group_member_assignment -> 0 version n (LP(topic) LP(partitions))*n
                                                                        OLP(user_data) | ERR      sorted by topic

   grammar encoder (Model.KafkaSpecResp): the input is an abstract response, the output 0 LP(bytes)
    101 ver corr throttle nt (LP(name) np (index error offset log_append_time)*np)*nt        enc_produce ver
    102 ver corr throttle nt (LP(name) np (index error hwm OLP(records))*np)*nt              enc_fetch ver
    103 corr nt (LP(name) np (index error LP(offsets))*np)*nt                                 enc_offsets
    104 corr nb (node LP(host) port)*nb nt (error LP(name) np (error index leader LP(replicas) LP(isr))*np)*nt
                                                                                              enc_metadata
    105 corr nt (LP(name) np (index error)*np)*nt                                             enc_commit
    106 corr nt (LP(name) np (index offset OLP(metadata) error)*np)*nt                        enc_ofetch
    107 corr error node LP(host) port                                                         enc_coordinator
    108 corr error generation LP(protocol) LP(leader) LP(member) n (LP(id) LP(metadata))*n    enc_join
    109 corr error                                                                            enc_errcode
    110 corr error LP(assignment)                                                             enc_sync
    111 corr error n (key min max)*n                                                          enc_apiversions
    112 version n LP(topic)*n OLP(user_data)                                                  enc_subscription
    113 version n (LP(topic) LP(partitions))*n OLP(user_data)                                 enc_assignment
    114 ORACLE FOREST      enc_kforest gz  with gz x = the recorded gzip_encode answer for x (kind 2; [] if absent)
          FOREST = n TREE*n
          TREE   = 0 offset magic attr ts OLP(key) OLP(value)  |  1 offset magic attr ts OLP(key) FOREST
     16 depth ORACLE LP(data)    _decode_message_set_iter(data) drained: Message.timestamp_type of every message yielded
                                                                   -> n tstype*n outcome      (Model.RespView.py_decoded)

   the theorems' own vocabulary evaluated on a case (Model.RespView wf_ / view_ functions): the input is the abstract
   response exactly as for 101..114; the output is  wf  same  with wf = 1 iff the wf_ predicate of the theorem holds
   and same = 1 iff the trace of decode (enc r) equals the trace of (view r)
    201 ver ...  202 ver ...  203 .. 213          as 101 .. 113 (202: depth 6, no compression oracle)
    214 depth ORACLE FOREST   forest_ok / dec_set depth orc (enc_kforest gz ts) vs view_log (log_of_forest ts)
    215 base attr ts OLP(key) n (abs_offset magic attr ts OLP(key) OLP(value))*n ORACLE
                              broker_batch_v1 base ..: -> 0 LP(enc_ktree gz tree)      (the KIP-31 definition, encoder side)
   Unparseable case -> -99. *)
From AV Require Import Base.Util Model.Prim Model.Crc Model.MsgSet Model.CodecRun Model.KafkaSpecResp Model.Responses
     Model.RespView.

(* ------------------------------------------------------------------ a tiny parser monad over case lines *)
Definition P (A : Type) : Type := list Z -> option (A * list Z).
Definition pbind {A B} (p : P A) (f : A -> P B) : P B :=
  fun l => match p l with Some (a, r) => f a r | None => None end.
Definition pret {A} (a : A) : P A := fun l => Some (a, l).
Notation "'par' x <- p ; k" := (pbind p (fun x => k)) (at level 200, x pattern, p at level 100, k at level 200).
Definition pz : P Z := fun l => match l with x :: r => Some (x, r) | [] => None end.
Definition plp : P (list Z) := take_lp.
Definition polp : P (option (list Z)) := take_olp.
Definition plist {A} (p : P A) : P (list A) := parse_counted p.

(* ------------------------------------------------------------------ abstract responses *)
Definition p_produce_part : P s_produce_part :=
  par i <- pz; par e <- pz; par o <- pz; par t <- pz; pret (mk_s_produce_part i e o t).
Definition p_produce_topic : P s_produce_topic :=
  par n <- plp; par ps <- plist p_produce_part; pret (mk_s_produce_topic n ps).
Definition p_fetch_part : P s_fetch_part :=
  par i <- pz; par e <- pz; par h <- pz; par r <- polp; pret (mk_s_fetch_part i e h r).
Definition p_fetch_topic : P s_fetch_topic :=
  par n <- plp; par ps <- plist p_fetch_part; pret (mk_s_fetch_topic n ps).
Definition p_offsets_part : P s_offsets_part :=
  par i <- pz; par e <- pz; par os <- plp; pret (mk_s_offsets_part i e os).
Definition p_offsets_topic : P s_offsets_topic :=
  par n <- plp; par ps <- plist p_offsets_part; pret (mk_s_offsets_topic n ps).
Definition p_broker : P s_broker := par n <- pz; par h <- plp; par p <- pz; pret (mk_s_broker n h p).
Definition p_meta_part : P s_meta_part :=
  par e <- pz; par i <- pz; par l <- pz; par rs <- plp; par isr <- plp; pret (mk_s_meta_part e i l rs isr).
Definition p_meta_topic : P s_meta_topic :=
  par e <- pz; par n <- plp; par ps <- plist p_meta_part; pret (mk_s_meta_topic e n ps).
Definition p_commit_part : P s_commit_part := par i <- pz; par e <- pz; pret (mk_s_commit_part i e).
Definition p_commit_topic : P s_commit_topic :=
  par n <- plp; par ps <- plist p_commit_part; pret (mk_s_commit_topic n ps).
Definition p_ofetch_part : P s_ofetch_part :=
  par i <- pz; par o <- pz; par m <- polp; par e <- pz; pret (mk_s_ofetch_part i o m e).
Definition p_ofetch_topic : P s_ofetch_topic :=
  par n <- plp; par ps <- plist p_ofetch_part; pret (mk_s_ofetch_topic n ps).
Definition p_member : P s_member := par i <- plp; par m <- plp; pret (mk_s_member i m).
Definition p_apikey : P s_apikey := par k <- pz; par a <- pz; par b <- pz; pret (mk_s_apikey k a b).
Definition p_assigned : P s_assigned := par t <- plp; par ps <- plp; pret (mk_s_assigned t ps).

(* message-set trees: recursion on explicit fuel (the length of the line bounds the number of nodes) *)
Fixpoint p_tree (fuel : nat) : P ktree :=
  match fuel with
  | O => fun _ => None
  | S f =>
      par kind <- pz; par off <- pz; par magic <- pz; par attr <- pz; par ts <- pz; par key <- polp;
      if (kind =? 0) then par value <- polp; pret (KLeaf off (mk_kmsg magic attr ts key value))
      else if (kind =? 1) then par kids <- plist (p_tree f); pret (KWrap off magic attr ts key kids)
      else fun _ => None
  end.

(* the oracle table as a total compression function for the grammar encoder *)
Definition gz_of (orc : oracle) (x : list Z) : list Z :=
  match gz_enc orc x with Ok z => z | Err _ => [] end.

(* ------------------------------------------------------------------ traces *)
Definition out_err (e : err) : list Z := [err_code e].
Definition out_gen {A} (item : A -> list Z) (g : gen A) : list Z :=
  Z.of_nat (length (fst g)) :: flat_map item (fst g)
  ++ [match snd g with Ok _ => 0 | Err e => err_code e end].
Definition out_res {A} (show : A -> list Z) (r : res A) : list Z :=
  match r with Ok a => 0 :: show a | Err e => out_err e end.
Definition out_list {A} (item : A -> list Z) (l : list A) : list Z := Z.of_nat (length l) :: flat_map item l.

(* canonical order for dict traces *)
Fixpoint zlist_leb (a b : list Z) : bool :=
  match a, b with
  | [], _ => true
  | _ :: _, [] => false
  | x :: a', y :: b' => if (x <? y) then true else if (y <? x) then false else zlist_leb a' b'
  end.
Fixpoint insert_by {A} (leb : A -> A -> bool) (x : A) (l : list A) : list A :=
  match l with
  | [] => [x]
  | y :: r => if leb x y then x :: l else y :: insert_by leb x r
  end.
Definition sort_by {A} (leb : A -> A -> bool) (l : list A) : list A := fold_right (insert_by leb) [] l.
Definition sort_zkeys {V} (d : list (Z * V)) : list (Z * V) := sort_by (fun a b => fst a <=? fst b) d.
Definition sort_bkeys {V} (d : list (list Z * V)) : list (list Z * V) := sort_by (fun a b => zlist_leb (fst a) (fst b)) d.

Definition out_produce_item (i : produce_item) : list Z :=
  out_lp (pi_topic i) ++ [pi_partition i; pi_error i; pi_offset i].
Definition out_fetch_item (i : fetch_item) : list Z :=
  out_lp (fi_topic i) ++ [fi_partition i; fi_error i; fi_hwm i] ++ out_dres (fi_messages i).
Definition out_offset_item (i : offset_item) : list Z :=
  out_lp (oi_topic i) ++ [oi_partition i; oi_error i] ++ out_lp (oi_offsets i).
Definition out_commit_item (i : commit_item) : list Z := out_lp (ci_topic i) ++ [ci_partition i; ci_error i].
Definition out_ofetch_item (i : ofetch_item) : list Z :=
  out_lp (gi_topic i) ++ [gi_partition i; gi_offset i] ++ out_olp (gi_metadata i) ++ [gi_error i].
Definition out_broker (kb : Z * broker_metadata) : list Z :=
  [fst kb; bm_node (snd kb)] ++ out_lp (bm_host (snd kb)) ++ [bm_port (snd kb)].
Definition out_partition_metadata (kp : Z * partition_metadata) : list Z :=
  let p := snd kp in
  [fst kp; pm_partition p] ++ out_lp (pm_topic p) ++ [pm_error p; pm_leader p] ++ out_lp (pm_replicas p) ++ out_lp (pm_isr p).
Definition out_topic_metadata (kt : list Z * topic_metadata) : list Z :=
  let t := snd kt in
  out_lp (fst kt) ++ out_lp (tm_topic t) ++ [tm_error t] ++ out_list out_partition_metadata (sort_zkeys (tm_partitions t)).

Definition with_data (r : list Z) (f : list Z -> list Z) : list Z :=
  match take_lp r with Some (d, _) => f d | None => bad end.
Definition spec_out {A} (p : P A) (r : list Z) (enc : A -> list Z) : list Z :=
  match p r with Some (a, _) => 0 :: out_lp (enc a) | None => bad end.

(* ---- traces of the decoders' results (shared by the decoder ops and the wf/view ops) ---- *)
Definition tr_corr (v : res Z) : list Z := out_res (fun corr => [corr]) v.
Definition tr_apiversions (v : res api_versions_response) : list Z :=
  out_res (fun v => avr_error v :: out_list (fun a => [av_key a; av_min a; av_max a]) (avr_versions v)) v.
Definition tr_produce (g : gen produce_item) : list Z := out_gen out_produce_item g.
Definition tr_fetch (g : gen fetch_item) : list Z := out_gen out_fetch_item g.
Definition tr_offsets (g : gen offset_item) : list Z := out_gen out_offset_item g.
Definition tr_metadata (v : res (list (Z * broker_metadata) * list (list Z * topic_metadata))) : list Z :=
  out_res (fun bt => out_list out_broker (sort_zkeys (fst bt)) ++ out_list out_topic_metadata (sort_bkeys (snd bt))) v.
Definition tr_coordinator (v : res coordinator_response) : list Z :=
  out_res (fun v => [cr_error v; cr_node v] ++ out_lp (cr_host v) ++ [cr_port v]) v.
Definition tr_commit (g : gen commit_item) : list Z := out_gen out_commit_item g.
Definition tr_ofetch (g : gen ofetch_item) : list Z := out_gen out_ofetch_item g.
Definition tr_subscription (v : res protocol_metadata) : list Z :=
  out_res (fun v => jm_version v :: out_list out_lp (jm_subscriptions v) ++ out_olp (jm_user_data v)) v.
Definition tr_join (v : res join_response) : list Z :=
  out_res (fun v => [jr_error v; jr_generation v] ++ out_lp (jr_protocol v) ++ out_lp (jr_leader v)
                    ++ out_lp (jr_member v)
                    ++ out_list (fun m => out_lp (jmb_id m) ++ out_olp (jmb_metadata m)) (jr_members v)) v.
Definition tr_errcode (v : res Z) : list Z := out_res (fun e => [e]) v.
Definition tr_sync (v : res (Z * option (list Z))) : list Z := out_res (fun v => fst v :: out_olp (snd v)) v.
Definition tr_assignment (v : res member_assignment) : list Z :=
  out_res (fun v => ma_version v
                    :: out_list (fun tp => out_lp (fst tp) ++ out_lp (snd tp)) (sort_bkeys (ma_assignments v))
                    ++ out_olp (ma_user_data v)) v.

(* ---- abstract-response parsers (shared by the encoder ops 1xx and the wf/view ops 2xx) ---- *)
Definition p_produce : P s_produce :=
  par corr <- pz; par th <- pz; par ts <- plist p_produce_topic; pret (mk_s_produce corr ts th).
Definition p_fetch : P s_fetch :=
  par corr <- pz; par th <- pz; par ts <- plist p_fetch_topic; pret (mk_s_fetch corr th ts).
Definition p_offsets : P s_offsets := par corr <- pz; par ts <- plist p_offsets_topic; pret (mk_s_offsets corr ts).
Definition p_metadata : P s_metadata :=
  par corr <- pz; par bs <- plist p_broker; par ts <- plist p_meta_topic; pret (mk_s_metadata corr bs ts).
Definition p_commit : P s_commit := par corr <- pz; par ts <- plist p_commit_topic; pret (mk_s_commit corr ts).
Definition p_ofetch : P s_ofetch := par corr <- pz; par ts <- plist p_ofetch_topic; pret (mk_s_ofetch corr ts).
Definition p_coordinator : P s_coordinator :=
  par corr <- pz; par e <- pz; par n <- pz; par h <- plp; par p <- pz; pret (mk_s_coordinator corr e n h p).
Definition p_join : P s_join :=
  par corr <- pz; par e <- pz; par g <- pz; par pr <- plp; par l <- plp; par m <- plp;
  par ms <- plist p_member; pret (mk_s_join corr e g pr l m ms).
Definition p_errcode : P s_errcode := par corr <- pz; par e <- pz; pret (mk_s_errcode corr e).
Definition p_sync : P s_sync := par corr <- pz; par e <- pz; par a <- plp; pret (mk_s_sync corr e a).
Definition p_apiversions : P s_apiversions :=
  par corr <- pz; par e <- pz; par ks <- plist p_apikey; pret (mk_s_apiversions corr e ks).
Definition p_subscription : P s_subscription :=
  par v <- pz; par ts <- plist plp; par u <- polp; pret (mk_s_subscription v ts u).
Definition p_assignment : P s_assignment :=
  par v <- pz; par ts <- plist p_assigned; par u <- polp; pret (mk_s_assignment v ts u).

Definition b2z (b : bool) : Z := if b then 1 else 0.
(* wf r, and trace (decode (enc r)) = trace (view r) *)
Definition wf_view {A} (p : P A) (r : list Z) (wf : A -> bool) (got want : A -> list Z) : list Z :=
  match p r with Some (a, _) => [b2z (wf a); b2z (zlist_eqb (got a) (want a))] | None => bad end.

Definition nil_oracle : oracle :=
  mkOracle (fun _ => Err OracleMiss) (fun _ => Err OracleMiss) false (fun _ => Err OracleMiss) (fun _ => Err OracleMiss).
Definition opt_gen {A} (tr : gen A -> list Z) (o : option (gen A)) : list Z := match o with Some g => tr g | None => bad end.

Definition p_abs_msg : P (Z * kmsg) :=
  par off <- pz; par magic <- pz; par attr <- pz; par ts <- pz; par key <- polp; par value <- polp;
  pret (off, mk_kmsg magic attr ts key value).

Definition run_case (c : list Z) : list Z :=
  match c with
  | 1 :: r => with_data r (fun d => tr_corr (get_response_correlation_id d))
  | 2 :: r => with_data r (fun d => tr_apiversions (decode_api_versions_response d))
  | 3 :: ver :: r => with_data r (fun d => opt_gen tr_produce (decode_produce_response ver d))
  | 4 :: ver :: depth :: r =>
      match parse_oracle r with
      | Some (orc, r1) =>
          if (depth <? 0) || (1000 <? depth) then bad
          else with_data r1 (fun d => tr_fetch (decode_fetch_response ver (Z.to_nat depth) orc d))
      | None => bad
      end
  | 5 :: r => with_data r (fun d => tr_offsets (decode_offset_response d))
  | 6 :: r => with_data r (fun d => tr_metadata (decode_metadata_response d))
  | 7 :: r => with_data r (fun d => tr_coordinator (decode_consumermetadata_response d))
  | 8 :: r => with_data r (fun d => tr_commit (decode_offset_commit_response d))
  | 9 :: r => with_data r (fun d => tr_ofetch (decode_offset_fetch_response d))
  | 10 :: r => with_data r (fun d => tr_subscription (decode_join_group_protocol_metadata d))
  | 11 :: r => with_data r (fun d => tr_join (decode_join_group_response d))
  | 12 :: r => with_data r (fun d => tr_errcode (decode_leave_group_response d))
  | 13 :: r => with_data r (fun d => tr_errcode (decode_heartbeat_response d))
  | 14 :: r => with_data r (fun d => tr_sync (decode_sync_group_response d))
  | 15 :: r => with_data r (fun d => tr_assignment (decode_sync_group_member_assignment d))
  | 16 :: depth :: r =>
      match parse_oracle r with
      | Some (orc, r1) =>
          if (depth <? 0) || (1000 <? depth) then bad
          else with_data r1 (fun d =>
                 let dr := dec_set (Z.to_nat depth) orc d in
                 out_list (fun op => [pm_tstype (snd op)]) (py_decoded_set dr)
                 ++ [match snd dr with None => 0 | Some e => err_code e end])
      | None => bad
      end
  (* ---- grammar encoder ---- *)
  | 101 :: ver :: r => spec_out p_produce r (enc_produce ver)
  | 102 :: ver :: r => spec_out p_fetch r (enc_fetch ver)
  | 103 :: r => spec_out p_offsets r enc_offsets
  | 104 :: r => spec_out p_metadata r enc_metadata
  | 105 :: r => spec_out p_commit r enc_commit
  | 106 :: r => spec_out p_ofetch r enc_ofetch
  | 107 :: r => spec_out p_coordinator r enc_coordinator
  | 108 :: r => spec_out p_join r enc_join
  | 109 :: r => spec_out p_errcode r enc_errcode
  | 110 :: r => spec_out p_sync r enc_sync
  | 111 :: r => spec_out p_apiversions r enc_apiversions
  | 112 :: r => spec_out p_subscription r enc_subscription
  | 113 :: r => spec_out p_assignment r enc_assignment
  | 114 :: r =>
      match parse_oracle r with
      | Some (orc, r1) => spec_out (plist (p_tree (length r1))) r1 (enc_kforest (gz_of orc))
      | None => bad
      end
  (* ---- wf_ / view_ of the theorems, evaluated ---- *)
  | 201 :: ver :: r =>
      wf_view p_produce r wf_produce
              (fun a => opt_gen tr_produce (decode_produce_response ver (enc_produce (if (ver =? 0) then 0 else 2) a)))
              (fun a => tr_produce (view_produce a, Ok []))
  | 202 :: ver :: r =>
      wf_view p_fetch r wf_fetch
              (fun a => tr_fetch (decode_fetch_response ver 6 nil_oracle (enc_fetch (if (ver =? 0) then 0 else 2) a)))
              (fun a => tr_fetch (view_fetch 6 nil_oracle a, Ok []))
  | 203 :: r => wf_view p_offsets r wf_offsets (fun a => tr_offsets (decode_offset_response (enc_offsets a)))
                        (fun a => tr_offsets (view_offsets a, Ok []))
  | 204 :: r => wf_view p_metadata r wf_metadata (fun a => tr_metadata (decode_metadata_response (enc_metadata a)))
                        (fun a => tr_metadata (Ok (view_metadata a)))
  | 205 :: r => wf_view p_commit r wf_commit (fun a => tr_commit (decode_offset_commit_response (enc_commit a)))
                        (fun a => tr_commit (view_commit a, Ok []))
  | 206 :: r => wf_view p_ofetch r wf_ofetch (fun a => tr_ofetch (decode_offset_fetch_response (enc_ofetch a)))
                        (fun a => tr_ofetch (view_ofetch a, Ok []))
  | 207 :: r => wf_view p_coordinator r wf_coordinator
                        (fun a => tr_coordinator (decode_consumermetadata_response (enc_coordinator a)))
                        (fun a => tr_coordinator (Ok (view_coordinator a)))
  | 208 :: r => wf_view p_join r wf_join (fun a => tr_join (decode_join_group_response (enc_join a)))
                        (fun a => tr_join (Ok (view_join a)))
  | 209 :: r => wf_view p_errcode r wf_errcode (fun a => tr_errcode (decode_heartbeat_response (enc_errcode a)))
                        (fun a => tr_errcode (Ok (se_error a)))
  | 210 :: r => wf_view p_sync r wf_sync (fun a => tr_sync (decode_sync_group_response (enc_sync a)))
                        (fun a => tr_sync (Ok (ss_error a, Some (ss_assignment a))))
  | 211 :: r => wf_view p_apiversions r wf_apiversions
                        (fun a => tr_apiversions (decode_api_versions_response (enc_apiversions a)))
                        (fun a => tr_apiversions (Ok (view_apiversions a)))
  | 212 :: r => wf_view p_subscription r wf_subscription
                        (fun a => tr_subscription (decode_join_group_protocol_metadata (enc_subscription a)))
                        (fun a => tr_subscription (Ok (view_subscription a)))
  | 213 :: r => wf_view p_assignment r wf_assignment
                        (fun a => tr_assignment (decode_sync_group_member_assignment (enc_assignment a)))
                        (fun a => tr_assignment (Ok (view_assignment a)))
  | 214 :: depth :: r =>
      match parse_oracle r with
      | Some (orc, r1) =>
          if (depth <? 0) || (1000 <? depth) then bad
          else wf_view (plist (p_tree (length r1))) r1 (forest_ok (gz_of orc) (Z.to_nat depth))
                       (fun ts => out_dres (dec_set (Z.to_nat depth) orc (enc_kforest (gz_of orc) ts)))
                       (fun ts => out_dres (view_log (log_of_forest ts), None))
      | None => bad
      end
  | 215 :: base :: attr :: ts :: r =>
      match (par key <- polp; par abs <- plist p_abs_msg; pret (key, abs)) r with
      | Some ((key, abs), r1) =>
          match parse_oracle r1 with
          | Some (orc, _) => 0 :: out_lp (enc_ktree (gz_of orc) (broker_batch_v1 base attr ts key abs))
          | None => bad
          end
      | None => bad
      end
  | _ => bad
  end.
