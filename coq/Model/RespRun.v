(* Runner entry point `resp` for Model.Responses (afkak's response decoders) and Model.KafkaSpecResp (the independent
   grammar encoder).  Extraction in Run/ExResp.v, Python side harness/props/C05.py.

   CASE LINES (flat integer lists; LP / OLP / MSG / ORACLE / DRES as in Model.CodecRun):
     LP(x) = n x1..xn     OLP(x) = -1 | LP(x)     text is given / reported as its bytes
     ERR = the single integer err_code e >= 1 (Model.Prim)
     GEN(item) = n item*n outcome        outcome 0 = generator exhausted, otherwise the err code of the exception
                                         raised after the n items were yielded

   decoders (afkak, Model.Responses): the input is the response bytes
      1 LP(data)                  get_response_correlation_id      -> 0 corr | ERR
      2 LP(data)                  decode_api_versions_response     -> 0 error n (key min max)*n | ERR
      3 ver LP(data)              decode_produce_response(data, ver), ver >= 0, drained
                                                                   -> GEN(LP(topic) partition error offset)
      4 ver depth ORACLE LP(data) decode_fetch_response(data, ver) drained, every .messages drained
                                                                   -> GEN(LP(topic) partition error hwm DRES)
      5 LP(data)                  decode_offset_response           -> GEN(LP(topic) partition error LP(offsets))
      6 LP(data)                  decode_metadata_response         -> 0 nb (key node LP(host) port)*nb
                                                                        nt (LP(key) LP(name) error np
                                                                            (key partition LP(topic) error leader
                                                                             LP(replicas) LP(isr))*np)*nt | ERR
                                                                      dicts sorted by key (key = the dict key,
                                                                      the other fields are those of the value)
      7 LP(data)                  decode_consumermetadata_response -> 0 error node LP(host) port | ERR
      8 LP(data)                  decode_offset_commit_response    -> GEN(LP(topic) partition error)
      9 LP(data)                  decode_offset_fetch_response     -> GEN(LP(topic) partition offset OLP(metadata) error)
     10 LP(data)                  decode_join_group_protocol_metadata -> 0 version n LP(topic)*n OLP(user_data) | ERR
     11 LP(data)                  decode_join_group_response       -> 0 error generation LP(protocol) LP(leader)
                                                                        LP(member) n (LP(id) OLP(metadata))*n | ERR
     12 LP(data)                  decode_leave_group_response      -> 0 error | ERR
     13 LP(data)                  decode_heartbeat_response        -> 0 error | ERR
     14 LP(data)                  decode_sync_group_response       -> 0 error OLP(assignment) | ERR
     15 LP(data)                  decode_sync_group_member_assignment -> 0 version n (LP(topic) LP(partitions))*n
                                                                        OLP(user_data) | ERR      sorted by topic

   grammar encoder (Model.KafkaSpecResp): the input is an abstract response, the output 0 LP(bytes)
    101 ver corr throttle nt (LP(name) np (index error offset log_append_time)*np)*nt        enc_produce ver
    102 ver corr throttle nt (LP(name) np (index error hwm OLP(records))*np)*nt              enc_fetch ver
    103 corr nt (LP(name) np (index error LP(offsets))*np)*nt                                 enc_offsets
    104 corr nb (node LP(host) port)*nb nt (error LP(name) np (error index leader LP(replicas) LP(isr))*np)*nt
                                                                                              enc_metadata
    105 corr nt (LP(name) np (index error)*np)*nt                                             enc_commit
    106 corr nt (LP(name) np (index offset OLP(metadata) error)*np)*nt                        enc_ofetch
    107 corr error node LP(host) port                                                         enc_coordinator
    108 corr error generation LP(protocol) LP(leader) LP(member) n (LP(id) LP(metadata))*n    enc_join
    109 corr error                                                                            enc_errcode
    110 corr error LP(assignment)                                                             enc_sync
    111 corr error n (key min max)*n                                                          enc_apiversions
    112 version n LP(topic)*n OLP(user_data)                                                  enc_subscription
    113 version n (LP(topic) LP(partitions))*n OLP(user_data)                                 enc_assignment
    114 ORACLE FOREST      enc_kforest gz  with gz x = the recorded gzip_encode answer for x (kind 2; [] if absent)
          FOREST = n TREE*n
          TREE   = 0 offset magic attr ts OLP(key) OLP(value)  |  1 offset magic attr ts OLP(key) FOREST
   Unparseable case -> -99. *)
From AV Require Import Base.Util Model.Prim Model.Crc Model.MsgSet Model.CodecRun Model.KafkaSpecResp Model.Responses.

(* ------------------------------------------------------------------ a tiny parser monad over case lines *)
Definition P (A : Type) : Type := list Z -> option (A * list Z).
Definition pbind {A B} (p : P A) (f : A -> P B) : P B :=
  fun l => match p l with Some (a, r) => f a r | None => None end.
Definition pret {A} (a : A) : P A := fun l => Some (a, l).
Notation "'par' x <- p ; k" := (pbind p (fun x => k)) (at level 200, x pattern, p at level 100, k at level 200).
Definition pz : P Z := fun l => match l with x :: r => Some (x, r) | [] => None end.
Definition plp : P (list Z) := take_lp.
Definition polp : P (option (list Z)) := take_olp.
Definition plist {A} (p : P A) : P (list A) := parse_counted p.

(* ------------------------------------------------------------------ abstract responses *)
Definition p_produce_part : P s_produce_part :=
  par i <- pz; par e <- pz; par o <- pz; par t <- pz; pret (mk_s_produce_part i e o t).
Definition p_produce_topic : P s_produce_topic :=
  par n <- plp; par ps <- plist p_produce_part; pret (mk_s_produce_topic n ps).
Definition p_fetch_part : P s_fetch_part :=
  par i <- pz; par e <- pz; par h <- pz; par r <- polp; pret (mk_s_fetch_part i e h r).
Definition p_fetch_topic : P s_fetch_topic :=
  par n <- plp; par ps <- plist p_fetch_part; pret (mk_s_fetch_topic n ps).
Definition p_offsets_part : P s_offsets_part :=
  par i <- pz; par e <- pz; par os <- plp; pret (mk_s_offsets_part i e os).
Definition p_offsets_topic : P s_offsets_topic :=
  par n <- plp; par ps <- plist p_offsets_part; pret (mk_s_offsets_topic n ps).
Definition p_broker : P s_broker := par n <- pz; par h <- plp; par p <- pz; pret (mk_s_broker n h p).
Definition p_meta_part : P s_meta_part :=
  par e <- pz; par i <- pz; par l <- pz; par rs <- plp; par isr <- plp; pret (mk_s_meta_part e i l rs isr).
Definition p_meta_topic : P s_meta_topic :=
  par e <- pz; par n <- plp; par ps <- plist p_meta_part; pret (mk_s_meta_topic e n ps).
Definition p_commit_part : P s_commit_part := par i <- pz; par e <- pz; pret (mk_s_commit_part i e).
Definition p_commit_topic : P s_commit_topic :=
  par n <- plp; par ps <- plist p_commit_part; pret (mk_s_commit_topic n ps).
Definition p_ofetch_part : P s_ofetch_part :=
  par i <- pz; par o <- pz; par m <- polp; par e <- pz; pret (mk_s_ofetch_part i o m e).
Definition p_ofetch_topic : P s_ofetch_topic :=
  par n <- plp; par ps <- plist p_ofetch_part; pret (mk_s_ofetch_topic n ps).
Definition p_member : P s_member := par i <- plp; par m <- plp; pret (mk_s_member i m).
Definition p_apikey : P s_apikey := par k <- pz; par a <- pz; par b <- pz; pret (mk_s_apikey k a b).
Definition p_assigned : P s_assigned := par t <- plp; par ps <- plp; pret (mk_s_assigned t ps).

(* message-set trees: recursion on explicit fuel (the length of the line bounds the number of nodes) *)
Fixpoint p_tree (fuel : nat) : P ktree :=
  match fuel with
  | O => fun _ => None
  | S f =>
      par kind <- pz; par off <- pz; par magic <- pz; par attr <- pz; par ts <- pz; par key <- polp;
      if (kind =? 0) then par value <- polp; pret (KLeaf off (mk_kmsg magic attr ts key value))
      else if (kind =? 1) then par kids <- plist (p_tree f); pret (KWrap off magic attr ts key kids)
      else fun _ => None
  end.

(* the oracle table as a total compression function for the grammar encoder *)
Definition gz_of (orc : oracle) (x : list Z) : list Z :=
  match gz_enc orc x with Ok z => z | Err _ => [] end.

(* ------------------------------------------------------------------ traces *)
Definition out_err (e : err) : list Z := [err_code e].
Definition out_gen {A} (item : A -> list Z) (g : gen A) : list Z :=
  Z.of_nat (length (fst g)) :: flat_map item (fst g)
  ++ [match snd g with Ok _ => 0 | Err e => err_code e end].
Definition out_res {A} (show : A -> list Z) (r : res A) : list Z :=
  match r with Ok a => 0 :: show a | Err e => out_err e end.
Definition out_list {A} (item : A -> list Z) (l : list A) : list Z := Z.of_nat (length l) :: flat_map item l.

(* canonical order for dict traces *)
Fixpoint zlist_leb (a b : list Z) : bool :=
  match a, b with
  | [], _ => true
  | _ :: _, [] => false
  | x :: a', y :: b' => if (x <? y) then true else if (y <? x) then false else zlist_leb a' b'
  end.
Fixpoint insert_by {A} (leb : A -> A -> bool) (x : A) (l : list A) : list A :=
  match l with
  | [] => [x]
  | y :: r => if leb x y then x :: l else y :: insert_by leb x r
  end.
Definition sort_by {A} (leb : A -> A -> bool) (l : list A) : list A := fold_right (insert_by leb) [] l.
Definition sort_zkeys {V} (d : list (Z * V)) : list (Z * V) := sort_by (fun a b => fst a <=? fst b) d.
Definition sort_bkeys {V} (d : list (list Z * V)) : list (list Z * V) := sort_by (fun a b => zlist_leb (fst a) (fst b)) d.

Definition out_produce_item (i : produce_item) : list Z :=
  out_lp (pi_topic i) ++ [pi_partition i; pi_error i; pi_offset i].
Definition out_fetch_item (i : fetch_item) : list Z :=
  out_lp (fi_topic i) ++ [fi_partition i; fi_error i; fi_hwm i] ++ out_dres (fi_messages i).
Definition out_offset_item (i : offset_item) : list Z :=
  out_lp (oi_topic i) ++ [oi_partition i; oi_error i] ++ out_lp (oi_offsets i).
Definition out_commit_item (i : commit_item) : list Z := out_lp (ci_topic i) ++ [ci_partition i; ci_error i].
Definition out_ofetch_item (i : ofetch_item) : list Z :=
  out_lp (gi_topic i) ++ [gi_partition i; gi_offset i] ++ out_olp (gi_metadata i) ++ [gi_error i].
Definition out_broker (kb : Z * broker_metadata) : list Z :=
  [fst kb; bm_node (snd kb)] ++ out_lp (bm_host (snd kb)) ++ [bm_port (snd kb)].
Definition out_partition_metadata (kp : Z * partition_metadata) : list Z :=
  let p := snd kp in
  [fst kp; pm_partition p] ++ out_lp (pm_topic p) ++ [pm_error p; pm_leader p] ++ out_lp (pm_replicas p) ++ out_lp (pm_isr p).
Definition out_topic_metadata (kt : list Z * topic_metadata) : list Z :=
  let t := snd kt in
  out_lp (fst kt) ++ out_lp (tm_topic t) ++ [tm_error t] ++ out_list out_partition_metadata (sort_zkeys (tm_partitions t)).

Definition with_data (r : list Z) (f : list Z -> list Z) : list Z :=
  match take_lp r with Some (d, _) => f d | None => bad end.
Definition spec_out {A} (p : P A) (r : list Z) (enc : A -> list Z) : list Z :=
  match p r with Some (a, _) => 0 :: out_lp (enc a) | None => bad end.

Definition run_case (c : list Z) : list Z :=
  match c with
  | 1 :: r => with_data r (fun d => out_res (fun corr => [corr]) (get_response_correlation_id d))
  | 2 :: r => with_data r (fun d =>
      out_res (fun v => avr_error v :: out_list (fun a => [av_key a; av_min a; av_max a]) (avr_versions v))
              (decode_api_versions_response d))
  | 3 :: ver :: r => with_data r (fun d =>
      match decode_produce_response ver d with
      | Some g => out_gen out_produce_item g
      | None => bad
      end)
  | 4 :: ver :: depth :: r =>
      match parse_oracle r with
      | Some (orc, r1) =>
          if (depth <? 0) || (1000 <? depth) then bad
          else with_data r1 (fun d =>
                 out_gen out_fetch_item (decode_fetch_response ver (Z.to_nat depth) orc d))
      | None => bad
      end
  | 5 :: r => with_data r (fun d => out_gen out_offset_item (decode_offset_response d))
  | 6 :: r => with_data r (fun d =>
      out_res (fun bt => out_list out_broker (sort_zkeys (fst bt)) ++ out_list out_topic_metadata (sort_bkeys (snd bt)))
              (decode_metadata_response d))
  | 7 :: r => with_data r (fun d =>
      out_res (fun v => [cr_error v; cr_node v] ++ out_lp (cr_host v) ++ [cr_port v])
              (decode_consumermetadata_response d))
  | 8 :: r => with_data r (fun d => out_gen out_commit_item (decode_offset_commit_response d))
  | 9 :: r => with_data r (fun d => out_gen out_ofetch_item (decode_offset_fetch_response d))
  | 10 :: r => with_data r (fun d =>
      out_res (fun v => jm_version v :: out_list out_lp (jm_subscriptions v) ++ out_olp (jm_user_data v))
              (decode_join_group_protocol_metadata d))
  | 11 :: r => with_data r (fun d =>
      out_res (fun v => [jr_error v; jr_generation v] ++ out_lp (jr_protocol v) ++ out_lp (jr_leader v)
                        ++ out_lp (jr_member v)
                        ++ out_list (fun m => out_lp (jmb_id m) ++ out_olp (jmb_metadata m)) (jr_members v))
              (decode_join_group_response d))
  | 12 :: r => with_data r (fun d => out_res (fun e => [e]) (decode_leave_group_response d))
  | 13 :: r => with_data r (fun d => out_res (fun e => [e]) (decode_heartbeat_response d))
  | 14 :: r => with_data r (fun d =>
      out_res (fun v => fst v :: out_olp (snd v)) (decode_sync_group_response d))
  | 15 :: r => with_data r (fun d =>
      out_res (fun v => ma_version v
                        :: out_list (fun tp => out_lp (fst tp) ++ out_lp (snd tp)) (sort_bkeys (ma_assignments v))
                        ++ out_olp (ma_user_data v))
              (decode_sync_group_member_assignment d))
  (* ---- grammar encoder ---- *)
  | 101 :: ver :: r =>
      spec_out (par corr <- pz; par th <- pz; par ts <- plist p_produce_topic; pret (mk_s_produce corr ts th)) r
               (enc_produce ver)
  | 102 :: ver :: r =>
      spec_out (par corr <- pz; par th <- pz; par ts <- plist p_fetch_topic; pret (mk_s_fetch corr th ts)) r
               (enc_fetch ver)
  | 103 :: r => spec_out (par corr <- pz; par ts <- plist p_offsets_topic; pret (mk_s_offsets corr ts)) r enc_offsets
  | 104 :: r =>
      spec_out (par corr <- pz; par bs <- plist p_broker; par ts <- plist p_meta_topic; pret (mk_s_metadata corr bs ts))
               r enc_metadata
  | 105 :: r => spec_out (par corr <- pz; par ts <- plist p_commit_topic; pret (mk_s_commit corr ts)) r enc_commit
  | 106 :: r => spec_out (par corr <- pz; par ts <- plist p_ofetch_topic; pret (mk_s_ofetch corr ts)) r enc_ofetch
  | 107 :: r =>
      spec_out (par corr <- pz; par e <- pz; par n <- pz; par h <- plp; par p <- pz; pret (mk_s_coordinator corr e n h p))
               r enc_coordinator
  | 108 :: r =>
      spec_out (par corr <- pz; par e <- pz; par g <- pz; par pr <- plp; par l <- plp; par m <- plp;
                par ms <- plist p_member; pret (mk_s_join corr e g pr l m ms)) r enc_join
  | 109 :: r => spec_out (par corr <- pz; par e <- pz; pret (mk_s_errcode corr e)) r enc_errcode
  | 110 :: r => spec_out (par corr <- pz; par e <- pz; par a <- plp; pret (mk_s_sync corr e a)) r enc_sync
  | 111 :: r =>
      spec_out (par corr <- pz; par e <- pz; par ks <- plist p_apikey; pret (mk_s_apiversions corr e ks)) r
               enc_apiversions
  | 112 :: r =>
      spec_out (par v <- pz; par ts <- plist plp; par u <- polp; pret (mk_s_subscription v ts u)) r enc_subscription
  | 113 :: r =>
      spec_out (par v <- pz; par ts <- plist p_assigned; par u <- polp; pret (mk_s_assignment v ts u)) r enc_assignment
  | 114 :: r =>
      match parse_oracle r with
      | Some (orc, r1) => spec_out (plist (p_tree (length r1))) r1 (enc_kforest (gz_of orc))
      | None => bad
      end
  | _ => bad
  end.
