(* M9: afkak/producer.py  Producer  (send_messages, stop, _next_partition, _send_requests, _complete_batch_send,
   _check_send_batch, _send_batch, _cancel_send_messages, _handle_send_response and its inner functions,
   _cancel_outstanding, the LoopingCall) as a state machine  step : cfg -> state -> event -> state * list output
   over the contract of KafkaClient (client.py: send_produce_request -> _send_broker_aware_request ->
   _handle_responses; FailedPayloadsError(responses, failed_payloads); metadata_error_for_topic /
   load_metadata_for_topics / reset_topic_metadata; topic_partitions; _api_versions / get_api_version)
   and create_message_set (kafkacodec.py:1223-1249: messages of the requests of a payload, in request order).
   Definitions only.  Twisted Deferred semantics as in DESIGN.md section 2: every synchronous callback chain is
   part of the step of the event that starts it, in the order of the Python code. *)
From AV Require Import Base.Util.

(* ------------------------------------------------------------------ vocabulary *)
Definition tp := (Z * Z)%type.                       (* (topic, partition) *)
Definition tp_eqb (a b : tp) : bool := (fst a =? fst b) && (snd a =? snd b).

(* a SendRequest accepted by send_messages (producer.py:241-247).  s_choice is the partition the partitioner
   object returns for this request (an oracle: read back from the implementation; < 0: the partitioner raised an
   exception of kind -choice-1).  The partitioner is called at most once per request (_send_batch, 466-469). *)
Record send := { s_id : Z; s_topic : Z; s_choice : Z; s_cnt : Z; s_bytes : Z }.

(* failure kinds (the exception class of a Failure, as a small integer) *)
Definition K_CANCEL := 2.       (* afkak.common.CancelledError(request_sent=flag) *)
Definition K_TIDCANCEL := 3.    (* twisted.internet.defer.CancelledError *)
Definition K_NORESP := 4.       (* NoResponseError *)
Definition K_TYPE := 5.
Definition K_VALUE := 6.
Definition K_KEY := 9.          (* KeyError: client.topic_partitions[topic] *)
Definition K_BROKER := 1000.    (* BrokerResponseError with errno e is K_BROKER + e *)

Inductive lres := LOk (p : Z) | LFail (k : Z).
(* one _next_partition generator: finished, waiting for load_metadata_for_topics, or waiting for its retry timer *)
Inductive lstate := LDone (r : lres) | LLoad (lid : Z) | LTimer (tid : Z).

(* a ProduceRequest payload of the batch in flight with the requests whose Deferreds ride on it
   (payloadsByTopicPart / deferredsByTopicPart, producer.py:360-409) *)
Record payload := { p_tp : tp; p_sends : list send }.

(* what the Deferred of client.send_produce_request may deliver *)
Inductive value :=
| VEmpty                                                     (* [] / None / False *)
| VResp (rs : list (tp * Z * Z))                             (* [ProduceResponse(topic, partition, error, offset)] *)
| VFailed (rs : list (tp * Z * Z)) (fs : list (tp * Z))      (* FailedPayloadsError(responses, [(payload, Failure kind)]) *)
| VKafka (k : Z)                                             (* Failure(KafkaError) other than FailedPayloadsError *)
| VOther (k : Z).                                            (* any other Failure *)

Inductive event :=
| ESend (topic choice cnt bytes : Z)      (* send_messages(topic, key, msgs); the model numbers sends 0,1,2... *)
| EBadSend (k : Z)                        (* send_messages with bad arguments: TypeError / ValueError *)
| ECancel (sid : Z)                       (* .cancel() of the Deferred returned for send sid *)
| ETick                                   (* the LoopingCall fires *)
| EMetaSet (t err : Z) (hp : bool)        (* the client's metadata cache for topic t changes *)
| EMetaClearAll                           (* client.reset_all_metadata() *)
| ELoadDone (lid : Z) (ok : bool) (k : Z) (* the Deferred of load_metadata_for_topics fires (True / Failure k) *)
| ETimer (tid : Z)                        (* a retry timer armed by the producer fires *)
| EVersion (r : Z)                        (* get_api_version fires: 0 -> _api_versions = 0, 1 -> a table, else Failure r *)
| EResult (v : value)                     (* the outstanding send_produce_request Deferred fires *)
| EResultOmit (v : value)                 (* ... with a result OUTSIDE the client contract: some payload of the request is
                                             neither answered nor failed (a broker omitted a partition from its response;
                                             client.py:1357 drops missing keys).  Outside the honest-broker fault model. *)
| EBroken (b : bool)                      (* from now on (b = true) building the message set or handing the request to the
                                             client raises: create_message_set with a codec whose library is missing,
                                             send_produce_request raising synchronously (known finding F-C01-5) *)
| EStop (cv : option value).              (* stop(); cv = what the client's Deferred does when cancelled (None: nothing) *)

Inductive outcome :=
| OResp (t p err off : Z)                 (* callback(ProduceResponse) *)
| ONone                                   (* callback(None) *)
| OFail (k flag : Z).                     (* errback; flag = request_sent for K_CANCEL *)

Inductive output :=
| OSendProduce (attempt magic : Z) (pls : list (tp * list (Z * Z)))   (* message ids (sid, index) in order *)
| OSched (tid k kind : Z)                 (* reactor.callLater(init * F^k); kind 0 lookup, 1 batch retry *)
| OCancelTimer (tid : Z)
| OResetMeta (ts : list Z)                (* client.reset_topic_metadata of the topics ts *)
| OLoadMeta (lid t : Z)                   (* client.load_metadata_for_topics(t) *)
| OGetVersion                             (* client.get_api_version(PRODUCE_KEY) *)
| OOutcome (sid : Z) (o : outcome)
| ODispatch (sids : list Z)               (* ghost: _send_batch took these requests from the queue *)
| OBatchDone.                             (* ghost: _complete_batch_send ran *)

Inductive phase :=
| Idle                                                        (* _batch_send_d is None *)
| Looking (reqs : list send) (ls : list lstate)               (* waiting on the DeferredList of lookups *)
| VerWait (reqs : list send) (res : list lres)                (* waiting on get_api_version *)
| Sending (pls : list payload) (cur : list tp)                (* waiting on send_produce_request(cur) *)
| RetryWait (pls : list payload) (cur : list tp) (tid : Z).   (* waiting on the retry Deferred *)

Record cfg := { c_acks : Z; c_n : Z; c_b : Z; c_max : Z }.

Record state := {
  queue : list send; wcnt : Z; wbytes : Z;       (* _batch_reqs, _waitingMsgCount, _waitingByteCount *)
  outstanding : list Z;                          (* _outstanding (send ids, submission order) *)
  ph : phase;
  attempts : Z; didx : Z;                        (* _req_attempts; _retry_interval = init * F^didx *)
  nsp : Z;                                       (* ghost: produce requests of the batch in flight *)
  stopping : bool; looper : bool;                (* self.stopping; the LoopingCall is running *)
  api : Z;                                       (* client._api_versions: 0 None, 1 the integer 0, 2 a table *)
  cache : list (Z * (Z * bool));                 (* topic -> (topic_errors[topic], topic in topic_partitions) *)
  nsend : Z; nload : Z; ntimer : Z;              (* identifiers handed out so far *)
  broken : bool                                  (* building / handing over a produce request raises (EBroken) *)
}.

Definition init_state (has_t : bool) (api0 : Z) (cache0 : list (Z * (Z * bool))) : state :=
  {| queue := []; wcnt := 0; wbytes := 0; outstanding := []; ph := Idle; attempts := 0; didx := 0; nsp := 0;
     stopping := false; looper := has_t; api := api0; cache := cache0; nsend := 0; nload := 0; ntimer := 0;
     broken := false |}.

(* record updates *)
Definition set_queue (s : state) q c b :=
  {| queue := q; wcnt := c; wbytes := b; outstanding := outstanding s; ph := ph s; attempts := attempts s;
     didx := didx s; nsp := nsp s; stopping := stopping s; looper := looper s; api := api s; cache := cache s;
     nsend := nsend s; nload := nload s; ntimer := ntimer s; broken := broken s |}.
Definition set_outstanding (s : state) o :=
  {| queue := queue s; wcnt := wcnt s; wbytes := wbytes s; outstanding := o; ph := ph s; attempts := attempts s;
     didx := didx s; nsp := nsp s; stopping := stopping s; looper := looper s; api := api s; cache := cache s;
     nsend := nsend s; nload := nload s; ntimer := ntimer s; broken := broken s |}.
Definition set_ph (s : state) p :=
  {| queue := queue s; wcnt := wcnt s; wbytes := wbytes s; outstanding := outstanding s; ph := p; attempts := attempts s;
     didx := didx s; nsp := nsp s; stopping := stopping s; looper := looper s; api := api s; cache := cache s;
     nsend := nsend s; nload := nload s; ntimer := ntimer s; broken := broken s |}.
Definition set_retry (s : state) a d n :=
  {| queue := queue s; wcnt := wcnt s; wbytes := wbytes s; outstanding := outstanding s; ph := ph s; attempts := a;
     didx := d; nsp := n; stopping := stopping s; looper := looper s; api := api s; cache := cache s;
     nsend := nsend s; nload := nload s; ntimer := ntimer s; broken := broken s |}.
Definition set_flags (s : state) st lp :=
  {| queue := queue s; wcnt := wcnt s; wbytes := wbytes s; outstanding := outstanding s; ph := ph s; attempts := attempts s;
     didx := didx s; nsp := nsp s; stopping := st; looper := lp; api := api s; cache := cache s;
     nsend := nsend s; nload := nload s; ntimer := ntimer s; broken := broken s |}.
Definition set_client (s : state) a c :=
  {| queue := queue s; wcnt := wcnt s; wbytes := wbytes s; outstanding := outstanding s; ph := ph s; attempts := attempts s;
     didx := didx s; nsp := nsp s; stopping := stopping s; looper := looper s; api := a; cache := c;
     nsend := nsend s; nload := nload s; ntimer := ntimer s; broken := broken s |}.
Definition set_broken (s : state) b :=
  {| queue := queue s; wcnt := wcnt s; wbytes := wbytes s; outstanding := outstanding s; ph := ph s; attempts := attempts s;
     didx := didx s; nsp := nsp s; stopping := stopping s; looper := looper s; api := api s; cache := cache s;
     nsend := nsend s; nload := nload s; ntimer := ntimer s; broken := b |}.
Definition set_ids (s : state) a b c :=
  {| queue := queue s; wcnt := wcnt s; wbytes := wbytes s; outstanding := outstanding s; ph := ph s; attempts := attempts s;
     didx := didx s; nsp := nsp s; stopping := stopping s; looper := looper s; api := api s; cache := cache s;
     nsend := a; nload := b; ntimer := c; broken := broken s |}.

(* ------------------------------------------------------------------ the client's metadata cache
   client.py:331-332 metadata_error_for_topic = topic_errors.get(topic, 3); 274-301 reset_topic_metadata *)
Fixpoint cache_get (c : list (Z * (Z * bool))) (t : Z) : Z * bool :=
  match c with
  | [] => (3, false)
  | (t', v) :: r => if t' =? t then v else cache_get r t
  end.
Definition cache_del (c : list (Z * (Z * bool))) (t : Z) := filter (fun e => negb (fst e =? t)) c.
Definition cache_set (c : list (Z * (Z * bool))) (t : Z) (v : Z * bool) := (t, v) :: cache_del c t.
Definition cache_reset (c : list (Z * (Z * bool))) (ts : list Z) := fold_left cache_del ts c.

(* ------------------------------------------------------------------ small helpers *)
Definition zmem (x : Z) (l : list Z) : bool := existsb (Z.eqb x) l.
Definition zremove (x : Z) (l : list Z) : list Z := filter (fun y => negb (y =? x)) l.
Definition tpmem (x : tp) (l : list tp) : bool := existsb (tp_eqb x) l.

(* message ids of a request: (sid, 0) .. (sid, cnt-1) *)
Definition msgs_of (s : send) : list (Z * Z) := map (fun i => (s_id s, Z.of_nat i)) (seq 0 (Z.to_nat (s_cnt s))).
(* create_message_set: messages of the requests, in request order (kafkacodec.py:1244-1249) *)
Definition payload_view (p : payload) : tp * list (Z * Z) := (p_tp p, flat_map msgs_of (p_sends p)).

(* the message format: magic 1 unless client._api_versions == 0 (producer.py:403-406) *)
Definition magic_of (s : state) : Z := if api s =? 1 then 0 else 1.

(* _deliver_result on a list of Deferreds: fire those not yet called (producer.py:550-565); firing removes the
   Deferred from _outstanding (248, 704-707) *)
Fixpoint deliver (s : state) (l : list send) (o : outcome) : state * list output :=
  match l with
  | [] => (s, [])
  | x :: r =>
      if zmem (s_id x) (outstanding s) then
        let '(s', out) := deliver (set_outstanding s (zremove (s_id x) (outstanding s))) r o in
        (s', OOutcome (s_id x) o :: out)
      else deliver s r o
  end.

Definition find_payload (pls : list payload) (x : tp) : option payload :=
  find (fun p => tp_eqb (p_tp p) x) pls.
Definition sends_of (pls : list payload) (x : tp) : list send :=
  match find_payload pls x with Some p => p_sends p | None => [] end.
Definition all_sends (pls : list payload) : list send := flat_map p_sends pls.

(* ------------------------------------------------------------------ _next_partition (producer.py:298-343) *)
(* after the while loop: partitions = client.topic_partitions[topic]; partitioner.partition(key, partitions) *)
Definition resolve (hp : bool) (x : send) : lres :=
  if negb hp then LFail K_KEY
  else if s_choice x <? 0 then LFail (- s_choice x - 1)
  else LOk (s_choice x).

(* from the loop head (307-319) *)
Definition lookup_head (c : cfg) (s : state) (x : send) : state * list output * lstate :=
  let '(err, hp) := cache_get (cache s) (s_topic x) in
  if err =? 0 then (s, [], LDone (resolve hp x))
  else if c_max c <=? attempts s then (s, [], LDone (LFail (K_BROKER + err)))
  else (set_ids s (nsend s) (nload s + 1) (ntimer s), [OLoadMeta (nload s) (s_topic x)], LLoad (nload s)).

(* the load Deferred fired with a non-failure (320-331) *)
Definition lookup_loaded (c : cfg) (s : state) (x : send) : state * list output * lstate :=
  if stopping s then (s, [], LDone (LFail K_TIDCANCEL))
  else
    let '(err, hp) := cache_get (cache s) (s_topic x) in
    if err =? 0 then (s, [], LDone (resolve hp x))
    else
      let s1 := set_retry s (attempts s + 1) (didx s + 1) (nsp s) in
      (set_ids s1 (nsend s1) (nload s1) (ntimer s1 + 1), [OSched (ntimer s) (didx s) 0], LTimer (ntimer s)).

(* apply f to the lookups of the batch in list order, threading the state; f returns None to leave one alone *)
Fixpoint map_lookups (f : state -> send -> lstate -> option (state * list output * lstate))
         (s : state) (reqs : list send) (ls : list lstate) : state * list output * list lstate :=
  match reqs, ls with
  | x :: reqs', l :: ls' =>
      match f s x l with
      | Some (s1, o1, l1) =>
          let '(s2, o2, ls2) := map_lookups f s1 reqs' ls' in (s2, o1 ++ o2, l1 :: ls2)
      | None =>
          let '(s2, o2, ls2) := map_lookups f s reqs' ls' in (s2, o2, l :: ls2)
      end
  | _, _ => (s, [], ls)
  end.

Definition all_done (ls : list lstate) : option (list lres) :=
  fold_right (fun l acc => match l, acc with LDone r, Some rs => Some (r :: rs) | _, _ => None end) (Some []) ls.

(* ------------------------------------------------------------------ _send_requests (345-421) *)
(* add a request to the payload of its topic-partition, a new payload going to the end (dict insertion order) *)
Fixpoint add_to_payload (pls : list payload) (x : tp) (r : send) : list payload :=
  match pls with
  | [] => [{| p_tp := x; p_sends := [r] |}]
  | p :: rest => if tp_eqb (p_tp p) x then {| p_tp := x; p_sends := p_sends p ++ [r] |} :: rest
                 else p :: add_to_payload rest x r
  end.

(* the loop 370-390: skip called, errback failed lookups, group the others *)
Fixpoint group_requests (s : state) (reqs : list send) (res : list lres) (pls : list payload)
  : state * list output * list payload :=
  match reqs, res with
  | x :: reqs', r :: res' =>
      if negb (zmem (s_id x) (outstanding s)) then group_requests s reqs' res' pls
      else match r with
           | LFail k =>
               let '(s1, o1) := deliver s [x] (OFail k 0) in
               let '(s2, o2, pls2) := group_requests s1 reqs' res' pls in (s2, o1 ++ o2, pls2)
           | LOk p => group_requests s reqs' res' (add_to_payload pls (s_topic x, p) x)
           end
  | _, _ => (s, [], pls)
  end.

(* _complete_batch_send (423-439) without the _check_send_batch that follows it *)
Definition finish0 (s : state) : state * list output :=
  (set_retry (set_ph s Idle) 0 0 0, [OBatchDone]).

Definition threshold (c : cfg) (s : state) : bool :=
  (negb (c_n c =? 0) && (c_n c <=? wcnt s)) || (negb (c_b c =? 0) && (c_b c <=? wbytes s)).

(* Helpers that may end the batch return a flag instead of calling _complete_batch_send themselves: in the Python
   code the end of the batch is always the LAST thing they do (the Deferred chain of _batch_send_d then runs
   _complete_batch_send and _check_send_batch, 488-490); [step] runs that epilogue. *)
Definition R := (state * list output * bool)%type.

(* the errback of the version wait (350-354) *)
Definition version_failed (s : state) (reqs : list send) (k : Z) : R :=
  let '(s1, o1) := deliver s reqs (OFail k 0) in (s1, o1, true).

Definition send_requests (s : state) (reqs : list send) (res : list lres) : R :=
  if stopping s then (s, [], true)                                               (* 345-347 *)
  else if api s =? 0 then (set_ph s (VerWait reqs res), [OGetVersion], false)    (* 348-360 *)
  else
    let '(s1, o1, pls) := group_requests s reqs res [] in
    match pls with
    | [] => (s1, o1, true)                                                       (* 410-412 *)
    | _ =>
        if broken s1 then (s1, o1, true)   (* create_message_set / send_produce_request raised (403-417): the exception
                                              goes up the chain, _complete_batch_send logs it (433-438); no Deferred of the
                                              payloads is fired - F-C01-5 *)
        else
        let s2 := set_retry (set_ph s1 (Sending pls (map p_tp pls))) (attempts s1 + 1) (didx s1) 1 in
        (s2, o1 ++ [OSendProduce 1 (magic_of s1) (map payload_view pls)], false) (* 414-420 *)
    end.

(* the DeferredList fires once every lookup is done (483-485) *)
Definition lookups_progress (s : state) (reqs : list send) (ls : list lstate) : R :=
  match all_done ls with
  | Some res => send_requests s reqs res
  | None => (set_ph s (Looking reqs ls), [], false)
  end.

(* _send_batch (450-492) once its guard passed.  The queue is empty afterwards, so the _check_send_batch that ends a
   batch completing inside this call finds nothing to send: finish0 only. *)
Definition dispatch (c : cfg) (s : state) : state * list output :=
  let reqs := queue s in
  let s0 := set_queue s [] 0 0 in
  let '(s1, o1, ls) := map_lookups (fun st x _ => Some (lookup_head c st x)) s0 reqs (map (fun _ => LLoad 0) reqs) in
  let '(s2, o2, done) := lookups_progress s1 reqs ls in
  if done then let '(s3, o3) := finish0 s2 in (s3, ODispatch (map s_id reqs) :: o1 ++ o2 ++ o3)
  else (s2, ODispatch (map s_id reqs) :: o1 ++ o2).

Definition can_dispatch (s : state) : bool :=
  match queue s, ph s with
  | _ :: _, Idle => negb (stopping s)
  | _, _ => false
  end.

Definition try_send_batch (c : cfg) (s : state) : state * list output :=       (* _send_batch *)
  if can_dispatch s then dispatch c s else (s, []).

Definition check_send_batch (c : cfg) (s : state) : state * list output :=     (* _check_send_batch (441-448) *)
  if threshold c s then try_send_batch c s else (s, []).

(* _complete_batch_send then _check_send_batch (489-490) *)
Definition finish (c : cfg) (s : state) : state * list output :=
  let '(s1, o1) := finish0 s in
  let '(s2, o2) := check_send_batch c s1 in (s2, o1 ++ o2).

(* ------------------------------------------------------------------ _handle_send_response (524-700) *)
(* the client contract for the request whose payloads are [cur] *)
Fixpoint nodup_tp (l : list tp) : bool :=
  match l with [] => true | x :: r => negb (tpmem x r) && nodup_tp r end.
Definition subset_tp (a b : list tp) : bool := forallb (fun x => tpmem x b) a.
Definition result_ok (c : cfg) (cur : list tp) (v : value) : bool :=
  match v with
  | VEmpty | VKafka _ | VOther _ => true
  | VResp rs =>
      let r := map (fun e => fst (fst e)) rs in
      negb (c_acks c =? 0) && nodup_tp r && subset_tp r cur && subset_tp cur r
  | VFailed rs fs =>
      let r := map (fun e => fst (fst e)) rs in
      let f := map fst fs in
      match fs with [] => false | _ => true end && nodup_tp (r ++ f) && subset_tp (r ++ f) cur &&
      (if c_acks c =? 0 then match rs with [] => true | _ => false end else subset_tp cur (r ++ f))
  end.

(* a result in which some payload of the request is neither answered nor failed *)
Definition omit_ok (c : cfg) (cur : list tp) (v : value) : bool :=
  match v with
  | VResp rs =>
      let r := map (fun e => fst (fst e)) rs in
      negb (c_acks c =? 0) && nodup_tp r && subset_tp r cur && negb (subset_tp cur r)
  | VFailed rs fs =>
      let r := map (fun e => fst (fst e)) rs in
      let f := map fst fs in
      match fs with [] => false | _ => true end && negb (c_acks c =? 0) && nodup_tp (r ++ f) && subset_tp (r ++ f) cur &&
      negb (subset_tp cur (r ++ f))
  | _ => false
  end.

(* the loop over the responses (685-696): error -> a failed payload (with "reset the topic" for NotLeader /
   UnknownTopicOrPartition, 617-622), success -> fire the Deferreds of that payload *)
Fixpoint process_resps (s : state) (pls : list payload) (rs : list (tp * Z * Z))
  : state * list output * list (tp * Z * bool) :=
  match rs with
  | [] => (s, [], [])
  | (x, err, off) :: r =>
      if err =? 0 then
        let '(s1, o1) := deliver s (sends_of pls x) (OResp (fst x) (snd x) err off) in
        let '(s2, o2, f2) := process_resps s1 pls r in (s2, o1 ++ o2, f2)
      else
        let '(s2, o2, f2) := process_resps s pls r in
        (s2, o2, (x, K_BROKER + err, (err =? 3) || (err =? 6)) :: f2)
  end.

Fixpoint deliver_failed (s : state) (pls : list payload) (fl : list (tp * Z * bool)) : state * list output :=
  match fl with
  | [] => (s, [])
  | (x, k, _) :: r =>
      let '(s1, o1) := deliver s (sends_of pls x) (OFail k 0) in
      let '(s2, o2) := deliver_failed s1 pls r in (s2, o1 ++ o2)
  end.

Fixpoint insert_z (x : Z) (l : list Z) : list Z :=
  match l with
  | [] => [x]
  | y :: r => if x <? y then x :: l else if x =? y then l else y :: insert_z x r
  end.
Definition reset_topics (fl : list (tp * Z * bool)) : list Z :=
  fold_right (fun (e : tp * Z * bool) acc => if snd e then insert_z (fst (fst (fst e))) acc else acc) [] fl.

(* _check_retry_payloads (588-625) *)
Definition check_retry (c : cfg) (s : state) (pls : list payload) (fl : list (tp * Z * bool)) : R :=
  if (c_max c <=? attempts s) || stopping s then
    let '(s1, o1) := deliver_failed s pls fl in (s1, o1, true)
  else
    let tid := ntimer s in
    let s1 := set_ids (set_retry s (attempts s) (didx s + 1) (nsp s)) (nsend s) (nload s) (ntimer s + 1) in
    let ts := reset_topics fl in
    let s2 := match ts with [] => s1 | _ => set_client s1 (api s1) (cache_reset (cache s1) ts) end in
    (set_ph s2 (RetryWait pls (map (fun e => fst (fst e)) fl) tid),
     OSched tid (didx s) 1 :: match ts with [] => [] | _ => [OResetMeta ts] end, false).

Definition handle_result (c : cfg) (s : state) (pls : list payload) (cur : list tp) (v : value) : R :=
  match v with
  | VEmpty =>                                                                     (* 635-643 *)
      let '(s1, o1) := deliver s (all_sends pls) (if c_acks c =? 0 then ONone else OFail K_NORESP 0) in
      (s1, o1, true)
  | VOther k =>                                                                   (* 656-663 *)
      let '(s1, o1) := deliver s (all_sends pls) (OFail k 0) in (s1, o1, true)
  | VKafka k => check_retry c s pls (map (fun x => (x, k, false)) cur)            (* 650-655; payloads of this attempt *)
  | VFailed rs fs =>                                                              (* 664-679 *)
      let '(s0, o0) :=
        if c_acks c =? 0
        then deliver s (all_sends (filter (fun p => negb (tpmem (p_tp p) (map fst fs))) pls)) ONone
        else (s, []) in
      let '(s1, o1, f1) := process_resps s0 pls rs in
      let '(s2, o2, done) := check_retry c s1 pls (map (fun e => (fst e, snd e, false)) fs ++ f1) in
      (s2, o0 ++ o1 ++ o2, done)
  | VResp rs =>
      let '(s1, o1, f1) := process_resps s pls rs in
      match f1 with
      | [] => (s1, o1, true)                                                      (* 698-700 *)
      | _ => let '(s2, o2, done) := check_retry c s1 pls f1 in (s2, o1 ++ o2, done)
      end
  end.

(* ------------------------------------------------------------------ cancellation (493-522, 707-711) *)
Fixpoint remove_send (sid : Z) (q : list send) : option (send * list send) :=
  match q with
  | [] => None
  | x :: r => if s_id x =? sid then Some (x, r)
              else match remove_send sid r with Some (y, r') => Some (y, x :: r') | None => None end
  end.

Definition cancel_send (s : state) (sid : Z) : state * list output :=
  if negb (zmem sid (outstanding s)) then (s, [])        (* Deferred.cancel() on a fired Deferred does nothing *)
  else
    match remove_send sid (queue s) with
    | Some (x, q) =>
        (set_outstanding (set_queue s q (wcnt s - s_cnt x) (wbytes s - s_bytes x)) (zremove sid (outstanding s)),
         [OOutcome sid (OFail K_CANCEL 0)])
    | None =>
        (set_outstanding s (zremove sid (outstanding s)),
         [OOutcome sid (OFail K_CANCEL (match ph s with Idle => 0 | _ => 1 end))])
    end.

Fixpoint cancel_all (s : state) (ids : list Z) : state * list output :=
  match ids with
  | [] => (s, [])
  | i :: r => let '(s1, o1) := cancel_send s i in
              let '(s2, o2) := cancel_all s1 r in (s2, o1 ++ o2)
  end.

(* _batch_send_d.cancel(): cancels whatever the chain is waiting on *)
Definition cancel_batch (c : cfg) (s : state) (cv : option value) : R :=
  match ph s with
  | Idle => (s, [], false)
  | Looking reqs ls =>
      let '(s1, o1, ls1) :=
        map_lookups (fun st x l =>
          match l with
          | LDone _ => None
          | LLoad _ => Some (lookup_loaded c st x)                 (* the client eats the cancel: fires with None *)
          | LTimer tid => Some (st, [OCancelTimer tid], LDone (LFail K_TIDCANCEL))
          end) s reqs ls in
      let '(s2, o2, done) := lookups_progress s1 reqs ls1 in (s2, o1 ++ o2, done)
  | VerWait reqs _ => version_failed s reqs K_TIDCANCEL
  | Sending pls cur =>
      handle_result c s pls cur
        (match cv with Some v => if result_ok c cur v then v else VOther K_TIDCANCEL | None => VOther K_TIDCANCEL end)
  | RetryWait pls _ tid =>                                          (* _cancel_retry (581-586) *)
      let '(s1, o1) := deliver s (all_sends pls) (OFail K_TIDCANCEL 0) in (s1, OCancelTimer tid :: o1, true)
  end.

(* ------------------------------------------------------------------ step *)
(* what runs after the body of an event: nothing, the end of the batch (_complete_batch_send + _check_send_batch),
   _check_send_batch alone (send_messages, 250), or _send_batch alone (the LoopingCall) *)
Inductive epi := NoEpi | Fin | Check | Try.

Definition apply_epi (c : cfg) (s : state) (ep : epi) : state * list output :=
  match ep with
  | NoEpi => (s, [])
  | Fin => finish c s
  | Check => check_send_batch c s
  | Try => try_send_batch c s
  end.

Definition fin_if (r : R) : state * list output * epi :=
  let '(s, o, done) := r in (s, o, if done then Fin else NoEpi).

(* the body of every event except stop() *)
Definition core (c : cfg) (s : state) (e : event) : state * list output * epi :=
  match e with
  | ESend topic choice cnt bytes =>                                  (* send_messages (181-251) *)
      let sid := nsend s in
      let s0 := set_ids s (nsend s + 1) (nload s) (ntimer s) in
      if (cnt <? 1) || (bytes <? 0) then (s0, [OOutcome sid (OFail K_VALUE 0)], NoEpi)
      else if stopping s then (s0, [OOutcome sid (OFail K_CANCEL 0)], NoEpi)   (* 241-243: refused once stopping *)
      else
        let x := {| s_id := sid; s_topic := topic; s_choice := choice; s_cnt := cnt; s_bytes := bytes |} in
        (set_outstanding (set_queue s0 (queue s0 ++ [x]) (wcnt s0 + cnt) (wbytes s0 + bytes)) (outstanding s0 ++ [sid]),
         [], Check)
  | EBadSend k =>
      (set_ids s (nsend s + 1) (nload s) (ntimer s), [OOutcome (nsend s) (OFail k 0)], NoEpi)
  | ECancel sid => let '(s1, o1) := cancel_send s sid in (s1, o1, NoEpi)
  | ETick => (s, [], if looper s then Try else NoEpi)
  | EMetaSet t err hp => (set_client s (api s) (cache_set (cache s) t (err, hp)), [], NoEpi)
  | EMetaClearAll => (set_client s (api s) [], [], NoEpi)
  | ELoadDone lid ok k =>
      match ph s with
      | Looking reqs ls =>
          let '(s1, o1, ls1) :=
            map_lookups (fun st x l =>
              match l with
              | LLoad lid' => if lid' =? lid
                              then Some (if ok then lookup_loaded c st x else (st, [], LDone (LFail k)))
                              else None
              | _ => None
              end) s reqs ls in
          let '(s2, o2, done) := lookups_progress s1 reqs ls1 in fin_if (s2, o1 ++ o2, done)
      | _ => (s, [], NoEpi)
      end
  | ETimer tid =>
      match ph s with
      | Looking reqs ls =>
          let '(s1, o1, ls1) :=
            map_lookups (fun st x l =>
              match l with
              | LTimer tid' => if tid' =? tid then Some (lookup_head c st x) else None
              | _ => None
              end) s reqs ls in
          let '(s2, o2, done) := lookups_progress s1 reqs ls1 in fin_if (s2, o1 ++ o2, done)
      | RetryWait pls cur tid' =>                                   (* _do_retry (565-579) *)
          if tid' =? tid then
            if broken s then (s, [], Fin)   (* send_produce_request raised inside _do_retry (572): the batch ends, F-C01-5 *)
            else
            (set_retry (set_ph s (Sending pls cur)) (attempts s + 1) (didx s) (nsp s + 1),
             [OSendProduce (nsp s + 1) (magic_of s)
                           (map payload_view (filter (fun p => tpmem (p_tp p) cur) pls))], NoEpi)
          else (s, [], NoEpi)
      | _ => (s, [], NoEpi)
      end
  | EVersion r =>
      match ph s with
      | VerWait reqs res =>
          if r =? 0 then fin_if (send_requests (set_client s 1 (cache s)) reqs res)
          else if r =? 1 then fin_if (send_requests (set_client s 2 (cache s)) reqs res)
          else fin_if (version_failed s reqs r)
      | _ => (s, [], NoEpi)
      end
  | EResult v =>
      match ph s with
      | Sending pls cur => if result_ok c cur v then fin_if (handle_result c s pls cur v) else (s, [], NoEpi)
      | _ => (s, [], NoEpi)
      end
  | EResultOmit v =>                                                 (* the code does not notice the omission *)
      match ph s with
      | Sending pls cur => if omit_ok c cur v then fin_if (handle_result c s pls cur v) else (s, [], NoEpi)
      | _ => (s, [], NoEpi)
      end
  | EBroken b => (set_broken s b, [], NoEpi)
  | EStop _ => (s, [], NoEpi)
  end.

Definition step (c : cfg) (s : state) (e : event) : state * list output :=
  match e with
  | EStop cv =>                                                      (* stop (253-270) *)
      let s0 := set_flags s true (looper s) in
      let '(s1, o1, ep) := fin_if (cancel_batch c s0 cv) in          (* _batch_send_d.cancel() and its chain *)
      let '(s2, o2) := apply_epi c s1 ep in
      let s3 := set_flags s2 true false in                           (* _sendLooper.stop() *)
      let '(s4, o4) := cancel_all s3 (outstanding s3) in             (* _cancel_outstanding() *)
      (s4, o1 ++ o2 ++ o4)
  | _ =>
      let '(s1, o1, ep) := core c s e in
      let '(s2, o2) := apply_epi c s1 ep in (s2, o1 ++ o2)
  end.

(* run a list of events, collecting the outputs of every step *)
Fixpoint run (c : cfg) (s : state) (evs : list event) : state * list (event * list output) :=
  match evs with
  | [] => (s, [])
  | e :: r => let '(s1, o) := step c s e in
              let '(s2, tr) := run c s1 r in (s2, (e, o) :: tr)
  end.

(* ------------------------------------------------------------------ case lines *)
Definition MID := 100.

Fixpoint triples (l : list Z) : list (Z * Z * Z) :=
  match l with a :: b :: c :: r => (a, b, c) :: triples r | _ => [] end.
Fixpoint quads (l : list Z) : list (tp * Z * Z) :=
  match l with a :: b :: c :: d :: r => ((a, b), c, d) :: quads r | _ => [] end.

Definition parse_value (l : list Z) : option (value * list Z) :=
  match l with
  | 0 :: r => Some (VEmpty, r)
  | 1 :: r => match take_lp r with Some (a, r') => Some (VResp (quads a), r') | None => None end
  | 2 :: r => match take_lp r with
              | Some (a, r') => match take_lp r' with
                                | Some (b, r'') => Some (VFailed (quads a) (map (fun t => ((fst (fst t), snd (fst t)), snd t)) (triples b)), r'')
                                | None => None
                                end
              | None => None
              end
  | 3 :: k :: r => Some (VKafka k, r)
  | 4 :: k :: r => Some (VOther k, r)
  | _ => None
  end.

Fixpoint parse_events (fuel : nat) (l : list Z) : option (list event) :=
  match fuel with
  | O => None
  | S fuel' =>
      match l with
      | [] => Some []
      | 1 :: t :: ch :: cnt :: b :: r => option_map (cons (ESend t ch cnt b)) (parse_events fuel' r)
      | 2 :: k :: r => option_map (cons (EBadSend k)) (parse_events fuel' r)
      | 3 :: sid :: r => option_map (cons (ECancel sid)) (parse_events fuel' r)
      | 4 :: r => option_map (cons ETick) (parse_events fuel' r)
      | 5 :: t :: err :: hp :: r => option_map (cons (EMetaSet t err (negb (hp =? 0)))) (parse_events fuel' r)
      | 6 :: r => option_map (cons EMetaClearAll) (parse_events fuel' r)
      | 7 :: lid :: ok :: k :: r => option_map (cons (ELoadDone lid (negb (ok =? 0)) k)) (parse_events fuel' r)
      | 8 :: tid :: r => option_map (cons (ETimer tid)) (parse_events fuel' r)
      | 9 :: v :: r => option_map (cons (EVersion v)) (parse_events fuel' r)
      | 10 :: r => match parse_value r with
                   | Some (v, r') => option_map (cons (EResult v)) (parse_events fuel' r')
                   | None => None
                   end
      | 12 :: r => match parse_value r with
                   | Some (v, r') => option_map (cons (EResultOmit v)) (parse_events fuel' r')
                   | None => None
                   end
      | 13 :: b :: r => option_map (cons (EBroken (negb (b =? 0)))) (parse_events fuel' r)
      | 11 :: -1 :: r => option_map (cons (EStop None)) (parse_events fuel' r)
      | 11 :: r => match parse_value r with
                   | Some (v, r') => option_map (cons (EStop (Some v))) (parse_events fuel' r')
                   | None => None
                   end
      | _ => None
      end
  end.

(* canonical order inside a step / inside a produce request: lexicographic on the integer encoding *)
Fixpoint zl_ltb (a b : list Z) : bool :=
  match a, b with
  | [], [] => false
  | [], _ :: _ => true
  | _ :: _, [] => false
  | x :: a', y :: b' => if x <? y then true else if y <? x then false else zl_ltb a' b'
  end.
Fixpoint zl_insert (x : list Z) (l : list (list Z)) : list (list Z) :=
  match l with
  | [] => [x]
  | y :: r => if zl_ltb y x then y :: zl_insert x r else x :: l
  end.
Definition zl_sort (l : list (list Z)) : list (list Z) := fold_right zl_insert [] l.

Definition enc_payload (p : tp * list (Z * Z)) : list Z :=
  fst (fst p) :: snd (fst p) :: Z.of_nat (length (snd p)) :: map (fun m => fst m * MID + snd m) (snd p).

Definition enc_output (o : output) : option (list Z) :=
  match o with
  | OSendProduce a m pls => Some (1 :: a :: m :: Z.of_nat (length pls) :: concat (zl_sort (map enc_payload pls)))
  | OSched tid k kind => Some [2; tid; k; kind]
  | OCancelTimer tid => Some [3; tid]
  | OResetMeta ts => Some (4 :: ts)
  | OLoadMeta lid t => Some [5; lid; t]
  | OGetVersion => Some [6]
  | OOutcome sid (OResp t p err off) => Some [7; sid; 1; t; p; err; off]
  | OOutcome sid ONone => Some [7; sid; 2; 0; 0; 0; 0]
  | OOutcome sid (OFail k flag) => Some [7; sid; 0; k; flag; 0; 0]
  | ODispatch _ | OBatchDone => None
  end.

Definition enc_step (outs : list output) : list Z :=
  let l := zl_sort (flat_map (fun o => match enc_output o with Some x => [x] | None => [] end) outs) in
  Z.of_nat (length l) :: flat_map (fun x => Z.of_nat (length x) :: x) l.

(* acks n b has_t max api | lp(cache triples) | events *)
Definition run_case (l : list Z) : list Z :=
  match l with
  | acks :: n :: b :: has_t :: mx :: ap :: r =>
      match take_lp r with
      | Some (ca, r') =>
          match parse_events (S (length r')) r' with
          | Some evs =>
              let c := {| c_acks := acks; c_n := n; c_b := b; c_max := mx |} in
              let s0 := init_state (negb (has_t =? 0)) ap
                                   (map (fun t => (fst (fst t), (snd (fst t), negb (snd t =? 0)))) (triples ca)) in
              flat_map (fun eo => enc_step (snd eo)) (snd (run c s0 evs))
          | None => [-99]
          end
      | None => [-99]
      end
  | _ => [-99]
  end.
