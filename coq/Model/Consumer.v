(* M10: afkak/consumer.py:290-1131 (class Consumer: start, shutdown, stop, commit and every private handler) as a
   state machine
       step : nat(fuel) -> state -> event -> state * list output
   over the environment + API alphabet [event].  One model serves C14, C13, C03 and C02.

   EVENTS
     EStart off          start(off)              off is a number, -2 OFFSET_EARLIEST, -1 OFFSET_LATEST, -101 OFFSET_COMMITTED
     EStop / EShutdown / ECommit                 stop() / shutdown() / commit()
     EReqOk v            the outstanding OffsetRequest / OffsetFetchRequest Deferred fires with offset v (-1 = not committed)
     EFetchOk offs ts    the outstanding FetchRequest Deferred fires with a FetchResponse whose .messages iterator yields
                         messages at offsets [offs] and then (ts = true) raises ConsumerFetchSizeTooSmall
     EReqFail fk         the outstanding offset/fetch Deferred fails: 1 (retriable) KafkaError, 2 OffsetOutOfRangeError,
                         3 non-Kafka exception, 4 twisted CancelledError
     EPlan i r           oracle for the NEXT not yet planned processor invocation: before returning, the processor calls
                         i = 0 nothing / 1 consumer.stop() / 2 consumer.commit() / 3 consumer.shutdown(); then r = 0 returns a value / 1 raises /
                         2 returns a pending Deferred (the default when no plan is left)
     EProcFire ok        the pending Deferred returned by the processor fires (ok) / fails
     ECommitOk / ECommitFail fk   the outstanding OffsetCommitRequest Deferred fires / fails (fk as above, 5 = IllegalGeneration,
                         UnknownMemberId, InvalidGroupId)
     EFireRetry / EFireCommitRetry / ETick       the reactor runs the armed refetch DelayedCall / commit-retry DelayedCall /
                         LoopingCall iteration (timers may fire in any order: superset of what a reactor does)
   An event the environment cannot produce in the current state (no such Deferred / DelayedCall pending) yields OIgnored.

   OUTPUTS: see [output].  Deferred outcomes are (ok, value-or-failure-kind).  Values: None is -1000.

   TWISTED SEMANTICS MODELLED (DESIGN.md section 2): a Deferred is a fire-once cell; errback/callback on a fired cell
   raises AlreadyCalledError (exception kind 6) at the call site; an exception raised by a callback becomes the Failure
   seen by the next errback of that chain and is dropped at the end of the chain ("Unhandled error in Deferred": log only);
   d.cancel() on a pending cell runs the canceller (observable: OCancelReq / OCancelProc) then errbacks CancelledError,
   on a fired cell it does nothing; callback(Failure) runs the errback chain; DelayedCall.cancel() on an inactive call
   raises AlreadyCancelled / AlreadyCalled; inlineCallbacks resumes the generator synchronously inside the callback
   chain of the yielded Deferred and passes None on to later callbacks; LoopingCall as used by start()/commit()/stop().
   SYNCHRONOUS RE-ENTRANCY is kept: stop() cancelling _processor_d runs _clear_processor_deferred, _handle_processor_error,
   the resumed _process_messages generator (which may CALL THE PROCESSOR AGAIN inside stop()) and the continuation
   shutdown() attached, which calls stop() again, all inside the outer stop().  Because these chains are mutually
   recursive (stop -> generator -> processor -> stop ...), the re-entrant methods are the constructors of [kont] and
   [run fuel k] interprets them with explicit fuel; running out of fuel raises exception kind 17 (XFuel), which no
   theorem assumes away silently (those that need it say so).

   OUTSIDE THE MODEL: message keys/values (only offsets), responses for a foreign partition, exceptions of resp.messages other
   than ConsumerFetchSizeTooSmall (C12), a client whose send_* raise or return fired Deferreds, user callbacks on the
   start/shutdown/commit Deferreds that re-enter the consumer, a processor that calls anything but stop()/commit()/shutdown()
   (those three are modelled: EPlan 1 / 2 / 3), in particular a processor that calls start(),
   logging, the LoopingCall interval arithmetic (Sched looper carries no delay), constructor argument validation. *)
From AV Require Import Base.Util.

(* ---- integer vocabulary shared with harness/props/consumer_lib.py ---- *)
Definition FK_KAFKA := 1.  Definition FK_OOR := 2.  Definition FK_OTHER := 3.  Definition FK_CANCELLED := 4.
Definition FK_GEN := 5.  Definition FK_ALREADY_CALLED := 6.  Definition FK_OIP := 7.  Definition FK_BADGROUP := 8.
Definition FK_TOOSMALL := 9.  Definition FK_PROC := 10.
Definition X_RESTART := 11.  Definition X_RESTOP := 12.  Definition X_ALREADY_CANCELLED := 13.
Definition X_ALREADY_CALLED_DC := 14.  Definition X_ATTRIBUTE := 15.  Definition X_ASSERT := 16.  Definition X_FUEL := 17.
Definition T_RETRY := 1.  Definition T_COMMIT := 2.  Definition T_LOOPER := 3.
Definition R_OFFREQ := 1.  Definition R_OFFFETCH := 2.  Definition R_FETCH := 3.  Definition R_COMMIT := 4.
Definition OFF_EARLIEST := -2.  Definition OFF_LATEST := -1.  Definition OFF_COMMITTED := -101.
Definition NONE := -1000.

Definition is_cancel (fk : Z) : bool := fk =? FK_CANCELLED.           (* failure.check(CancelledError) *)
Definition is_oor (fk : Z) : bool := fk =? FK_OOR.                    (* failure.check(OffsetOutOfRangeError) *)
Definition is_gen (fk : Z) : bool := fk =? FK_GEN.                    (* IllegalGeneration, InvalidGroupId, UnknownMemberId *)
Definition is_kafka (fk : Z) : bool :=                                (* failure.check(KafkaError) *)
  (fk =? FK_KAFKA) || (fk =? FK_OOR) || (fk =? FK_GEN) || (fk =? FK_OIP) || (fk =? FK_BADGROUP) || (fk =? FK_TOOSMALL).

Record cfg := mkCfg {
  c_group : bool;        (* consumer_group is set *)
  c_acn : Z;             (* auto_commit_every_n; 0 = off (also None when there is no group) *)
  c_acs : bool;          (* auto_commit_every_s non-zero *)
  c_reset : Z;           (* auto_offset_reset: 0 None, 1 OFFSET_EARLIEST, 2 OFFSET_LATEST *)
  c_maxbuf : option Z;   (* max_buffer_size *)
  c_gen : Z              (* commit_generation_id (carried by every commit request) *)
}.
Definition reset_off (c : cfg) : option Z :=
  if c_reset c =? 1 then Some OFF_EARLIEST else if c_reset c =? 2 then Some OFF_LATEST else None.

Inductive output :=
| OOffReq (t : Z)                       (* client.send_offset_request([OffsetRequest(.., t, 1)]) *)
| OOffFetch                             (* client.send_offset_fetch_request *)
| OFetch (off mb : Z)                   (* client.send_fetch_request([FetchRequest(.., off, mb)]) *)
| OCommit (off : option Z) (gen : Z)    (* client.send_offset_commit_request(offset, generation) *)
| OCallProc (offs : list Z)             (* processor(consumer, messages) *)
| OSched (kind idx : Z)                 (* reactor.callLater: kind, index in the delay sequence (-1: literal 0 / looper) *)
| OCancelTimer (kind : Z)
| OCancelReq (kind : Z)                 (* the consumer cancelled the Deferred of an outstanding request *)
| OCancelProc                           (* the consumer cancelled the Deferred the processor returned *)
| OStartD (ok : bool) (v : Z)           (* outcome of the Deferred returned by start() *)
| OShutD (ok : bool) (v : Z) (lc : option Z)   (* outcome of the Deferred returned by shutdown(); lc = public
                                           last_committed_offset read when it fires *)
| OCommitD (id : Z) (ok : bool) (v : Z) (* outcome of the Deferred returned by the id-th commit() call *)
| OOipD (id : Z) (ok : bool) (v : Z)    (* outcome of the Deferred carried by that call's OperationInProgress failure *)
| ORet (v : Z)                          (* the API call returned (stop: the value) *)
| ORaised (k : Z)                       (* the API call / timer callback raised *)
| OIgnored
| OEnd (lp lc : option Z)               (* end of step: public last_processed_offset / last_committed_offset *)
| OFuel.                                (* the interpreter ran out of fuel (never produced by the implementation) *)

(* who waits on an entry of self._commit_ds (its callback chain) *)
Inductive cdk :=
| CdUser (id : Z)          (* returned to the application by commit() *)
| CdOipUser (id : Z)       (* the Deferred inside the OperationInProgress failure returned to the application *)
| CdAuto                   (* _auto_commit: addErrback(_handle_auto_commit_error)              consumer.py:554-555 *)
| CdRetryAuto (bc : bool)  (* _auto_commit while a commit is in flight: _retry_auto_commit     consumer.py:559-561 *)
| CdShut                   (* shutdown: addCallbacks(success, failure)                          consumer.py:375 *)
| CdOipShut                (* shutdown on OperationInProgress: addCallback(_commit_and_stop)    consumer.py:360-362 *)
| CdBare.                  (* no callbacks *)

Inductive cres := CSucc (v : option Z) | CFail (fk : Z).     (* what a commit Deferred fires with *)
Inductive cimm := CNow (r : cres) | CPending.                (* commit(): already fired / pending *)
Inductive who := WUser (id : Z) | WAuto | WShut.

Record state := mkS {
  s_cf : cfg;
  s_maxatt : Z;
  s_buf : Z;
  s_ridx : Z;
  s_att : Z;
  s_foff : Z;
  s_lp : option Z;
  s_lc : option Z;
  s_stopping : bool;
  s_shutting : bool;
  s_shutd : bool;
  s_susp : bool;
  s_startd : option bool;
  s_req : option (Z * bool);
  s_rcall : option Z;
  s_ccall : option (Z * Z * Z);
  s_creq : option (option Z * Z * Z);
  s_cds : list cdk;
  s_looper : option bool;
  s_mblock : option (option (list Z * bool));
  s_proc : option (Z * list Z * bool);
  s_plan : list (Z * Z);
  s_ncommit : Z;
  s_inapi : Z;
  s_pend : list output
}.

Definition set_maxatt (v : Z) (s : state) : state := mkS (s_cf s) v (s_buf s) (s_ridx s) (s_att s) (s_foff s) (s_lp s) (s_lc s) (s_stopping s) (s_shutting s) (s_shutd s) (s_susp s) (s_startd s) (s_req s) (s_rcall s) (s_ccall s) (s_creq s) (s_cds s) (s_looper s) (s_mblock s) (s_proc s) (s_plan s) (s_ncommit s) (s_inapi s) (s_pend s).
Definition set_buf (v : Z) (s : state) : state := mkS (s_cf s) (s_maxatt s) v (s_ridx s) (s_att s) (s_foff s) (s_lp s) (s_lc s) (s_stopping s) (s_shutting s) (s_shutd s) (s_susp s) (s_startd s) (s_req s) (s_rcall s) (s_ccall s) (s_creq s) (s_cds s) (s_looper s) (s_mblock s) (s_proc s) (s_plan s) (s_ncommit s) (s_inapi s) (s_pend s).
Definition set_ridx (v : Z) (s : state) : state := mkS (s_cf s) (s_maxatt s) (s_buf s) v (s_att s) (s_foff s) (s_lp s) (s_lc s) (s_stopping s) (s_shutting s) (s_shutd s) (s_susp s) (s_startd s) (s_req s) (s_rcall s) (s_ccall s) (s_creq s) (s_cds s) (s_looper s) (s_mblock s) (s_proc s) (s_plan s) (s_ncommit s) (s_inapi s) (s_pend s).
Definition set_att (v : Z) (s : state) : state := mkS (s_cf s) (s_maxatt s) (s_buf s) (s_ridx s) v (s_foff s) (s_lp s) (s_lc s) (s_stopping s) (s_shutting s) (s_shutd s) (s_susp s) (s_startd s) (s_req s) (s_rcall s) (s_ccall s) (s_creq s) (s_cds s) (s_looper s) (s_mblock s) (s_proc s) (s_plan s) (s_ncommit s) (s_inapi s) (s_pend s).
Definition set_foff (v : Z) (s : state) : state := mkS (s_cf s) (s_maxatt s) (s_buf s) (s_ridx s) (s_att s) v (s_lp s) (s_lc s) (s_stopping s) (s_shutting s) (s_shutd s) (s_susp s) (s_startd s) (s_req s) (s_rcall s) (s_ccall s) (s_creq s) (s_cds s) (s_looper s) (s_mblock s) (s_proc s) (s_plan s) (s_ncommit s) (s_inapi s) (s_pend s).
Definition set_lp (v : option Z) (s : state) : state := mkS (s_cf s) (s_maxatt s) (s_buf s) (s_ridx s) (s_att s) (s_foff s) v (s_lc s) (s_stopping s) (s_shutting s) (s_shutd s) (s_susp s) (s_startd s) (s_req s) (s_rcall s) (s_ccall s) (s_creq s) (s_cds s) (s_looper s) (s_mblock s) (s_proc s) (s_plan s) (s_ncommit s) (s_inapi s) (s_pend s).
Definition set_lc (v : option Z) (s : state) : state := mkS (s_cf s) (s_maxatt s) (s_buf s) (s_ridx s) (s_att s) (s_foff s) (s_lp s) v (s_stopping s) (s_shutting s) (s_shutd s) (s_susp s) (s_startd s) (s_req s) (s_rcall s) (s_ccall s) (s_creq s) (s_cds s) (s_looper s) (s_mblock s) (s_proc s) (s_plan s) (s_ncommit s) (s_inapi s) (s_pend s).
Definition set_stopping (v : bool) (s : state) : state := mkS (s_cf s) (s_maxatt s) (s_buf s) (s_ridx s) (s_att s) (s_foff s) (s_lp s) (s_lc s) v (s_shutting s) (s_shutd s) (s_susp s) (s_startd s) (s_req s) (s_rcall s) (s_ccall s) (s_creq s) (s_cds s) (s_looper s) (s_mblock s) (s_proc s) (s_plan s) (s_ncommit s) (s_inapi s) (s_pend s).
Definition set_shutting (v : bool) (s : state) : state := mkS (s_cf s) (s_maxatt s) (s_buf s) (s_ridx s) (s_att s) (s_foff s) (s_lp s) (s_lc s) (s_stopping s) v (s_shutd s) (s_susp s) (s_startd s) (s_req s) (s_rcall s) (s_ccall s) (s_creq s) (s_cds s) (s_looper s) (s_mblock s) (s_proc s) (s_plan s) (s_ncommit s) (s_inapi s) (s_pend s).
Definition set_shutd (v : bool) (s : state) : state := mkS (s_cf s) (s_maxatt s) (s_buf s) (s_ridx s) (s_att s) (s_foff s) (s_lp s) (s_lc s) (s_stopping s) (s_shutting s) v (s_susp s) (s_startd s) (s_req s) (s_rcall s) (s_ccall s) (s_creq s) (s_cds s) (s_looper s) (s_mblock s) (s_proc s) (s_plan s) (s_ncommit s) (s_inapi s) (s_pend s).
Definition set_susp (v : bool) (s : state) : state := mkS (s_cf s) (s_maxatt s) (s_buf s) (s_ridx s) (s_att s) (s_foff s) (s_lp s) (s_lc s) (s_stopping s) (s_shutting s) (s_shutd s) v (s_startd s) (s_req s) (s_rcall s) (s_ccall s) (s_creq s) (s_cds s) (s_looper s) (s_mblock s) (s_proc s) (s_plan s) (s_ncommit s) (s_inapi s) (s_pend s).
Definition set_startd (v : option bool) (s : state) : state := mkS (s_cf s) (s_maxatt s) (s_buf s) (s_ridx s) (s_att s) (s_foff s) (s_lp s) (s_lc s) (s_stopping s) (s_shutting s) (s_shutd s) (s_susp s) v (s_req s) (s_rcall s) (s_ccall s) (s_creq s) (s_cds s) (s_looper s) (s_mblock s) (s_proc s) (s_plan s) (s_ncommit s) (s_inapi s) (s_pend s).
Definition set_req (v : option (Z * bool)) (s : state) : state := mkS (s_cf s) (s_maxatt s) (s_buf s) (s_ridx s) (s_att s) (s_foff s) (s_lp s) (s_lc s) (s_stopping s) (s_shutting s) (s_shutd s) (s_susp s) (s_startd s) v (s_rcall s) (s_ccall s) (s_creq s) (s_cds s) (s_looper s) (s_mblock s) (s_proc s) (s_plan s) (s_ncommit s) (s_inapi s) (s_pend s).
Definition set_rcall (v : option Z) (s : state) : state := mkS (s_cf s) (s_maxatt s) (s_buf s) (s_ridx s) (s_att s) (s_foff s) (s_lp s) (s_lc s) (s_stopping s) (s_shutting s) (s_shutd s) (s_susp s) (s_startd s) (s_req s) v (s_ccall s) (s_creq s) (s_cds s) (s_looper s) (s_mblock s) (s_proc s) (s_plan s) (s_ncommit s) (s_inapi s) (s_pend s).
Definition set_ccall (v : option (Z * Z * Z)) (s : state) : state := mkS (s_cf s) (s_maxatt s) (s_buf s) (s_ridx s) (s_att s) (s_foff s) (s_lp s) (s_lc s) (s_stopping s) (s_shutting s) (s_shutd s) (s_susp s) (s_startd s) (s_req s) (s_rcall s) v (s_creq s) (s_cds s) (s_looper s) (s_mblock s) (s_proc s) (s_plan s) (s_ncommit s) (s_inapi s) (s_pend s).
Definition set_creq (v : option (option Z * Z * Z)) (s : state) : state := mkS (s_cf s) (s_maxatt s) (s_buf s) (s_ridx s) (s_att s) (s_foff s) (s_lp s) (s_lc s) (s_stopping s) (s_shutting s) (s_shutd s) (s_susp s) (s_startd s) (s_req s) (s_rcall s) (s_ccall s) v (s_cds s) (s_looper s) (s_mblock s) (s_proc s) (s_plan s) (s_ncommit s) (s_inapi s) (s_pend s).
Definition set_cds (v : list cdk) (s : state) : state := mkS (s_cf s) (s_maxatt s) (s_buf s) (s_ridx s) (s_att s) (s_foff s) (s_lp s) (s_lc s) (s_stopping s) (s_shutting s) (s_shutd s) (s_susp s) (s_startd s) (s_req s) (s_rcall s) (s_ccall s) (s_creq s) v (s_looper s) (s_mblock s) (s_proc s) (s_plan s) (s_ncommit s) (s_inapi s) (s_pend s).
Definition set_looper (v : option bool) (s : state) : state := mkS (s_cf s) (s_maxatt s) (s_buf s) (s_ridx s) (s_att s) (s_foff s) (s_lp s) (s_lc s) (s_stopping s) (s_shutting s) (s_shutd s) (s_susp s) (s_startd s) (s_req s) (s_rcall s) (s_ccall s) (s_creq s) (s_cds s) v (s_mblock s) (s_proc s) (s_plan s) (s_ncommit s) (s_inapi s) (s_pend s).
Definition set_mblock (v : option (option (list Z * bool))) (s : state) : state := mkS (s_cf s) (s_maxatt s) (s_buf s) (s_ridx s) (s_att s) (s_foff s) (s_lp s) (s_lc s) (s_stopping s) (s_shutting s) (s_shutd s) (s_susp s) (s_startd s) (s_req s) (s_rcall s) (s_ccall s) (s_creq s) (s_cds s) (s_looper s) v (s_proc s) (s_plan s) (s_ncommit s) (s_inapi s) (s_pend s).
Definition set_proc (v : option (Z * list Z * bool)) (s : state) : state := mkS (s_cf s) (s_maxatt s) (s_buf s) (s_ridx s) (s_att s) (s_foff s) (s_lp s) (s_lc s) (s_stopping s) (s_shutting s) (s_shutd s) (s_susp s) (s_startd s) (s_req s) (s_rcall s) (s_ccall s) (s_creq s) (s_cds s) (s_looper s) (s_mblock s) v (s_plan s) (s_ncommit s) (s_inapi s) (s_pend s).
Definition set_plan (v : list (Z * Z)) (s : state) : state := mkS (s_cf s) (s_maxatt s) (s_buf s) (s_ridx s) (s_att s) (s_foff s) (s_lp s) (s_lc s) (s_stopping s) (s_shutting s) (s_shutd s) (s_susp s) (s_startd s) (s_req s) (s_rcall s) (s_ccall s) (s_creq s) (s_cds s) (s_looper s) (s_mblock s) (s_proc s) v (s_ncommit s) (s_inapi s) (s_pend s).
Definition set_ncommit (v : Z) (s : state) : state := mkS (s_cf s) (s_maxatt s) (s_buf s) (s_ridx s) (s_att s) (s_foff s) (s_lp s) (s_lc s) (s_stopping s) (s_shutting s) (s_shutd s) (s_susp s) (s_startd s) (s_req s) (s_rcall s) (s_ccall s) (s_creq s) (s_cds s) (s_looper s) (s_mblock s) (s_proc s) (s_plan s) v (s_inapi s) (s_pend s).
Definition set_inapi (v : Z) (s : state) : state := mkS (s_cf s) (s_maxatt s) (s_buf s) (s_ridx s) (s_att s) (s_foff s) (s_lp s) (s_lc s) (s_stopping s) (s_shutting s) (s_shutd s) (s_susp s) (s_startd s) (s_req s) (s_rcall s) (s_ccall s) (s_creq s) (s_cds s) (s_looper s) (s_mblock s) (s_proc s) (s_plan s) (s_ncommit s) v (s_pend s).
Definition set_pend (v : list output) (s : state) : state := mkS (s_cf s) (s_maxatt s) (s_buf s) (s_ridx s) (s_att s) (s_foff s) (s_lp s) (s_lc s) (s_stopping s) (s_shutting s) (s_shutd s) (s_susp s) (s_startd s) (s_req s) (s_rcall s) (s_ccall s) (s_creq s) (s_cds s) (s_looper s) (s_mblock s) (s_proc s) (s_plan s) (s_ncommit s) (s_inapi s) v.

(* ---- state-and-output monad with Python exceptions ---- *)
Inductive res (A : Type) := Ok (a : A) | Exc (k : Z).
Arguments Ok {A} a.  Arguments Exc {A} k.
Definition M (A : Type) := state -> res A * state * list output.
Definition ret {A} (a : A) : M A := fun s => (Ok a, s, []).
Definition raise {A} (k : Z) : M A := fun s => (Exc k, s, []).
Definition bind {A B} (m : M A) (f : A -> M B) : M B := fun s =>
  match m s with
  | (Ok a, s1, o1) => match f a s1 with (r, s2, o2) => (r, s2, o1 ++ o2) end
  | (Exc k, s1, o1) => (Exc k, s1, o1)
  end.
Definition try {A} (m : M A) : M (res A) := fun s => match m s with (r, s1, o1) => (Ok r, s1, o1) end.
Definition swallow (m : M unit) : M unit := fun s => match m s with (_, s1, o1) => (Ok tt, s1, o1) end.
Definition emit (o : output) : M unit := fun s => (Ok tt, s, [o]).
Definition get : M state := fun s => (Ok s, s, []).
Definition upd (f : state -> state) : M unit := fun s => (Ok tt, f s, []).
Notation "x <- m ;; k" := (bind m (fun x => k)) (at level 61, m at next level, right associativity).
Notation "m ;;; k" := (bind m (fun _ => k)) (at level 61, right associativity).

Definition encv (v : option Z) : Z := match v with Some x => x | None => NONE end.
Definition is_some {A} (o : option A) : bool := match o with Some _ => true | None => false end.
Definition oz_eqb (a b : option Z) : bool :=
  match a, b with Some x, Some y => x =? y | None, None => true | _, _ => false end.

(* self._start_d.errback(failure)            consumer.py:640,803,819,844,859,951,1057 *)
Definition startd_errback (fk : Z) : M unit :=
  s <- get ;;
  match s_startd s with
  | None => raise X_ATTRIBUTE                       (* 'NoneType' object has no attribute 'errback' *)
  | Some true => raise FK_ALREADY_CALLED            (* AlreadyCalledError *)
  | Some false => upd (set_startd (Some true)) ;;;
                  (if s_inapi s =? 1 then upd (set_pend (s_pend s ++ [OStartD false fk])) else emit (OStartD false fk))
  end.

(* _do_fetch                                  consumer.py:1021-1074 *)
Definition do_fetch : M unit :=
  s <- get ;;
  match s_req s with
  | Some _ => ret tt                                                     (* 1034-1036: if self._request_d: return *)
  | None =>
    (match s_rcall s with                                                (* 1039-1042 *)
     | Some st => (if st =? 0 then emit (OCancelTimer T_RETRY) else ret tt) ;;; upd (set_rcall None)
     | None => ret tt
     end) ;;;
    if (s_foff s =? OFF_EARLIEST) || (s_foff s =? OFF_LATEST) then       (* 1045-1049 *)
      emit (OOffReq (s_foff s)) ;;; upd (set_req (Some (R_OFFREQ, false)))
    else if s_foff s =? OFF_COMMITTED then                               (* 1050-1060 *)
      (if c_group (s_cf s) then ret tt else startd_errback FK_BADGROUP) ;;;
      emit OOffFetch ;;; upd (set_req (Some (R_OFFFETCH, false)))
    else                                                                 (* 1061-1074 *)
      emit (OFetch (s_foff s) (s_buf s)) ;;; upd (set_req (Some (R_FETCH, false)))
  end.

(* _retry_fetch(after)                        consumer.py:563-583;  zero = True for _retry_fetch(0) *)
Definition retry_fetch (zero : bool) : M unit :=
  s <- get ;;
  if s_stopping s || s_shutting s || negb (is_some (s_startd s)) then ret tt       (* 574-576 *)
  else match s_rcall s with
       | Some _ => ret tt                                                          (* 577 *)
       | None =>
         (if zero then emit (OSched T_RETRY (-1))
          else upd (set_ridx (s_ridx s + 1)) ;;; emit (OSched T_RETRY (s_ridx s))) ;;;   (* 578-580 *)
         upd (fun s => set_rcall (Some 0) (set_att (s_att s + 1) s))               (* 582-583 *)
       end.

(* _handle_offset_response                    consumer.py:585-616;  kind = which request it answers *)
Definition handle_offset_response (kind v : Z) : M unit :=
  upd (fun s => set_att 1 (set_ridx 0 (set_req None s))) ;;;                       (* 594-598 *)
  s <- get ;;
  (if kind =? R_OFFREQ then upd (set_foff v)                                       (* 601-603 *)
   else if v =? -1 then                                    (* 641-648 OFFSET_NOT_COMMITTED: the group has none (b73c7f1) *)
     upd (fun s => set_lc None (set_foff (if c_reset (s_cf s) =? 2 then OFF_LATEST else OFF_EARLIEST) s))
   else upd (fun s => set_lc (Some v) (set_foff (v + 1) s))) ;;;                   (* 614-615 *)
  do_fetch.                                                                        (* 616 *)

Definition exhausted (s : state) : bool := negb (s_maxatt s =? 0) && (s_maxatt s <=? s_att s).

(* _handle_offset_error                       consumer.py:618-650 *)
Definition handle_offset_error (fk : Z) : M unit :=
  upd (set_req None) ;;;                                                           (* 627 *)
  s <- get ;;
  if s_stopping s && is_cancel fk then ret tt                                      (* 629-631 *)
  else if exhausted s then startd_errback fk                                       (* 633-641 *)
  else retry_fetch false.                                                          (* 650 *)

(* _handle_fetch_error                        consumer.py:821-870 *)
Definition handle_fetch_error (fk : Z) : M unit :=
  upd (set_req None) ;;;                                                           (* 840 *)
  s <- get ;;
  r <- (if is_oor fk then                                                          (* 842-846 *)
          match reset_off (s_cf s) with
          | None => startd_errback fk ;;; ret true
          | Some o => upd (set_foff o) ;;; ret false
          end
        else ret false) ;;
  if (r : bool) then ret tt else
  s <- get ;;
  if s_stopping s && is_cancel fk then ret tt                                      (* 848-850 *)
  else if exhausted s then startd_errback fk                                       (* 852-860 *)
  else retry_fetch false.                                                          (* 870 *)

(* _handle_auto_commit_error                  consumer.py:801-803 *)
Definition handle_auto_commit_error (fk : Z) : M unit :=
  s <- get ;;
  if s_stopping s && is_cancel fk then ret tt                                      (* 827-829 *)
  else match s_startd s with Some false => startd_errback fk | _ => ret tt end.

(* _handle_processor_error                    consumer.py:805-819 *)
Definition handle_processor_error (fk : Z) : M unit :=
  s <- get ;;
  if s_stopping s && is_cancel fk then ret tt
  else match s_startd s with Some _ => startd_errback fk | None => ret tt end.

(* _send_commit_request(retry_delay, attempt) consumer.py:680-729;  idx = index of retry_delay in the delay sequence *)
Definition send_commit_request (idx attempt : Z) : M unit :=
  s <- get ;;
  (match s_ccall s with                                                            (* 684-685 *)
   | Some (st, _, _) => if st =? 0 then ret tt else upd (set_ccall None)
   | None => ret tt
   end) ;;;
  match s_creq s with
  | Some _ => raise FK_OIP                                                         (* 688-689 *)
  | None => emit (OCommit (s_lp s) (c_gen (s_cf s))) ;;;                           (* 698-721 *)
            upd (set_creq (Some (s_lp s, idx, attempt)))                           (* 723-729: args bound into the callbacks *)
  end.

Definition cd_of (w : who) : cdk := match w with WUser id => CdUser id | WAuto => CdAuto | WShut => CdShut end.
Definition oip_of (w : who) : cdk := match w with WUser id => CdOipUser id | WAuto => CdBare | WShut => CdOipShut end.

(* commit()                                   consumer.py:466-524 *)
Definition commit (w : who) : M cimm :=
  s <- get ;;
  if negb (c_group (s_cf s)) then ret (CNow (CFail FK_BADGROUP))                   (* 496-497 *)
  else if negb (is_some (s_lp s)) || oz_eqb (s_lp s) (s_lc s) then ret (CNow (CSucc (s_lc s)))   (* 499-500 *)
  else match s_cds s with
       | _ :: _ => upd (set_cds (s_cds s ++ [oip_of w])) ;;; ret (CNow (CFail FK_OIP))            (* 504-507 *)
       | [] =>
         upd (set_cds [cd_of w]) ;;;                                               (* 512-513 *)
         send_commit_request 0 1 ;;;                                               (* 516 *)
         s <- get ;;
         (match s_looper s with                                                    (* 520-521 LoopingCall.reset *)
          | Some true => emit (OCancelTimer T_LOOPER) ;;; emit (OSched T_LOOPER (-1))
          | _ => ret tt
          end) ;;;
         ret CPending
       end.

(* _auto_commit(by_count)                     consumer.py:532-561 *)
Definition auto_commit (bc : bool) : M unit :=
  s <- get ;;
  if s_stopping s || s_shutting s || negb (is_some (s_startd s)) || negb (is_some (s_lp s))
     || negb (c_group (s_cf s)) || (bc && (c_acn (s_cf s) =? 0)) then ret tt       (* 535-543 *)
  else if negb bc || negb (is_some (s_lc s)) || (c_acn (s_cf s) <=? encv (s_lp s) - encv (s_lc s)) then   (* 548-552 *)
    match s_cds s with
    | [] => r <- commit WAuto ;;                                                   (* 553-555 *)
            match r with CNow (CFail fk) => handle_auto_commit_error fk | _ => ret tt end
    | _ :: _ => upd (set_cds (s_cds s ++ [CdRetryAuto bc]))                        (* 556-561 *)
    end
  else ret tt.

(* the first three callbacks on the processor's Deferred: _clear_processor_deferred, _update_processed_offset(last),
   _handle_processor_error                    consumer.py:996-1002, 652-659.   fk = None: it fired with a result.
   Returns the chain's result after them (None: success, Some k: Failure of kind k). *)
Definition proc_chain (last : Z) (fk : option Z) : M (option Z) :=
  upd (set_proc None) ;;;
  r1 <- (match fk with
         | None => r <- try (upd (set_lp (Some last)) ;;; auto_commit true) ;;
                   ret (match r with Ok _ => None | Exc k => Some k end)
         | Some k => ret (Some k)
         end) ;;
  match r1 with
  | None => ret None
  | Some k => r <- try (handle_processor_error k) ;; ret (match r with Ok _ => None | Exc k' => Some k' end)
  end.

(* the for-loop of _handle_fetch_response      consumer.py:910-930: skip offsets below the fetch offset, advance it *)
Fixpoint extract (foff : Z) (offs : list Z) : list Z * Z :=
  match offs with
  | [] => ([], foff)
  | o :: r => if o <? foff then extract foff r
              else let (ms, f) := extract (o + 1) r in (o :: ms, f)
  end.

(* the buffer growth rule of _handle_fetch_response's `except ConsumerFetchSizeTooSmall`   consumer.py:959-980:
   x16 while the buffer is at most 1 MiB, else x2; unlimited when max_buffer_size is None, otherwise clipped to it;
   None = already at the maximum (the consumer fails).  Shared with C12. *)
Definition grow_buffer (cur : Z) (mx : option Z) : option Z :=
  let factor := if cur <=? 1048576 then 16 else 2 in                               (* 963-965 *)
  match mx with
  | None => Some (cur * factor)                                                    (* 966-968 *)
  | Some m => if cur <? m then Some (Z.min (cur * factor) m) else None             (* 969-980 *)
  end.

Definition pop_plan : M (Z * Z) :=
  s <- get ;;
  match s_plan s with
  | [] => ret (0, 2)
  | p :: r => upd (set_plan r) ;;; ret p
  end.

Definition emit_shutd (o : output) : M unit :=
  s <- get ;; if s_inapi s =? 3 then upd (set_pend (s_pend s ++ [o])) else emit o.

(* shutdown._interrupted_by_stop             consumer.py:352-361 *)
Definition interrupted : M unit :=
  s <- get ;;
  upd (fun s => set_shutting false (set_shutd false s)) ;;;
  if s_shutd s then emit_shutd (OShutD false FK_CANCELLED (s_lc s)) else raise X_ATTRIBUTE.

Definition outcome_of (r : cres) : bool * Z := match r with CSucc v => (true, encv v) | CFail k => (false, k) end.

(* ---- the mutually recursive (re-entrant) methods ---- *)
Inductive kont :=
| KStop                                (* stop()                                      consumer.py:408-464 *)
| KStopCds                             (* its loop `while self._commit_ds`            consumer.py:439-442 *)
| KFireProc (fk : option Z)            (* the pending processor Deferred fires        consumer.py:996-1013 *)
| KProcLoop (msgs : list Z)            (* _process_messages at the top of its while   consumer.py:987-1019 *)
| KFetchResp (offs : list Z) (ts : bool)  (* _handle_fetch_response                  consumer.py:872-967 *)
| KCommitAndStop                       (* shutdown._commit_and_stop                   consumer.py:369-375 *)
| KShutFinish (fk : option Z)          (* _handle_shutdown_commit_success / _failure  consumer.py:351-367 *)
| KFireCd (d : cdk) (r : cres)         (* an entry of _commit_ds fires with r *)
| KDeliver (r : cres).                 (* _deliver_commit_result                      consumer.py:671-678 *)

Section Bodies.
Variable rec : kont -> M unit.

(* consumer.api: the call made by the application or by the processor, result made observable *)
Definition api_stop : M unit :=
  r <- try (rec KStop) ;;
  s <- get ;;
  match r with Ok _ => emit (ORet (encv (s_lp s))) | Exc k => emit (ORaised k) end.

Definition api_commit : M unit :=
  s <- get ;;
  let n := s_ncommit s + 1 in
  upd (set_ncommit n) ;;;
  r <- try (commit (WUser n)) ;;
  match r with
  | Exc k => emit (ORaised k)
  | Ok (CNow cr) => emit (OCommitD n (fst (outcome_of cr)) (snd (outcome_of cr))) ;;; emit (ORet 0)
  | Ok CPending => emit (ORet 0)
  end.

(* shutdown(), called by the application or by the processor          consumer.py:341-424.
   The outcomes held back until the call returns (s_pend) are those of THIS call: the list and the marker found at entry
   are put back at exit (between events they are [] and 0). *)
Definition api_shutdown : M unit :=
  s <- get ;;
  if negb (is_some (s_startd s)) || s_shutd s then                                 (* 395-399 *)
    emit (OShutD false X_RESTOP (s_lc s)) ;;; emit (ORet 0)
  else
    upd (fun s => set_pend [] (set_inapi 3 (set_shutd true                         (* 402-413 *)
                    (if s_maxatt s =? 0 then set_susp true (set_maxatt 2 (set_shutting true s)) else set_shutting true s)))) ;;;
    r <- try (match s_proc s with                                                  (* 417-421 *)
              | Some (l, rs, _) => upd (set_proc (Some (l, rs, true)))
              | None => rec KCommitAndStop
              end) ;;
    s1 <- get ;;
    upd (fun s' => set_pend (s_pend s) (set_inapi (s_inapi s) s')) ;;;
    match r with
    | Ok _ => (fun s' => (Ok tt, s', s_pend s1)) ;;; emit (ORet 0)
    | Exc k => emit (ORaised k)
    end.

(* _handle_commit_error                       consumer.py:731-799 *)
Definition handle_commit_error (fk : Z) (idx attempt : Z) : M unit :=
  s <- get ;;
  if s_stopping s && is_cancel fk then rec (KDeliver (CSucc (s_lc s)))             (* 738-740 *)
  else if negb (is_kafka fk) then rec (KDeliver (CFail fk))                        (* 744-750 *)
  else if is_gen fk then rec (KDeliver (CFail fk))                                 (* 753-761 *)
  else if negb (s_maxatt s =? 0) && (s_maxatt s <=? attempt) then rec (KDeliver (CFail fk))   (* 764-772 *)
  else upd (set_ccall (Some (0, idx + 1, attempt + 1))) ;;; emit (OSched T_COMMIT (idx + 1)). (* 774, 797-799 *)

Fixpoint fire_all (ds : list cdk) (r : cres) : M unit :=                           (* 676-678: pop() from the end *)
  match ds with
  | [] => ret tt
  | d :: ds' => swallow (rec (KFireCd d r)) ;;; fire_all ds' r
  end.

Definition finish_block : M unit :=                                                (* 1017-1019 *)
  s <- get ;;
  match s_mblock s with
  | None => ret tt
  | Some parked =>
    upd (set_mblock None) ;;;
    match parked with
    | None => ret tt
    | Some (offs, ts) => swallow (rec (KFetchResp offs ts))       (* 890: the parked reply, a callback of _msg_block_d *)
    end
  end.

(* the blocks of stop()                       consumer.py:426-489 *)
Definition stop_req : M unit :=                                                    (* 442-446 *)
  s <- get ;;
  match s_req s with
  | None => ret tt
  | Some (kd, fired) =>
    (if fired then ret tt                                       (* cancel() of a fired Deferred (reply parked): nothing *)
     else emit (OCancelReq kd) ;;; upd (set_req (Some (kd, true))) ;;;
          swallow (if kd =? R_FETCH then handle_fetch_error FK_CANCELLED else handle_offset_error FK_CANCELLED)) ;;;
    upd (set_req None)
  end.
Definition stop_mblock : M unit :=                                                 (* 448-452: the parked reply is dropped *)
  s <- get ;; match s_mblock s with Some _ => upd (set_mblock None) | None => ret tt end.
Definition stop_proc : M unit :=                                                   (* 454-455 *)
  s <- get ;;
  match s_proc s with
  | Some _ => emit OCancelProc ;;; swallow (rec (KFireProc (Some FK_CANCELLED)))
  | None => ret tt
  end.
Definition stop_rcall : M unit :=                                                  (* 457-458 *)
  s <- get ;;
  match s_rcall s with
  | None => ret tt
  | Some st => if st =? 0 then emit (OCancelTimer T_RETRY) ;;; upd (set_rcall (Some 1))
               else if st =? 1 then raise X_ALREADY_CANCELLED else raise X_ALREADY_CALLED_DC
  end.
Definition stop_creq : M unit :=                                                   (* 464-465 *)
  s <- get ;;
  match s_creq s with
  | Some (_, idx, att) =>
    emit (OCancelReq R_COMMIT) ;;; upd (set_creq None) ;;;                         (* 686-688 _clear_commit_req *)
    swallow (handle_commit_error FK_CANCELLED idx att)
  | None => ret tt
  end.
Definition stop_ccall : M unit :=                                                  (* 467-470 *)
  s <- get ;;
  match s_ccall s with
  | Some (st, _, _) => (if st =? 0 then emit (OCancelTimer T_COMMIT) else ret tt) ;;; upd (set_ccall None)
  | None => ret tt
  end.
Definition stop_looper : M unit :=                                                 (* 472-473, 1120-1131 *)
  s <- get ;;
  match s_looper s with
  | Some true => emit (OCancelTimer T_LOOPER) ;;; upd (set_looper None)
  | _ => ret tt
  end.
Definition stop_susp : M unit :=                                                   (* 474-477 *)
  s <- get ;; if s_susp s then upd (fun s => set_maxatt 0 (set_susp false s)) else ret tt.
Definition stop_startd : M unit :=                                                 (* 484-486 *)
  s <- get ;;
  upd (set_startd None) ;;;
  match s_startd s with
  | None => raise X_ATTRIBUTE                                                      (* None.called *)
  | Some false => emit (OStartD true (encv (s_lp s)))
  | Some true => ret tt
  end.

Definition body (k : kont) : M unit :=
  match k with
  | KStop =>
    s <- get ;;
    match s_startd s with
    | None => raise X_RESTOP                                                       (* 435-436 *)
    | Some _ =>
      upd (set_stopping true) ;;;                                                  (* 438 *)
      stop_req ;;; stop_mblock ;;; stop_proc ;;; stop_rcall ;;;
      rec KStopCds ;;;                                                             (* 460-463 *)
      stop_creq ;;; stop_ccall ;;; stop_looper ;;; stop_susp ;;;
      upd (set_stopping false) ;;;                                                 (* 479 *)
      stop_startd
    end
  | KStopCds =>
    s <- get ;;
    match rev (s_cds s) with
    | [] => ret tt
    | d :: r => upd (set_cds (rev r)) ;;;                                          (* 441 pop() *)
                swallow (rec (KFireCd d (CFail FK_CANCELLED))) ;;;                 (* 442 cancel() *)
                rec KStopCds
    end
  | KFireProc fk =>
    s <- get ;;
    match s_proc s with
    | None => ret tt
    | Some (last, rest, cont) =>
      r <- proc_chain last fk ;;
      (match r with                                      (* inlineCallbacks gotResult: resume the generator after `yield d` *)
       | None => swallow (rec (KProcLoop rest))                                    (* 1012-1013 and back to 987 *)
       | Some _ => ret tt                                (* the Failure is thrown into the generator, which dies *)
       end) ;;;
      if (cont : bool) then swallow (rec KCommitAndStop) else ret tt               (* 400: callback added by shutdown() *)
    end
  | KProcLoop msgs =>
    s <- get ;;
    match msgs with
    | [] => finish_block                                                           (* 987 *)
    | m0 :: _ =>
      if s_shutting s then finish_block                                            (* 1015 *)
      else if s_stopping s then finish_block                                       (* 1016-1021 *)
      else match s_startd s with
      | None => finish_block
      | Some true => finish_block
      | Some false =>
        let n := if c_acn (s_cf s) =? 0 then length msgs else Z.to_nat (c_acn (s_cf s)) in   (* 979-985 *)
        let blk := take n msgs in
        let rest := drop n msgs in
        let last := List.last blk m0 in                                            (* 995 *)
        emit (OCallProc blk) ;;;                                                   (* 996 *)
        p <- pop_plan ;;
        (if fst p =? 1 then api_stop else if fst p =? 2 then api_commit else if fst p =? 3 then api_shutdown else ret tt) ;;;
        if snd p =? 2 then                                  (* the processor returned a pending Deferred *)
          upd (set_proc (Some (last, rest, false))) ;;;
          s <- get ;;
          if s_stopping s || negb (is_some (s_startd s)) then                      (* 1007-1009 *)
            emit OCancelProc ;;; _ <- proc_chain last (Some FK_CANCELLED) ;; finish_block
          else ret tt                                                              (* 1011: suspended *)
        else
          r <- proc_chain last (if snd p =? 0 then None else Some FK_PROC) ;;
          s <- get ;;
          if s_stopping s || negb (is_some (s_startd s)) then finish_block         (* 1007-1009 (cancel of a fired d) *)
          else match r with
               | None => rec (KProcLoop rest)                                      (* 1011-1013 *)
               | Some k => raise k                                                 (* the generator dies *)
               end
      end
    end
  | KFetchResp offs ts =>
    upd (fun s => set_att 1 (set_ridx 0 s)) ;;;                                    (* 883-884 *)
    s <- get ;;
    match s_mblock s with
    | Some _ => upd (set_mblock (Some (Some (offs, ts))))                          (* 887-891 *)
    | None =>
      upd (set_req None) ;;;                                                       (* 896 *)
      let (msgs, foff') := extract (s_foff s) offs in                              (* 897-930 *)
      upd (set_foff foff') ;;;
      x <- (if ts then                                                             (* 959-985 *)
              match grow_buffer (s_buf s) (c_maxbuf (s_cf s)) with
              | Some b => upd (set_buf b) ;;; ret (Ok false)
              | None => r <- try (startd_errback FK_TOOSMALL) ;;                   (* 972-980 *)
                        ret (match r with Ok _ => Ok true | Exc k => Exc k end)
              end
            else ret (Ok false)) ;;
      (match msgs with                                                             (* 959-964 finally *)
       | [] => ret tt
       | _ :: _ => upd (set_mblock (Some None)) ;;; swallow (rec (KProcLoop msgs))
       end) ;;;
      match x with
      | Ok false => retry_fetch true                                               (* 967 *)
      | Ok true => ret tt                                                          (* 952 *)
      | Exc k => raise k
      end
    end
  | KCommitAndStop =>
    s <- get ;;
    if s_stopping s || negb (is_some (s_startd s)) then interrupted                (* 386-387 *)
    else if negb (c_group (s_cf s)) then rec (KShutFinish None)                         (* 371-372 *)
    else r <- commit WShut ;;                                                      (* 375 *)
         match r with
         | CNow (CSucc _) => rec (KShutFinish None)
         | CNow (CFail fk) => if fk =? FK_OIP then ret tt else rec (KShutFinish (Some fk))   (* 360-362 *)
         | CPending => ret tt
         end
  | KShutFinish fk =>
    s <- get ;;
    if s_stopping s || negb (is_some (s_startd s)) then interrupted                (* 364-365 / 381-382 *)
    else if match fk with None => true | Some _ => false end
            && c_group (s_cf s) && is_some (s_lp s) && negb (oz_eqb (s_lp s) (s_lc s))
    then rec KCommitAndStop             (* 366-373: more was processed while that commit was under way: commit it *)
    else
    (* since 7d0d3e7 the code clears _shuttingdown BEFORE stop() (consumer.py:377-378 / 390-391) so that an application
       callback of the start Deferred fired by stop() may start the consumer again (F-C13-7); stop() never reads the flag and
       everything it triggers is guarded by _stopping, so without such callbacks (outside the model) the order is
       unobservable: same outputs, same state at the end.  The model keeps the earlier order (proofs of C02 depend on it). *)
    upd (set_shutd false) ;;;                                                      (* 374 / 389 *)
    rec KStop ;;;                                                                  (* 378 / 391 *)
    upd (set_shutting false) ;;;                                                   (* 377 / 390 *)
    if s_shutd s then
      s' <- get ;;
      emit_shutd (match fk with None => OShutD true (encv (s_lp s')) (s_lc s') | Some k => OShutD false k (s_lc s') end)   (* 356 / 367 *)
    else raise X_ATTRIBUTE
  | KFireCd d r =>
    match d with
    | CdUser id => emit (OCommitD id (fst (outcome_of r)) (snd (outcome_of r)))
    | CdOipUser id => emit (OOipD id (fst (outcome_of r)) (snd (outcome_of r)))
    | CdAuto => match r with CFail fk => handle_auto_commit_error fk | CSucc _ => ret tt end
    | CdRetryAuto bc => match r with CSucc _ => auto_commit bc | CFail _ => ret tt end        (* 528-530 *)
    | CdShut => match r with
                | CSucc _ => rec (KShutFinish None)
                | CFail fk => rec (KShutFinish (Some fk))
                end
    | CdOipShut => rec KCommitAndStop                                              (* 376: addBoth *)
    | CdBare => ret tt
    end
  | KDeliver r =>
    s <- get ;;
    upd (set_cds []) ;;;                                                           (* 675 *)
    fire_all (rev (s_cds s)) r
  end.
End Bodies.

Fixpoint run (fuel : nat) (k : kont) : M unit :=
  match fuel with
  | O => emit OFuel ;;; raise X_FUEL
  | S f => body (run f) k
  end.

(* ---- events ---- *)
Inductive event :=
| EStart (off : Z) | EStop | EShutdown | ECommit
| EReqOk (v : Z) | EFetchOk (offs : list Z) (ts : bool) | EReqFail (fk : Z)
| EPlan (i r : Z) | EProcFire (ok : bool)
| ECommitOk | ECommitFail (fk : Z)
| EFireRetry | EFireCommitRetry | ETick.

Definition flush_pend (keep : bool) : M unit :=
  s <- get ;;
  upd (fun s => set_pend [] (set_inapi 0 s)) ;;;
  if keep then (fun s' => (Ok tt, s', s_pend s)) else ret tt.

Definition handle (fuel : nat) (e : event) : M unit :=
  let rec := run fuel in
  s <- get ;;
  match e with
  | EStart off =>                                                                  (* consumer.py:289-338 *)
    match s_startd s with
    | Some _ => emit (ORaised X_RESTART)                                           (* 319-320 *)
    | None =>
      upd (fun s => set_inapi 1 (set_foff off (set_startd (Some false) s))) ;;;    (* 326-329 *)
      r <- try (do_fetch ;;;                                                       (* 330 *)
                if c_group (s_cf s) && c_acs (s_cf s) then                         (* 333-337 *)
                  upd (set_looper (Some true)) ;;; emit (OSched T_LOOPER (-1))
                else ret tt) ;;
      match r with
      | Ok _ => flush_pend true ;;; emit (ORet 0)
      | Exc k => flush_pend false ;;; emit (ORaised k)
      end
    end
  | EStop => api_stop rec
  | EShutdown => api_shutdown rec                                                  (* consumer.py:341-424 *)
  | ECommit => api_commit
  | EReqOk v =>
    match s_req s with
    | Some (kd, false) =>
      if (kd =? R_OFFREQ) || (kd =? R_OFFFETCH) then
        upd (set_req (Some (kd, true))) ;;; swallow (handle_offset_response kd v)  (* 1049 / 1060 addCallbacks *)
      else emit OIgnored
    | _ => emit OIgnored
    end
  | EFetchOk offs ts =>
    match s_req s with
    | Some (kd, false) =>
      if kd =? R_FETCH then
        upd (set_req (Some (kd, true))) ;;;
        r <- try (rec (KFetchResp offs ts)) ;;                                     (* 1073 addCallback *)
        match r with Ok _ => ret tt | Exc k => swallow (handle_fetch_error k) end  (* 1074 addErrback *)
      else emit OIgnored
    | _ => emit OIgnored
    end
  | EReqFail fk =>
    match s_req s with
    | Some (kd, false) =>
      upd (set_req (Some (kd, true))) ;;;
      swallow (if kd =? R_FETCH then handle_fetch_error fk else handle_offset_error fk)
    | _ => emit OIgnored
    end
  | EPlan i r => upd (set_plan (s_plan s ++ [(i, r)]))
  | EProcFire ok =>
    match s_proc s with
    | Some _ => swallow (rec (KFireProc (if ok then None else Some FK_PROC)))
    | None => emit OIgnored
    end
  | ECommitOk =>                                                                   (* 723-727, 661-669 *)
    match s_creq s with
    | Some (off, _, _) => upd (fun s => set_lc off (set_creq None s)) ;;; swallow (rec (KDeliver (CSucc off)))
    | None => emit OIgnored
    end
  | ECommitFail fk =>
    match s_creq s with
    | Some (_, idx, att) => upd (set_creq None) ;;; swallow (handle_commit_error rec fk idx att)
    | None => emit OIgnored
    end
  | EFireRetry =>
    match s_rcall s with
    | Some st => if st =? 0 then
                   upd (set_rcall (Some 2)) ;;;
                   r <- try do_fetch ;; match r with Ok _ => ret tt | Exc k => emit (ORaised k) end
                 else emit OIgnored
    | None => emit OIgnored
    end
  | EFireCommitRetry =>
    match s_ccall s with
    | Some (st, idx, att) =>
      if st =? 0 then
        upd (set_ccall (Some (2, idx, att))) ;;;
        r <- try (send_commit_request idx att) ;; match r with Ok _ => ret tt | Exc k => emit (ORaised k) end
      else emit OIgnored
    | None => emit OIgnored
    end
  | ETick =>                                                        (* LoopingCall.__call__ around _auto_commit() *)
    match s_looper s with
    | Some true =>
      upd (set_looper (Some false)) ;;;
      swallow (auto_commit false) ;;;
      s' <- get ;;
      match s_looper s' with
      | Some _ => upd (set_looper (Some true)) ;;; emit (OSched T_LOOPER (-1))
      | None => ret tt
      end
    | _ => emit OIgnored
    end
  end.

Definition step (fuel : nat) (s : state) (e : event) : state * list output :=
  match (handle fuel e ;;; s' <- get ;; emit (OEnd (s_lp s') (s_lc s'))) s with
  | (_, s', o) => (s', o)
  end.

Definition init (c : cfg) (maxatt buf : Z) : state :=
  mkS c maxatt buf 0 1 0 None None false false false false None None None None None [] None None None [] 0 0 [].

Fixpoint run_events (fuel : nat) (s : state) (evs : list event) : state * list output :=
  match evs with
  | [] => (s, [])
  | e :: r => let (s1, o1) := step fuel s e in
              let (s2, o2) := run_events fuel s1 r in (s2, o1 ++ o2)
  end.

(* ================= specification vocabulary: boolean state predicates (definitions only) ================= *)
Definition is_none {A} (o : option A) : bool := negb (is_some o).
Definition parked (s : state) : bool := match s_mblock s with Some (Some _) => true | _ => false end.
Definition req_pending (s : state) : bool := match s_req s with Some (_, false) => true | _ => false end.
Definition rcall_active (s : state) : bool := match s_rcall s with Some st => st =? 0 | None => false end.
Definition rcall_stale (s : state) : bool := match s_rcall s with Some st => negb (st =? 0) | None => false end.
Definition ccall_active (s : state) : bool := match s_ccall s with Some (st, _, _) => st =? 0 | None => false end.
Definition is_shut_cd (d : cdk) : bool := match d with CdShut | CdOipShut => true | _ => false end.
Definition is_cdshut (d : cdk) : bool := match d with CdShut => true | _ => false end.
Definition proc_cont (s : state) : bool := match s_proc s with Some (_, _, c) => c | None => false end.
Definition has_cont (s : state) : bool := proc_cont s || existsb is_shut_cd (s_cds s).
Definition is_nil {A} (l : list A) : bool := match l with [] => true | _ => false end.
Definition looper_armed (s : state) : bool := match s_looper s with Some true => true | _ => false end.

(* nothing of the consumer is left running: no armed timer, no outstanding-and-uncancelled request or commit, no
   processor result awaited, no block in progress, not started *)
Definition quiescent (s : state) : bool :=
  is_none (s_startd s) && is_none (s_req s) && is_none (s_proc s) && is_none (s_mblock s) && negb (rcall_active s)
  && is_nil (s_cds s) && is_none (s_creq s) && is_none (s_ccall s) && negb (looper_armed s) && negb (s_stopping s).

(* candidate invariants of states between two events; n0 = the configured request_retry_max_attempts *)
Definition invs (n0 : Z) (s : state) : list bool :=
  [ implb (rcall_active s) (is_none (s_req s))                                                        (* 0 *)
  ; implb (parked s) (match s_req s with Some (kd, true) => kd =? R_FETCH | _ => false end
                      && (s_ridx s =? 0) && (s_att s =? 1))                                           (* 1 *)
  ; implb (is_nil (s_cds s)) (is_none (s_creq s) && is_none (s_ccall s))                              (* 2 *)
  ; implb (rcall_stale s) (is_none (s_startd s))                                                      (* 3 *)
  ; negb (match s_looper s with Some false => true | _ => false end)                                  (* 4 *)
  ; Bool.eqb (s_shutd s) (s_shutting s) && implb (s_shutd s) (has_cont s)                             (* 5 *)
  ; implb (is_none (s_startd s)) (is_none (s_req s) && is_none (s_proc s) && is_none (s_mblock s)
                                  && negb (rcall_active s) && negb (looper_armed s) && negb (s_shutting s))   (* 6 *)
  ; implb (existsb is_cdshut (s_cds s)) (s_shutting s)                                                (* 7 *)
  ; true     (* 8: retired - since shutdown() may be called from inside the processor the commit it waits for need not
                carry last_processed; consumer.py:366-373 commits again instead *)
  ; (1 <=? s_att s) && (0 <=? s_ridx s)                                                               (* 9 *)
  ; (s_inapi s =? 0) && is_nil (s_pend s) && negb (s_stopping s)                                      (* 10 *)
  ; if s_susp s then (n0 =? 0) && (s_maxatt s =? 2) && s_shutting s else s_maxatt s =? n0             (* 11 *)
  ; implb (is_some (s_creq s)) (is_none (s_ccall s))                                                  (* 12 *)
  ; implb (is_some (s_proc s)) (is_some (s_mblock s))                                                 (* 13 *)
  ; implb (has_cont s) (s_shutd s)                                                                    (* 14 *)
  ; implb (is_some (s_looper s)) (is_some (s_startd s) && c_group (s_cf s) && c_acs (s_cf s))         (* 15 *)
  ; implb (is_some (s_mblock s) && is_none (s_proc s)) (match s_startd s with Some true => true | _ => false end) (* 16 *)
  ; implb (negb (is_nil (s_cds s))) (c_group (s_cf s))                                                (* 17 *)
  ; implb (negb (is_nil (s_cds s))) (is_some (s_lp s))                                                (* 18 *)
  ].

Fixpoint first_false (i : Z) (l : list bool) : Z :=
  match l with [] => -1 | b :: r => if b then first_false (i + 1) r else i end.

Fixpoint check_invs (fuel : nat) (n0 : Z) (step_no : Z) (s : state) (evs : list event) : list Z :=
  match evs with
  | [] => []
  | e :: r => let (s1, _) := step fuel s e in
              let f := first_false 0 (invs n0 s1) in
              if f =? -1 then check_invs fuel n0 (step_no + 1) s1 r else [step_no; f]
  end.

(* ================= trace vocabulary: what the theorems (and the driver's monitors) say about runs ================= *)
(* one step of a run: state before, event, outputs, state after *)
Definition tstep := (state * event * list output * state)%type.
Fixpoint run_steps (fuel : nat) (s : state) (evs : list event) : list tstep :=
  match evs with
  | [] => []
  | e :: r => let (s1, o) := step fuel s e in (s, e, o, s1) :: run_steps fuel s1 r
  end.
Definition is_fuel (o : output) : bool := match o with OFuel => true | _ => false end.
Definition fuel_ok (o : list output) : bool := negb (existsb is_fuel o).

(* the reply event e answers the request outstanding in s *)
Definition success_reply (s : state) (e : event) : bool :=
  match e, s_req s with
  | EReqOk _, Some (kd, false) => (kd =? R_OFFREQ) || (kd =? R_OFFFETCH)
  | EFetchOk _ _, Some (kd, false) => kd =? R_FETCH
  | _, _ => false
  end.
Definition fail_reply (s : state) (e : event) : bool :=
  match e with EReqFail _ => req_pending s | _ => false end.
Definition start_accepted (s : state) (e : event) : bool :=
  match e with EStart _ => is_none (s_startd s) | _ => false end.

(* indices of the back-off delays scheduled for refetches (the literal-0 reschedule after a success carries -1) *)
Fixpoint retry_idxs (o : list output) : list Z :=
  match o with
  | [] => []
  | OSched k i :: r => if (k =? T_RETRY) && (0 <=? i) then i :: retry_idxs r else retry_idxs r
  | _ :: r => retry_idxs r
  end.
(* c, c+1, c+2, ... *)
Fixpoint counts_from (c : Z) (l : list Z) : option Z :=
  match l with [] => Some c | i :: r => if i =? c then counts_from (c + 1) r else None end.

(* C14_backoff_index, one step: the delays scheduled in the step are numbered consecutively from the index reached
   before it (from 0 if the step handles a successful reply) and the state remembers the next index *)
Definition backoff_step (t : tstep) : bool :=
  match t with (s, e, o, s') =>
    match counts_from (if success_reply s e then 0 else s_ridx s) (retry_idxs o) with
    | Some c => c =? s_ridx s'
    | None => false
    end
  end.

Definition startd_unfired (s : state) : bool := match s_startd s with Some false => true | _ => false end.

(* C14_attempt_limit: f = consecutive failed offset/fetch attempts since the last success / accepted start *)
Fixpoint limit_run (n0 f : Z) (tr : list tstep) : bool :=
  match tr with
  | [] => true
  | (s, e, o, s') :: r =>
    let f1 := if success_reply s e || start_accepted s e then 0 else if fail_reply s e then f + 1 else f in
    implb ((0 <? n0) && startd_unfired s') (f1 <? n0) && limit_run n0 f1 r
  end.
Fixpoint limit_inv_run (f : Z) (tr : list tstep) : bool :=          (* the invariant that proves it *)
  match tr with
  | [] => true
  | (s, e, o, s') :: r =>
    let f1 := if success_reply s e || start_accepted s e then 0 else if fail_reply s e then f + 1 else f in
    implb (startd_unfired s' && (req_pending s' || rcall_active s')) (f1 + 1 <=? s_att s')
    && implb (parked s') (f1 =? 0) && limit_inv_run f1 r
  end.

Fixpoint count_startd (o : list output) : Z :=
  match o with [] => 0 | OStartD _ _ :: r => 1 + count_startd r | _ :: r => count_startd r end.
(* C13_start_once, one step: the start Deferred is unfired after the step iff (it was unfired before or the step is an
   accepted start) and the step reports no outcome; a step reports at most one outcome and only for an unfired one *)
Definition start_once_step (t : tstep) : bool :=
  match t with (s, e, o, s') =>
    let had := startd_unfired s || start_accepted s e in
    let n := count_startd o in
    (n <=? 1) && implb (n =? 1) had && Bool.eqb (startd_unfired s') (had && (n =? 0))
  end.

Definition shutd_ok (group : bool) (o : output) : bool :=
  match o with
  | OShutD true v lc => implb group ((v =? NONE) || oz_eqb lc (Some v))
  | _ => true
  end.
Definition is_activity (o : output) : bool :=
  match o with OCallProc _ | OFetch _ _ | OOffReq _ | OOffFetch | OCommit _ _ | OSched _ _ => true | _ => false end.

Definition mon_step (n0 : Z) (t : tstep) : list bool :=
  match t with (s, e, o, s') =>
    [ backoff_step t; start_once_step t; forallb (shutd_ok (c_group (s_cf s))) o
    ; implb (quiescent s && negb (match e with EStart _ | ECommit => true | _ => false end))
            (quiescent s' && negb (existsb is_activity o))
    ; implb (match e with EStop => existsb (fun x => match x with ORet _ => true | _ => false end) o | _ => false end)
            (quiescent s' && negb (s_shutting s') && negb (s_shutd s') && negb (s_susp s') && (s_maxatt s' =? n0)
             && is_none (s_looper s') && negb (existsb is_activity o))
    ; implb (match e with EStop => is_some (s_startd s) | _ => false end)
            (existsb (fun x => match x with ORet _ => true | _ => false end) o) ]
  end.
Fixpoint check_mons (n0 : Z) (i : Z) (tr : list tstep) : list Z :=
  match tr with
  | [] => []
  | t :: r => let f := first_false 0 (mon_step n0 t) in if f =? -1 then check_mons n0 (i + 1) r else [i; f]
  end.

(* ---- case lines ---- *)
Definition b2z (b : bool) : Z := if b then 1 else 0.
Definition enc_out (cap : Z) (o : output) : list Z :=
  match o with
  | OOffReq t => [20; t]
  | OOffFetch => [21]
  | OFetch off mb => [22; off; mb]
  | OCommit off g => [23; encv off; g]
  | OCallProc offs => 24 :: Z.of_nat (length offs) :: offs
  | OSched k i => [25; k; Z.min i cap]        (* indices at or beyond the cap denote the same delay (the maximum) *)
  | OCancelTimer k => [26; k]
  | OCancelReq k => [27; k]
  | OCancelProc => [28]
  | OStartD ok v => [30; b2z ok; v]
  | OShutD ok v lc => [31; b2z ok; v; encv lc]
  | OCommitD id ok v => [32; id; b2z ok; v]
  | OOipD id ok v => [33; id; b2z ok; v]
  | ORet v => [34; v]
  | ORaised k => [35; k]
  | OIgnored => [36]
  | OEnd lp lc => [37; encv lp; encv lc]
  | OFuel => [38]
  end.

Fixpoint parse_events (fuel : nat) (l : list Z) : option (list event) :=
  match fuel with
  | O => None
  | S f =>
    match l with
    | [] => Some []
    | 1 :: off :: r => option_map (cons (EStart off)) (parse_events f r)
    | 2 :: r => option_map (cons EStop) (parse_events f r)
    | 3 :: r => option_map (cons EShutdown) (parse_events f r)
    | 4 :: r => option_map (cons ECommit) (parse_events f r)
    | 5 :: v :: r => option_map (cons (EReqOk v)) (parse_events f r)
    | 6 :: r => match take_lp r with
                | Some (offs, ts :: r') => option_map (cons (EFetchOk offs (negb (ts =? 0)))) (parse_events f r')
                | _ => None
                end
    | 7 :: k :: r => option_map (cons (EReqFail k)) (parse_events f r)
    | 8 :: i :: x :: r => option_map (cons (EPlan i x)) (parse_events f r)
    | 9 :: ok :: r => option_map (cons (EProcFire (negb (ok =? 0)))) (parse_events f r)
    | 10 :: r => option_map (cons ECommitOk) (parse_events f r)
    | 11 :: k :: r => option_map (cons (ECommitFail k)) (parse_events f r)
    | 12 :: r => option_map (cons EFireRetry) (parse_events f r)
    | 13 :: r => option_map (cons EFireCommitRetry) (parse_events f r)
    | 14 :: r => option_map (cons ETick) (parse_events f r)
    | _ => None
    end
  end.

(* case = op group acn acs reset maxatt buf maxbuf gen cap fuel events...   (op 1: the whole trace) *)
Definition run_case (c : list Z) : list Z :=
  match c with
  | 1 :: group :: acn :: acs :: reset :: maxatt :: buf :: maxbuf :: gen :: cap :: fuel :: evl =>
    match parse_events (S (length evl)) evl with
    | Some evs =>
      let cf := mkCfg (negb (group =? 0)) acn (negb (acs =? 0)) reset (if maxbuf =? -1 then None else Some maxbuf) gen in
      let (_, outs) := run_events (Z.to_nat fuel) (init cf maxatt buf) evs in
      flat_map (enc_out cap) outs
    | None => [-99]
    end
  | 2 :: group :: acn :: acs :: reset :: maxatt :: buf :: maxbuf :: gen :: cap :: fuel :: evl =>     (* op 2: invariants *)
    match parse_events (S (length evl)) evl with
    | Some evs =>
      let cf := mkCfg (negb (group =? 0)) acn (negb (acs =? 0)) reset (if maxbuf =? -1 then None else Some maxbuf) gen in
      check_invs (Z.to_nat fuel) maxatt 0 (init cf maxatt buf) evs
    | None => [-99]
    end
  | 3 :: group :: acn :: acs :: reset :: maxatt :: buf :: maxbuf :: gen :: cap :: fuel :: evl =>     (* op 3: monitors *)
    match parse_events (S (length evl)) evl with
    | Some evs =>
      let cf := mkCfg (negb (group =? 0)) acn (negb (acs =? 0)) reset (if maxbuf =? -1 then None else Some maxbuf) gen in
      let tr := run_steps (Z.to_nat fuel) (init cf maxatt buf) evs in
      check_mons maxatt 0 tr ++ (if limit_run maxatt 0 tr then [] else [-2]) ++ (if limit_inv_run 0 tr then [] else [-3])
    | None => [-99]
    end
  | _ => [-99]
  end.
