(* M7s: endpoints whose connect() completes SYNCHRONOUSLY (inside the call), brokerclient.py:421-462.

     def tryConnect():
         self.connector = d = maybeDeferred(connect)      # (1) d may ALREADY have fired
         d.addCallback(cbConnect)                          # (2) runs cbConnect at once if d succeeded
         d.addErrback(ebConnect)                           # (3) runs ebConnect at once if d failed

   The environment chooses, per attempt, the connect mode:
     None         connect() returns a pending Deferred (Model/BrokerClient.v: the outcome is a later event)
     Some true    connect() returns an already succeeded Deferred
     Some false   connect() returns an already failed Deferred (or raises: maybeDeferred turns that into a failure)
   tryConnect is transcribed statement by statement for the three modes; the assignment (1) happens BEFORE the
   callbacks run, so what cbConnect / ebConnect store in self.connector survives (seeded change C10-m8 chained the calls
   and assigned afterwards).  The three callers of tryConnect - makeRequest via _connect (244-245), _connectionLost via
   _connect (333-334) and cbDelayed (458-459) - call it as their LAST statement. *)
From AV Require Import Base.Util Model.Framing Model.BrokerClient.

(* cbConnect(proto), brokerclient.py:431-439 *)
Definition cb_connect (s : state) : state * list output :=
  let s1 := with_rxbuf (with_proto (with_connector (with_failures s 0) CNone) true) [] in
  match s_down s1 with
  | DNone => lift s1 (send_queued (s_t s1))
  | _ => (s1, [OLose])
  end.

(* ebConnect(fail) while the client is open, brokerclient.py:441-456 (the closed branch `return fail` is reached only
   through close()'s cancellation of a PENDING attempt, never synchronously: the callers below run with _dDown unset) *)
Definition eb_connect (s : state) : state * list output :=
  let k := S (s_failures s) in
  (with_connector (with_failures s k) CTimer, [OSched k]).

Definition try_connect_m (m : option bool) (s : state) : state * list output :=
  match m with
  | None => try_connect s
  | Some true =>
      let s1 := with_connector s CStale in                       (* (1) self.connector = an already fired Deferred *)
      let (s2, o2) := cb_connect s1 in                            (* (2) *)
      (s2, OConnect (s_addr s) :: o2)
  | Some false =>
      let s1 := with_connector s CStale in                       (* (1) *)
      let (s2, o2) := eb_connect s1 in                            (* (3) *)
      (s2, OConnect (s_addr s) :: o2)
  end.

(* _connect, brokerclient.py:414-462 *)
Definition connect_m (m : option bool) (s : state) : state * list output := try_connect_m m (with_failures s 0).

(* makeRequest, brokerclient.py:167-246 *)
Definition make_request_m (m : option bool) (s : state) (rid : Z) (expect : bool) : state * list output :=
  let t := s_t s in
  match lookup rid (t_reqs t) with
  | Some _ => (s, [ORaised 1])
  | None =>
      let h := length (t_dlog t) in
      match s_down s with
      | DNone =>
          let r := mkReq rid h expect false false in
          let t1 := mkT (t_reqs t ++ [r]) (t_dlog t ++ [rid]) (t_fired t) in
          if s_proto s then lift s (send_request t1 r)
          else match s_connector s with
               | CNone => connect_m m (with_t s t1)
               | _ => (with_t s t1, [])
               end
      | _ => lift s (fire (mkT (t_reqs t) (t_dlog t ++ [rid]) (t_fired t)) h FailClosed)
      end
  end.

(* the step of Model/BrokerClient.v with the connect mode of the attempt it may start *)
Definition sstep (s : state) (e : event) (m : option bool) : state * list output :=
  match e with
  | EMake rid expect => make_request_m m s rid expect
  | EFire =>                                                                 (* cbDelayed, 458-459 *)
      match s_connector s with
      | CTimer => try_connect_m m s
      | _ => (s, [])
      end
  | ELost =>                                                                 (* _connectionLost, 308-334 *)
      if s_proto s then
        let rs := map (set_sent false) (filter (fun r => negb (r_cancelled r)) (t_reqs (s_t s))) in
        let s1 := with_t (with_rxbuf (with_proto s false) []) (t_with_reqs (s_t s) rs) in
        match s_down s1 with
        | DNone => match rs with [] => (s1, []) | _ => connect_m m s1 end
        | _ => fire_down s1
        end
      else (s, [])
  | _ => step s e
  end.

Fixpoint srun (s : state) (evs : list (event * option bool)) : state * list output :=
  match evs with
  | [] => (s, [])
  | (e, m) :: r => let (s1, o1) := sstep s e m in
                   let (s2, o2) := srun s1 r in (s2, o1 ++ o2)
  end.

(* the asynchronous history that a history with synchronous outcomes is claimed to equal: the outcome of an attempt
   that completed synchronously becomes the very next event *)
Definition outcome_ev (b : bool) : event := if b then EConnOk else EConnFail.
Definition is_connect (o : output) : bool := match o with OConnect _ => true | _ => false end.

Fixpoint expand (s : state) (evs : list (event * option bool)) : list event :=
  match evs with
  | [] => []
  | (e, m) :: r =>
      let (s1, o1) := step s e in
      match m with
      | Some b => if existsb is_connect o1
                  then e :: outcome_ev b :: expand (fst (step s1 (outcome_ev b))) r
                  else e :: expand s1 r
      | None => e :: expand s1 r
      end
  end.

(* ------------------------------------------------------------------------------------------------
   case line = per event: <mode 0 pending | 1 succeeds inside the call | 2 fails inside the call> then the event in the
   encoding of Model/BrokerClient.v;  trace: as Model/BrokerClient.v, one segment per event *)
Fixpoint parse_sevents (fuel : nat) (l : list Z) : option (list (event * option bool)) :=
  match fuel with
  | O => None
  | S f =>
      match l with
      | [] => Some []
      | mc :: l1 =>
          let m := if mc =? 1 then Some true else if mc =? 2 then Some false else None in
          let k := fun ev r => match parse_sevents f r with Some es => Some ((ev, m) :: es) | None => None end in
          match l1 with
          | 1 :: rid :: ex :: r => k (EMake rid (negb (ex =? 0))) r
          | 2 :: h :: r => if h <? 0 then None else k (ECancel (Z.to_nat h)) r
          | 3 :: r => k EConnOk r
          | 4 :: r => k EConnFail r
          | 5 :: r => k ELost r
          | 6 :: r => match take_lp r with Some (c, r2) => k (EData c) r2 | None => None end
          | 7 :: r => match take_lp r with Some (c, r2) => k (EFrame c) r2 | None => None end
          | 8 :: r => k EFire r
          | 9 :: r => k EClose r
          | 10 :: r => k EDisconnect r
          | 11 :: sm :: a :: r => k (EUpdate (negb (sm =? 0)) a) r
          | _ => None
          end
      end
  end.

Fixpoint srun_enc (s : state) (evs : list (event * option bool)) : list Z :=
  match evs with
  | [] => []
  | (e, m) :: r => let (s1, o1) := sstep s e m in
                   0 :: (if s_proto s1 then 1 else 0) :: flat_map enc_out (canon_outs o1) ++ srun_enc s1 r
  end.

Definition run_case (c : list Z) : list Z :=
  match parse_sevents (S (length c)) c with
  | Some es => srun_enc init es
  | None => [-99]
  end.
