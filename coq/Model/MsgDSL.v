(* The message-set language: KafkaCodec._decode_message and KafkaCodec._decode_message_set_iter
   (/repo/afkak/kafkacodec.py) as terms, and what the terms mean.  harness/py2dsl.py translates the source of the two
   functions on every run; Proofs/MsgDSLSound.v proves that interpreting the committed terms (Model.DecAst) is
   Model.MsgSet.dec_message / dec_set - the decoder every message-set theorem of C05, C12 and C02 is about.

   A generator is modelled, as in Model.MsgSet, by what its consumer can observe: [dres] = the (offset, Message)
   pairs yielded, then exhaustion (None) or the exception raised after them.

   _decode_message(data, offset)       [mstmt]; the nested generator functions v0 / v1 are inlined where the
                                       dispatch `if magic == c: return vN(data, offset, cur)` calls them (the
                                       translator checks that the arguments are the parameters, by name and position)
     ((crc, magic, att), cur) = relative_unpack(">IBB", data, 0)      MUnpackStart   data None: len(None) is TypeError
     ((ts,), cur) = relative_unpack(">q", data, cur)                  MUnpack
     (key, cur) = read_int_string(data, cur)                          MReadIntString
     if crc != zlib.crc32(data[4:]) & 0xFFFFFFFF: raise X(..)         MCrcCheck      (Model.Crc.crc32 IS zlib.crc32(..) & 0xFFFFFFFF)
     codec = att & CONST                                              MAnd
     if v == CONST: A  elif ..: B  else: C                            MIfEq (nested)
     yield offset, Message(magic, att, key, value[, timestamp])       MYieldMsg
     gz = gzip_decode(value) / snp = snappy_decode(value)             MDecompress    (the compression oracle)
     for offset, msg in KafkaCodec._decode_message_set_iter(v): yield offset, msg                    MYieldFromSet
     for offset, msg in absolute(offset, KafkaCodec._decode_message_set_iter(v)): yield offset, msg  MYieldFromAbs
     raise X(..)                                                      MRaise
   absolute(wrapper_offset, inner)     [astmt]
     inner = list(inner)                                              AListOf        (an exception of the inner generator propagates)
     if inner: BODY                                                   AIfNonEmpty
     base = wrapper_offset - inner[-1].offset                         ABase
     for inner_offset, msg in inner: yield inner_offset + base, msg   AYieldShifted
   _decode_message_set_iter(data)      [sstmt]
     cur = 0 ; read_message = False                                   SsInit
     while cur < len(data): BODY                                      SsWhileData    (fuel = len(data), as Model.MsgSet.dec_loop)
     try: BODY except BufferUnderflowError: HANDLER                   SsTry
     ((offset,), cur) = relative_unpack(">q", data, cur)              SsUnpack
     (msg, cur) = read_int_string(data, cur)                          SsReadIntString
     msgIter = KafkaCodec._decode_message(msg, offset)                SsCallMessage  (errors of the call surface when iterated:
                                                                                      nothing lies between the call and the loop)
     for offset, message in msgIter: read_message = True; yield OffsetAndMessage(offset, message)     SsForYield
     if read_message is False: A else: B                              SsIfFlagFalse
     raise X() from None / return                                     SsRaise / SsReturn *)
From AV Require Import Base.Util Model.Prim Model.Crc Model.MsgSet.

Inductive mval : Type :=
| MU                                   (* unassigned *)
| MI (z : Z)
| MO (o : option (list Z))             (* bytes or None *)
| MB (b : bool)
| MG (g : dres)                        (* a generator of (offset, Message) *)
| ML (l : list omsg).                  (* a list of them *)

Definition menv := list mval.
Fixpoint mget (i : nat) (e : menv) : mval :=
  match i, e with
  | O, v :: _ => v
  | S k, _ :: r => mget k r
  | _, [] => MU
  end.
Fixpoint mset (i : nat) (v : mval) (e : menv) : menv :=
  match i, e with
  | O, _ :: r => v :: r
  | O, [] => [v]
  | S k, x :: r => x :: mset k v r
  | S k, [] => MU :: mset k v []
  end.
Fixpoint mset_all (targets : list nat) (vs : list Z) (e : menv) : menv :=
  match targets, vs with
  | t :: ts, v :: r => mset_all ts r (mset t (MI v) e)
  | _, _ => e
  end.

Fixpoint munpack_seq (fmt : list ifmt) (d : list Z) : res (list Z * list Z) :=
  match fmt with
  | [] => Ok ([], d)
  | f :: r => do (v, d1) <- unpack f d; do (vs, d2) <- munpack_seq r d1; Ok (v :: vs, d2)
  end.

(* ------------------------------------------------------------------ absolute(wrapper_offset, inner) *)
Inductive astmt : Set :=
| ASkip | ASeq (a b : astmt)
| AListOf (v : nat)
| AIfNonEmpty (v : nat) (body : astmt)
| ABase (target wrapper v : nat)
| AYieldShifted (v base : nat).

(* result: items yielded, then [None] (went on / finished) or the exception; the environment is threaded *)
Fixpoint aexec (p : astmt) (e : menv) : list omsg * menv * option err :=
  match p with
  | ASkip => ([], e, None)
  | ASeq a b => match aexec a e with
                | (ys, e1, None) => let '(zs, e2, o) := aexec b e1 in (ys ++ zs, e2, o)
                | r => r
                end
  | AListOf v => match mget v e with
                 | MG (ys, None) => ([], mset v (ML ys) e, None)
                 | MG (_, Some x) => ([], e, Some x)
                 | ML l => ([], e, None)
                 | MU => ([], e, Some NameErr)
                 | _ => ([], e, Some TypeErr)
                 end
  | AIfNonEmpty v body => match mget v e with
                          | ML [] => ([], e, None)
                          | ML _ => aexec body e
                          | MU => ([], e, Some NameErr)
                          | _ => ([], e, Some TypeErr)
                          end
  | ABase t w v => match mget w e, mget v e with
                   | MI wo, ML l => match rev l with
                                    | (lo, _) :: _ => ([], mset t (MI (wo - lo)) e, None)
                                    | [] => ([], e, Some TypeErr)          (* IndexError: not reachable under `if inner` *)
                                    end
                   | _, _ => ([], e, Some TypeErr)
                   end
  | AYieldShifted v b => match mget v e, mget b e with
                         | ML l, MI base => (map (fun om => (fst om + base, snd om)) l, e, None)
                         | _, _ => ([], e, Some TypeErr)
                         end
  end.

(* absolute is called with (wrapper offset, inner generator): parameters in slots 0 and 1 *)
Definition arun (p : astmt) (wrapper_offset : Z) (inner : dres) : dres :=
  let '(ys, _, o) := aexec p [MI wrapper_offset; MG inner] in (ys, o).

(* ------------------------------------------------------------------ _decode_message *)
Inductive mstmt : Set :=
| MSkip | MSeq (a b : mstmt)
| MUnpackStart (fmt : list ifmt) (targets : list nat)
| MUnpack (fmt : list ifmt) (targets : list nat)
| MReadIntString (target : nat)
| MCrcCheck (crc : nat) (skip : nat) (e : err)
| MAnd (target src : nat) (mask : Z)
| MIfEq (v : nat) (c : Z) (a b : mstmt)
| MYieldMsg (off magic att key value : nat) (ts : option nat)
| MDecompress (codec : Z) (target src : nat)
| MYieldFromSet (src : nat)
| MYieldFromAbs (off src : nat)
| MRaise (e : err).

Record mprog : Set := mk_mprog { mp_nvars : nat; mp_offset_slot : nat; mp_body : mstmt; mp_absolute : astmt }.

Section MInterp.
  Variable rec : list Z -> dres.          (* KafkaCodec._decode_message_set_iter on a nested set, one level deeper *)
  Variable orc : oracle.
  Variable helper : astmt.                (* the body of absolute *)
  Variable data : option (list Z).        (* the `data` argument: the message bytes, None for a length -1 entry *)

  Record mstate := mk_mstate { ms_env : menv; ms_rest : list Z }.
  Inductive mflow := MNext (s : mstate) | MRaised (e : err).
  Definition mout := (list omsg * mflow)%type.

  Definition mthen (o : mout) (k : mstate -> mout) : mout :=
    match o with
    | (ys, MNext s) => let (zs, f) := k s in (ys ++ zs, f)
    | r => r
    end.
  Definition mlift {A} (r : res A) (k : A -> mout) : mout := match r with Ok a => k a | Err e => ([], MRaised e) end.

  Definition geti (i : nat) (e : menv) : res Z := match mget i e with MI z => Ok z | MU => Err NameErr | _ => Err TypeErr end.
  Definition geto (i : nat) (e : menv) : res (option (list Z)) :=
    match mget i e with MO o => Ok o | MU => Err NameErr | _ => Err TypeErr end.

  (* a generator's items pass through; its exception, if any, follows them *)
  Definition yield_from (g : dres) (s : mstate) : mout :=
    match g with (ys, None) => (ys, MNext s) | (ys, Some e) => (ys, MRaised e) end.

  Fixpoint mexec (p : mstmt) (s : mstate) {struct p} : mout :=
    match p with
    | MSkip => ([], MNext s)
    | MSeq a b => mthen (mexec a s) (mexec b)
    | MUnpackStart fmt targets =>
        match data with
        | None => ([], MRaised TypeErr)
        | Some d => mlift (munpack_seq fmt d) (fun vr => ([], MNext (mk_mstate (mset_all targets (fst vr) (ms_env s)) (snd vr))))
        end
    | MUnpack fmt targets =>
        mlift (munpack_seq fmt (ms_rest s)) (fun vr => ([], MNext (mk_mstate (mset_all targets (fst vr) (ms_env s)) (snd vr))))
    | MReadIntString t =>
        mlift (read_int_string (ms_rest s)) (fun vr => ([], MNext (mk_mstate (mset t (MO (fst vr)) (ms_env s)) (snd vr))))
    | MCrcCheck c skip e =>
        mlift (geti c (ms_env s)) (fun crc =>
          match data with
          | None => ([], MRaised TypeErr)
          | Some d => if negb (crc =? crc32 (drop skip d)) then ([], MRaised e) else ([], MNext s)
          end)
    | MAnd t src mask =>
        mlift (geti src (ms_env s)) (fun v => ([], MNext (mk_mstate (mset t (MI (Z.land v mask)) (ms_env s)) (ms_rest s))))
    | MIfEq v c a b => mlift (geti v (ms_env s)) (fun x => if (x =? c) then mexec a s else mexec b s)
    | MYieldMsg off magic att key value ts =>
        mlift (geti off (ms_env s)) (fun o =>
        mlift (geti magic (ms_env s)) (fun mg =>
        mlift (geti att (ms_env s)) (fun at_ =>
        mlift (geto key (ms_env s)) (fun k =>
        mlift (geto value (ms_env s)) (fun v =>
          match ts with
          | None => ([(o, mkMessage mg at_ k v None)], MNext s)
          | Some t => mlift (geti t (ms_env s)) (fun tv => ([(o, mkMessage mg at_ k v (Some tv))], MNext s))
          end)))))
    | MDecompress codec t src =>
        mlift (geto src (ms_env s)) (fun v =>
          mlift (if (codec =? CODEC_GZIP) then gzip_decode orc v else snappy_decode orc v)
                (fun b => ([], MNext (mk_mstate (mset t (MO (Some b)) (ms_env s)) (ms_rest s)))))
    | MYieldFromSet src =>
        mlift (geto src (ms_env s)) (fun v =>
          match v with Some b => yield_from (rec b) s | None => ([], MRaised TypeErr) end)
    | MYieldFromAbs off src =>
        mlift (geti off (ms_env s)) (fun o =>
        mlift (geto src (ms_env s)) (fun v =>
          match v with Some b => yield_from (arun helper o (rec b)) s | None => ([], MRaised TypeErr) end))
    | MRaise e => ([], MRaised e)
    end.
End MInterp.

(* KafkaCodec._decode_message(data, offset), as its caller observes the generator it returns *)
Definition mrun (p : mprog) (rec : list Z -> dres) (orc : oracle) (data : option (list Z)) (offset : Z) : dres :=
  match mexec rec orc (mp_absolute p) data (mp_body p) (mk_mstate (mset (mp_offset_slot p) (MI offset) (repeat MU (mp_nvars p))) []) with
  | (ys, MNext _) => (ys, None)
  | (ys, MRaised e) => (ys, Some e)
  end.

(* ------------------------------------------------------------------ _decode_message_set_iter *)
Inductive sstmt : Set :=
| SsSkip | SsSeq (a b : sstmt)
| SsInit (flag : nat)
| SsWhileData (body : sstmt)
| SsTry (body handler : sstmt)
| SsUnpack (fmt : list ifmt) (targets : list nat)
| SsReadIntString (target : nat)
| SsCallMessage (target msg off : nat)
| SsForYield (iter flag : nat)
| SsIfFlagFalse (flag : nat) (a b : sstmt)
| SsRaise (e : err)
| SsReturn.

Record sprog : Set := mk_sprog { sp_nvars : nat; sp_body : sstmt }.

Section SInterp.
  Variable decode_message : option (list Z) -> Z -> dres.      (* KafkaCodec._decode_message *)

  Record sstate := mk_sstate { ss_env : menv; ss_rest : list Z }.
  (* how a statement ends: goes on, `return`, or an exception - the locals at that point are kept (the handler of a
     try reads the flag as it was when the exception was raised) *)
  Inductive sflow := SNext (s : sstate) | SRet | SRaised (e : err) (s : sstate).
  Definition sout := (list omsg * sflow)%type.

  Definition sthen (o : sout) (k : sstate -> sout) : sout :=
    match o with
    | (ys, SNext s) => let (zs, f) := k s in (ys ++ zs, f)
    | r => r
    end.
  Definition slift {A} (r : res A) (s : sstate) (k : A -> sout) : sout :=
    match r with Ok a => k a | Err e => ([], SRaised e s) end.

  Definition sgeti (i : nat) (e : menv) : res Z := match mget i e with MI z => Ok z | MU => Err NameErr | _ => Err TypeErr end.

  (* `while cur < len(data)`: cur < len(data) iff something remains *)
  Fixpoint swhile (body : sstate -> sout) (fuel : nat) (s : sstate) : sout :=
    match ss_rest s with
    | [] => ([], SNext s)
    | _ :: _ => match fuel with
                | O => ([], SRaised Fuel s)
                | S f => sthen (body s) (swhile body f)
                end
    end.

  Fixpoint sexec (p : sstmt) (s : sstate) {struct p} : sout :=
    match p with
    | SsSkip => ([], SNext s)
    | SsSeq a b => sthen (sexec a s) (sexec b)
    | SsInit flag => ([], SNext (mk_sstate (mset flag (MB false) (ss_env s)) (ss_rest s)))
    | SsWhileData body => swhile (sexec body) (length (ss_rest s)) s
    | SsTry body handler =>
        match sexec body s with
        | (ys, SRaised Underflow s') => let (zs, f) := sexec handler s' in (ys ++ zs, f)
        | r => r
        end
    | SsUnpack fmt targets =>
        slift (munpack_seq fmt (ss_rest s)) s (fun vr => ([], SNext (mk_sstate (mset_all targets (fst vr) (ss_env s)) (snd vr))))
    | SsReadIntString t =>
        slift (read_int_string (ss_rest s)) s (fun vr => ([], SNext (mk_sstate (mset t (MO (fst vr)) (ss_env s)) (snd vr))))
    | SsCallMessage t msg off =>
        match mget msg (ss_env s) with
        | MO m => slift (sgeti off (ss_env s)) s (fun o =>
                    ([], SNext (mk_sstate (mset t (MG (decode_message m o)) (ss_env s)) (ss_rest s))))
        | MU => ([], SRaised NameErr s)
        | _ => ([], SRaised TypeErr s)
        end
    | SsForYield iter flag =>
        match mget iter (ss_env s) with
        | MG (ys, out) =>
            let s' := match ys with [] => s | _ :: _ => mk_sstate (mset flag (MB true) (ss_env s)) (ss_rest s) end in
            (ys, match out with None => SNext s' | Some e => SRaised e s' end)
        | MU => ([], SRaised NameErr s)
        | _ => ([], SRaised TypeErr s)
        end
    | SsIfFlagFalse flag a b =>
        match mget flag (ss_env s) with
        | MB false => sexec a s
        | MB true => sexec b s
        | MU => ([], SRaised NameErr s)
        | _ => sexec b s                      (* `x is False` for anything that is not the object False *)
        end
    | SsRaise e => ([], SRaised e s)
    | SsReturn => ([], SRet)
    end.

  Definition srun (p : sprog) (data : list Z) : dres :=
    match sexec (sp_body p) (mk_sstate (repeat MU (sp_nvars p)) data) with
    | (ys, SNext _) => (ys, None)
    | (ys, SRet) => (ys, None)
    | (ys, SRaised e _) => (ys, Some e)
    end.
End SInterp.

(* the two functions call each other: the nesting budget of Model.MsgSet.dec_set *)
Fixpoint dsl_dec_set (mp : mprog) (sp : sprog) (depth : nat) (orc : oracle) (data : list Z) : dres :=
  match depth with
  | O => fail Fuel
  | S d => srun (mrun mp (dsl_dec_set mp sp d orc) orc) sp data
  end.
