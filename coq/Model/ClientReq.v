(* M8c: the request layer of afkak/client.py composed with M7 (Model/BrokerClient.v, one machine per
   _KafkaBrokerClient) and the one-request use of the bootstrap protocol (_protocol.py:63-140).

     client.py:1028-1098  _make_request_to_broker   per-request timer, reply-first / timeout-first, disconnect_on_timeout
     client.py:1100-1155  _send_broker_unaware_request   known brokers (connected first), then bootstrap
     client.py:1157-1229  _cancel_on_close, _send_bootstrap_request
     client.py:468-527    load_metadata_for_topics  (the callbacks around the broker-agnostic request; the cache itself is
                          M8b, here only the key set of topic_errors and the broker table)
     client.py:897-987    _get_brokerclient, _close_brokerclients, _update_brokers
     client.py:368-392    close ; 318-326 reset_all_metadata ; 1022-1026 _next_id

   NAMES.  Everything the environment can act on is named by its creation order, which model and implementation
   share: broker clients i = 0,1,.. (order of _KafkaBrokerClient construction), DelayedCalls t = 0,1,.. (order of
   reactor.callLater calls, whoever makes them), bootstrap connection attempts a = 0,1,.. , direct requests
   d = 0,1,.. (order of _make_request_to_broker calls made by the driver that returned a Deferred), broker-agnostic
   operations p = 0,1,.. (order of calls).

   EVENTS (type [event]):
     ESend node expect mint     b = _get_brokerclient(node); _make_request_to_broker(b, _next_id(), <bytes>, expect,
                                min_timeout = None if mint < 0 else mint ms)           (what _send_broker_aware_request
                                and _send_request_to_coordinator do per broker, client.py:1321-1330, 1377-1389)
     ECancelReq d               .cancel() on the Deferred of direct request d
     EOp kind all               kind 0: _send_broker_unaware_request(_next_id(), <metadata request>)
                                kind 1: load_metadata_for_topics( *topics ), all = no topic given
                                kind 2: _load_topic_partitions("t0") (client.py:396-466): like kind 0 per attempt; a
                                response naming a topic in error / without partitions (abstract topic ids >= 4) makes
                                it wait retry_policy(attempt) - a deferLater registered with _cancel_on_close - and try
                                again with a fresh correlation id; the op's kind counts the attempts: 2 + 4*(attempt-1)
     EUpdate brokers remove     _update_brokers(brokers, remove)
     EClose                     close()
     EReset                     reset_all_metadata()
     EConnOk i / EConnFail i / ELost i     the pending connect of broker client i succeeds / fails; its connection is lost
     EReply i rid payload       one whole response frame (4 id bytes ++ payload) arrives on broker client i's connection
     ETimer t                   the reactor fires DelayedCall t                      (enabled iff t is armed)
     EBootOk a / EBootFail a    bootstrap attempt a succeeds / fails
     EBootReply a rid payload   one whole frame arrives on bootstrap connection a
     EBootLost a                bootstrap connection a is lost
     EResend d expect mint      _make_request_to_broker(<the broker client direct request d went to>, <the correlation id
                                of d>, <bytes>, expect, min_timeout): the SAME id issued again, as fetch_api_versions does
                                for its retries (client.py:812-841 encodes once, re-issues up to three times) and as the
                                2**31 wrap of _next_id can; enabled iff direct request d exists and close() was not called
   A disabled event is a no-op without output.

   ORACLES.  random.shuffle is replaced by the driver with the deterministic permutation [shuf mode] (the mode is part
   of the configuration), so the order in which brokers / bootstrap hosts are tried is the same on both sides.
   set(self.clients) - set(brokers) (client.py:984) is iterated in ascending node id (CPython, node ids 0..7).
   list(self._bootstrap_ds) (client.py:388, a set of Deferreds) is iterated in ascending operation number; the
   canonical trace (run_case) is insensitive to that choice because it sorts the outputs of one step by actor.

   Outside the model: request / response payloads other than the correlation id (a metadata response is the abstract
   payload  <lp node addr ..> <lp topic ..>), partition_meta, topic_partitions, topics_to_brokers (M8b), the consumer-group
   coordinator cache and load_coordinator_for_group, cancellation by the caller of an operation's Deferred, endpoints that
   complete connect() synchronously, a response frame shorter than 4 bytes or longer than 2^31-1 (M6). *)
From AV Require Import Base.Util Model.Framing.
From AV Require Model.BrokerClient.


(* ---------------------------------------------------------------- configuration *)
Record cfg := mkCfg {
  g_timeout : Z;          (* KafkaClient(timeout=ms): self.timeout * 1000 *)
  g_dot : bool;           (* disconnect_on_timeout *)
  g_mode : Z;             (* which permutation the replaced random.shuffle applies *)
  g_corr0 : Z;            (* correlation_id= *)
  g_hosts : list Z        (* self._bootstrap_hosts (normalised: sorted, distinct), as abstract addresses *)
}.

(* ---------------------------------------------------------------- state *)
Inductive owner := Direct (d : nat) | OfOp (p : nat).

(* one _make_request_to_broker activation: the closure variables dc / failure *)
Record creq := mkCreq {
  q_owner : owner;
  q_timer : option nat;   (* Some t: DelayedCall t is active (dc.active()) *)
  q_to : bool             (* failure is not None: _mrtb_timeout ran *)
}.

Record bcent := mkBc {
  b_node : Z;                   (* node id it was created for *)
  b_st : BrokerClient.state;              (* the _KafkaBrokerClient itself (M7) *)
  b_reqs : list creq;           (* index = M7 handle: the h-th Deferred returned by its makeRequest *)
  b_timer : option nat          (* name of the back-off DelayedCall while M7 is in CTimer *)
}.

Inductive phase :=
| PKnown (rest : list Z) (i h : nat)        (* waiting for request h of broker client i; nodes still to try *)
| PBootConn (a : nat) (rest : list Z)       (* waiting for bootstrap attempt a; hosts still to try *)
| PBootReq (a t : nat) (rest : list Z)      (* request written on bootstrap connection a, addTimeout call t *)
| PDone
| PWait (t : nat).                          (* _load_topic_partitions: in its retry back-off, deferLater call t (client.py:462) *)

Record op := mkOp { o_kind : Z; o_all : bool; o_rid : Z; o_phase : phase }.

(* one bootstrap connection attempt and the KafkaBootstrapProtocol it may become (_protocol.py:63-140, used for one
   request): KLive pend = connected, pend = the request's Deferred is still in protocol._pending (cancelling that
   Deferred - timeout, close() - does not remove it) *)
Inductive bstat := KAttempt | KLive (pend : bool) | KDead.

(* who asked for the t-th reactor.callLater *)
Inductive timer_of := TReq (i h : nat) | TBackoff (i : nat) | TBoot (p a : nat) | TWait (p : nat).

Record cstate := mkC {
  c_cfg : cfg;
  c_bcs : list bcent;                  (* every _KafkaBrokerClient ever created *)
  c_clients : option (list (Z * nat)); (* self.clients (dict order); None after close() = self._closing *)
  c_brokers : list (Z * Z);            (* self._brokers: node id -> address (dict order) *)
  c_topics : list Z;                   (* sorted keys of self.topic_errors *)
  c_corr : Z;                          (* self.correlation_id *)
  c_dl : option (list nat);            (* self.close_dlist: broker clients whose close it (transitively) awaits *)
  c_wait : bool;                       (* the Deferred returned by close() has not fired *)
  c_ops : list op;
  c_direct : list (nat * nat);         (* direct request d -> (broker client, handle) *)
  c_timers : list timer_of;            (* DelayedCall t -> who scheduled it (append only; index = name) *)
  c_boots : list (nat * Z * bstat)     (* bootstrap attempt a -> (operation, correlation id of its request, status) *)
}.

Definition init (g : cfg) : cstate :=
  mkC g [] (Some []) [] [] (g_corr0 g) None false [] [] [] [].

Definition closing (C : cstate) : bool := match c_clients C with None => true | Some _ => false end.

(* client-level results (the small enum of the trace) *)
Inductive res :=
| RSucc (frame : list Z)   (* 1: response bytes *)
| RNone                    (* 2: None (request without reply written) *)
| RCancelled               (* 3: twisted CancelledError *)
| RClosed                  (* 4: ClientError *)
| RTimedOut                (* 5: RequestTimedOutError *)
| RUnavail                 (* 6: KafkaUnavailableError *)
| RKCancelled              (* 7: afkak.common.CancelledError *)
| RTrue                    (* 8: True  (load_metadata_for_topics) *)
| ROpNone                  (* 9: None  (load_metadata_for_topics "ate" a cancellation) *)
| RKeyError                (* 10: KeyError *)
| RSnap.                   (* 11: a dict (the partition snapshot of _load_topic_partitions) *)

Inductive output :=
| OConnect (i : nat) (addr : Z) | OWrite (i : nat) (rid : Z) | OLose (i : nat) | OCancelAttempt (i : nat)
| OSched (t : nat) (kind val : Z)      (* kind 1: back-off, val = failure count given to the policy; kind 2: val = delay in ms *)
| OCancelTimer (t : nat)
| OBootConnect (a : nat) (addr : Z) | OBootWrite (a : nat) (rid : Z) | OBootLose (a : nat) | OBootCancel (a : nat)
| OReq (d : nat) (r : res) | OOp (p : nat) (r : res)
| OCloseFired                          (* the Deferred returned by close() fires *)
| ORaised (k : Z)                      (* the API call raised: 1 DuplicateRequestError 4 ClientError 6 KeyError 7 TypeError 8 AttributeError *)
| OErr (k : Z).                        (* anomaly, meant to be unreachable *)

Inductive event :=
| ESend (node : Z) (expect : bool) (mint : Z) | ECancelReq (d : nat) | EOp (kind : Z) (all : bool)
| EUpdate (brokers : list (Z * Z)) (remove : bool) | EClose | EReset
| EConnOk (i : nat) | EConnFail (i : nat) | ELost (i : nat) | EReply (i : nat) (rid : Z) (payload : list Z)
| ETimer (t : nat)
| EBootOk (a : nat) | EBootFail (a : nat) | EBootReply (a : nat) (rid : Z) (payload : list Z) | EBootLost (a : nat)
| EResend (d : nat) (expect : bool) (mint : Z).

(* ---------------------------------------------------------------- setters *)
Definition with_bcs C x := mkC (c_cfg C) x (c_clients C) (c_brokers C) (c_topics C) (c_corr C) (c_dl C) (c_wait C) (c_ops C) (c_direct C) (c_timers C) (c_boots C).
Definition with_clients C x := mkC (c_cfg C) (c_bcs C) x (c_brokers C) (c_topics C) (c_corr C) (c_dl C) (c_wait C) (c_ops C) (c_direct C) (c_timers C) (c_boots C).
Definition with_brokers C x := mkC (c_cfg C) (c_bcs C) (c_clients C) x (c_topics C) (c_corr C) (c_dl C) (c_wait C) (c_ops C) (c_direct C) (c_timers C) (c_boots C).
Definition with_topics C x := mkC (c_cfg C) (c_bcs C) (c_clients C) (c_brokers C) x (c_corr C) (c_dl C) (c_wait C) (c_ops C) (c_direct C) (c_timers C) (c_boots C).
Definition with_corr C x := mkC (c_cfg C) (c_bcs C) (c_clients C) (c_brokers C) (c_topics C) x (c_dl C) (c_wait C) (c_ops C) (c_direct C) (c_timers C) (c_boots C).
Definition with_dl C x := mkC (c_cfg C) (c_bcs C) (c_clients C) (c_brokers C) (c_topics C) (c_corr C) x (c_wait C) (c_ops C) (c_direct C) (c_timers C) (c_boots C).
Definition with_wait C x := mkC (c_cfg C) (c_bcs C) (c_clients C) (c_brokers C) (c_topics C) (c_corr C) (c_dl C) x (c_ops C) (c_direct C) (c_timers C) (c_boots C).
Definition with_ops C x := mkC (c_cfg C) (c_bcs C) (c_clients C) (c_brokers C) (c_topics C) (c_corr C) (c_dl C) (c_wait C) x (c_direct C) (c_timers C) (c_boots C).
Definition with_direct C x := mkC (c_cfg C) (c_bcs C) (c_clients C) (c_brokers C) (c_topics C) (c_corr C) (c_dl C) (c_wait C) (c_ops C) x (c_timers C) (c_boots C).
Definition with_timers C x := mkC (c_cfg C) (c_bcs C) (c_clients C) (c_brokers C) (c_topics C) (c_corr C) (c_dl C) (c_wait C) (c_ops C) (c_direct C) x (c_boots C).
Definition with_boots C x := mkC (c_cfg C) (c_bcs C) (c_clients C) (c_brokers C) (c_topics C) (c_corr C) (c_dl C) (c_wait C) (c_ops C) (c_direct C) (c_timers C) x.

Fixpoint nth_upd {A} (l : list A) (n : nat) (f : A -> A) : list A :=
  match l, n with
  | [], _ => []
  | x :: r, O => f x :: r
  | x :: r, S n' => x :: nth_upd r n' f
  end.

Definition upd_bc (C : cstate) (i : nat) (f : bcent -> bcent) : cstate := with_bcs C (nth_upd (c_bcs C) i f).
Definition set_st (s : BrokerClient.state) (b : bcent) : bcent := mkBc (b_node b) s (b_reqs b) (b_timer b).
Definition set_reqs (x : list creq) (b : bcent) : bcent := mkBc (b_node b) (b_st b) x (b_timer b).
Definition set_btimer (x : option nat) (b : bcent) : bcent := mkBc (b_node b) (b_st b) (b_reqs b) x.
Definition upd_creq (C : cstate) (i h : nat) (f : creq -> creq) : cstate :=
  upd_bc C i (fun b => set_reqs (nth_upd (b_reqs b) h f) b).
Definition set_boot (C : cstate) (a : nat) (st : bstat) : cstate :=
  with_boots C (nth_upd (c_boots C) a (fun k => (fst k, st))).
Definition new_timer (C : cstate) (w : timer_of) : cstate * nat :=
  (with_timers C (c_timers C ++ [w]), length (c_timers C)).
Definition creq_at (C : cstate) (i h : nat) : option creq :=
  match nth_error (c_bcs C) i with Some b => nth_error (b_reqs b) h | None => None end.
Definition phase_of (C : cstate) (p : nat) : phase :=
  match nth_error (c_ops C) p with Some o => o_phase o | None => PDone end.
Definition set_phase (C : cstate) (p : nat) (ph : phase) : cstate :=
  with_ops C (nth_upd (c_ops C) p (fun o => mkOp (o_kind o) (o_all o) (o_rid o) ph)).
(* the next attempt of _load_topic_partitions: attempt += 1, a fresh correlation id *)
Definition restart_op (C : cstate) (p : nat) (rid : Z) : cstate :=
  with_ops C (nth_upd (c_ops C) p (fun o => mkOp (o_kind o + 4) (o_all o) rid PDone)).

(* ---------------------------------------------------------------- small dictionaries *)
Fixpoint assoc {B} (k : Z) (l : list (Z * B)) : option B :=
  match l with [] => None | (k', v) :: r => if k =? k' then Some v else assoc k r end.
Definition has_key {B} (k : Z) (l : list (Z * B)) : bool := match assoc k l with Some _ => true | None => false end.
(* d[k] = v : an existing key keeps its place *)
Fixpoint dict_set {B} (k : Z) (v : B) (l : list (Z * B)) : list (Z * B) :=
  match l with
  | [] => [(k, v)]
  | (k', v') :: r => if k =? k' then (k, v) :: r else (k', v') :: dict_set k v r
  end.
Definition dict_del {B} (k : Z) (l : list (Z * B)) : list (Z * B) := filter (fun kv => negb (fst kv =? k)) l.
Definition dict_update {B} (l new : list (Z * B)) : list (Z * B) := fold_left (fun acc kv => dict_set (fst kv) (snd kv) acc) new l.

(* sorted set of integers *)
Fixpoint zinsert (x : Z) (l : list Z) : list Z :=
  match l with
  | [] => [x]
  | y :: r => if x <? y then x :: l else if x =? y then l else y :: zinsert x r
  end.
Definition zsort_set (l : list Z) : list Z := fold_right zinsert [] l.

(* the driver's replacement of random.shuffle: rotate left by (mode / 2) mod len, then reverse if mode is odd *)
Definition shuf {A} (mode : Z) (l : list A) : list A :=
  match l with
  | [] => []
  | _ => let k := Z.to_nat ((mode / 2) mod Z.of_nat (length l)) in
         let r := drop k l ++ take k l in
         if Z.odd mode then rev r else r
  end.

(* _next_id, client.py:1022-1026 *)
Definition next_id (C : cstate) : cstate * Z :=
  let n := (c_corr C + 1) mod 2147483648 in (with_corr C n, n).

(* the 4 id bytes of a response / request[4:8]: struct '>i' *)
Definition id4 (rid : Z) : list Z := enc32 (rid mod 4294967296).

Definition delay_of (C : cstate) (mint : Z) : Z :=
  if mint <? 0 then g_timeout (c_cfg C) else Z.max (g_timeout (c_cfg C)) mint.   (* client.py:1086-1089 *)

(* ---------------------------------------------------------------- broker clients *)
Definition bc_st (C : cstate) (i : nat) : option BrokerClient.state :=
  match nth_error (c_bcs C) i with Some b => Some (b_st b) | None => None end.

(* one M7 step of broker client i; the outputs are still M7's *)
Definition apply_bc (C : cstate) (i : nat) (e : BrokerClient.event) : cstate * list BrokerClient.output :=
  match nth_error (c_bcs C) i with
  | None => (C, [])
  | Some b => let (s', o) := BrokerClient.step (b_st b) e in (upd_bc C i (set_st s'), o)
  end.

Definition bc_down (C : cstate) (i : nat) : BrokerClient.down_t :=
  match bc_st C i with Some s => BrokerClient.s_down s | None => BrokerClient.DFired end.
Definition bc_pending (C : cstate) (i : nat) : bool :=
  match bc_down C i with BrokerClient.DPending => true | _ => false end.
Definition bc_connected (C : cstate) (i : nat) : bool :=
  match bc_st C i with Some s => BrokerClient.s_proto s | None => false end.

(* a _dDown fired: DeferredList bookkeeping, client.py:934-954.  close_dlist fires when the last awaited one has. *)
Definition dl_refresh (C : cstate) : cstate * list output :=
  match c_dl C with
  | None => (C, [])
  | Some l =>
      match filter (bc_pending C) l with
      | [] => let C1 := with_dl C None in                      (* _clean_close_dlist *)
              if c_wait C1 then (with_wait C1 false, [OCloseFired]) else (C1, [])
      | l' => (with_dl C (Some l'), [])
      end
  end.

(* an M7 output of broker client i that is neither a Deferred firing nor the close notification *)
Definition tr_out (C : cstate) (i : nat) (o : BrokerClient.output) : cstate * list output :=
  match o with
  | BrokerClient.OConnect a => (C, [OConnect i a])
  | BrokerClient.OWrite _ rid => (C, [OWrite i rid])
  | BrokerClient.OSched k => let (C1, t) := new_timer C (TBackoff i) in
                   (upd_bc C1 i (set_btimer (Some t)), [OSched t 1 (Z.of_nat k)])
  | BrokerClient.OCancelTimer => match nth_error (c_bcs C) i with
                       | Some b => match b_timer b with
                                   | Some t => (upd_bc C i (set_btimer None), [OCancelTimer t])
                                   | None => (C, [OErr 5])
                                   end
                       | None => (C, [OErr 5])
                       end
  | BrokerClient.OCancelAttempt => (C, [OCancelAttempt i])
  | BrokerClient.OLose => (C, [OLose i])
  | BrokerClient.OCloseFired => dl_refresh C
  | BrokerClient.ORaised k => (C, [OErr (20 + k)])
  | BrokerClient.OErr k _ => (C, [OErr (10 + k)])
  | BrokerClient.ODef _ _ => (C, [OErr 6])
  end.

Definition res_of (o : BrokerClient.outcome) : res :=
  match o with
  | BrokerClient.Succ f => RSucc f
  | BrokerClient.SuccNone => RNone
  | BrokerClient.FailCancelled => RCancelled
  | BrokerClient.FailClosed => RClosed
  end.

Definition is_def (o : BrokerClient.output) : bool := match o with BrokerClient.ODef _ _ => true | _ => false end.
Definition first_def (os : list BrokerClient.output) : option BrokerClient.outcome :=
  match filter is_def os with BrokerClient.ODef _ oc :: _ => Some oc | _ => None end.
Definition raised_dup (os : list BrokerClient.output) : bool :=
  existsb (fun o => match o with BrokerClient.ORaised 1 => true | _ => false end) os.

Fixpoint tr_list (C : cstate) (i : nat) (os : list BrokerClient.output) : cstate * list output :=
  match os with
  | [] => (C, [])
  | o :: r => let (C1, o1) := tr_out C i o in
              let (C2, o2) := tr_list C1 i r in (C2, o1 ++ o2)
  end.

(* _make_request_to_broker(broker i, rid, .., expect, min_timeout), client.py:1028-1098 *)
Inductive mres := MRaised | MPending (h : nat) | MFired (h : nat) (r : res).

Definition make_req (C : cstate) (i : nat) (rid : Z) (expect : bool) (mint : Z) (ow : owner)
  : cstate * mres * list output :=
  match nth_error (c_bcs C) i with
  | None => (C, MRaised, [OErr 7])
  | Some b =>
      let h := length (BrokerClient.t_dlog (BrokerClient.s_t (b_st b))) in
      let (C1, mo) := apply_bc C i (BrokerClient.EMake rid expect) in                     (* d = broker.makeRequest(..)   1093 *)
      if raised_dup mo then (C1, MRaised, [])                                   (* DuplicateRequestError leaves the function *)
      else
        let (C2, o2) := tr_list C1 i (filter (fun o => negb (is_def o)) mo) in
        let (C2', t) := new_timer C2 (TReq i h) in
        let sched := [OSched t 2 (delay_of C mint)] in                          (* dc = reactor.callLater(timeout, ..)  1095 *)
        match first_def mo with
        | None =>
            let C3 := upd_bc C2' i (fun b => set_reqs (b_reqs b ++ [mkCreq ow (Some t) false]) b) in
            (C3, MPending h, o2 ++ sched)
        | Some oc =>                                                            (* d.addBoth(_mrtb_cb) runs at once: dc.cancel()  1080-1081 *)
            let C3 := upd_bc C2' i (fun b => set_reqs (b_reqs b ++ [mkCreq ow None false]) b) in
            (C3, MFired h (res_of oc), o2 ++ sched ++ [OCancelTimer t])
        end
  end.

(* _get_brokerclient(node) for a client that is not closing, client.py:907-917 *)
Definition get_client (C : cstate) (cl : list (Z * nat)) (node : Z) : option (cstate * nat) :=
  match assoc node cl with
  | Some i => Some (C, i)
  | None =>
      match assoc node (c_brokers C) with
      | None => None                                                            (* self._brokers[node_id]: KeyError *)
      | Some a =>
          let i := length (c_bcs C) in
          Some (with_clients (with_bcs C (c_bcs C ++ [mkBc node (BrokerClient.with_addr BrokerClient.init a) [] None])) (Some (cl ++ [(node, i)])), i)
      end
  end.

(* ---------------------------------------------------------------- broker-agnostic operations *)
Definition op_result (kind : Z) (r : res) : res :=
  if kind =? 1 then
    match r with
    | RCancelled | RKCancelled => ROpNone            (* _handleMetadataErr "eats" both CancelledErrors, client.py:510-514 *)
    | _ => RUnavail                                  (* raise KafkaUnavailableError, 520-522 *)
    end
  else r.

Definition op_fail (C : cstate) (p : nat) (r : res) : cstate * list output :=
  match nth_error (c_ops C) p with
  | None => (C, [OErr 2])
  | Some o => (set_phase C p PDone, [OOp p (op_result (o_kind o) r)])
  end.

(* _send_bootstrap_request: the for loop from the host [hosts] starts with, client.py:1198-1229 *)
Definition boot_next (C : cstate) (p : nat) (hosts : list Z) : cstate * list output :=
  if closing C then op_fail C p RKCancelled                                     (* 1199-1201, 1227-1228 *)
  else match hosts with
       | [] => op_fail C p RUnavail                                             (* 1229 *)
       | hst :: rest =>
           let a := length (c_boots C) in
           let rid := match nth_error (c_ops C) p with Some o => o_rid o | None => 0 end in
           (set_phase (with_boots C (c_boots C ++ [(p, rid, KAttempt)])) p (PBootConn a rest),
            [OBootConnect a hst])                                               (* ep.connect(_bootstrapFactory)  1202-1204 *)
       end.

(* _send_broker_unaware_request: the for loop from the node [nodes] starts with, client.py:1136-1155 *)
Fixpoint op_known (C : cstate) (p : nat) (rid : Z) (nodes : list Z) : cstate * list output :=
  match nodes with
  | [] => boot_next C p (shuf (g_mode (c_cfg C)) (g_hosts (c_cfg C)))           (* 1155, 1196-1197 *)
  | n :: rest =>
      match c_clients C with
      | None => op_fail C p RClosed                                             (* _get_brokerclient raises outside the try: 1137 *)
      | Some cl =>
          match get_client C cl n with
          | None => op_fail C p RKeyError
          | Some (C1, i) =>
              match make_req C1 i rid true (-1) (OfOp p) with
              | (C2, MPending h, o2) => (set_phase C2 p (PKnown rest i h), o2)  (* resp = yield d *)
              | (C2, MFired h (RSucc f), o2) => (C2, o2 ++ [OErr 8])           (* a reply before the request: not possible *)
              | (C2, MFired h RCancelled, o2) =>                                (* not a KafkaError: leaves the generator *)
                  let (C3, o3) := op_fail C2 p RCancelled in (C3, o2 ++ o3)
              | (C2, _, o2) =>                                                  (* except KafkaError: next server  1143-1150 *)
                  let (C3, o3) := op_known C2 p rid rest in (C3, o2 ++ o3)
              end
          end
      end
  end.

(* parse the abstract metadata payload:  <lp node addr node addr ..> <lp topic ..> *)
Fixpoint pairs (l : list Z) : list (Z * Z) :=
  match l with a :: b :: r => (a, b) :: pairs r | _ => [] end.
Definition parse_meta (payload : list Z) : option (list (Z * Z) * list Z) :=
  match take_lp payload with
  | Some (bs, r) => match take_lp r with
                    | Some (ts, []) => if Nat.even (length bs) then Some (pairs bs, ts) else None
                    | _ => None
                    end
  | None => None
  end.

(* ---------------------------------------------------------------- the continuation of a request Deferred
   [succ C p frame] = what happens when operation p obtains its response. *)
Section Level.
Variable succ : cstate -> nat -> list Z -> cstate * list output.

(* _mrtb_cb(result) and whoever waits for the client-level Deferred, client.py:1072-1084 *)
Definition on_def (C : cstate) (i h : nat) (oc : BrokerClient.outcome) : cstate * list output :=
  match nth_error (c_bcs C) i with
  | None => (C, [OErr 1])
  | Some b =>
      match nth_error (b_reqs b) h with
      | None => (C, [OErr 1])
      | Some q =>
          let (C1, o1) := match q_timer q with                                  (* if dc.active(): dc.cancel() *)
                          | Some t => (upd_creq C i h (fun q => mkCreq (q_owner q) None (q_to q)), [OCancelTimer t])
                          | None => (C, [])
                          end in
          let r := if q_to q then RTimedOut else res_of oc in                   (* if failure is not None: return failure *)
          match q_owner q with
          | Direct d => (C1, o1 ++ [OReq d r])
          | OfOp p =>
              match nth_error (c_ops C1) p with
              | Some (mkOp _ _ rid (PKnown rest i' h')) =>
                  if Nat.eqb i i' && Nat.eqb h h' then
                    match r with
                    | RSucc f => let (C2, o2) := succ C1 p f in (C2, o1 ++ o2)  (* returnValue(resp)  1141-1142 *)
                    | RCancelled => let (C2, o2) := op_fail C1 p RCancelled in (C2, o1 ++ o2)
                    | _ => let (C2, o2) := op_known C1 p rid rest in (C2, o1 ++ o2)
                    end
                  else (C1, o1 ++ [OErr 3])
              | _ => (C1, o1 ++ [OErr 3])
              end
          end
      end
  end.

(* the outputs of one M7 step of broker client i, in order *)
Fixpoint proc (C : cstate) (i : nat) (os : list BrokerClient.output) : cstate * list output :=
  match os with
  | [] => (C, [])
  | o :: r =>
      let (C1, o1) := match o with
                      | BrokerClient.ODef h oc => on_def C i h oc
                      | _ => tr_out C i o
                      end in
      let (C2, o2) := proc C1 i r in (C2, o1 ++ o2)
  end.

Definition bc_event (C : cstate) (i : nat) (e : BrokerClient.event) : cstate * list output :=
  let (C1, mo) := apply_bc C i e in proc C1 i mo.
End Level.

(* level 0: inside _close_brokerclients.  A close only fails Deferreds, so no response can arrive here. *)
Definition succ0 (C : cstate) (p : nat) (f : list Z) : cstate * list output := (C, [OErr 9]).

(* brokerClient.close() for each, client.py:949-952 *)
Fixpoint close_each (C : cstate) (l : list nat) : cstate * list output :=
  match l with
  | [] => (C, [])
  | i :: r => let (C1, o1) := bc_event succ0 C i BrokerClient.EClose in
              let (C2, o2) := close_each C1 r in (C2, o1 ++ o2)
  end.

(* _close_brokerclients(clients), client.py:919-954 *)
Definition close_brokerclients (C : cstate) (l : list nat) : cstate * list output :=
  let old := match c_dl C with Some x => x | None => [] end in
  let (C1, o1) := close_each C l in
  let (C2, o2) := dl_refresh (with_dl C1 (Some (old ++ l))) in                 (* DeferredList(dList) + _clean_close_dlist *)
  (C2, o1 ++ o2).

(* _update_brokers(brokers, remove), client.py:956-987 *)
Fixpoint update_each (C : cstate) (cl : list (Z * nat)) (bs : list (Z * Z)) : cstate :=
  match bs with
  | [] => C
  | (n, a) :: r =>
      match assoc n cl with
      | Some i => update_each (fst (apply_bc C i (BrokerClient.EUpdate true a))) cl r     (* updateMetadata: no output *)
      | None => update_each C cl r
      end
  end.

Definition update_brokers (C : cstate) (brokers : list (Z * Z)) (remove : bool) : cstate * list output :=
  let by_id := dict_update [] brokers in                                        (* {bm.node_id: bm for bm in brokers} *)
  let C1 := with_brokers C (dict_update (c_brokers C) by_id) in
  match c_clients C1 with
  | None => match by_id, remove with
            | [], false => (C1, [])
            | _, _ => (C1, [ORaised 7])                                         (* "in None" / set(None): TypeError *)
            end
  | Some cl =>
      let C2 := update_each C1 cl by_id in
      if remove then
        let gone := zsort_set (map fst (filter (fun kv => negb (has_key (fst kv) by_id)) cl)) in
        let idx := flat_map (fun n => match assoc n cl with Some i => [i] | None => [] end) gone in
        let cl' := filter (fun kv => has_key (fst kv) by_id) cl in
        match idx with
        | [] => (C2, [])
        | _ => close_brokerclients (with_clients C2 (Some cl')) idx
        end
      else (C2, [])
  end.

(* _merge_topic_metadata restricted to the broker table and the key set of topic_errors, client.py:529-569 *)
Definition merge (C : cstate) (payload : list Z) (all : bool) : cstate * list output :=
  match parse_meta payload with
  | None => (C, [OErr 30])
  | Some (brokers, topics) =>
      let remove := all && negb (match dict_update [] brokers with [] => true | _ => false end) in
      let (C1, o1) := update_brokers C brokers remove in
      (with_topics C1 (fold_right zinsert (c_topics C1) topics), o1)
  end.

(* _load_topic_partitions *)
Definition is_ltp (kind : Z) : bool := kind mod 4 =? 2.
(* some topic of the response is in error or has no partitions: abstract topic ids >= 4 (the loop at client.py:441 runs
   over the topics of the RESPONSE - the name is rebound at 436) *)
Definition missing (payload : list Z) : bool :=
  match parse_meta payload with Some (_, topics) => existsb (fun t => 4 <=? t) topics | None => false end.

(* level 1: operation p obtained its response (from a known broker or from a bootstrap host) *)
Definition succ1 (C : cstate) (p : nat) (f : list Z) : cstate * list output :=
  match nth_error (c_ops C) p with
  | None => (C, [OErr 2])
  | Some o =>
      let C1 := set_phase C p PDone in
      if o_kind o =? 1 then
        if closing C1 then (C1, [OErr 31])
        else let (C2, o2) := merge C1 (drop 4 f) (o_all o) in (C2, o2 ++ [OOp p RTrue])   (* _handleMetadataResponse  503-506 *)
      else if is_ltp (o_kind o) then                                            (* _load_topic_partitions  436-466 *)
        if closing C1 then (C1, [OErr 31])
        else let (C2, o2) := merge C1 (drop 4 f) false in
             if missing (drop 4 f) then
               let (C3, t) := new_timer C2 (TWait p) in                         (* deferLater(reactor, retry_policy(attempt), ..)  452-462 *)
               (set_phase C3 p (PWait t), o2 ++ [OSched t 1 (o_kind o / 4 + 1)])
             else (C2, o2 ++ [OOp p RSnap])
      else (C1, [OOp p (RSucc f)])
  end.

Definition ev_bc := bc_event succ1.

(* ---------------------------------------------------------------- timers *)
Definition count_timers (C : cstate) : nat :=
  fold_right (fun b n => (length (filter (fun q => match q_timer q with Some _ => true | None => false end) (b_reqs b))
                          + (match b_timer b with Some _ => 1 | None => 0 end) + n)%nat) 0%nat (c_bcs C)
  + length (filter (fun o => match o_phase o with PBootReq _ _ _ | PWait _ => true | _ => false end) (c_ops C)).

(* ---------------------------------------------------------------- bootstrap connections *)
(* close(): "for d in list(self._bootstrap_ds): d.cancel()", client.py:388-389 *)
Fixpoint cancel_boots (C : cstate) (n : nat) (p : nat) : cstate * list output :=
  match n with
  | O => (C, [])
  | S n' =>
      let '(C1, o1) :=
        match nth_error (c_ops C) p with
        | Some (mkOp _ _ _ (PBootConn a rest)) =>
            let (C', o') := boot_next (set_boot C a KDead) p rest in (C', OBootCancel a :: o')  (* except Exception: continue *)
        | Some (mkOp _ _ _ (PBootReq a t rest)) =>
            let (C', o') := boot_next C p rest in (C', OCancelTimer t :: OBootLose a :: o')      (* addTimeout's cleanup; finally: loseConnection *)
        | Some (mkOp _ _ _ (PWait t)) =>                                        (* the deferLater is cancelled: CancelledError into the generator *)
            let (C', o') := op_fail C p RCancelled in (C', OCancelTimer t :: o')
        | _ => (C, [])
        end in
      let (C2, o2) := cancel_boots C1 n' (S p) in (C2, o1 ++ o2)
  end.

(* ---------------------------------------------------------------- the step function *)
Definition step (C : cstate) (e : event) : cstate * list output :=
  match e with
  | ESend node expect mint =>
      match c_clients C with
      | None => (C, [ORaised 4])                                                (* _get_brokerclient: ClientError  905-906 *)
      | Some cl =>
          match get_client C cl node with
          | None => (C, [ORaised 6])
          | Some (C1, i) =>
              let (C2, rid) := next_id C1 in
              let d := length (c_direct C2) in
              match make_req C2 i rid expect mint (Direct d) with
              | (C3, MRaised, o3) => (C3, o3 ++ [ORaised 1])
              | (C3, MPending h, o3) => (with_direct C3 (c_direct C3 ++ [(i, h)]), o3)
              | (C3, MFired h r, o3) => (with_direct C3 (c_direct C3 ++ [(i, h)]), o3 ++ [OReq d r])
              end
          end
      end
  | ECancelReq d =>
      match nth_error (c_direct C) d with
      | Some (i, h) => ev_bc C i (BrokerClient.ECancel h)
      | None => (C, [])
      end
  | EOp kind all =>
      let (C1, rid) := next_id C in
      let p := length (c_ops C1) in
      let C2 := with_ops C1 (c_ops C1 ++ [mkOp kind all rid PDone]) in
      match c_clients C2 with
      | None => op_fail C2 p RClosed                                            (* 1120-1121 *)
      | Some cl =>
          let ids := shuf (g_mode (c_cfg C2)) (map fst (c_brokers C2)) in       (* 1123-1125 *)
          let conn := fun n => match assoc n cl with Some i => bc_connected C2 i | None => false end in
          op_known C2 p rid (filter conn ids ++ filter (fun n => negb (conn n)) ids)   (* 1134 *)
      end
  | EUpdate brokers remove => update_brokers C brokers remove
  | EClose =>
      match c_clients C with
      | None => (C, [ORaised 8])                                                (* None.values(): AttributeError *)
      | Some cl =>
          let (C1, o1) := close_brokerclients (with_clients C None) (map snd cl) in       (* 383-386 *)
          let (C2, o2) := cancel_boots C1 (length (c_ops C1)) 0 in                        (* 388-389 *)
          let C3 := with_topics C2 [] in                                                  (* reset_all_metadata  391 *)
          match c_dl C3 with
          | None => (C3, o1 ++ o2 ++ [OCloseFired])                                       (* defer.succeed(None)  392 *)
          | Some _ => (with_wait C3 true, o1 ++ o2)
          end
      end
  | EReset => (with_topics C [], [])
  | EConnOk i => ev_bc C i BrokerClient.EConnOk
  | EConnFail i => ev_bc C i BrokerClient.EConnFail
  | ELost i => ev_bc C i BrokerClient.ELost
  | EReply i rid payload => ev_bc C i (BrokerClient.EFrame (id4 rid ++ payload))
  | ETimer t =>
      match nth_error (c_timers C) t with
      | Some (TReq i h) =>                                                      (* _mrtb_timeout  1041-1070 *)
          match creq_at C i h with
          | Some (mkCreq _ (Some t') _) =>
              if Nat.eqb t t' then
                let C1 := upd_creq C i h (fun q => mkCreq (q_owner q) None true) in
                let (C2, o2) := ev_bc C1 i (BrokerClient.ECancel h) in                        (* d.cancel() *)
                if g_dot (c_cfg C2) then
                  let (C3, o3) := ev_bc C2 i BrokerClient.EDisconnect in (C3, o2 ++ o3)       (* broker.disconnect() *)
                else (C2, o2)
              else (C, [])
          | _ => (C, [])                                                        (* already cancelled or fired *)
          end
      | Some (TBackoff i) =>
          match nth_error (c_bcs C) i with
          | Some b => if match b_timer b with Some t' => Nat.eqb t t' | None => false end
                      then ev_bc (upd_bc C i (set_btimer None)) i BrokerClient.EFire else (C, [])
          | None => (C, [])
          end
      | Some (TBoot p a) =>                                                     (* addTimeout fired: TimeoutError; finally  1213-1225 *)
          match phase_of C p with
          | PBootReq a' t' rest =>
              if Nat.eqb a a' && Nat.eqb t t' then
                let (C1, o1) := boot_next C p rest in (C1, OBootLose a :: o1)
              else (C, [])
          | _ => (C, [])
          end
      | Some (TWait p) =>                                                       (* the back-off of _load_topic_partitions is over: next attempt *)
          match phase_of C p with
          | PWait t' =>
              if Nat.eqb t t' then
                let (C1, rid) := next_id C in                                   (* 431 *)
                let C2 := restart_op C1 p rid in
                match c_clients C2 with
                | None => op_fail C2 p RClosed
                | Some cl =>
                    let ids := shuf (g_mode (c_cfg C2)) (map fst (c_brokers C2)) in
                    let conn := fun n => match assoc n cl with Some i => bc_connected C2 i | None => false end in
                    op_known C2 p rid (filter conn ids ++ filter (fun n => negb (conn n)) ids)
                end
              else (C, [])
          | _ => (C, [])
          end
      | None => (C, [])
      end
  | EBootOk a =>
      match nth_error (c_boots C) a with
      | Some (p, rid, KAttempt) =>
          match phase_of C p with
          | PBootConn a' rest =>
              if Nat.eqb a a' then                                              (* protocol.request(request).addTimeout(..)  1210-1212 *)
                let (C1, t) := new_timer C (TBoot p a) in
                (set_phase (set_boot C1 a (KLive true)) p (PBootReq a t rest),
                 [OBootWrite a rid; OSched t 2 (g_timeout (c_cfg C))])
              else (C, [])
          | _ => (C, [])
          end
      | _ => (C, [])
      end
  | EBootFail a =>
      match nth_error (c_boots C) a with
      | Some (p, _, KAttempt) =>
          match phase_of C p with
          | PBootConn a' rest => if Nat.eqb a a' then boot_next (set_boot C a KDead) p rest else (C, [])   (* except Exception: continue  1205-1207 *)
          | _ => (C, [])
          end
      | _ => (C, [])
      end
  | EBootReply a rid payload =>                                                 (* stringReceived, _protocol.py:81-96 *)
      match nth_error (c_boots C) a with
      | Some (p, rid', KLive pend) =>
          if pend && zlist_eqb (id4 rid) (id4 rid') then
            let C0 := set_boot C a (KLive false) in                             (* self._pending.pop(correlation_id) *)
            match phase_of C0 p with
            | PBootReq a' t rest =>
                if Nat.eqb a a' then
                  let (C1, o1) := succ1 C0 p (id4 rid ++ payload) in            (* else: returnValue(response); finally  1222-1225 *)
                  (C1, OCancelTimer t :: OBootLose a :: o1)
                else (C0, [])
            | _ => (C0, [])                                                     (* the Deferred was cancelled: callback swallowed *)
            end
          else (C, [OBootLose a])                                               (* unknown correlation id: drop the connection *)
      | _ => (C, [])
      end
  | EBootLost a =>                                                              (* connectionLost, _protocol.py:98-105 *)
      match nth_error (c_boots C) a with
      | Some (p, _, KLive pend) =>
          let C0 := set_boot C a KDead in
          match pend, phase_of C0 p with
          | true, PBootReq a' t rest =>                                         (* the request fails: except; finally *)
              if Nat.eqb a a' then
                let (C1, o1) := boot_next C0 p rest in (C1, OCancelTimer t :: OBootLose a :: o1)
              else (C0, [])
          | _, _ => (C0, [])
          end
      | _ => (C, [])
      end
  | EResend d expect mint =>
      match c_clients C, nth_error (c_direct C) d with
      | Some _, Some (i, h0) =>
          let rid := match nth_error (c_bcs C) i with
                     | Some b => nth h0 (BrokerClient.t_dlog (BrokerClient.s_t (b_st b))) 0
                     | None => 0 end in
          let d' := length (c_direct C) in
          match make_req C i rid expect mint (Direct d') with
          | (C3, MRaised, o3) => (C3, o3 ++ [ORaised 1])                        (* DuplicateRequestError: the id is in the table *)
          | (C3, MPending h, o3) => (with_direct C3 (c_direct C3 ++ [(i, h)]), o3)
          | (C3, MFired h r, o3) => (with_direct C3 (c_direct C3 ++ [(i, h)]), o3 ++ [OReq d' r])
          end
      | _, _ => (C, [])
      end
  end.

Fixpoint run (C : cstate) (evs : list event) : cstate * list output :=
  match evs with
  | [] => (C, [])
  | e :: r => let (C1, o1) := step C e in
              let (C2, o2) := run C1 r in (C2, o1 ++ o2)
  end.

(* ------------------------------------------------------------------------------------------------
   case line:  timeout_ms dot mode corr0 <lp hosts>  then events
     1 node expect mint | 2 d | 3 kind all | 4 remove <lp node addr ..> | 5 | 6 | 7 i | 8 i | 9 i |
     10 i rid <lp payload> | 11 t | 12 a | 13 a | 14 a rid <lp payload> | 15 a | 16 d expect mint
   trace, per event:  0, armed DelayedCalls, cached topics, then the outputs sorted (stably) by actor:
     1 i addr | 2 i rid | 3 i | 4 i | 5 t kind val | 6 t | 7 a addr | 8 a rid | 9 a | 10 a |
     11 d <res> | 12 p <res> | 13 | 14 k | 15 k            res = code, and for code 1 <lp payload after the id> *)
Definition nat_of (z : Z) : option nat := if z <? 0 then None else Some (Z.to_nat z).

Fixpoint parse_events (fuel : nat) (l : list Z) : option (list event) :=
  match fuel with
  | O => None
  | S f =>
      let k := fun ev r => match parse_events f r with Some es => Some (ev :: es) | None => None end in
      let kn := fun (mk : nat -> event) z r => match nat_of z with Some n => k (mk n) r | None => None end in
      match l with
      | [] => Some []
      | 1 :: node :: ex :: mint :: r => k (ESend node (negb (ex =? 0)) mint) r
      | 2 :: d :: r => kn ECancelReq d r
      | 3 :: kind :: al :: r => k (EOp kind (negb (al =? 0))) r
      | 4 :: rm :: r => match take_lp r with
                        | Some (bs, r2) => if Nat.even (length bs) then k (EUpdate (pairs bs) (negb (rm =? 0))) r2 else None
                        | None => None end
      | 5 :: r => k EClose r
      | 6 :: r => k EReset r
      | 7 :: i :: r => kn EConnOk i r
      | 8 :: i :: r => kn EConnFail i r
      | 9 :: i :: r => kn ELost i r
      | 10 :: i :: rid :: r => match take_lp r, nat_of i with
                               | Some (pl, r2), Some n => k (EReply n rid pl) r2
                               | _, _ => None end
      | 11 :: t :: r => kn ETimer t r
      | 12 :: a :: r => kn EBootOk a r
      | 13 :: a :: r => kn EBootFail a r
      | 14 :: a :: rid :: r => match take_lp r, nat_of a with
                               | Some (pl, r2), Some n => k (EBootReply n rid pl) r2
                               | _, _ => None end
      | 15 :: a :: r => kn EBootLost a r
      | 16 :: d :: ex :: mint :: r => match nat_of d with Some n => k (EResend n (negb (ex =? 0)) mint) r | None => None end
      | _ => None
      end
  end.

Definition enc_res (r : res) : list Z :=
  match r with
  | RSucc f => 1 :: lpz (drop 4 f)
  | RNone => [2] | RCancelled => [3] | RClosed => [4] | RTimedOut => [5] | RUnavail => [6]
  | RKCancelled => [7] | RTrue => [8] | ROpNone => [9] | RKeyError => [10] | RSnap => [11]
  end.

(* (actor class, actor id, encoding) *)
Definition enc_out (o : output) : Z * Z * list Z :=
  let n := Z.of_nat in
  match o with
  | OConnect i a => (1, n i, [1; n i; a])
  | OWrite i rid => (1, n i, [2; n i; rid])
  | OLose i => (1, n i, [3; n i])
  | OCancelAttempt i => (1, n i, [4; n i])
  | OSched t k v => (2, n t, [5; n t; k; v])
  | OCancelTimer t => (2, n t, [6; n t])
  | OBootConnect a ad => (3, n a, [7; n a; ad])
  | OBootWrite a rid => (3, n a, [8; n a; rid])
  | OBootLose a => (3, n a, [9; n a])
  | OBootCancel a => (3, n a, [10; n a])
  | OReq d r => (4, n d, 11 :: n d :: enc_res r)
  | OOp p r => (5, n p, 12 :: n p :: enc_res r)
  | OCloseFired => (6, 0, [13])
  | ORaised k => (6, 0, [14; k])
  | OErr k => (6, 0, [15; k])
  end.

Definition key_le (a b : Z * Z * list Z) : bool :=
  let '(c1, i1, _) := a in let '(c2, i2, _) := b in
  (c1 <? c2) || ((c1 =? c2) && (i1 <=? i2)).

(* stable insertion sort: x goes after every element that is <= x *)
Fixpoint sinsert (x : Z * Z * list Z) (l : list (Z * Z * list Z)) : list (Z * Z * list Z) :=
  match l with
  | [] => [x]
  | y :: r => if key_le y x then y :: sinsert x r else x :: l
  end.
Definition ssort (l : list (Z * Z * list Z)) : list (Z * Z * list Z) :=
  fold_left (fun acc x => sinsert x acc) l [].

Definition enc_step (C : cstate) (o : list output) : list Z :=
  0 :: Z.of_nat (count_timers C) :: Z.of_nat (length (c_topics C))
    :: flat_map (fun x => snd x) (ssort (map enc_out o)).

Fixpoint run_enc (C : cstate) (evs : list event) : list Z :=
  match evs with
  | [] => []
  | e :: r => let (C1, o1) := step C e in enc_step C1 o1 ++ run_enc C1 r
  end.

Definition run_case (c : list Z) : list Z :=
  match c with
  | tmo :: dot :: mode :: corr0 :: r =>
      match take_lp r with
      | Some (hosts, r2) =>
          match parse_events (S (length r2)) r2 with
          | Some es => run_enc (init (mkCfg tmo (negb (dot =? 0)) mode corr0 hosts)) es
          | None => [-99]
          end
      | None => [-99]
      end
  | _ => [-99]
  end.
