(* The committed terms of the _util.py tie (property C12, DESIGN.md 10.2b): what harness/py2util.py makes of
   afkak/_util.py at the commit the soundness proofs (Proofs/UtilDSLSound.v) were written against.
   Regenerate with  python3 harness/py2util.py --snapshot  ONLY together with those proofs. *)
From Coq Require Import String.
From AV Require Import Base.Util Model.Prim Model.UtilDSL.
Open Scope string_scope.

Definition ast_write_int_string : tree :=
  TIf (CIsNone (EVar 0))
    (TRet (EBytes [255; 255; 255; 255]))
    (TBind (OPack [(Fi, (ELin 0 [(1, (ELen (EVar 0)))]))])
      (TRet (ECat (EVar 1) (EVar 0)))).

Definition ast_write_short_bytes : tree :=
  TIf (CIsNone (EVar 0))
    (TRet (EBytes [255; 255]))
    (TIf (CPos (ELin (-32767) [(1, (ELen (EVar 0)))]))
      (TRaise StructErr)
      (TBind (OPack [(Fh, (ELin 0 [(1, (ELen (EVar 0)))]))])
        (TRet (ECat (EVar 1) (EVar 0))))).

Definition ast_write_short_ascii : tree :=
  TIf (CIsNone (EVar 0))
    (TRet (EBytes [255; 255]))
    (TBind (OEncode Ascii (EVar 0))
      (TIf (CPos (ELin (-32767) [(1, (ELen (EVar 1)))]))
        (TRaise StructErr)
        (TBind (OPack [(Fh, (ELin 0 [(1, (ELen (EVar 1)))]))])
          (TRet (ECat (EVar 2) (EVar 1)))))).

Definition ast_write_short_text : tree :=
  TIf (CIsNone (EVar 0))
    (TRet (EBytes [255; 255]))
    (TBind (OEncode Utf8 (EVar 0))
      (TIf (CPos (ELin (-32767) [(1, (ELen (EVar 1)))]))
        (TRaise StructErr)
        (TBind (OPack [(Fh, (ELin 0 [(1, (ELen (EVar 1)))]))])
          (TRet (ECat (EVar 2) (EVar 1)))))).

Definition ast_read_short_bytes : tree :=
  TIf (CPos (ELin 2 [((-1), (ELen (EVar 0))); (1, (EVar 1))]))
    (TRaise Underflow)
    (TBind (OUnpack (EFmt [Fh]) (ESlice (EVar 0) (ELin 0 [(1, (EVar 1))]) (ELin 2 [(1, (EVar 1))])))
      (TIf (CZero (ELin 1 [(1, (EIdx (EVar 2) 0))]))
        (TRet (ETup [ENone; (ELin 2 [(1, (EVar 1))])]))
        (TIf (CPos (ELin (-1) [((-1), (EIdx (EVar 2) 0))]))
          (TRaise Protocol)
          (TIf (CPos (ELin 2 [(1, (EIdx (EVar 2) 0)); ((-1), (ELen (EVar 0))); (1, (EVar 1))]))
            (TRaise Underflow)
            (TRet (ETup [(ESlice (EVar 0) (ELin 2 [(1, (EVar 1))]) (ELin 2 [(1, (EIdx (EVar 2) 0)); (1, (EVar 1))])); (ELin 2 [(1, (EIdx (EVar 2) 0)); (1, (EVar 1))])])))))).

Definition ast_read_int_string : tree :=
  TIf (CPos (ELin 4 [((-1), (ELen (EVar 0))); (1, (EVar 1))]))
    (TRaise Underflow)
    (TBind (OUnpack (EFmt [Fi]) (ESlice (EVar 0) (ELin 0 [(1, (EVar 1))]) (ELin 4 [(1, (EVar 1))])))
      (TIf (CZero (ELin 1 [(1, (EIdx (EVar 2) 0))]))
        (TRet (ETup [ENone; (ELin 4 [(1, (EVar 1))])]))
        (TIf (CPos (ELin (-1) [((-1), (EIdx (EVar 2) 0))]))
          (TRaise Protocol)
          (TIf (CPos (ELin 4 [(1, (EIdx (EVar 2) 0)); ((-1), (ELen (EVar 0))); (1, (EVar 1))]))
            (TRaise Underflow)
            (TRet (ETup [(ESlice (EVar 0) (ELin 4 [(1, (EVar 1))]) (ELin 4 [(1, (EIdx (EVar 2) 0)); (1, (EVar 1))])); (ELin 4 [(1, (EIdx (EVar 2) 0)); (1, (EVar 1))])])))))).

Definition ast_read_short_ascii : tree :=
  TIf (CPos (ELin 2 [((-1), (ELen (EVar 0))); (1, (EVar 1))]))
    (TRaise Underflow)
    (TBind (OUnpack (EFmt [Fh]) (ESlice (EVar 0) (ELin 0 [(1, (EVar 1))]) (ELin 2 [(1, (EVar 1))])))
      (TIf (CZero (ELin 1 [(1, (EIdx (EVar 2) 0))]))
        (TBind (ODecode Ascii ENone)
          (TRet (ETup [(EVar 3); (ELin 2 [(1, (EVar 1))])])))
        (TIf (CPos (ELin (-1) [((-1), (EIdx (EVar 2) 0))]))
          (TRaise Protocol)
          (TIf (CPos (ELin 2 [(1, (EIdx (EVar 2) 0)); ((-1), (ELen (EVar 0))); (1, (EVar 1))]))
            (TRaise Underflow)
            (TBind (ODecode Ascii (ESlice (EVar 0) (ELin 2 [(1, (EVar 1))]) (ELin 2 [(1, (EIdx (EVar 2) 0)); (1, (EVar 1))])))
              (TRet (ETup [(EVar 3); (ELin 2 [(1, (EIdx (EVar 2) 0)); (1, (EVar 1))])]))))))).

Definition ast_read_short_text : tree :=
  TIf (CPos (ELin 2 [((-1), (ELen (EVar 0))); (1, (EVar 1))]))
    (TRaise Underflow)
    (TBind (OUnpack (EFmt [Fh]) (ESlice (EVar 0) (ELin 0 [(1, (EVar 1))]) (ELin 2 [(1, (EVar 1))])))
      (TIf (CZero (ELin 1 [(1, (EIdx (EVar 2) 0))]))
        (TBind (ODecode Utf8 ENone)
          (TRet (ETup [(EVar 3); (ELin 2 [(1, (EVar 1))])])))
        (TIf (CPos (ELin (-1) [((-1), (EIdx (EVar 2) 0))]))
          (TRaise Protocol)
          (TIf (CPos (ELin 2 [(1, (EIdx (EVar 2) 0)); ((-1), (ELen (EVar 0))); (1, (EVar 1))]))
            (TRaise Underflow)
            (TBind (ODecode Utf8 (ESlice (EVar 0) (ELin 2 [(1, (EVar 1))]) (ELin 2 [(1, (EIdx (EVar 2) 0)); (1, (EVar 1))])))
              (TRet (ETup [(EVar 3); (ELin 2 [(1, (EIdx (EVar 2) 0)); (1, (EVar 1))])]))))))).

Definition ast_relative_unpack : tree :=
  TIf (CPos (ELin 0 [(1, (ECalc (EVar 0))); ((-1), (ELen (EVar 1))); (1, (EVar 2))]))
    (TRaise Underflow)
    (TBind (OUnpack (EVar 0) (ESlice (EVar 1) (ELin 0 [(1, (EVar 2))]) (ELin 0 [(1, (ECalc (EVar 0))); (1, (EVar 2))])))
      (TRet (ETup [(EVar 3); (ELin 0 [(1, (ECalc (EVar 0))); (1, (EVar 2))])]))).

Definition ast_group_by_topic_and_partition : gprog :=
  UGroupBy "topic" "partition".
