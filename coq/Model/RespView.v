(* The bridge used by the C05 theorems between the abstract responses of the grammar (Model.KafkaSpecResp) and the
   values afkak's decoders return (Model.Responses):
     wf_*    boolean well-formedness of an abstract response: every integer in the range of its wire type, every
             STRING at most 32767 bytes and valid text, every BYTES / ARRAY at most 2^31-1 long.  NO other bound.
             Topic names and host names must be ASCII (Kafka restricts topic names to [a-zA-Z0-9._-]; afkak
             decodes both with read_short_ascii); group protocol / member ids are UTF-8 (read_short_text).
     view_*  the value the decoder must return for that response, field for field.
   The theorems are stated with these functions; the runner ops 201..214 (Model.RespRun) evaluate them on every
   generated case so that the generator is known to stay inside the hypotheses. *)
From AV Require Import Base.Util Model.Prim Model.Crc Model.MsgSet Model.KafkaSpecResp Model.Responses.

Definition i16 := in_i16.
Definition i32 := in_i32.
Definition i64 := in_i64.
Definition MAX32 : Z := 2147483647.

Definition ascii_string (s : list Z) : bool := (len s <=? 32767) && ascii_valid s.
Definition text_string (s : list Z) : bool := (len s <=? 32767) && utf8_valid s.
Definition short_bytes (s : option (list Z)) : bool :=
  match s with None => true | Some b => len b <=? 32767 end.
Definition long_bytes (b : list Z) : bool := len b <=? MAX32.
Definition opt_long_bytes (b : option (list Z)) : bool :=
  match b with None => true | Some x => long_bytes x end.
Definition count_ok {A} (l : list A) : bool := blen l <=? MAX32.
(* an ARRAY of elements that all satisfy p *)
Definition array_ok {A} (p : A -> bool) (l : list A) : bool := count_ok l && forallb p l.

(* ------------------------------------------------------------------ Produce *)
Definition wf_produce_part (p : s_produce_part) : bool :=
  i32 (spp_index p) && i16 (spp_error p) && i64 (spp_base_offset p) && i64 (spp_log_append_time p).
Definition wf_produce_topic (t : s_produce_topic) : bool :=
  ascii_string (spt_name t) && array_ok wf_produce_part (spt_parts t).
Definition wf_produce (r : s_produce) : bool :=
  i32 (sp_corr r) && array_ok wf_produce_topic (sp_topics r) && i32 (sp_throttle r).

Definition view_produce (r : s_produce) : list produce_item :=
  flat_map (fun t => map (fun p => mk_produce_item (spt_name t) (spp_index p) (spp_error p) (spp_base_offset p))
                         (spt_parts t)) (sp_topics r).

(* ------------------------------------------------------------------ Fetch *)
Definition wf_fetch_part (p : s_fetch_part) : bool :=
  i32 (sfp_index p) && i16 (sfp_error p) && i64 (sfp_hwm p) && opt_long_bytes (sfp_records p).
Definition wf_fetch_topic (t : s_fetch_topic) : bool :=
  ascii_string (sft_name t) && array_ok wf_fetch_part (sft_parts t).
Definition wf_fetch (r : s_fetch) : bool :=
  i32 (sf_corr r) && i32 (sf_throttle r) && array_ok wf_fetch_topic (sf_topics r).

(* the record set of a partition as the decoder hands it to the message-set decoder: null = empty *)
Definition records_bytes (p : s_fetch_part) : list Z :=
  match sfp_records p with Some b => b | None => [] end.
Definition view_fetch (depth : nat) (orc : oracle) (r : s_fetch) : list fetch_item :=
  flat_map (fun t => map (fun p => mk_fetch_item (sft_name t) (sfp_index p) (sfp_error p) (sfp_hwm p)
                                                 (dec_set depth orc (records_bytes p)))
                         (sft_parts t)) (sf_topics r).

(* ------------------------------------------------------------------ ListOffsets *)
Definition wf_offsets_part (p : s_offsets_part) : bool :=
  i32 (sop_index p) && i16 (sop_error p) && array_ok i64 (sop_offsets p).
Definition wf_offsets_topic (t : s_offsets_topic) : bool :=
  ascii_string (sot_name t) && array_ok wf_offsets_part (sot_parts t).
Definition wf_offsets (r : s_offsets) : bool := i32 (so_corr r) && array_ok wf_offsets_topic (so_topics r).
Definition view_offsets (r : s_offsets) : list offset_item :=
  flat_map (fun t => map (fun p => mk_offset_item (sot_name t) (sop_index p) (sop_error p) (sop_offsets p))
                         (sot_parts t)) (so_topics r).

(* ------------------------------------------------------------------ Metadata *)
Definition wf_broker (b : s_broker) : bool := i32 (sb_node b) && ascii_string (sb_host b) && i32 (sb_port b).
Definition wf_meta_part (p : s_meta_part) : bool :=
  i16 (smp_error p) && i32 (smp_index p) && i32 (smp_leader p)
  && array_ok i32 (smp_replicas p) && array_ok i32 (smp_isr p).
Definition wf_meta_topic (t : s_meta_topic) : bool :=
  i16 (smt_error t) && ascii_string (smt_name t) && array_ok wf_meta_part (smt_parts t).
(* afkak refuses more than MAX_BROKERS = 1024 brokers (InvalidMessageError): the one bound that is not the wire
   format's *)
Definition wf_metadata (r : s_metadata) : bool :=
  i32 (sm_corr r) && (blen (sm_brokers r) <=? MAX_BROKERS) && forallb wf_broker (sm_brokers r)
  && array_ok wf_meta_topic (sm_topics r).

Definition view_broker (b : s_broker) : broker_metadata := mk_broker_metadata (sb_node b) (sb_host b) (sb_port b).
Definition view_meta_part (topic : list Z) (p : s_meta_part) : partition_metadata :=
  mk_partition_metadata topic (smp_index p) (smp_error p) (smp_leader p) (smp_replicas p) (smp_isr p).
Definition view_meta_topic (t : s_meta_topic) : topic_metadata :=
  mk_topic_metadata (smt_name t) (smt_error t)
    (dict_of Z.eqb (map (fun p => (smp_index p, view_meta_part (smt_name t) p)) (smt_parts t))).
(* brokers: dict by node id; topics: dict by name; partitions: dict by partition id (later entries with the same
   key replace earlier ones - with unique keys [dict_of] is the identity: Proofs.RespC05.dict_of_nodup, theorem C05_metadata_unique_keys) *)
Definition view_metadata (r : s_metadata) : list (Z * broker_metadata) * list (list Z * topic_metadata) :=
  (dict_of Z.eqb (map (fun b => (sb_node b, view_broker b)) (sm_brokers r)),
   dict_of zlist_eqb (map (fun t => (smt_name t, view_meta_topic t)) (sm_topics r))).

(* ------------------------------------------------------------------ OffsetCommit *)
Definition wf_commit_part (p : s_commit_part) : bool := i32 (scp_index p) && i16 (scp_error p).
Definition wf_commit_topic (t : s_commit_topic) : bool :=
  ascii_string (sct_name t) && array_ok wf_commit_part (sct_parts t).
Definition wf_commit (r : s_commit) : bool := i32 (sc_corr r) && array_ok wf_commit_topic (sc_topics r).
Definition view_commit (r : s_commit) : list commit_item :=
  flat_map (fun t => map (fun p => mk_commit_item (sct_name t) (scp_index p) (scp_error p)) (sct_parts t))
           (sc_topics r).

(* ------------------------------------------------------------------ OffsetFetch *)
Definition wf_ofetch_part (p : s_ofetch_part) : bool :=
  i32 (sgp_index p) && i64 (sgp_offset p) && short_bytes (sgp_metadata p) && i16 (sgp_error p).
Definition wf_ofetch_topic (t : s_ofetch_topic) : bool :=
  ascii_string (sgt_name t) && array_ok wf_ofetch_part (sgt_parts t).
Definition wf_ofetch (r : s_ofetch) : bool := i32 (sg_corr r) && array_ok wf_ofetch_topic (sg_topics r).
Definition view_ofetch (r : s_ofetch) : list ofetch_item :=
  flat_map (fun t => map (fun p => mk_ofetch_item (sgt_name t) (sgp_index p) (sgp_offset p) (sgp_metadata p)
                                                  (sgp_error p)) (sgt_parts t)) (sg_topics r).

(* ------------------------------------------------------------------ FindCoordinator *)
Definition wf_coordinator (r : s_coordinator) : bool :=
  i32 (sk_corr r) && i16 (sk_error r) && i32 (sk_node r) && ascii_string (sk_host r) && i32 (sk_port r).
Definition view_coordinator (r : s_coordinator) : coordinator_response :=
  mk_coordinator_response (sk_error r) (sk_node r) (sk_host r) (sk_port r).

(* ------------------------------------------------------------------ JoinGroup *)
Definition wf_member (m : s_member) : bool := text_string (smb_id m) && long_bytes (smb_metadata m).
Definition wf_join (r : s_join) : bool :=
  i32 (sj_corr r) && i16 (sj_error r) && i32 (sj_generation r) && text_string (sj_protocol r)
  && text_string (sj_leader r) && text_string (sj_member r) && array_ok wf_member (sj_members r).
Definition view_join (r : s_join) : join_response :=
  mk_join_response (sj_error r) (sj_generation r) (sj_protocol r) (sj_leader r) (sj_member r)
    (map (fun m => mk_join_member (smb_id m) (Some (smb_metadata m))) (sj_members r)).

(* ------------------------------------------------------------------ Heartbeat / LeaveGroup / SyncGroup *)
Definition wf_errcode (r : s_errcode) : bool := i32 (se_corr r) && i16 (se_error r).
Definition wf_sync (r : s_sync) : bool := i32 (ss_corr r) && i16 (ss_error r) && long_bytes (ss_assignment r).

(* ------------------------------------------------------------------ ApiVersions *)
Definition wf_apikey (k : s_apikey) : bool := i16 (sa_key k) && i16 (sa_min k) && i16 (sa_max k).
Definition wf_apiversions (r : s_apiversions) : bool :=
  i32 (sv_corr r) && i16 (sv_error r) && array_ok wf_apikey (sv_keys r).
Definition view_apiversions (r : s_apiversions) : api_versions_response :=
  mk_api_versions_response (sv_error r) (map (fun k => mk_api_version (sa_key k) (sa_min k) (sa_max k)) (sv_keys r)).

(* ------------------------------------------------------------------ consumer protocol *)
Definition wf_subscription (r : s_subscription) : bool :=
  i16 (sub_version r) && array_ok text_string (sub_topics r) && opt_long_bytes (sub_user_data r).
Definition view_subscription (r : s_subscription) : protocol_metadata :=
  mk_protocol_metadata (sub_version r) (sub_topics r) (sub_user_data r).

Definition wf_assigned (a : s_assigned) : bool := ascii_string (sas_topic a) && array_ok i32 (sas_partitions a).
(* afkak only understands version 0 of the assignment (anything else: ProtocolError) *)
Definition wf_assignment (r : s_assignment) : bool :=
  (asg_version r =? 0) && array_ok wf_assigned (asg_topics r) && opt_long_bytes (asg_user_data r).
Definition view_assignment (r : s_assignment) : member_assignment :=
  mk_member_assignment (asg_version r)
    (dict_of zlist_eqb (map (fun a => (sas_topic a, sas_partitions a)) (asg_topics r))) (asg_user_data r).

(* ------------------------------------------------------------------ message sets *)
(* afkak's Message for a message of the grammar: format 0 has no timestamp (None) *)
Definition view_kmsg (m : kmsg) : message :=
  mkMessage (k_magic m) (k_attr m) (k_key m) (k_value m) (if (k_magic m =? 1) then Some (k_ts m) else None).
Definition view_log (l : list (Z * kmsg)) : list omsg := map (fun om => (fst om, view_kmsg (snd om))) l.

Definition opt_bytes_ok (o : option (list Z)) : bool :=
  match o with None => true | Some b => bytes_ok b && long_bytes b end.
(* a plain (uncompressed) message: magic 0 or 1, attributes a byte with codec bits (0..2) all 0, any 64-bit timestamp,
   null / empty / any key and value, the whole message at most 2^31-1 bytes (MessageSize is an INT32) *)
Definition wf_kmsg_common (m : kmsg) : bool :=
  ((k_magic m =? 0) || (k_magic m =? 1)) && in_u8 (k_attr m) && i64 (k_ts m)
  && opt_bytes_ok (k_key m) && opt_bytes_ok (k_value m) && (len (enc_kmsg m) <=? MAX32).
(* the protocol's codec field is attributes bits 0..2 (mask 7); afkak looks at bits 0..1 only (mask 3), which agrees
   on every codec number the protocol defines *)
Definition wf_kmsg (m : kmsg) : bool := wf_kmsg_common m && (Z.land (k_attr m) 7 =? 0).
(* a compressed wrapper: codec bits [c] (1 gzip, 2 snappy) *)
Definition wf_kwrap_c (c : Z) (m : kmsg) : bool := wf_kmsg_common m && (Z.land (k_attr m) 7 =? c).
Definition wf_kwrap := wf_kwrap_c 1.

(* [gz] is the compression function of the encoder, [c] the codec number every wrapper of the tree announces *)
Fixpoint wf_ktree_c (c : Z) (gz : list Z -> list Z) (t : ktree) : bool :=
  match t with
  | KLeaf off m => i64 off && wf_kmsg m
  | KWrap off magic attr ts key kids =>
      i64 off && wf_kwrap_c c (mk_kmsg magic attr ts key (Some (gz (flat_map (enc_ktree gz) kids))))
      && forallb (wf_ktree_c c gz) kids
  end.
Definition wf_ktree := wf_ktree_c 1.          (* gzip, the codec available in every installation *)

(* every tree of a forest well-formed and nested less than [depth] wrappers deep *)
Definition forest_ok (gz : list Z -> list Z) (depth : nat) (ts : list ktree) : bool :=
  forallb (wf_ktree gz) ts && Nat.ltb (kdepth_forest ts) depth.

(* ------------------------------------------------------------------ a Fetch response whose record sets are given as
   message-set trees (None = the null record set) *)
Record t_fetch_part := mk_t_fetch_part
  { tfp_index : Z; tfp_error : Z; tfp_hwm : Z; tfp_trees : option (list ktree) }.
Record t_fetch_topic := mk_t_fetch_topic { tft_name : list Z; tft_parts : list t_fetch_part }.
Record t_fetch := mk_t_fetch { tf_corr : Z; tf_throttle : Z; tf_topics : list t_fetch_topic }.

Definition trees_of (p : t_fetch_part) : list ktree := match tfp_trees p with Some ts => ts | None => [] end.

(* the abstract response of the grammar: RECORDS = the encoded forest *)
Definition spec_fetch_part (gz : list Z -> list Z) (p : t_fetch_part) : s_fetch_part :=
  mk_s_fetch_part (tfp_index p) (tfp_error p) (tfp_hwm p)
    (match tfp_trees p with Some ts => Some (enc_kforest gz ts) | None => None end).
Definition spec_fetch_topic (gz : list Z -> list Z) (t : t_fetch_topic) : s_fetch_topic :=
  mk_s_fetch_topic (tft_name t) (map (spec_fetch_part gz) (tft_parts t)).
Definition spec_fetch (gz : list Z -> list Z) (r : t_fetch) : s_fetch :=
  mk_s_fetch (tf_corr r) (tf_throttle r) (map (spec_fetch_topic gz) (tf_topics r)).

Definition wf_t_fetch (gz : list Z -> list Z) (depth : nat) (r : t_fetch) : bool :=
  wf_fetch (spec_fetch gz r)
  && forallb (fun t => forallb (fun p => forest_ok gz depth (trees_of p)) (tft_parts t)) (tf_topics r).

(* what the consumer of the decoded response must see: per partition the log of its record set, then exhaustion *)
Definition view_t_fetch (r : t_fetch) : list fetch_item :=
  flat_map (fun t => map (fun p => mk_fetch_item (tft_name t) (tfp_index p) (tfp_error p) (tfp_hwm p)
                                                 (view_log (log_of_forest (trees_of p)), None))
                         (tft_parts t)) (tf_topics r).

(* ------------------------------------------------------------------ dictionaries spelled out (no [dict_of]): what the
   decoders return when the keys of the response are distinct *)
Definition plain_meta_topic (t : s_meta_topic) : topic_metadata :=
  mk_topic_metadata (smt_name t) (smt_error t) (map (fun p => (smp_index p, view_meta_part (smt_name t) p)) (smt_parts t)).
Definition plain_metadata (r : s_metadata) : list (Z * broker_metadata) * list (list Z * topic_metadata) :=
  (map (fun b => (sb_node b, view_broker b)) (sm_brokers r), map (fun t => (smt_name t, plain_meta_topic t)) (sm_topics r)).
Definition plain_assignment (r : s_assignment) : member_assignment :=
  mk_member_assignment (asg_version r) (map (fun a => (sas_topic a, sas_partitions a)) (asg_topics r)) (asg_user_data r).

(* ------------------------------------------------------------------ vocabulary of the producer-path theorems *)
(* (key, value) of a message; a pair of byte strings or nulls *)
Definition bytes_or_null (o : option (list Z)) : bool := match o with None => true | Some b => bytes_ok b end.
Definition kv (m : message) : option (list Z) * option (list Z) := (m_key m, m_value m).
Definition kv_ok (p : option (list Z) * option (list Z)) : bool := bytes_or_null (fst p) && bytes_or_null (snd p).
(* messages numbered off, off+incr, off+2*incr, ... as _encode_message_set writes them *)
Definition numbered (off incr : Z) (msgs : list message) : list omsg :=
  map (fun im => (off + Z.of_nat (fst im) * incr, snd im)) (combine (seq 0 (length msgs)) msgs).
(* all at one offset *)
Definition all_at (off : Z) (msgs : list message) : list omsg := map (fun m => (off, m)) msgs.

(* ------------------------------------------------------------------ Message.timestamp_type (common.py:660)
   afkak.common.Message has a sixth field, timestamp_type (default 0), that Model.MsgSet.message does not carry
   because the codec neither reads nor writes it:
     _encode_message (kafkacodec.py:339-361) packs magic, attributes, [timestamp,] key, value - never timestamp_type;
     _decode_message (kafkacodec.py:416, 449) builds Message(magic, att, key, value[, timestamp]) - the field keeps
     its default 0 whatever attributes bit 3 says.
   [pymessage] is the Python object, [py_encode_message] / [py_decoded] the two code paths as they are NOW. *)
Record pymessage := mk_pymessage { pm_msg : message; pm_tstype : Z }.
(* the documented invariant of the type (common.py:650 ":ivar int timestamp_type: Message timestamp type, always 0") *)
Definition wf_pymessage (pm : pymessage) : bool := pm_tstype pm =? 0.
Definition py_encode_message (now : Z) (pm : pymessage) : res (list Z) := encode_message now (pm_msg pm).
Definition py_decoded (m : message) : pymessage := mk_pymessage m 0.
Definition py_decoded_set (r : dres) : list (Z * pymessage) := map (fun om => (fst om, py_decoded (snd om))) (fst r).
