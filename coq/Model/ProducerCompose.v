(* The producer composed with a broker spec:  partition -> log,  produce = append,  reply = error code or base offset.
   Model/Producer.v takes the results of KafkaClient.send_produce_request as free inputs (EResult v).  Here they are
   COMPUTED from what a cluster does with the payloads of the request in flight: per payload it appends the
   messages to the partition's log and acknowledges with the base offset, or answers with an error code, or the
   response never reaches the client (dropped connection, time-out: a failed payload) - in the last two cases with
   or without having appended.  The client aggregates (client.py:1334-1362: responses in payload order,
   FailedPayloadsError when a payload failed).  Definitions only. *)
From AV Require Import Base.Util Model.Producer.

Definition plog := list (Z * Z).                    (* message ids (send, index) in append order *)
Definition logs := list (tp * plog).

Fixpoint log_of (lg : logs) (x : tp) : plog :=
  match lg with
  | [] => []
  | (y, l) :: r => if tp_eqb y x then l else log_of r x
  end.
Definition log_append (lg : logs) (x : tp) (ms : plog) : logs :=
  (x, log_of lg x ++ ms) :: filter (fun e => negb (tp_eqb (fst e) x)) lg.

Inductive reply :=
| RAck                          (* appended by the leader, acknowledged: error 0 and the base offset *)
| RErr (e : Z) (app : bool)     (* answered with error code e (0 counts as RAck); app: appended nevertheless *)
| RLost (k : Z) (app : bool).   (* no response reached the client: failed payload with failure kind k *)

Definition plan := list (tp * reply).
Fixpoint plan_get (pl : plan) (x : tp) : reply :=
  match pl with
  | [] => RLost K_NORESP false
  | (y, r) :: rest => if tp_eqb y x then r else plan_get rest x
  end.

(* the cluster deals with the payloads of one produce request; with acks = 0 it sends no responses at all *)
Fixpoint serve (acks : Z) (req : list (tp * list (Z * Z))) (pl : plan) (lg : logs)
  : logs * list (tp * Z * Z) * list (tp * Z) :=
  match req with
  | [] => (lg, [], [])
  | (x, ms) :: r =>
      let base := Z.of_nat (length (log_of lg x)) in
      match plan_get pl x with
      | RAck =>
          let '(lg', rs, fs) := serve acks r pl (log_append lg x ms) in
          (lg', if acks =? 0 then rs else (x, 0, base) :: rs, fs)
      | RErr e app =>
          if e =? 0 then
            let '(lg', rs, fs) := serve acks r pl (log_append lg x ms) in
            (lg', if acks =? 0 then rs else (x, 0, base) :: rs, fs)
          else
            let '(lg', rs, fs) := serve acks r pl (if app then log_append lg x ms else lg) in
            (lg', if acks =? 0 then rs else (x, e, -1) :: rs, fs)
      | RLost k app =>
          let '(lg', rs, fs) := serve acks r pl (if app then log_append lg x ms else lg) in
          (lg', rs, (x, k) :: fs)
      end
  end.

Definition mk_value (acks : Z) (rs : list (tp * Z * Z)) (fs : list (tp * Z)) : value :=
  match fs with
  | [] => if acks =? 0 then VEmpty else VResp rs
  | _ => VFailed rs fs
  end.

(* the payloads of the request the producer is waiting on *)
Definition request_of (s : state) : option (list (tp * list (Z * Z))) :=
  match ph s with
  | Sending pls cur => Some (map payload_view (filter (fun p => tpmem (p_tp p) cur) pls))
  | _ => None
  end.

Inductive cevent :=
| CEv (e : event)                    (* a producer event; EResult / EStop (Some _) are not accepted here *)
| CAnswer (pl : plan)                (* the cluster deals with the request in flight, the client delivers the aggregate *)
| CClientErr (kafka : bool) (k : Z)  (* the client could not send the request at all (no leader, ...) *)
| CStop (pl : option plan)           (* stop(); Some pl: what happened to the request in flight before the cancel *)
| CStopErr (kafka : bool) (k : Z).   (* stop() while the client had not sent the request yet: it fails as a whole *)

Definition cstep (c : cfg) (s : state) (lg : logs) (ce : cevent) : state * logs * list (event * list output) :=
  match ce with
  | CEv e =>
      match e with
      | EResult _ | EStop (Some _) | EResultOmit _ | EBroken _ => (s, lg, [])   (* results come from the cluster (CAnswer ..);
                                                                                 the honest cluster omits nothing, F-C01-5 apart *)
      | _ => let '(s', o) := step c s e in (s', lg, [(e, o)])
      end
  | CAnswer pl =>
      match request_of s with
      | Some req =>
          let '(lg', rs, fs) := serve (c_acks c) req pl lg in
          let e := EResult (mk_value (c_acks c) rs fs) in
          let '(s', o) := step c s e in (s', lg', [(e, o)])
      | None => (s, lg, [])
      end
  | CClientErr kafka k =>
      let e := EResult (if kafka then VKafka k else VOther k) in
      let '(s', o) := step c s e in (s', lg, [(e, o)])
  | CStop None => let '(s', o) := step c s (EStop None) in (s', lg, [(EStop None, o)])
  | CStop (Some pl) =>
      match request_of s with
      | Some req =>
          let '(lg', rs, fs) := serve (c_acks c) req pl lg in
          let e := EStop (Some (mk_value (c_acks c) rs fs)) in
          let '(s', o) := step c s e in (s', lg', [(e, o)])
      | None => let '(s', o) := step c s (EStop None) in (s', lg, [(EStop None, o)])
      end
  | CStopErr kafka k =>
      let e := EStop (Some (if kafka then VKafka k else VOther k)) in
      let '(s', o) := step c s e in (s', lg, [(e, o)])
  end.

Fixpoint crun (c : cfg) (s : state) (lg : logs) (ces : list cevent) : state * logs * list (event * list output) :=
  match ces with
  | [] => (s, lg, [])
  | ce :: r =>
      let '(s1, lg1, t1) := cstep c s lg ce in
      let '(s2, lg2, t2) := crun c s1 lg1 r in (s2, lg2, t1 ++ t2)
  end.

(* ------------------------------------------------------------------ case lines
   acks n b has_t max api | lp(cache triples) | cevents
   cevent:  0 lp(<producer event as in Model.Producer>)  |  20 lp(plan)  |  21 kafka k  |  22 (-1 | lp(plan))  |  23 kafka k
   plan entry: t p kind a b     kind 0 RAck, 1 RErr a (b<>0 appended), 2 RLost a (b<>0 appended)
   output: the producer trace as in Model.Producer.run_case, then -7, then the logs:
           npartitions, per partition (sorted)  t p n mid..                                          *)
Fixpoint quints (l : list Z) : plan :=
  match l with
  | t :: p :: k :: a :: b :: r =>
      ((t, p), if k =? 0 then RAck else if k =? 1 then RErr a (negb (b =? 0)) else RLost a (negb (b =? 0))) :: quints r
  | _ => []
  end.

(* one producer event from the head of the line: reuse Model.Producer.parse_events on a split is not possible
   without knowing its length, so producer events are length-prefixed here:  0 lp(event ints) *)
Fixpoint parse_cevents (fuel : nat) (l : list Z) : option (list cevent) :=
  match fuel with
  | O => None
  | S fuel' =>
      match l with
      | [] => Some []
      | 0 :: r =>
          match take_lp r with
          | Some (a, r') =>
              match parse_events (S (length a)) a with
              | Some [e] => option_map (cons (CEv e)) (parse_cevents fuel' r')
              | _ => None
              end
          | None => None
          end
      | 20 :: r =>
          match take_lp r with
          | Some (a, r') => option_map (cons (CAnswer (quints a))) (parse_cevents fuel' r')
          | None => None
          end
      | 21 :: kf :: k :: r => option_map (cons (CClientErr (negb (kf =? 0)) k)) (parse_cevents fuel' r)
      | 23 :: kf :: k :: r => option_map (cons (CStopErr (negb (kf =? 0)) k)) (parse_cevents fuel' r)
      | 22 :: -1 :: r => option_map (cons (CStop None)) (parse_cevents fuel' r)
      | 22 :: r =>
          match take_lp r with
          | Some (a, r') => option_map (cons (CStop (Some (quints a)))) (parse_cevents fuel' r')
          | None => None
          end
      | _ => None
      end
  end.

Definition enc_log (e : tp * plog) : list Z :=
  fst (fst e) :: snd (fst e) :: Z.of_nat (length (snd e)) :: map (fun m => fst m * MID + snd m) (snd e).

Definition run_case (l : list Z) : list Z :=
  match l with
  | acks :: n :: b :: has_t :: mx :: ap :: r =>
      match take_lp r with
      | Some (ca, r') =>
          match parse_cevents (S (length r')) r' with
          | Some ces =>
              let c := {| c_acks := acks; c_n := n; c_b := b; c_max := mx |} in
              let s0 := init_state (negb (has_t =? 0)) ap
                                   (map (fun t => (fst (fst t), (snd (fst t), negb (snd t =? 0)))) (triples ca)) in
              let '(_, lg, tr) := crun c s0 [] ces in
              let lgs := zl_sort (map enc_log (filter (fun e => negb (Nat.eqb (length (snd e)) 0)) lg)) in
              flat_map (fun eo => enc_step (snd eo)) tr ++ [-7; Z.of_nat (length lgs)] ++ concat lgs
          | None => [-99]
          end
      | None => [-99]
      end
  | _ => [-99]
  end.
