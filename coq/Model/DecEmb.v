(* How the typed results of the hand-written decoders (Model.Responses) look as values of the decoder language
   (Model.DecDSL): the Python objects the decoders build.  Used only to STATE the agreement
   "interpreting the translated source = the hand-written model" (Proofs/DecDSLSound.v, Props/C05gen.v). *)
From AV Require Import Base.Util Model.Prim Model.Crc Model.MsgSet Model.Responses Model.DecDSL.

Definition v_ob (o : option (list Z)) : val := match o with Some b => VBytes b | None => VNone end.
Definition v_ints (l : list Z) : val := VTuple (map VInt l).

(* a decoder that returns a value *)
Definition emb_res {A} (f : A -> val) (r : res A) : list val * res val :=
  ([], match r with Ok a => Ok (f a) | Err e => Err e end).
(* a generator: the items, then exhaustion (StopIteration: the call returns None) or the exception *)
Definition emb_gen {A} (f : A -> val) (g : gen A) : list val * res val :=
  (map f (fst g), match snd g with Ok _ => Ok VNone | Err e => Err e end).

Definition v_api_version (a : api_version) : val := VStruct K_ApiVersion [VInt (av_key a); VInt (av_min a); VInt (av_max a)].
Definition v_api_versions (r : api_versions_response) : val :=
  VStruct K_ApiVersionResponse [VInt (avr_error r); VList (map v_api_version (avr_versions r))].
Definition v_produce (i : produce_item) : val :=
  VStruct K_ProduceResponse [VText (pi_topic i); VInt (pi_partition i); VInt (pi_error i); VInt (pi_offset i)].
Definition v_fetch (i : fetch_item) : val :=
  VStruct K_FetchResponse [VText (fi_topic i); VInt (fi_partition i); VInt (fi_error i); VInt (fi_hwm i); VMsgs (fi_messages i)].
Definition v_offset (i : offset_item) : val :=
  VStruct K_OffsetResponse [VText (oi_topic i); VInt (oi_partition i); VInt (oi_error i); v_ints (oi_offsets i)].
Definition v_commit (i : commit_item) : val :=
  VStruct K_OffsetCommitResponse [VText (ci_topic i); VInt (ci_partition i); VInt (ci_error i)].
Definition v_ofetch (i : ofetch_item) : val :=
  VStruct K_OffsetFetchResponse [VText (gi_topic i); VInt (gi_partition i); VInt (gi_offset i); v_ob (gi_metadata i); VInt (gi_error i)].
Definition v_broker (b : broker_metadata) : val := VStruct K_BrokerMetadata [VInt (bm_node b); VText (bm_host b); VInt (bm_port b)].
Definition v_partition (p : partition_metadata) : val :=
  VStruct K_PartitionMetadata [VText (pm_topic p); VInt (pm_partition p); VInt (pm_error p); VInt (pm_leader p);
                               v_ints (pm_replicas p); v_ints (pm_isr p)].
Definition v_topic (t : topic_metadata) : val :=
  VStruct K_TopicMetadata [VText (tm_topic t); VInt (tm_error t);
                           VDict (map (fun kp => (VInt (fst kp), v_partition (snd kp))) (tm_partitions t))].
Definition v_metadata (bt : list (Z * broker_metadata) * list (list Z * topic_metadata)) : val :=
  VTuple [VDict (map (fun kb => (VInt (fst kb), v_broker (snd kb))) (fst bt));
          VDict (map (fun kt => (VText (fst kt), v_topic (snd kt))) (snd bt))].
Definition v_coordinator (r : coordinator_response) : val :=
  VStruct K_ConsumerMetadataResponse [VInt (cr_error r); VInt (cr_node r); VText (cr_host r); VInt (cr_port r)].
Definition v_subscription (r : protocol_metadata) : val :=
  VStruct K_JoinGroupProtocolMetadata [VInt (jm_version r); VList (map VText (jm_subscriptions r)); v_ob (jm_user_data r)].
Definition v_member (m : join_member) : val := VStruct K_JoinGroupResponseMember [VText (jmb_id m); v_ob (jmb_metadata m)].
Definition v_join (r : join_response) : val :=
  VStruct K_JoinGroupResponse [VInt (jr_error r); VInt (jr_generation r); VText (jr_protocol r); VText (jr_leader r);
                               VText (jr_member r); VList (map v_member (jr_members r))].
Definition v_sync (r : Z * option (list Z)) : val := VStruct K_SyncGroupResponse [VInt (fst r); v_ob (snd r)].
Definition v_assignment (r : member_assignment) : val :=
  VStruct K_SyncGroupMemberAssignment [VInt (ma_version r);
                                       VDict (map (fun tp => (VText (fst tp), v_ints (snd tp))) (ma_assignments r));
                                       v_ob (ma_user_data r)].

(* decode_produce_response: the dispatch on api_version (a list of (comparison, constant, nested function)), first
   match wins, no match = ValueError when the decoder is called *)
Fixpoint select (table : list (cmp * Z * nat)) (param : Z) : option nat :=
  match table with
  | [] => None
  | (op, z, target) :: r => if compare op param z then Some target else select r param
  end.
