(* A tiny language for the consumer's pure ARITHMETIC (translator tie of C12/C14, DESIGN.md 10.2b, tie A):
     (1) the buffer-growth rule in the `except ConsumerFetchSizeTooSmall` branch of Consumer._handle_fetch_response
         (afkak/consumer.py:959-980), as a decision tree over buffer_size / max_buffer_size whose leaves are
         "self.buffer_size becomes e, the handler falls through (refetch)" or "errback of the start Deferred and return";
     (2) the retry-delay update of Consumer._retry_fetch (consumer.py:611-613) as a decision tree over rational
         arithmetic, the factor REQUEST_RETRY_FACTOR read from the source as the exact decimal it is written as,
         and the list of the other places that assign self.retry_delay (the reset sites).
   harness/py2grow.py symbolically executes those statements on every run (local names, `x if c else y`, cached
   attributes, if/elif shapes and `and`/`or` vanish; products with a per-path constant become linear forms) and Coq
   checks that the result is the committed term of Model/GrowAst.v; Proofs/GrowDSLSound.v proves what the committed
   terms compute: Model.FetchGrow.grow (= Model.Consumer.grow_buffer) and d -> min(d * F, max). *)
From Coq Require Import String QArith Qminmax.
From AV Require Import Base.Util.
Local Open Scope Z_scope.

(* ---- (1) growth: integers, two variables *)
Inductive gex :=
| GLin (c kb km : Z)          (* c + kb * buffer_size + km * max_buffer_size *)
| GMin (a b : gex).

Inductive gcond :=
| GCPos (e : gex)             (* 0 < e *)
| GCMaxNone.                  (* self.max_buffer_size is None *)

Inductive gtree :=
| GGrow (e : gex)             (* self.buffer_size = e ; fall out of the handler (the same offset is fetched again) *)
| GFail                       (* self._start_d.errback(..) ; return *)
| GIf (c : gcond) (a b : gtree).

Inductive gres := RGrow (z : Z) | RFail | RTypeErr.      (* RTypeErr: arithmetic on None *)

Fixpoint geval (buf : Z) (mx : option Z) (e : gex) : option Z :=
  match e with
  | GLin c kb km =>
      if (km =? 0) then Some (c + kb * buf)
      else match mx with Some m => Some (c + kb * buf + km * m) | None => None end
  | GMin a b => match geval buf mx a, geval buf mx b with
                | Some x, Some y => Some (Z.min x y)
                | _, _ => None
                end
  end.

Fixpoint grun_tree (t : gtree) (buf : Z) (mx : option Z) : gres :=
  match t with
  | GGrow e => match geval buf mx e with Some z => RGrow z | None => RTypeErr end
  | GFail => RFail
  | GIf c a b =>
      match c with
      | GCMaxNone => match mx with None => grun_tree a buf mx | Some _ => grun_tree b buf mx end
      | GCPos e => match geval buf mx e with
                   | Some z => if (0 <? z) then grun_tree a buf mx else grun_tree b buf mx
                   | None => RTypeErr
                   end
      end
  end.

(* ---- (2) retry delay: rationals, two variables *)
Inductive dex :=
| DLin (kd km : Q)            (* kd * retry_delay + km * retry_max_delay *)
| DMin (a b : dex).

Inductive dtree :=
| DSet (e : dex)              (* self.retry_delay = e *)
| DIf (e : dex) (a b : dtree).  (* if 0 < e *)

Fixpoint deval (d m : Q) (e : dex) : Q :=
  match e with
  | DLin kd km => kd * d + km * m
  | DMin a b => Qmin (deval d m a) (deval d m b)
  end%Q.

Fixpoint drun (t : dtree) (d m : Q) : Q :=
  match t with
  | DSet e => deval d m e
  | DIf e a b => if Qlt_le_dec 0 (deval d m e) then drun a d m else drun b d m
  end.

(* the places, other than the update itself, that assign self.retry_delay: (method, what is assigned) *)
Inductive dreset := RInitDelay            (* self.retry_init_delay *)
                  | RFloatInitArg.        (* float(request_retry_init_delay), in __init__ *)
Definition reset_sites : Type := list (string * dreset).
