(* A small deep-embedded language for afkak's response decoders (KafkaCodec.decode_* in /repo/afkak/kafkacodec.py) and
   its interpreter.  harness/py2dsl.py translates the SOURCE of each decoder, on every run, into a term of [stmt]
   (a purely syntactic mapping of the Python ast: one constructor per statement form, local variables numbered in
   order of first assignment so that renaming a local is harmless); what those statements MEAN is fixed here, once,
   in Gallina, in terms of the primitives of Model.Prim / Model.Responses (relative_unpack, read_short_*,
   read_int_string, the counted-loop fuel discipline, Python's dict update).  Proofs/DecDSLSound.v proves, per decoder,
   that interpreting the committed term (Model.DecAst) is the hand-written decoder of Model.Responses that the C05 / C12
   theorems are about.

   The readers themselves (read_short_*, read_int_string, relative_unpack: primitives here, with the semantics of
   Model.Prim) have their own source translated into the reader language Model.ReadDSL (Proofs/ReadDSLSound.v).

   Python forms covered (anything else makes the translator refuse the decoder):
     ((a, b), cur) = relative_unpack(">ih", data, CUR)        SUnpack      CUR is the literal 0 (CStart) or `cur` (CCur)
     x, cur = relative_unpack(">i", data, cur)                SUnpackTuple (x is the whole tuple)
     (xs, cur) = relative_unpack(">%di" % n, data, cur)       SUnpackN     (also ">%si")
     (x, cur) = read_short_bytes/ascii/text/read_int_string(data, cur)     SRead
     x = [] / x = {}                                           SAssign
     xs.append(E)  /  d[k] = E                                 SAppend / SSetItem
     for _ in range(n): BODY                                   SFor        (the loop variable must be unused)
     for a, b, c in struct.iter_unpack(">hhh", data[cur:]): BODY           SIterUnpack
     yield E  /  return E  /  raise X(...)                     SYield / SReturn / SRaise
     if v OP const: raise X(...)                               SIfRaise    (module constants are inlined)
     if api_version OP const: A  [elif ...: B] [else: C]       SIfParam    (api_version = the decoder's parameter)
   E: a variable, nativeString(v), tuple(v), Ctor(atoms...), (atoms...), KafkaCodec._decode_message_set_iter(v or b"").

   Values: Python objects as far as the decoders build them.  Text (str) is carried as its encoded bytes, like in
   Model.Responses; None is [VNone]; an unassigned local is [VUnbound] (reading it is UnboundLocalError = NameErr). *)
From AV Require Import Base.Util Model.Prim Model.Crc Model.MsgSet Model.Responses.

Inductive ctor : Set :=
| K_ApiVersion | K_ApiVersionResponse | K_ProduceResponse | K_FetchResponse | K_OffsetResponse
| K_BrokerMetadata | K_PartitionMetadata | K_TopicMetadata | K_ConsumerMetadataResponse
| K_OffsetCommitResponse | K_OffsetFetchResponse | K_JoinGroupProtocolMetadata | K_JoinGroupResponseMember
| K_JoinGroupResponse | K_LeaveGroupResponse | K_HeartbeatResponse | K_SyncGroupResponse
| K_SyncGroupMemberAssignment.

Inductive val : Type :=
| VUnbound | VNone
| VInt (z : Z)
| VBytes (b : list Z)
| VText (b : list Z)
| VTuple (l : list val)
| VList (l : list val)
| VDict (kvs : list (val * val))
| VStruct (k : ctor) (fs : list val)
| VMsgs (d : dres).                       (* the generator _decode_message_set_iter(..), by its observable behaviour *)

Inductive atom : Set :=
| AVar (i : nat)
| ANative (i : nat)                       (* nativeString(v): the identity on str *)
| ATupleOf (i : nat)                      (* tuple(v) *)
| AMsgSetIter (i : nat).                  (* KafkaCodec._decode_message_set_iter(v or b"") *)

Inductive expr : Set :=
| EAtom (a : atom)
| ECtor (k : ctor) (args : list atom)
| ETuple (args : list atom)
| EEmptyList | EEmptyDict.

Inductive cur : Set := CStart | CCur.
Inductive rkind : Set := RShortBytes | RShortAscii | RShortText | RIntString.
Inductive cmp : Set := CEq | CNe | CGt | CGe | CLt | CLe.

Inductive stmt : Set :=
| SSkip
| SSeq (a b : stmt)
| SUnpack (c : cur) (fmt : list ifmt) (targets : list nat)
| SUnpackTuple (c : cur) (fmt : list ifmt) (target : nat)
| SUnpackN (c : cur) (count : nat) (f : ifmt) (target : nat)
| SRead (c : cur) (k : rkind) (target : nat)
| SAssign (target : nat) (e : expr)
| SAppend (lst : nat) (e : expr)
| SSetItem (d : nat) (key : atom) (e : expr)
| SFor (count : nat) (body : stmt)
| SIterUnpack (fmt : list ifmt) (targets : list nat) (body : stmt)
| SYield (e : expr)
| SIfRaise (v : nat) (op : cmp) (z : Z) (e : err)
| SIfParam (op : cmp) (z : Z) (a b : stmt)
| SReturn (e : expr)
| SRaise (e : err).

(* a decoder: the number of its local variables (slots 0 .. n-1) and its body *)
Record prog : Set := mk_prog { p_nvars : nat; p_body : stmt }.

(* ------------------------------------------------------------------ environment *)
Definition env := list val.

Fixpoint get (i : nat) (e : env) : val :=
  match i, e with
  | O, v :: _ => v
  | S k, _ :: r => get k r
  | _, [] => VUnbound
  end.
Fixpoint set (i : nat) (v : val) (e : env) : env :=
  match i, e with
  | O, _ :: r => v :: r
  | O, [] => [v]
  | S k, x :: r => x :: set k v r
  | S k, [] => VUnbound :: set k v []
  end.
Fixpoint set_all (targets : list nat) (vs : list val) (e : env) : env :=
  match targets, vs with
  | t :: ts, v :: r => set_all ts r (set t v e)
  | _, _ => e
  end.

(* reading a local: UnboundLocalError when it was never assigned *)
Definition lookup (i : nat) (e : env) : res val :=
  match get i e with VUnbound => Err NameErr | v => Ok v end.

Definition compare (op : cmp) (a b : Z) : bool :=
  match op with
  | CEq => a =? b | CNe => negb (a =? b) | CGt => b <? a | CGe => b <=? a | CLt => a <? b | CLe => a <=? b
  end.

(* Python equality on the values used as dict keys (ints and strings) *)
Definition key_eqb (a b : val) : bool :=
  match a, b with
  | VInt x, VInt y => x =? y
  | VText x, VText y => zlist_eqb x y
  | VBytes x, VBytes y => zlist_eqb x y
  | VNone, VNone => true
  | _, _ => false
  end.

(* ------------------------------------------------------------------ expressions *)
Section Interp.
  Variable param : Z.                         (* the decoder's api_version argument (0 when it has none) *)
  Variable msgset : list Z -> dres.           (* list(KafkaCodec._decode_message_set_iter(bytes)) as observed *)
  Variable data0 : list Z.                    (* the `data` argument *)

  Definition eval_atom (a : atom) (e : env) : res val :=
    match a with
    | AVar i => lookup i e
    | ANative i => lookup i e
    | ATupleOf i => do v <- lookup i e;
                    match v with VList l => Ok (VTuple l) | VTuple l => Ok (VTuple l) | _ => Err TypeErr end
    | AMsgSetIter i => do v <- lookup i e;
                       match v with
                       | VNone => Ok (VMsgs (msgset []))          (* None or b"" *)
                       | VBytes b => Ok (VMsgs (msgset b))        (* b"" or b"" is b"" *)
                       | _ => Err TypeErr
                       end
    end.

  Fixpoint eval_atoms (l : list atom) (e : env) : res (list val) :=
    match l with
    | [] => Ok []
    | a :: r => do v <- eval_atom a e; do vs <- eval_atoms r e; Ok (v :: vs)
    end.

  Definition eval (x : expr) (e : env) : res val :=
    match x with
    | EAtom a => eval_atom a e
    | ECtor k args => do vs <- eval_atoms args e; Ok (VStruct k vs)
    | ETuple args => do vs <- eval_atoms args e; Ok (VTuple vs)
    | EEmptyList => Ok (VList [])
    | EEmptyDict => Ok (VDict [])
    end.

  (* ---------------------------------------------------------------- statements *)
  Record state := mk_state { s_env : env; s_rest : list Z }.      (* locals, data[cur:] *)

  Inductive flow := Next (s : state) | Ret (v : val) | Raise (e : err).
  Definition out := (list val * flow)%type.                      (* values yielded so far, then how it goes on *)

  Definition then_ (o : out) (k : state -> out) : out :=
    match o with
    | (ys, Next s) => let (zs, f) := k s in (ys ++ zs, f)
    | (ys, f) => (ys, f)
    end.

  Definition lift {A} (r : res A) (k : A -> out) : out :=
    match r with Ok a => k a | Err e => ([], Raise e) end.

  Definition at_cur (c : cur) (s : state) : list Z := match c with CStart => data0 | CCur => s_rest s end.

  (* relative_unpack with a fixed format: the fields one after the other (same values, same exception) *)
  Fixpoint unpack_seq (fmt : list ifmt) (d : list Z) : res (list Z * list Z) :=
    match fmt with
    | [] => Ok ([], d)
    | f :: r => do (v, d1) <- unpack f d; do (vs, d2) <- unpack_seq r d1; Ok (v :: vs, d2)
    end.

  Definition read_kind (k : rkind) (d : list Z) : res (val * list Z) :=
    match k with
    | RShortBytes => do (o, r) <- read_short_bytes d; Ok (match o with Some b => VBytes b | None => VNone end, r)
    | RIntString => do (o, r) <- read_int_string d; Ok (match o with Some b => VBytes b | None => VNone end, r)
    | RShortAscii => do (b, r) <- read_short_ascii d; Ok (VText b, r)
    | RShortText => do (b, r) <- read_short_text d; Ok (VText b, r)
    end.

  (* `for _ in range(n): body` - the counted loop of Model.Responses ([for_range]) over interpreter states *)
  Fixpoint sfor_range (body : state -> out) (fuel : nat) (n : Z) (s : state) : out :=
    if (n <=? 0) then ([], Next s)
    else match fuel with
         | O => ([], Raise Fuel)
         | S f => then_ (body s) (sfor_range body f (n - 1))
         end.

  (* `for fields in struct.iter_unpack(fmt, data[cur:])`: struct.error unless the rest is a whole number of records;
     the cursor variable is not advanced by the loop *)
  Definition fmt_bytes (fmt : list ifmt) : Z := Z.of_nat (fold_right (fun f n => (fmt_size f + n)%nat) O fmt).
  Fixpoint siter (fmt : list ifmt) (targets : list nat) (body : state -> out) (fuel : nat) (d : list Z) (s : state) : out :=
    match d with
    | [] => ([], Next s)
    | _ :: _ => match fuel with
                | O => ([], Raise Fuel)
                | S f => lift (unpack_seq fmt d) (fun vr =>
                           then_ (body (mk_state (set_all targets (map VInt (fst vr)) (s_env s)) (s_rest s)))
                                 (siter fmt targets body f (snd vr)))
                end
    end.

  Definition dict_put (kvs : list (val * val)) (k v : val) : list (val * val) := dict_set key_eqb kvs k v.

  Fixpoint exec (p : stmt) (s : state) {struct p} : out :=
    match p with
    | SSkip => ([], Next s)
    | SSeq a b => then_ (exec a s) (exec b)
    | SUnpack c fmt targets =>
        lift (unpack_seq fmt (at_cur c s)) (fun vr => ([], Next (mk_state (set_all targets (map VInt (fst vr)) (s_env s)) (snd vr))))
    | SUnpackTuple c fmt target =>
        lift (unpack_seq fmt (at_cur c s)) (fun vr => ([], Next (mk_state (set target (VTuple (map VInt (fst vr))) (s_env s)) (snd vr))))
    | SUnpackN c count f target =>
        lift (lookup count (s_env s)) (fun v =>
          match v, f with
          | VInt n, Fi => lift (read_ints n (at_cur c s)) (fun vr =>
                            ([], Next (mk_state (set target (VTuple (map VInt (fst vr))) (s_env s)) (snd vr))))
          | _, _ => ([], Raise TypeErr)
          end)
    | SRead c k target =>
        lift (read_kind k (at_cur c s)) (fun vr => ([], Next (mk_state (set target (fst vr) (s_env s)) (snd vr))))
    | SAssign target e =>
        lift (eval e (s_env s)) (fun v => ([], Next (mk_state (set target v (s_env s)) (s_rest s))))
    | SAppend lst e =>
        lift (lookup lst (s_env s)) (fun l =>
          match l with
          | VList xs => lift (eval e (s_env s)) (fun v => ([], Next (mk_state (set lst (VList (xs ++ [v])) (s_env s)) (s_rest s))))
          | _ => ([], Raise AttrErr)
          end)
    | SSetItem d key e =>
        lift (lookup d (s_env s)) (fun dv =>
          match dv with
          | VDict kvs => lift (eval_atom key (s_env s)) (fun k =>
                           lift (eval e (s_env s)) (fun v =>
                             ([], Next (mk_state (set d (VDict (dict_put kvs k v)) (s_env s)) (s_rest s)))))
          | _ => ([], Raise TypeErr)
          end)
    | SFor count body =>
        lift (lookup count (s_env s)) (fun v =>
          match v with
          | VInt n => sfor_range (exec body) (S (length (s_rest s))) n s
          | _ => ([], Raise TypeErr)
          end)
    | SIterUnpack fmt targets body =>
        if negb (len (s_rest s) mod fmt_bytes fmt =? 0) then ([], Raise StructErr)
        else siter fmt targets (exec body) (length (s_rest s)) (s_rest s) s
    | SYield e => lift (eval e (s_env s)) (fun v => ([v], Next s))
    | SIfRaise v op z e =>
        lift (lookup v (s_env s)) (fun x =>
          match x with
          | VInt n => if compare op n z then ([], Raise e) else ([], Next s)
          | _ => ([], Raise TypeErr)
          end)
    | SIfParam op z a b => if compare op param z then exec a s else exec b s
    | SReturn e => lift (eval e (s_env s)) (fun v => ([], Ret v))
    | SRaise e => ([], Raise e)
    end.

  (* calling the decoder: what the caller can observe = the values yielded (generators), then the value returned
     (None when the body falls off its end) or the exception.  Every local starts unassigned. *)
  Definition run (p : prog) : list val * res val :=
    match exec (p_body p) (mk_state (repeat VUnbound (p_nvars p)) data0) with
    | (ys, Next _) => (ys, Ok VNone)
    | (ys, Ret v) => (ys, Ok v)
    | (ys, Raise e) => (ys, Err e)
    end.
End Interp.
