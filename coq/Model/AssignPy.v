(* Python-shaped combinators used by the text harness/py2assign.py generates from
   afkak/_group.py:_ConsumerProtocol._round_robin_assignment (translator tie of C15).  Definitions only.
   Exceptions are the result monad of Model/Assign.v; statements that may raise are sequenced with Assign.bind. *)
From AV Require Import Base.Util Model.Assign.

(* truth value of a list / set *)
Definition py_is_empty {A} (l : list A) : bool := match l with [] => true | _ => false end.
(* assert b *)
Definition py_assert (b : bool) : result unit := if b then Ok tt else Err EAssert.
(* d[k] on a dict with str keys *)
Definition py_getitem {V} (d : list (str * V)) (k : str) : result V :=
  match dict_get d k with Some v => Ok v | None => Err EKey end.
(* s.update(l) on a set of str: a set is a duplicate-free list in some order; this order is the one
   Assign.all_topics uses (every consumer of the set is order-insensitive: membership, sorted(), iteration
   whose result is sorted afterwards) *)
Definition py_set_update (s l : list str) : list str := dedup (s ++ l).
(* for x in xs: s = f s x   (the first exception ends the loop) *)
Fixpoint py_for {A S} (xs : list A) (s : S) (f : S -> A -> result S) : result S :=
  match xs with
  | [] => Ok s
  | x :: r => bind (f s x) (fun s' => py_for r s' f)
  end.
(* while c(s): s = b(s)   with explicit fuel; out of fuel is Err EFuel *)
Fixpoint py_while {S} (fuel : nat) (s : S) (c : S -> result bool) (b : S -> result S) : result S :=
  match fuel with
  | O => Err EFuel
  | S f => bind (c s) (fun t => if t then bind (b s) (fun s' => py_while f s' c b) else Ok s)
  end.
(* try: body  except KeyError: handler *)
Definition py_try_key {S} (body handler : result S) : result S :=
  match body with Err EKey => handler | r => r end.
(* itertools.cycle(l): the list and the index of the element next() yields *)
Definition py_cycle {A} (l : list A) : list A * nat := (l, 0%nat).
Definition py_next {A} (it : list A * nat) : result (A * (list A * nat)) :=
  match nth_error (fst it) (snd it) with
  | Some x => Ok (x, (fst it, Nat.modulo (S (snd it)) (length (fst it))))
  | None => Err EStop
  end.
(* KafkaCodec.decode_join_group_protocol_metadata(b) as the translated methods see it: the metadata object is its
   .subscriptions list (kafkacodec.py:1010-1025 = Assign.dec_metadata; that function's own translator tie is C05gen) *)
Definition py_decode_metadata (b : list Z) : result (list str) :=
  bind (dec_metadata b) (fun x => Ok (snd (fst x))).
