(* M7w: sendString / transport.write RAISING inside _sendRequest, brokerclient.py:365-380:

     try:
         tReq.sent = now
         self.proto.sendString(tReq.request)
     except Exception as e:
         del self.requests[tReq.correlationId]          # the entry is dropped ...
         tReq.d.errback(e)                               # ... and the Deferred fails with that exception
     else: ...

   Whether the write of a request raises is an oracle fixed when the request is made (WMake .. bad = true: e.g. a str
   payload, which makes `pack(..) + string` raise TypeError every time the request is written).  [w_bad] lists the handles
   of such requests.  The new observable WFail h: the Deferred of handle h errbacks with the exception the write raised
   (no bytes were written).  Model/BrokerClient.v's outcome type is left untouched (other models build on it). *)
From AV Require Import Base.Util Model.Framing Model.BrokerClient.

Inductive woutput := WO (o : output) | WFail (h : nat).
Record wstate := mkW { w_s : state; w_bad : list nat }.
Definition winit : wstate := mkW init [].

Definition is_bad (bad : list nat) (h : nat) : bool := existsb (Nat.eqb h) bad.

(* _sendRequest(tReq), brokerclient.py:365-380 *)
Definition send_request_w (bad : list nat) (t : tbl) (r : req) : tbl * list woutput :=
  if is_bad bad (r_h r) then
    let t1 := t_with_reqs t (del (r_id r) (t_reqs t)) in              (* except: del self.requests[id] *)
    if is_fired t1 (r_h r) then (t1, [WO (OErr 1 (r_h r))])
    else (mkT (t_reqs t1) (t_dlog t1) (r_h r :: t_fired t1), [WFail (r_h r)])     (* tReq.d.errback(e) *)
  else let (t1, o) := send_request t r in (t1, map WO o).

(* _sendQueued, brokerclient.py:382-388 (no user code inside the loop here: see Model/BrokerClientHook.v for that) *)
Fixpoint send_each_w (bad : list nat) (t : tbl) (snap : list req) : tbl * list woutput :=
  match snap with
  | [] => (t, [])
  | r :: rest =>
      if r_sent r then send_each_w bad t rest
      else let (t1, o1) := send_request_w bad t r in
           let (t2, o2) := send_each_w bad t1 rest in (t2, o1 ++ o2)
  end.

Inductive wevent := WEv (e : event) | WMake (rid : Z) (expect : bool) (bad : bool).

Definition wlift (ws : wstate) (x : state * list output) : wstate * list woutput :=
  (mkW (fst x) (w_bad ws), map WO (snd x)).

Definition wstep (ws : wstate) (e : wevent) : wstate * list woutput :=
  let s := w_s ws in
  match e with
  | WMake rid expect b =>                                                    (* makeRequest, 167-246 *)
      let t := s_t s in
      match lookup rid (t_reqs t) with
      | Some _ => (ws, [WO (ORaised 1)])
      | None =>
          let h := length (t_dlog t) in
          let bad := if b then h :: w_bad ws else w_bad ws in
          match s_down s with
          | DNone =>
              let r := mkReq rid h expect false false in
              let t1 := mkT (t_reqs t ++ [r]) (t_dlog t ++ [rid]) (t_fired t) in
              if s_proto s then
                let (t2, o) := send_request_w bad t1 r in (mkW (with_t s t2) bad, o)
              else match s_connector s with
                   | CNone => let (s1, o) := connect (with_t s t1) in (mkW s1 bad, map WO o)
                   | _ => (mkW (with_t s t1) bad, [])
                   end
          | _ => let (t2, o) := fire (mkT (t_reqs t) (t_dlog t ++ [rid]) (t_fired t)) h FailClosed in
                 (mkW (with_t s t2) bad, map WO o)
          end
      end
  | WEv EConnOk =>                                                           (* cbConnect, 431-439 *)
      match s_connector s with
      | CAttempt =>
          let s1 := with_rxbuf (with_proto (with_connector (with_failures s 0) CNone) true) [] in
          match s_down s1 with
          | DNone => let (t2, o) := send_each_w (w_bad ws) (s_t s1) (t_reqs (s_t s1)) in (mkW (with_t s1 t2) (w_bad ws), o)
          | _ => (mkW s1 (w_bad ws), [WO OLose])
          end
      | _ => (ws, [])
      end
  | WEv e0 => wlift ws (step s e0)
  end.

Fixpoint wrun (ws : wstate) (evs : list wevent) : wstate * list woutput :=
  match evs with
  | [] => (ws, [])
  | e :: r => let (ws1, o1) := wstep ws e in
              let (ws2, o2) := wrun ws1 r in (ws2, o1 ++ o2)
  end.

(* for the theorems: a write failure is, as far as firing discipline goes, a failure of that Deferred *)
Definition erase (o : woutput) : output :=
  match o with WO x => x | WFail h => ODef h FailCancelled end.

(* ------------------------------------------------------------------------------------------------
   case line: the event codes of Model/BrokerClient.v plus   15 rid expect   WMake rid expect true
   trace: as Model/BrokerClient.v plus   7 h 5   WFail h *)
Fixpoint parse_wevents (fuel : nat) (l : list Z) : option (list wevent) :=
  match fuel with
  | O => None
  | S f =>
      let k := fun ev r => match parse_wevents f r with Some es => Some (ev :: es) | None => None end in
      match l with
      | [] => Some []
      | 1 :: rid :: ex :: r => k (WMake rid (negb (ex =? 0)) false) r
      | 15 :: rid :: ex :: r => k (WMake rid (negb (ex =? 0)) true) r
      | 2 :: h :: r => if h <? 0 then None else k (WEv (ECancel (Z.to_nat h))) r
      | 3 :: r => k (WEv EConnOk) r
      | 4 :: r => k (WEv EConnFail) r
      | 5 :: r => k (WEv ELost) r
      | 6 :: r => match take_lp r with Some (c, r2) => k (WEv (EData c)) r2 | None => None end
      | 7 :: r => match take_lp r with Some (c, r2) => k (WEv (EFrame c)) r2 | None => None end
      | 8 :: r => k (WEv EFire) r
      | 9 :: r => k (WEv EClose) r
      | 10 :: r => k (WEv EDisconnect) r
      | 11 :: sm :: a :: r => k (WEv (EUpdate (negb (sm =? 0)) a)) r
      | _ => None
      end
  end.

Definition enc_wout (o : woutput) : list Z :=
  match o with WO x => enc_out x | WFail h => [7; Z.of_nat h; 5] end.
Definition is_wclosefired (o : woutput) : bool := match o with WO OCloseFired => true | _ => false end.
Definition canon_wouts (o : list woutput) : list woutput :=
  filter (fun x => negb (is_wclosefired x)) o ++ filter is_wclosefired o.

Fixpoint wrun_enc (ws : wstate) (evs : list wevent) : list Z :=
  match evs with
  | [] => []
  | e :: r => let (ws1, o1) := wstep ws e in
              0 :: (if s_proto (w_s ws1) then 1 else 0) :: flat_map enc_wout (canon_wouts o1) ++ wrun_enc ws1 r
  end.

Definition run_case (c : list Z) : list Z :=
  match parse_wevents (S (length c)) c with
  | Some es => wrun_enc winit es
  | None => [-99]
  end.
