(* Case-line entry point for the KafkaClient models (C07, C08): a history of client operations and
   environment events is executed on Model.ClientMeta.state with the functions of Model.ClientRoute; after
   every step the public view of the cache is dumped.  Definitions only; harness/props/client_lib.py builds
   the same flat integer encoding from what the real KafkaClient did.

   case      ::= 1 universe lp(hosts as h p ...) op*          history
               | 2 n item^n                                   _normalize_hosts on strings
   item      ::= kind lp(host code points) port               kind 0 "host", 1 "host:port", 2 (host, port)
   op        ::= 1 full uscript rawresp                       load_metadata_for_topics
               | 2 group uscript err node host port           load_coordinator_for_group
               | 3 via group fail expect lp(t p tag ...) loads outs    send_*_request (via=1) / _send_broker_aware_request (via=0)
               | 4 lp(topics) | 5 | 6 lp(groups)              reset_topic_metadata / reset_all_metadata / reset_consumer_group_metadata
               | 7 node                                       environment: node's idle connection is lost
               | 8                                            close()
               | 9 lp(h p ...)                                update_cluster_hosts
               | 10 group tag loads out                       _send_request_to_coordinator
   uscript   ::= lp(shuffled node ids) lp(kout codes) lp(shuffled hosts h p ...) lp(bout codes)
   rawresp   ::= lp(node h p ...) ntopics (terr topic lp(perr part leader ...))^ntopics
   loads     ::= n (0 obs uscript rawresp | 1 obs uscript err node host port)^n      obs 1: the lookup's request was seen on the wire
   outs      ::= n out^n          out ::= code lp(t p err tag ...)      code 0 failed, 1 answered, 2 failed unwritten *)
From AV Require Import Base.Util Model.ClientMeta Model.ClientRoute.

Fixpoint chunk2 (l : list Z) : list (Z * Z) :=
  match l with a :: b :: r => (a, b) :: chunk2 r | _ => [] end.
Fixpoint chunk3 (l : list Z) : list (Z * Z * Z) :=
  match l with a :: b :: c :: r => (a, b, c) :: chunk3 r | _ => [] end.
Fixpoint chunk4 (l : list Z) : list (Z * Z * Z * Z) :=
  match l with a :: b :: c :: d :: r => (a, b, c, d) :: chunk4 r | _ => [] end.

Fixpoint map_opt {A B} (f : A -> option B) (l : list A) : option (list B) :=
  match l with
  | [] => Some []
  | x :: r => match f x, map_opt f r with Some y, Some ys => Some (y :: ys) | _, _ => None end
  end.

Definition kout_of (c : Z) : option kout :=
  if c =? 0 then Some KFail else if c =? 1 then Some KResp else if c =? 2 then Some KClose else None.
Definition bout_of (c : Z) : option bout :=
  if c =? 0 then Some BConnFail else if c =? 1 then Some BResp else if c =? 2 then Some BReqFail
  else if c =? 3 then Some BCloseConn else if c =? 4 then Some BCloseReq else None.
Definition kout_code (k : kout) : Z := match k with KFail => 0 | KResp => 1 | KClose => 2 end.
Definition bout_code (b : bout) : Z :=
  match b with BConnFail => 0 | BResp => 1 | BReqFail => 2 | BCloseConn => 3 | BCloseReq => 4 end.

Definition parse_uscript (l : list Z) : option (uscript * list Z) :=
  match take_lp l with
  | Some (shuf, l1) =>
      match take_lp l1 with
      | Some (kc, l2) =>
          match take_lp l2 with
          | Some (bs, l3) =>
              match take_lp l3 with
              | Some (bc, l4) =>
                  match map_opt kout_of kc, map_opt bout_of bc with
                  | Some ko, Some bo =>
                      Some ({| u_shuf := shuf; u_kouts := ko; u_bshuf := chunk2 bs; u_bouts := bo |}, l4)
                  | _, _ => None
                  end
              | None => None end
          | None => None end
      | None => None end
  | None => None
  end.

Definition bmeta_of3 (x : Z * Z * Z) : bmeta := let '(n, h, p) := x in (n, (h, p)).

Fixpoint parse_topics (n : nat) (l : list Z) : option (list rawtopic * list Z) :=
  match n with
  | O => Some ([], l)
  | S n' =>
      match l with
      | terr :: tid :: l1 =>
          match take_lp l1 with
          | Some (ps, l2) =>
              match parse_topics n' l2 with
              | Some (ts, l3) => Some ({| rt_err := terr; rt_id := tid; rt_parts := chunk3 ps |} :: ts, l3)
              | None => None
              end
          | None => None
          end
      | _ => None
      end
  end.

Definition parse_rawresp (l : list Z) : option (rawresp * list Z) :=
  match take_lp l with
  | Some (bs, nt :: l1) =>
      if nt <? 0 then None
      else match parse_topics (Z.to_nat nt) l1 with
           | Some (ts, l2) => Some ({| rr_brokers := map bmeta_of3 (chunk3 bs); rr_topics := ts |}, l2)
           | None => None
           end
  | _ => None
  end.

(* each load carries a flag: was the request of that lookup seen on the wire (1) or not (0: every try was an
   unanswered connection attempt, or the client was closed)?  Only then can the implementation side of the trace
   show what was asked (kind, topic / group); the model shows its own [le_kind; le_id] under the same flag. *)
Fixpoint parse_loads (n : nat) (l : list Z) : option (list (load * bool) * list Z) :=
  match n with
  | O => Some ([], l)
  | S n' =>
      match l with
      | 0 :: obs :: l1 =>
          match parse_uscript l1 with
          | Some (u, l2) =>
              match parse_rawresp l2 with
              | Some (r, l3) =>
                  match parse_loads n' l3 with
                  | Some (ls, l4) => Some ((LoadMeta u r, obs =? 1) :: ls, l4)
                  | None => None end
              | None => None end
          | None => None end
      | 1 :: obs :: l1 =>
          match parse_uscript l1 with
          | Some (u, err :: node :: h :: p :: l2) =>
              match parse_loads n' l2 with
              | Some (ls, l3) => Some ((LoadCoord u (err, (node, (h, p))), obs =? 1) :: ls, l3)
              | None => None end
          | _ => None end
      | _ => None
      end
  end.

Definition resp_of4 (x : Z * Z * Z * Z) : resp :=
  let '(t, p, e, g) := x in {| r_topic := t; r_part := p; r_err := e; r_tag := g |}.
Definition payload_of3 (x : Z * Z * Z) : payload :=
  let '(t, p, g) := x in {| p_topic := t; p_part := p; p_tag := g |}.

(* code 2: the request failed without ever being written (its connection attempt stayed unanswered until the
   time-out): for the model an ordinary failure, but the payload was not visible on the wire, so the trace
   shows [-1] instead of the tags ([hidden]) *)
Definition parse_out (l : list Z) : option (rout * bool * list Z) :=
  match l with
  | code :: l1 =>
      match take_lp l1 with
      | Some (rs, l2) =>
          if code =? 0 then Some (RFail, false, l2)
          else if code =? 1 then Some (ROk (map resp_of4 (chunk4 rs)), false, l2)
          else if code =? 2 then Some (RFail, true, l2)
          else None
      | None => None
      end
  | [] => None
  end.

Fixpoint parse_outs (n : nat) (l : list Z) : option (list (rout * bool) * list Z) :=
  match n with
  | O => Some ([], l)
  | S n' =>
      match parse_out l with
      | Some (o, h, l1) =>
          match parse_outs n' l1 with
          | Some (os, l2) => Some ((o, h) :: os, l2)
          | None => None end
      | None => None
      end
  end.

Definition parse_counted {A} (f : nat -> list Z -> option (A * list Z)) (l : list Z) : option (A * list Z) :=
  match l with
  | n :: r => if n <? 0 then None else f (Z.to_nat n) r
  | [] => None
  end.

(* ---- canonical output ---------------------------------------------------------------------------- *)
Definition zlp (l : list Z) : list Z := Z.of_nat (length l) :: l.

Fixpoint lex_leb (a b : list Z) : bool :=
  match a, b with
  | [], _ => true
  | _ :: _, [] => false
  | x :: a', y :: b' => if x =? y then lex_leb a' b' else x <? y
  end.
Fixpoint linsert (x : list Z) (l : list (list Z)) : list (list Z) :=
  match l with
  | [] => [x]
  | y :: r => if lex_leb x y then x :: l else y :: linsert x r
  end.
Definition lsort (l : list (list Z)) : list (list Z) := fold_right linsert [] l.
Definition sorted_block (entries : list (list Z)) : list Z :=
  Z.of_nat (length entries) :: concat (lsort entries).

Definition tout_code (o : tout) : Z := match o with OK_ k => kout_code k | OB_ b => 10 + bout_code b end.
Definition emit_log (log : ulog) : list Z :=
  Z.of_nat (length log) ::
  flat_map (fun e => match fst e with
                     | TKnown n a => [0; n; fst a; snd a]
                     | TBoot a => [1; -1; fst a; snd a]
                     end ++ [tout_code (snd e)]) log.

Definition ekind_code (e : ekind) : Z :=
  match e with
  | EValue => 10 | ELeaderUnavailable => 11 | EPartitionUnavailable => 12 | ECoordinatorNotAvailable => 13
  | EKafkaUnavailable => 14 | EClientError => 15 | EKeyErrorMerge => 16 | EKeyErrorBroker => 17
  | ETimedOut => 18 | EScript => -97
  end.

Definition emit_resps (rs : list resp) : list Z :=
  Z.of_nat (length rs) :: flat_map (fun r => [r_topic r; r_part r; r_err r; r_tag r]) rs.
Definition emit_pres (r : pres) : list Z :=
  match r with
  | POk rs => 1 :: emit_resps rs
  | PRaise e => [2; e]
  | PFailed rs f => 3 :: emit_resps rs ++ zlp (map p_tag f)
  | PErr e => [4; ekind_code e]
  | PType => [5]
  end.
Fixpoint emit_reqs (qs : list reqev) (hidden : list bool) : list Z :=
  match qs with
  | [] => []
  | q :: qs' =>
      let h := match hidden with b :: _ => b | [] => false end in
      [rq_node q; fst (rq_addr q); snd (rq_addr q)] ++ zlp (if h then [-1] else map p_tag (rq_payloads q))
      ++ emit_reqs qs' (tl hidden)
  end.
Fixpoint emit_loads (evs : list loadev) (observed : list bool) : list Z :=
  match evs with
  | [] => []
  | e :: evs' =>
      let o := match observed with b :: _ => b | [] => false end in
      (if o then [le_kind e; le_id e] else [-1; -1]) ++ emit_log (le_log e) ++ emit_loads evs' (tl observed)
  end.
Definition emit_aresult (r : aresult) (observed : list bool) (hidden : list bool) : list Z :=
  Z.of_nat (length (a_loads r)) :: emit_loads (a_loads r) observed
  ++ Z.of_nat (length (a_reqs r)) :: emit_reqs (a_reqs r) hidden.

Definition zrange (n : Z) : list Z := map Z.of_nat (seq 0 (Z.to_nat n)).

Definition dump (st : state) (univ : Z) : list Z :=
  [-8]
  ++ sorted_block (map (fun e => fst e :: zlp (snd e)) (s_tparts st))
  ++ sorted_block (map (fun e => [fst (fst e); snd (fst e)] ++
                                 match snd e with
                                 | None => [0]
                                 | Some bm => [1; fst bm; fst (snd bm); snd (snd bm)]
                                 end) (s_t2b st))
  ++ sorted_block (map (fun e => [fst e; snd e]) (s_terrs st))
  ++ map (metadata_error_for_topic st) (zrange univ)
  ++ map (fun t => if has_metadata_for_topic st t then 1 else 0) (zrange univ)
  ++ sorted_block (map (fun c => [fst c; fst (c_target (snd c)); snd (c_target (snd c));
                                  match c_conn (snd c) with Some _ => 1 | None => 0 end]) (s_clients st))
  ++ sorted_block (map (fun e => [fst e; fst (snd e); fst (snd (snd e)); snd (snd (snd e))]) (s_g2c st))
  ++ [if s_closed st then 1 else 0].

Definition hosts_of (flat : list Z) : list addr :=
  normalize_hosts_z (map (fun hp => HTuple (fst hp) (snd hp)) (chunk2 flat)).

(* ---- the history machine --------------------------------------------------------------------------- *)
(* after every operation during which the environment called close(), the deferred reset_all_metadata() of
   close() (client.py:391) is applied: ClientMeta.close_finish *)
Definition opt_group (g : Z) : option Z := if g <? 0 then None else Some g.

Fixpoint run_ops (fuel : nat) (st : state) (univ : Z) (l : list Z) : list Z :=
  match fuel with
  | O => match l with [] => [] | _ => [-99] end
  | S fuel' =>
      match l with
      | [] => []
      | 1 :: full :: l1 =>
          match parse_uscript l1 with
          | Some (u, l2) =>
              match parse_rawresp l2 with
              | Some (r, l3) =>
                  let '(st1', log, gone, res) := load_metadata st (full =? 1) u r in
                  let st1 := close_finish st st1' in
                  [-7; 1] ++ emit_log log ++ [lres_code res] ++ zlp (zisort gone) ++ dump st1 univ
                  ++ run_ops fuel' st1 univ l3
              | None => [-99] end
          | None => [-99] end
      | 2 :: g :: l1 =>
          match parse_uscript l1 with
          | Some (u, err :: node :: h :: p :: l2) =>
              let '(st1', log, ok) := load_coordinator st g u (err, (node, (h, p))) in
              let st1 := close_finish st st1' in
              [-7; 2] ++ emit_log log ++ [if ok then 1 else 0] ++ dump st1 univ ++ run_ops fuel' st1 univ l2
          | _ => [-99] end
      | 3 :: via :: g :: fail :: expect :: l1 =>
          match take_lp l1 with
          | Some (pl, l2) =>
              match parse_counted parse_loads l2 with
              | Some (loadso, l3) =>
                  match parse_counted parse_outs l3 with
                  | Some (outsh, l4) =>
                      let loads := map fst loadso in
                      let outs := map fst outsh in
                      let ps := map payload_of3 (chunk3 pl) in
                      let '(ar, st1', res) :=
                        if via =? 1 then send_public st (opt_group g) (fail =? 1) (expect =? 1) ps loads outs
                        else send_direct st (opt_group g) (expect =? 1) ps loads outs in
                      let st1 := close_finish st st1' in
                      [-7; 3] ++ emit_aresult ar (map snd loadso) (map snd outsh) ++ emit_pres res ++ dump st1 univ ++ run_ops fuel' st1 univ l4
                  | None => [-99] end
              | None => [-99] end
          | None => [-99] end
      | 4 :: l1 =>
          match take_lp l1 with
          | Some (ts, l2) => let st1 := reset_topics st ts in [-7; 4] ++ dump st1 univ ++ run_ops fuel' st1 univ l2
          | None => [-99] end
      | 5 :: l1 => let st1 := reset_all st in [-7; 5] ++ dump st1 univ ++ run_ops fuel' st1 univ l1
      | 6 :: l1 =>
          match take_lp l1 with
          | Some (gs, l2) => let st1 := reset_groups st gs in [-7; 6] ++ dump st1 univ ++ run_ops fuel' st1 univ l2
          | None => [-99] end
      | 7 :: n :: l1 => let st1 := drop_conn st n in [-7; 7] ++ dump st1 univ ++ run_ops fuel' st1 univ l1
      | 8 :: l1 =>
          let '(st1, gone) := close_client st in
          [-7; 8] ++ zlp (zisort gone) ++ dump st1 univ ++ run_ops fuel' st1 univ l1
      | 9 :: l1 =>
          match take_lp l1 with
          | Some (hs, l2) =>
              let st1 := set_boot st (hosts_of hs) in [-7; 9] ++ dump st1 univ ++ run_ops fuel' st1 univ l2
          | None => [-99] end
      | 10 :: g :: tag :: l1 =>
          match parse_counted parse_loads l1 with
          | Some (loadso, l2) =>
              match parse_out l2 with
              | Some (o, h, l3) =>
                  let loads := map fst loadso in
                  let '(ar, st1', res) := send_coord st g {| p_topic := -1; p_part := -1; p_tag := tag |} loads o in
                  let st1 := close_finish st st1' in
                  [-7; 10] ++ emit_aresult ar (map snd loadso) [h] ++ emit_pres res ++ dump st1 univ ++ run_ops fuel' st1 univ l3
              | None => [-99] end
          | None => [-99] end
      | _ => [-99]
      end
  end.

(* ---- _normalize_hosts on strings ------------------------------------------------------------------- *)
Fixpoint parse_items (n : nat) (l : list Z) : option (list (hitem (list Z))) :=
  match n with
  | O => Some []
  | S n' =>
      match l with
      | kind :: l1 =>
          match take_lp l1 with
          | Some (h, port :: l2) =>
              match parse_items n' l2 with
              | Some its =>
                  if kind =? 0 then Some (HStr h None :: its)
                  else if kind =? 1 then Some (HStr h (Some port) :: its)
                  else if kind =? 2 then Some (HTuple h port :: its)
                  else None
              | None => None end
          | _ => None end
      | [] => None
      end
  end.

Definition run_case (c : list Z) : list Z :=
  match c with
  | 1 :: univ :: r =>
      match take_lp r with
      | Some (hs, ops) => run_ops (length ops) (init_state (hosts_of hs)) univ ops
      | None => [-99]
      end
  | 2 :: n :: r =>
      if n <? 0 then [-99]
      else match parse_items (Z.to_nat n) r with
           | Some its =>
               let res := normalize_hosts_str its in
               Z.of_nat (length res) :: flat_map (fun hp => zlp (fst hp) ++ [snd hp]) res
           | None => [-99]
           end
  | _ => [-99]
  end.
