(* Python-shaped combinators used by the text harness/py2part.py generates from the partitioner classes of
   afkak/partitioner.py (second part of C18's translator tie).  Definitions only. *)
From AV Require Import Base.Util Model.Murmur Model.Partitioner.

(* a partition key as partition() may receive it *)
Inductive pkey := KStr (cps : list Z) | KBytes (b : list Z) | KBytearray (b : list Z) | KOther.
Inductive pcls := TStr | TBytes | TBytearray.
Inductive perr := PTypeError | PUnicode | PZeroDiv | PIndex | PValue | PStop.
Inductive pres (A : Type) := POk (a : A) | PErr (e : perr).
Arguments POk {A} _.
Arguments PErr {A} _.
Definition pbind {A B} (m : pres A) (f : A -> pres B) : pres B := match m with POk a => f a | PErr e => PErr e end.

Definition py_isinstance (k : pkey) (c : pcls) : bool :=
  match k, c with KStr _, TStr => true | KBytes _, TBytes => true | KBytearray _, TBytearray => true | _, _ => false end.
(* bytearray(key, "UTF-8"): the model's UTF-8 encoder (proved against the RFC 3629 decoder, C18_text_utf8); a lone
   surrogate raises UnicodeEncodeError; an encoding with a non-str argument is a TypeError *)
Definition py_bytearray_utf8 (k : pkey) : pres pkey :=
  match k with
  | KStr cps => match utf8 cps with Some b => POk (KBytearray b) | None => PErr PUnicode end
  | _ => PErr PTypeError
  end.
Definition py_bytearray (k : pkey) : pres pkey :=
  match k with KBytes b | KBytearray b => POk (KBytearray b) | _ => PErr PTypeError end.
Definition py_bytes (k : pkey) : pres pkey :=
  match k with KBytes b | KBytearray b => POk (KBytes b) | _ => PErr PTypeError end.
(* pure_murmur2(x): defined on a bytearray (its guard raises TypeError otherwise); the function itself is the
   hand model Murmur.pure_murmur2, whose tie to the source is part one of the translator tie (Props/C18gen.v) *)
Definition py_murmur (k : pkey) : pres Z :=
  match k with KBytearray b => POk (pure_murmur2 b) | _ => PErr PTypeError end.
Definition py_mod (a n : Z) : pres Z := if n =? 0 then PErr PZeroDiv else POk (a mod n).
Definition py_getitem (l : list Z) (i : Z) : pres Z :=
  let j := if i <? 0 then Z.of_nat (length l) + i else i in
  if j <? 0 then PErr PIndex
  else match nth_error l (Z.to_nat j) with Some x => POk x | None => PErr PIndex end.
Definition py_cycle (l : list Z) : list Z * nat := (l, 0%nat).
Definition py_next (it : list Z * nat) : pres (Z * (list Z * nat)) :=
  match nth_error (fst it) (snd it) with
  | Some x => POk (x, (fst it, Nat.modulo (S (snd it)) (length (fst it))))
  | None => PErr PStop
  end.
(* random.randint(a, b) with the drawn value r as an oracle input *)
Definition py_randint (r a b : Z) : pres Z := if b <? a then PErr PValue else POk r.
Fixpoint py_repeat_nat {S} (n : nat) (s : S) (f : S -> pres S) : pres S :=
  match n with O => POk s | S n' => pbind (f s) (fun s' => py_repeat_nat n' s' f) end.
(* for _ in range(n): s = f s *)
Definition py_repeat {S} (n : Z) (s : S) (f : S -> pres S) : pres S := py_repeat_nat (Z.to_nat n) s f.
