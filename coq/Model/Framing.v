(* M6: length-prefixed framing.
   twisted/protocols/basic.py IntNStringReceiver.dataReceived / sendString (Twisted 26.4, lines 702-764)
   as configured by afkak/_protocol.py:32-60 (Int32StringReceiver, structFormat "!I", prefixLength 4,
   MAX_LENGTH = 2**31 - 1), KafkaCodec.get_response_correlation_id (kafkacodec.py:505-513) and the
   bootstrap protocol afkak/_protocol.py:63-140.

   Bytes are Z in 0..255 (Base.Util.bytes_ok where a theorem needs it).
   Not modelled: the _PauseableMixin.paused flag (nobody in afkak pauses the protocol) and the
   backwards-compatibility "recvd" attribute (never written by afkak). *)
From AV Require Import Base.Util.

Definition MAX_LENGTH : Z := 0x7FFFFFFF.           (* _protocol.py:33 *)

(* struct "!I": 4 bytes big endian unsigned *)
Definition be32 (b0 b1 b2 b3 : Z) : Z := ((b0 * 256 + b1) * 256 + b2) * 256 + b3.
Definition enc32 (n : Z) : list Z :=
  [(n / 16777216) mod 256; (n / 65536) mod 256; (n / 256) mod 256; n mod 256].

(* sendString, basic.py:751-764 (the StringTooLongError guard len >= 2**32 is outside the model:
   theorems about encode_frame assume the length fits) *)
Definition encode_frame (body : list Z) : list Z := enc32 (Z.of_nat (length body)) ++ body.

(* kafkacodec.py:505-513  relative_unpack(">i", data, 0): signed; BufferUnderflowError if < 4 bytes *)
Definition corr_id (frame : list Z) : option Z :=
  match frame with
  | b0 :: b1 :: b2 :: b3 :: _ =>
      let u := be32 b0 b1 b2 b3 in Some (if u <? 0x80000000 then u else u - 0x100000000)
  | _ => None
  end.

(* How one dataReceived call ends. *)
Inductive rx_end :=
| RxMore (rest : list Z)   (* loop left normally; _unprocessed = alldata[currentOffset:]      basic.py:748 *)
| RxLimit (len : Z)        (* length > MAX_LENGTH: lengthLimitExceeded(len); return           basic.py:718-722 *)
| RxRaised                 (* stringReceived raised: the exception leaves dataReceived        basic.py:732 *)
| RxFuel.                  (* out of fuel: proved unreachable (Proofs/FramingFacts.rx_loop_fuel) *)

(* The while loop of dataReceived over the not yet consumed suffix [rest] of alldata
   (rest = alldata[currentOffset:]).  [ok packet] says whether stringReceived(packet) returns normally.
   Returns the packets handed to stringReceived, in order (when the end is RxRaised the last one is the
   packet whose delivery raised).
   The body length is compared in Z before any conversion to nat so that an announced length near 2^31
   is never materialised as a unary number. *)
Fixpoint rx_loop (ok : list Z -> bool) (fuel : nat) (rest : list Z) : list (list Z) * rx_end :=
  match fuel with
  | O => ([], RxFuel)
  | S f =>
      match rest with
      | b0 :: b1 :: b2 :: b3 :: body =>                       (* len(alldata) >= currentOffset + prefixLength *)
          let len := be32 b0 b1 b2 b3 in                      (* basic.py:717 *)
          if MAX_LENGTH <? len then ([], RxLimit len)         (* basic.py:718 *)
          else if Z.of_nat (length body) <? len then ([], RxMore rest)   (* basic.py:724 break *)
          else
            let n := Z.to_nat len in
            let packet := take n body in                      (* basic.py:729 *)
            if ok packet then
              let (fs, e) := rx_loop ok f (drop n body) in (packet :: fs, e)
            else ([packet], RxRaised)
      | _ => ([], RxMore rest)
      end
  end.

(* dataReceived(chunk) with _unprocessed = buf.  New value of _unprocessed:
   normal end: the unconsumed rest; limit exceeded or exception: ALL of alldata (basic.py:713, 719) —
   including the packets already delivered by this call. *)
Definition data_received (ok : list Z -> bool) (buf chunk : list Z) : list (list Z) * rx_end :=
  let all := buf ++ chunk in rx_loop ok (S (length all)) all.

Definition rx_newbuf (buf chunk : list Z) (e : rx_end) : list Z :=
  match e with RxMore rest => rest | _ => buf ++ chunk end.

(* A receiver fed a list of chunks; per call: (packets handed to stringReceived, how the call ended). *)
Fixpoint rx_run (ok : list Z -> bool) (buf : list Z) (chunks : list (list Z))
  : list (list (list Z) * rx_end) * list Z :=
  match chunks with
  | [] => ([], buf)
  | c :: cs =>
      let r := data_received ok buf c in
      let (rs, b) := rx_run ok (rx_newbuf buf c (snd r)) cs in (r :: rs, b)
  end.

(* KafkaProtocol.stringReceived -> factory.handleResponse raises iff the frame has < 4 bytes *)
Definition ok4 (f : list Z) : bool := match corr_id f with Some _ => true | None => false end.
Definition ok_always (f : list Z) : bool := true.

(* ------------------------------------------------------------------------------------------------
   KafkaBootstrapProtocol, _protocol.py:63-140.
   Deferreds returned by request() are named by handles 0,1,2,.. in creation order. *)
Inductive bevent :=
| BReq (request : list Z)          (* protocol.request(bytes) *)
| BData (chunk : list Z)           (* transport delivers bytes *)
| BLost                            (* connectionLost(reason) *)
| BCancel (h : nat).               (* .cancel() of the Deferred request() returned as its h-th: the Deferred has no
                                      canceller (_protocol.py:137), so Twisted errbacks CancelledError and sets
                                      _suppressAlreadyCalled: the NEXT callback/errback on it is swallowed silently.
                                      The _pending entry stays: it is the tombstone that keeps a late response "known" *)

Inductive boutcome := BSucc (frame : list Z) | BFailLost | BFailCancelled.
Inductive boutput :=
| BWrite (h : nat) (request : list Z)   (* sendString(request) *)
| BDef (h : nat) (o : boutcome)         (* the Deferred of handle h fires *)
| BLose                                 (* transport.loseConnection() *)
| BRaised (kind : Z)                    (* 1 AssertionError (duplicate id), 2 AttributeError (_pending is None) *)
| BErr (h : nat).                       (* AlreadyCalledError: proved unreachable *)

Record bstate := {
  b_pending : option (list (list Z * nat));   (* self._pending: id bytes -> Deferred, dict order; None after loss *)
  b_failed : bool;                            (* self._failed is not None *)
  b_rx : list Z;                              (* _unprocessed *)
  b_reqs : list (list Z);                     (* request bytes of every Deferred ever returned (index = handle) *)
  b_fired : list nat;                         (* handles of fired Deferreds *)
  b_supp : list nat                           (* handles of cancelled Deferreds whose next firing Twisted will swallow *)
}.

Definition b_init : bstate :=                 (* connectionMade, _protocol.py:77-79 *)
  {| b_pending := Some []; b_failed := false; b_rx := []; b_reqs := []; b_fired := []; b_supp := [] |}.

Definition bfire (s : bstate) (h : nat) (o : boutcome) : bstate * list boutput :=
  if existsb (Nat.eqb h) (b_fired s) then (s, [BErr h])
  else ({| b_pending := b_pending s; b_failed := b_failed s; b_rx := b_rx s; b_reqs := b_reqs s;
           b_fired := h :: b_fired s; b_supp := b_supp s |}, [BDef h o]).

Fixpoint blookup (k : list Z) (p : list (list Z * nat)) : option nat :=
  match p with
  | [] => None
  | (k', h) :: r => if zlist_eqb k k' then Some h else blookup k r
  end.
Definition bremove (k : list Z) (p : list (list Z * nat)) : list (list Z * nat) :=
  filter (fun kh => negb (zlist_eqb k (fst kh))) p.

(* stringReceived, _protocol.py:81-96 *)
Definition b_string_received (s : bstate) (frame : list Z) : bstate * list boutput :=
  match b_pending s with
  | None => (s, [BRaised 2])
  | Some p =>
      let cid := take 4 frame in                                   (* response[0:4] *)
      match blookup cid p with
      | None => (s, [BLose])                                       (* KeyError branch *)
      | Some h =>
          if existsb (Nat.eqb h) (b_supp s)
          then (* d.callback(response) on a cancelled Deferred: swallowed (defer.py: _suppressAlreadyCalled) *)
               ({| b_pending := Some (bremove cid p); b_failed := b_failed s; b_rx := b_rx s; b_reqs := b_reqs s;
                   b_fired := b_fired s; b_supp := filter (fun x => negb (Nat.eqb h x)) (b_supp s) |}, [])
          else
          bfire {| b_pending := Some (bremove cid p); b_failed := b_failed s; b_rx := b_rx s;
                   b_reqs := b_reqs s; b_fired := b_fired s; b_supp := b_supp s |} h (BSucc frame)
      end
  end.

Fixpoint b_deliver (s : bstate) (frames : list (list Z)) : bstate * list boutput :=
  match frames with
  | [] => (s, [])
  | f :: r => let (s1, o1) := b_string_received s f in
              let (s2, o2) := b_deliver s1 r in (s2, o1 ++ o2)
  end.

Definition b_set_rx (s : bstate) (b : list Z) : bstate :=
  {| b_pending := b_pending s; b_failed := b_failed s; b_rx := b; b_reqs := b_reqs s; b_fired := b_fired s; b_supp := b_supp s |}.

Fixpoint b_fail_all (s : bstate) (p : list (list Z * nat)) : bstate * list boutput :=
  match p with
  | [] => (s, [])
  | (_, h) :: r => if existsb (Nat.eqb h) (b_supp s) then b_fail_all s r          (* cancelled: errback swallowed *)
                   else let (s1, o1) := bfire s h BFailLost in
                        let (s2, o2) := b_fail_all s1 r in (s2, o1 ++ o2)
  end.

Definition bstep (s : bstate) (e : bevent) : bstate * list boutput :=
  match e with
  | BReq request =>                                                (* _protocol.py:116-140 *)
      let h := length (b_reqs s) in
      if b_failed s then                                           (* return fail(self._failed) *)
        bfire {| b_pending := b_pending s; b_failed := b_failed s; b_rx := b_rx s;
                 b_reqs := b_reqs s ++ [request]; b_fired := b_fired s; b_supp := b_supp s |} h BFailLost
      else
        let cid := take 4 (drop 4 request) in                      (* request[4:8] *)
        match b_pending s with
        | None => (s, [BRaised 2])                                 (* cannot happen: _failed is set with it *)
        | Some p =>
            match blookup cid p with
            | Some _ => (s, [BRaised 1])                           (* assert correlation_id not in self._pending *)
            | None =>
                ({| b_pending := Some (p ++ [(cid, h)]); b_failed := b_failed s; b_rx := b_rx s;
                    b_reqs := b_reqs s ++ [request]; b_fired := b_fired s; b_supp := b_supp s |}, [BWrite h request])
            end
        end
  | BData chunk =>
      let ok := fun _ : list Z => match b_pending s with Some _ => true | None => false end in
      let (fs, e) := data_received ok (b_rx s) chunk in
      let (s1, o1) := b_deliver s fs in
      let s2 := b_set_rx s1 (rx_newbuf (b_rx s) chunk e) in
      match e with
      | RxLimit _ => (s2, o1 ++ [BLose])                           (* lengthLimitExceeded, _protocol.py:107-114 *)
      | RxFuel => (s2, o1 ++ [BRaised 99])
      | _ => (s2, o1)
      end
  | BLost =>                                                       (* _protocol.py:98-105 *)
      let s1 := {| b_pending := None; b_failed := true; b_rx := b_rx s; b_reqs := b_reqs s; b_fired := b_fired s;
                   b_supp := b_supp s |} in
      match b_pending s with
      | None => (s1, [BRaised 2])                                  (* None.values() *)
      | Some p => let (s2, o2) := b_fail_all s1 p in               (* every swallowed errback has cleared its flag *)
                  ({| b_pending := b_pending s2; b_failed := b_failed s2; b_rx := b_rx s2; b_reqs := b_reqs s2;
                      b_fired := b_fired s2; b_supp := [] |}, o2)
      end
  | BCancel h =>
      if (h <? length (b_reqs s))%nat && negb (existsb (Nat.eqb h) (b_fired s)) then
        let (s1, o1) := bfire s h BFailCancelled in
        ({| b_pending := b_pending s1; b_failed := b_failed s1; b_rx := b_rx s1; b_reqs := b_reqs s1;
            b_fired := b_fired s1; b_supp := h :: b_supp s1 |}, o1)
      else (s, [])                                                 (* no such Deferred, or already fired: nothing *)
  end.

Fixpoint brun (s : bstate) (evs : list bevent) : bstate * list boutput :=
  match evs with
  | [] => (s, [])
  | e :: r => let (s1, o1) := bstep s e in let (s2, o2) := brun s1 r in (s2, o1 ++ o2)
  end.

(* ------------------------------------------------------------------------------------------------
   case lines.
   1 <lp chunk>*                      raw receiver with ok4 (KafkaProtocol): per chunk
                                      0, then per packet 1 <lp packet>, then end code (2 more / 3 limit / 4 raised / 5 fuel)
   2 <events>                         bootstrap protocol; events 1 <lp request> | 2 <lp chunk> | 3 | 4 h (cancel)
                                      per event 0, then outputs:
                                      1 h <lp request> write | 2 h 1 <lp frame> success | 2 h 2 failure(lost) |
                                      3 lose | 4 kind raised | 5 h AlreadyCalled
   3 <lp body>                        encode_frame body  (sendString framing) *)
Fixpoint parse_chunks (fuel : nat) (l : list Z) : option (list (list Z)) :=
  match fuel with
  | O => None
  | S f => match l with
           | [] => Some []
           | _ => match take_lp l with
                  | Some (c, r) => match parse_chunks f r with Some cs => Some (c :: cs) | None => None end
                  | None => None
                  end
           end
  end.

Definition lpz (l : list Z) : list Z := Z.of_nat (length l) :: l.

Definition enc_end (e : rx_end) : list Z :=
  match e with RxMore _ => [2] | RxLimit _ => [3] | RxRaised => [4] | RxFuel => [5] end.

Definition enc_rx (rs : list (list (list Z) * rx_end)) : list Z :=
  flat_map (fun r => 0 :: flat_map (fun p => 1 :: lpz p) (fst r) ++ enc_end (snd r)) rs.

Fixpoint parse_bevents (fuel : nat) (l : list Z) : option (list bevent) :=
  match fuel with
  | O => None
  | S f =>
      match l with
      | [] => Some []
      | 1 :: r => match take_lp r with
                  | Some (q, r2) => match parse_bevents f r2 with Some es => Some (BReq q :: es) | None => None end
                  | None => None end
      | 2 :: r => match take_lp r with
                  | Some (c, r2) => match parse_bevents f r2 with Some es => Some (BData c :: es) | None => None end
                  | None => None end
      | 3 :: r => match parse_bevents f r with Some es => Some (BLost :: es) | None => None end
      | 4 :: h :: r => if h <? 0 then None
                       else match parse_bevents f r with Some es => Some (BCancel (Z.to_nat h) :: es) | None => None end
      | _ => None
      end
  end.

Definition enc_bout (o : boutput) : list Z :=
  match o with
  | BWrite h q => 1 :: Z.of_nat h :: lpz q
  | BDef h (BSucc f) => 2 :: Z.of_nat h :: 1 :: lpz f
  | BDef h BFailLost => [2; Z.of_nat h; 2]
  | BDef h BFailCancelled => [2; Z.of_nat h; 3]
  | BLose => [3]
  | BRaised k => [4; k]
  | BErr h => [5; Z.of_nat h]
  end.

Fixpoint brun_enc (s : bstate) (evs : list bevent) : list Z :=
  match evs with
  | [] => []
  | e :: r => let (s1, o1) := bstep s e in 0 :: flat_map enc_bout o1 ++ brun_enc s1 r
  end.

Definition run_case (c : list Z) : list Z :=
  match c with
  | 1 :: r => match parse_chunks (S (length r)) r with
              | Some cs => enc_rx (fst (rx_run ok4 [] cs))
              | None => [-99] end
  | 2 :: r => match parse_bevents (S (length r)) r with
              | Some es => brun_enc b_init es
              | None => [-99] end
  | 3 :: r => match take_lp r with
              | Some (b, []) => encode_frame b
              | _ => [-99] end
  | _ => [-99]
  end.
