(* M10-excerpt for property C12: what the Consumer does with its fetch buffer and fetch offset when a fetched
   message set holds not even one complete message.
     afkak/consumer.py:1093-1104   _do_fetch: FetchRequest(topic, partition, self._fetch_offset, self.buffer_size)
     afkak/consumer.py:925-958     _handle_fetch_response: messages at or after the fetch offset are collected,
                                   self._fetch_offset = message.offset + 1
     afkak/consumer.py:959-986     except ConsumerFetchSizeTooSmall: the growth rule / errback of the start Deferred
     afkak/consumer.py:988-996     finally: deliver what was collected; then self._retry_fetch(0) -> _do_fetch
   (the whole Consumer is Model/Consumer.v, property C14; this file restates only the buffer rule so that C12 can
   speak about it with a correspondence of its own: harness/props/C12.py drives the REAL Consumer through
   KafkaCodec.decode_fetch_response on really truncated message sets and compares requests / start outcome.)

   Environment events (what comes back for the one outstanding fetch request), [Reply offs tail]:
     offs          the offsets of the messages the set decoder yields for this answer, in the order yielded.  ANY integers:
                   offsets below the fetch offset (the head of a compressed wrapper), gaps (compacted topics), even
                   non-monotone ones; the consumer keeps those at or after its fetch offset (consumer.py:941-957)
     tail          how the iteration over the answer ends:
                     Clean         the decoder is exhausted (this includes a cut entry AFTER at least one message of
                                   the same set, which the decoder drops silently)
                     TooSmallTail  the decoder raises ConsumerFetchSizeTooSmall.  With offs = [] this is the usual case (the
                                   answer is cut inside its first entry); with messages before it, it is a compressed
                                   wrapper whose DECOMPRESSED inner set is cut in its first entry after earlier entries
                     CorruptTail   the decoder raises anything else (ChecksumError, ProtocolError, a decompression
                                   error...): consumer.py:849-900 _handle_fetch_error, with the default
                                   request_retry_max_attempts = 0 (retry for ever) and no OffsetOutOfRange handling
   In every case the messages collected so far are handed to the processor (the `finally` clause), which returns at once.
   Outputs:
     Fetch o b     a FetchRequest for offset o with max_bytes b
     Deliver offs  the processor is called with the messages at these offsets
     StartFailed   the Deferred returned by start() fails with ConsumerFetchSizeTooSmall
   At the maximum buffer size the start Deferred fails (errback in the except clause) and what was collected from that
   answer is NOT handed over any more: _process_messages stops as soon as the start Deferred has fired
   (consumer.py:1015-1021).  The private _fetch_offset was already advanced, which nothing can observe once the consumer
   has failed; the model leaves g_off where it was.
   Outside this model: retry delays and attempt limits, offsets resolved by Offset/OffsetFetch requests, commits,
   stop/shutdown, asynchronous processors (all Model/Consumer.v). *)
From AV Require Import Base.Util.

(* consumer.py:963-974: None = "already at our max. Nothing we can do" *)
Definition grow (buf : Z) (maxbuf : option Z) : option Z :=
  let factor := if (buf <=? 1048576) then 16 else 2 in
  match maxbuf with
  | None => Some (buf * factor)
  | Some mb => if (buf <? mb) then Some (Z.min (buf * factor) mb) else None
  end.

Record gstate := mkG { g_off : Z; g_buf : Z; g_failed : bool }.

Inductive gtail := Clean | TooSmallTail | CorruptTail.
Inductive gev := Reply (offs : list Z) (tail : gtail).
Inductive gout := Fetch (o b : Z) | Deliver (offs : list Z) | StartFailed.

(* consumer.py:941-957: the loop over resp.messages.  Returns (offsets collected, new fetch offset) *)
Fixpoint accept (fo : Z) (offs : list Z) : list Z * Z :=
  match offs with
  | [] => ([], fo)
  | o :: r => if (o <? fo) then accept fo r                                       (* 944-950: skipped *)
              else let (d, fo') := accept (o + 1) r in (o :: d, fo')              (* 952-957 *)
  end.

(* consumer.py:988-992: `if messages:` *)
Definition deliver (dl : list Z) : list gout := match dl with [] => [] | _ :: _ => [Deliver dl] end.

Definition gstep (maxbuf : option Z) (s : gstate) (e : gev) : gstate * list gout :=
  if g_failed s then (s, [])                       (* no request is outstanding any more: nothing can be answered *)
  else match e with
       | Reply offs tail =>
           let (dl, fo) := accept (g_off s) offs in
           match tail with
           | Clean | CorruptTail => (mkG fo (g_buf s) false, deliver dl ++ [Fetch fo (g_buf s)])
           | TooSmallTail =>
               match grow (g_buf s) maxbuf with
               | Some b => (mkG fo b false, deliver dl ++ [Fetch fo b])
               | None => (mkG (g_off s) (g_buf s) true, [StartFailed])
               end
           end
       end.

Fixpoint grun (maxbuf : option Z) (s : gstate) (evs : list gev) : gstate * list gout :=
  match evs with
  | [] => (s, [])
  | e :: r => let (s1, o1) := gstep maxbuf s e in
              let (s2, o2) := grun maxbuf s1 r in (s2, o1 ++ o2)
  end.

(* start(off): the first request *)
Definition gstart (off buf : Z) : gstate * list gout := (mkG off buf false, [Fetch off buf]).

(* the two events of the plain case *)
Definition TooSmall : gev := Reply [] TooSmallTail.

(* ---- runner.  case:  1 off buf hasmax max nev ev*      ev = tail LP(offs)    tail 0 Clean 1 TooSmallTail 2 CorruptTail
                 trace: (1 o b | 2 | 3 LP(offs))*   for Fetch / StartFailed / Deliver
             case:  2 buf hasmax max                   grow -> 1 b | 0 *)
Fixpoint parse_evs (fuel : nat) (l : list Z) : option (list gev) :=
  match l with
  | [] => Some []
  | t :: r =>
      match fuel with
      | O => None
      | S f =>
          match take_lp r with
          | Some (offs, r') =>
              let tail := if (t =? 0) then Some Clean else if (t =? 1) then Some TooSmallTail
                          else if (t =? 2) then Some CorruptTail else None in
              match tail, parse_evs f r' with
              | Some tl, Some es => Some (Reply offs tl :: es)
              | _, _ => None
              end
          | None => None
          end
      end
  end.

Definition out_gout (o : gout) : list Z :=
  match o with Fetch a b => [1; a; b] | StartFailed => [2] | Deliver offs => 3 :: Z.of_nat (length offs) :: offs end.

Definition run_case (c : list Z) : list Z :=
  match c with
  | 1 :: off :: buf :: hasmax :: mx :: n :: r =>
      match parse_evs (length r) r with
      | Some evs =>
          if negb (Z.of_nat (length evs) =? n) then [-99]
          else let mb := if (hasmax =? 0) then None else Some mx in
               let (s0, o0) := gstart off buf in
               flat_map out_gout (o0 ++ snd (grun mb s0 evs))
      | None => [-99]
      end
  | 2 :: buf :: hasmax :: mx :: _ =>
      match grow buf (if (hasmax =? 0) then None else Some mx) with Some b => [1; b] | None => [0] end
  | _ => [-99]
  end.
