(* M10-excerpt for property C12: what the Consumer does with its fetch buffer and fetch offset when a fetched
   message set holds not even one complete message.
     afkak/consumer.py:1093-1104   _do_fetch: FetchRequest(topic, partition, self._fetch_offset, self.buffer_size)
     afkak/consumer.py:925-958     _handle_fetch_response: messages at or after the fetch offset are collected,
                                   self._fetch_offset = message.offset + 1
     afkak/consumer.py:959-986     except ConsumerFetchSizeTooSmall: the growth rule / errback of the start Deferred
     afkak/consumer.py:988-996     finally: deliver what was collected; then self._retry_fetch(0) -> _do_fetch
   (the whole Consumer is Model/Consumer.v, property C14; this file restates only the buffer rule so that C12 can
   speak about it with a correspondence of its own: harness/props/C12.py drives the REAL Consumer through
   KafkaCodec.decode_fetch_response on really truncated message sets and compares requests / start outcome.)

   Environment events (what the broker answers to the one outstanding fetch request):
     TooSmall      a message set that is cut inside its first entry (the decoder raises ConsumerFetchSizeTooSmall)
     Msgs k        k >= 0 complete consecutive messages starting at the fetch offset (possibly followed by a cut
                   entry, which the decoder drops silently); the processor returns at once
   Outputs:
     Fetch o b     a FetchRequest for offset o with max_bytes b
     Deliver f l   the processor is called with the messages at offsets f..l
     StartFailed   the Deferred returned by start() fails with ConsumerFetchSizeTooSmall
   Outside this model: retries after errors, offsets resolved by Offset/OffsetFetch requests, commits, stop/shutdown,
   asynchronous processors (all Model/Consumer.v). *)
From AV Require Import Base.Util.

(* consumer.py:963-974: None = "already at our max. Nothing we can do" *)
Definition grow (buf : Z) (maxbuf : option Z) : option Z :=
  let factor := if (buf <=? 1048576) then 16 else 2 in
  match maxbuf with
  | None => Some (buf * factor)
  | Some mb => if (buf <? mb) then Some (Z.min (buf * factor) mb) else None
  end.

Record gstate := mkG { g_off : Z; g_buf : Z; g_failed : bool }.

Inductive gev := TooSmall | Msgs (k : Z).
Inductive gout := Fetch (o b : Z) | Deliver (first last : Z) | StartFailed.

Definition gstep (maxbuf : option Z) (s : gstate) (e : gev) : gstate * list gout :=
  if g_failed s then (s, [])                       (* no request is outstanding any more: nothing can be answered *)
  else match e with
       | TooSmall =>
           match grow (g_buf s) maxbuf with
           | Some b => (mkG (g_off s) b false, [Fetch (g_off s) b])
           | None => (mkG (g_off s) (g_buf s) true, [StartFailed])
           end
       | Msgs k =>
           if (k <=? 0) then (s, [Fetch (g_off s) (g_buf s)])
           else (mkG (g_off s + k) (g_buf s) false,
                 [Deliver (g_off s) (g_off s + k - 1); Fetch (g_off s + k) (g_buf s)])
       end.

Fixpoint grun (maxbuf : option Z) (s : gstate) (evs : list gev) : gstate * list gout :=
  match evs with
  | [] => (s, [])
  | e :: r => let (s1, o1) := gstep maxbuf s e in
              let (s2, o2) := grun maxbuf s1 r in (s2, o1 ++ o2)
  end.

(* start(off): the first request *)
Definition gstart (off buf : Z) : gstate * list gout := (mkG off buf false, [Fetch off buf]).

(* ---- runner.  case:  1 off buf hasmax max nev ev*      ev = 0 (TooSmall) | 1 k (Msgs k)
                 trace: (1 o b | 2 | 3 first last)*   for Fetch / StartFailed / Deliver
             case:  2 buf hasmax max                   grow -> 1 b | 0 *)
Fixpoint parse_evs (fuel : nat) (l : list Z) : option (list gev) :=
  match fuel with
  | O => match l with [] => Some [] | _ => None end
  | S f =>
      match l with
      | [] => Some []
      | 0 :: r => match parse_evs f r with Some es => Some (TooSmall :: es) | None => None end
      | 1 :: k :: r => match parse_evs f r with Some es => Some (Msgs k :: es) | None => None end
      | _ => None
      end
  end.

Definition out_gout (o : gout) : list Z :=
  match o with Fetch a b => [1; a; b] | StartFailed => [2] | Deliver f l => [3; f; l] end.

Definition run_case (c : list Z) : list Z :=
  match c with
  | 1 :: off :: buf :: hasmax :: mx :: n :: r =>
      match parse_evs (length r) r with
      | Some evs =>
          if negb (Z.of_nat (length evs) =? n) then [-99]
          else let mb := if (hasmax =? 0) then None else Some mx in
               let (s0, o0) := gstart off buf in
               flat_map out_gout (o0 ++ snd (grun mb s0 evs))
      | None => [-99]
      end
  | 2 :: buf :: hasmax :: mx :: _ =>
      match grow buf (if (hasmax =? 0) then None else Some mx) with Some b => [1; b] | None => [0] end
  | _ => [-99]
  end.
