(* M1: Kafka message sets, message formats 0 and 1.
     afkak/kafkacodec.py:288-312   KafkaCodec._encode_message_set
     afkak/kafkacodec.py:314-361   KafkaCodec._encode_message
     afkak/kafkacodec.py:363-396   KafkaCodec._decode_message_set_iter
     afkak/kafkacodec.py:398-469   KafkaCodec._decode_message (v0 / v1 / absolute)
     afkak/kafkacodec.py:1161-1180 create_message
     afkak/kafkacodec.py:1183-1200 create_gzip_message       1203-1219 create_snappy_message
     afkak/kafkacodec.py:1222-1258 create_message_set
   modelled as the code is NOW (after fix b4aff1b: v1 timestamp is an int; fix daa6c65: `absolute`).

   COMPRESSION IS AN ORACLE ([oracle] below), passed explicitly to every function that compresses or decompresses.
   Nothing is assumed about it in this file.  Theorems state their hypotheses about it (e.g. the round-trip law
   gz_dec (gz_enc x) = Ok x).  The runner (Model.CodecRun) instantiates it from a finite table written in the case
   line; the driver fills that table by RECORDING the calls the real code makes to afkak.kafkacodec.gzip_encode /
   gzip_decode / snappy_encode / snappy_decode (inputs, outputs or exception), so the model sees exactly the
   compressed bytes the implementation saw (gzip output embeds an mtime and is not reproducible otherwise).

   THE CLOCK IS AN INPUT.  `int(time.time() * 1000)` is a reading [clock k] where k counts the readings made so far
   inside the modelled call ([clock : nat -> Z]); functions that read the clock at most once take the reading [now].

   THE DECODER IS A GENERATOR.  What a consumer of `_decode_message_set_iter(data)` can observe is the sequence of
   (offset, Message) pairs yielded and then either normal exhaustion or an exception.  The model returns exactly that:
   [dres := (list (Z * message) * option err)], the pairs yielded BEFORE the outcome, and the outcome
   ([None] = StopIteration).  Laziness matters: a magic-0 wrapper re-yields inner messages one by one (messages
   before an inner error ARE delivered), a magic-1 wrapper first collects the whole inner set with list(...) (an inner
   error delivers nothing of that wrapper).

   Recursion: a wrapper's decompressed value is decoded by a recursive call.  [dec_set] recurses structurally on an
   explicit [depth]; at depth 0 the outcome is [Some Fuel] (theorems exclude it by giving enough depth: depth d
   decodes sets nested up to d-1 wrappers deep).  The loop over one byte string runs on fuel [length data], which
   is never exhausted: every completed iteration consumes at least 12 bytes. *)
From AV Require Import Base.Util Model.Prim Model.Crc.

Record message : Type := mkMessage {
  m_magic : Z;                     (* Message.magic *)
  m_attr  : Z;                     (* Message.attributes *)
  m_key   : option (list Z);       (* Message.key,   None = null *)
  m_value : option (list Z);       (* Message.value, None = null (tombstone) *)
  m_ts    : option Z               (* Message.timestamp; None for format 0 *)
}.                                 (* Message.timestamp_type is always the default 0: not modelled *)

Definition CODEC_NONE : Z := 0.
Definition CODEC_GZIP : Z := 1.
Definition CODEC_SNAPPY : Z := 2.
Definition ATTRIBUTE_CODEC_MASK : Z := 3.

Record oracle : Type := mkOracle {
  gz_enc : list Z -> res (list Z);      (* afkak.codec.gzip_encode *)
  gz_dec : list Z -> res (list Z);      (* afkak.codec.gzip_decode; failures are Err CodecErr *)
  sn_avail : bool;                      (* afkak.codec.has_snappy(): false in this sandbox *)
  sn_enc : list Z -> res (list Z);      (* snappy.compress (only consulted when sn_avail) *)
  sn_dec : list Z -> res (list Z)       (* afkak.codec.snappy_decode past the availability check *)
}.

(* codec.py:54-59.  gzip_decode(None) = gzip_decode(b""): BytesIO(None) is an empty buffer *)
Definition gzip_decode (orc : oracle) (v : option (list Z)) : res (list Z) :=
  gz_dec orc (match v with Some b => b | None => [] end).
(* codec.py:109-137.  has_snappy() is tested first; then payload.startswith on None is an AttributeError *)
Definition snappy_decode (orc : oracle) (v : option (list Z)) : res (list Z) :=
  if sn_avail orc then match v with Some b => sn_dec orc b | None => Err AttrErr end
  else Err NotImpl.
(* codec.py:62-106 *)
Definition snappy_encode (orc : oracle) (b : list Z) : res (list Z) :=
  if sn_avail orc then sn_enc orc b else Err NotImpl.

(* ------------------------------------------------------------------ encoding *)

(* kafkacodec.py:339-361.  [now] = int(time.time()*1000), read only for magic 1 with timestamp None.
   struct.pack('>I', crc) cannot fail (crc32 is masked to 32 bits), so it is [enc_be 4] directly. *)
Definition encode_message (now : Z) (m : message) : res (list Z) :=
  if (m_magic m =? 0) then
    do h <- pack_list [(FB, m_magic m); (FB, m_attr m)];
    do k <- write_int_string (m_key m);
    do v <- write_int_string (m_value m);
    let msg := h ++ k ++ v in
    Ok (enc_be 4 (crc32 msg) ++ msg)
  else if (m_magic m =? 1) then
    let ts := match m_ts m with Some t => t | None => now end in
    do h <- pack_list [(FB, m_magic m); (FB, m_attr m); (Fq, ts)];
    do k <- write_int_string (m_key m);
    do v <- write_int_string (m_value m);
    let msg := h ++ k ++ v in
    Ok (enc_be 4 (crc32 msg) ++ msg)
  else Err Protocol.

(* does _encode_message read the clock for this message? *)
Definition uses_clock (m : message) : bool :=
  (m_magic m =? 1) && match m_ts m with None => true | Some _ => false end.
Definition clock_uses (msgs : list message) : nat := length (filter uses_clock msgs).

(* kafkacodec.py:298-312, the loop.  [k] = clock readings made so far, [offset]/[incr] the running offset.
   magic not in {0,1}: neither branch assigns encoded_message -> UnboundLocalError on the first message. *)
Fixpoint encode_message_set_from (clock : nat -> Z) (k : nat) (msgs : list message)
         (offset incr magic : Z) : res (list Z) :=
  match msgs with
  | [] => Ok []
  | m :: r =>
      if (magic =? 0) || (magic =? 1) then
        do e <- encode_message (clock k) m;
        do h <- pack_list [(Fq, offset); (Fi, len e)];
        do t <- encode_message_set_from clock (if uses_clock m then S k else k) r (offset + incr) incr magic;
        Ok (h ++ e ++ t)
      else Err NameErr
  end.

(* _encode_message_set(messages, offset=None, magic=0): offset None -> every entry carries offset 0 *)
Definition encode_message_set (clock : nat -> Z) (k : nat) (msgs : list message)
           (offset : option Z) (magic : Z) : res (list Z) :=
  match offset with
  | None => encode_message_set_from clock k msgs 0 0 magic
  | Some o => encode_message_set_from clock k msgs o 1 magic
  end.

(* ------------------------------------------------------------------ decoding *)

Definition omsg : Type := (Z * message)%type.              (* OffsetAndMessage *)
Definition dres : Type := (list omsg * option err)%type.   (* yielded pairs, then outcome (None = exhausted) *)

Definition fail (e : err) : dres := ([], Some e).

(* kafkacodec.py:432-439 `absolute`: base = wrapper_offset - offset of the LAST inner message *)
Definition last_offset (inner : list omsg) : option Z :=
  match rev inner with [] => None | (o, _) :: _ => Some o end.
Definition absolute (wrapper_offset : Z) (inner : list omsg) : list omsg :=
  match last_offset inner with
  | None => []
  | Some lo => map (fun om => (fst om + (wrapper_offset - lo), snd om)) inner
  end.

(* a magic-0 wrapper: `for offset, msg in _decode_message_set_iter(gz): yield offset, msg` - lazy pass-through *)
Definition wrap_v0 (inner : dres) : dres := inner.
(* a magic-1 wrapper: `absolute(offset, iter)` starts with `inner = list(inner)` - all or nothing *)
Definition wrap_v1 (offset : Z) (inner : dres) : dres :=
  match inner with
  | (ms, None) => (absolute offset ms, None)
  | (_, Some e) => ([], Some e)
  end.

(* the generator bodies v0 / v1 after key and value were read: kafkacodec.py:413-430, 448-464.
   [rec] decodes a nested message set (one level deeper). *)
Definition dec_payload (rec : list Z -> dres) (orc : oracle) (magic att : Z) (offset : Z)
           (key value : option (list Z)) (ts : option Z) : dres :=
  let codec := Z.land att ATTRIBUTE_CODEC_MASK in
  let wrap := if (magic =? 0) then wrap_v0 else wrap_v1 offset in
  if (codec =? CODEC_NONE) then ([(offset, mkMessage magic att key value ts)], None)
  else if (codec =? CODEC_GZIP) then
    match gzip_decode orc value with Ok gz => wrap (rec gz) | Err e => fail e end
  else if (codec =? CODEC_SNAPPY) then
    match snappy_decode orc value with Ok sn => wrap (rec sn) | Err e => fail e end
  else fail Protocol.                                     (* "Unsupported codec 0b11" *)

(* KafkaCodec._decode_message(data, offset): kafkacodec.py:398-469.
   data = None (entry length -1): relative_unpack calls len(None) -> TypeError.
   Bytes after the value inside the message are ignored by the code (no length check). *)
Definition dec_message (rec : list Z -> dres) (orc : oracle) (data : option (list Z)) (offset : Z) : dres :=
  match data with
  | None => fail TypeErr
  | Some d =>
      match (do (crc, r1) <- read_u32 d; do (magic, r2) <- read_u8 r1; do (att, r3) <- read_u8 r2;
             Ok (crc, magic, att, r3)) with
      | Err e => fail e
      | Ok (crc, magic, att, r3) =>
          if negb (crc =? crc32 (drop 4 d)) then fail Checksum
          else if (magic =? 0) then
            match (do (key, r4) <- read_int_string r3; do (value, _) <- read_int_string r4; Ok (key, value)) with
            | Err e => fail e
            | Ok (key, value) => dec_payload rec orc magic att offset key value None
            end
          else if (magic =? 1) then
            match (do (ts, r4) <- read_i64 r3; do (key, r5) <- read_int_string r4;
                   do (value, _) <- read_int_string r5; Ok (ts, key, value)) with
            | Err e => fail e
            | Ok (ts, key, value) => dec_payload rec orc magic att offset key value (Some ts)
            end
          else fail Checksum                               (* unknown magic is reported as ChecksumError *)
      end
  end.

(* the `except BufferUnderflowError` clause of _decode_message_set_iter: kafkacodec.py:381-396 *)
Definition on_error (read_message : bool) (e : err) : option err :=
  match e with
  | Underflow => if read_message then None else Some FetchTooSmall
  | _ => Some e
  end.

Definition nonempty {A} (l : list A) : bool := match l with [] => false | _ => true end.

(* the `while cur < len(data)` loop, on the remaining suffix; [n] = loop fuel, [read] = read_message *)
Fixpoint dec_loop (rec : list Z -> dres) (orc : oracle) (n : nat) (data : list Z) (read : bool) : dres :=
  match data with
  | [] => ([], None)
  | _ :: _ =>
      match n with
      | O => fail Fuel
      | S n' =>
          match (do (offset, r1) <- read_i64 data; do (msg, r2) <- read_int_string r1; Ok (offset, msg, r2)) with
          | Err e => ([], on_error read e)
          | Ok (offset, msg, r2) =>
              let (ys, out) := dec_message rec orc msg offset in
              let read' := read || nonempty ys in
              match out with
              | None => let (ys2, out2) := dec_loop rec orc n' r2 read' in (ys ++ ys2, out2)
              | Some e => (ys, on_error read' e)
              end
          end
      end
  end.

(* KafkaCodec._decode_message_set_iter(data) *)
Fixpoint dec_set (depth : nat) (orc : oracle) (data : list Z) : dres :=
  match depth with
  | O => fail Fuel
  | S d => dec_loop (dec_set d orc) orc (length data) data false
  end.

(* list(KafkaCodec._decode_message_set_iter(data)) *)
Definition dec_set_all (depth : nat) (orc : oracle) (data : list Z) : res (list omsg) :=
  match dec_set depth orc data with
  | (ms, None) => Ok ms
  | (_, Some e) => Err e
  end.

(* ------------------------------------------------------------------ message construction *)

(* create_message(payload, key, magic): kafkacodec.py:1161-1180; the asserts (types, magic in (0,1)) are outside
   the model: callers below only pass 0 or 1 *)
Definition create_message (now : Z) (payload key : option (list Z)) (magic : Z) : message :=
  if (magic =? 1) then mkMessage 1 0 key payload (Some now)
  else mkMessage magic 0 key payload None.

(* create_gzip_message(message_set, magic): kafkacodec.py:1183-1200.
   _encode_message_set(message_set) with the defaults: offsets all 0, magic 0 (each message still encoded in its
   own format).  Clock: readings k.. for inner messages lacking a timestamp, then one for the wrapper if magic 1. *)
Definition create_compressed_message (enc : list Z -> res (list Z)) (codec : Z)
           (clock : nat -> Z) (k : nat) (msgs : list message) (magic : Z) : res message :=
  do e <- encode_message_set clock k msgs None 0;
  do z <- enc e;
  if (magic =? 1) then Ok (mkMessage magic codec None (Some z) (Some (clock (k + clock_uses msgs)%nat)))
  else Ok (mkMessage magic codec None (Some z) None).

Definition create_gzip_message (orc : oracle) := create_compressed_message (gz_enc orc) CODEC_GZIP.
Definition create_snappy_message (orc : oracle) := create_compressed_message (snappy_encode orc) CODEC_SNAPPY.

(* create_message_set(requests, codec, magic): kafkacodec.py:1222-1258.
   A request is (key, [payload...]) (afkak.common.SendRequest.key / .messages).
   magic = 1 -> format-1 messages, ANY other magic -> create_message's default format 0;
   the wrapper, if any, carries [magic] itself. *)
Definition send_request : Type := (option (list Z) * list (option (list Z)))%type.

Definition flatten_requests (reqs : list send_request) : list (option (list Z) * option (list Z)) :=
  flat_map (fun kr => map (fun p => (fst kr, p)) (snd kr)) reqs.

Definition create_messages (clock : nat -> Z) (reqs : list send_request) (magic : Z) : list message :=
  let flat := flatten_requests reqs in
  map (fun ikp => create_message (clock (fst ikp)) (snd (snd ikp)) (fst (snd ikp)) (if (magic =? 1) then 1 else 0))
      (combine (seq 0 (length flat)) flat).

Definition create_message_set (orc : oracle) (clock : nat -> Z) (reqs : list send_request)
           (codec magic : Z) : res (list message) :=
  let msglist := create_messages clock reqs magic in
  let k := if (magic =? 1) then length msglist else O in
  if (codec =? CODEC_NONE) then Ok msglist
  else if (codec =? CODEC_GZIP) then do w <- create_gzip_message orc clock k msglist magic; Ok [w]
  else if (codec =? CODEC_SNAPPY) then do w <- create_snappy_message orc clock k msglist magic; Ok [w]
  else Err Unsupported.

(* ------------------------------------------------------------------ a concrete oracle for Examples
   "identity with a marker": compress = prepend the byte 0x1F, decompress = strip it (anything else is not gzip).
   It satisfies the round-trip law gz_dec (gz_enc x) = Ok x and is used for non-vacuity Examples only; the real
   gzip is tied in by the recorded oracle tables of the correspondence run. *)
Definition marker_dec (b : list Z) : res (list Z) :=
  match b with
  | [] => Ok []                        (* gzip_decode(b"") = b"" *)
  | 0x1F :: r => Ok r
  | _ => Err CodecErr
  end.
Definition marker_oracle : oracle :=
  {| gz_enc := fun b => Ok (0x1F :: b); gz_dec := marker_dec;
     sn_avail := false; sn_enc := fun _ => Err NotImpl; sn_dec := fun _ => Err NotImpl |}.
