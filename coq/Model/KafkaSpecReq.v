(* S-Kafka (requests): an INDEPENDENT parser for Kafka requests, written from the Kafka protocol guide
   (https://kafka.apache.org/protocol.html: "Protocol Primitive Types", "Request Header v1", the per-API request
   schemas, and "Message sets" formats v0 / v1).  It models NO afkak code and shares with the afkak models only the
   list utilities of Base.Util, the result type [res] of Model.Prim (only because the oracle record
   uses it), the CRC-32 function of Model.Crc (zlib/IEEE CRC-32, which is what Kafka message
   formats 0 and 1 use) and the record type of the compression oracle (Model.MsgSet.oracle: gunzip / unsnappy are
   supplied from outside, nothing is assumed about them here).

   Grammar implemented (exactly the API versions afkak emits, plus Produce v1 / Fetch v1 whose request layouts the
   guide defines as identical to v0; every other (key, version) is rejected):

     RequestHeader      => api_key:INT16 api_version:INT16 correlation_id:INT32 client_id:NULLABLE_STRING
     Produce v0,v1,v2   => acks:INT16 timeout_ms:INT32 [topic:STRING [partition:INT32 record_set_size:INT32 record_set]]
     Fetch v0,v1,v2     => replica_id:INT32 max_wait_ms:INT32 min_bytes:INT32
                           [topic:STRING [partition:INT32 fetch_offset:INT64 partition_max_bytes:INT32]]
     ListOffsets v0     => replica_id:INT32 [topic:STRING [partition:INT32 timestamp:INT64 max_num_offsets:INT32]]
     Metadata v0        => [topic:STRING]
     OffsetCommit v1    => group_id:STRING generation_id:INT32 member_id:STRING
                           [topic:STRING [partition:INT32 offset:INT64 timestamp:INT64 metadata:NULLABLE_STRING]]
     OffsetFetch v1     => group_id:STRING [topic:STRING [partition:INT32]]
     FindCoordinator v0 => group_id:STRING
     JoinGroup v0       => group_id:STRING session_timeout_ms:INT32 member_id:STRING protocol_type:STRING
                           [protocol_name:STRING metadata:BYTES]
     Heartbeat v0       => group_id:STRING generation_id:INT32 member_id:STRING
     LeaveGroup v0      => group_id:STRING member_id:STRING
     SyncGroup v0       => group_id:STRING generation_id:INT32 member_id:STRING [member_id:STRING assignment:BYTES]
     ApiVersions v0     => (empty)
   plus the embedded consumer-protocol structures carried as BYTES by JoinGroup / SyncGroup:
     Subscription v0    => version:INT16 [topic:STRING] user_data:NULLABLE_BYTES
     Assignment v0      => version:INT16 [topic:STRING [partition:INT32]] user_data:NULLABLE_BYTES

     MessageSet         => (offset:INT64 message_size:INT32 message)*        -- NOT an array: fills record_set_size
     Message v0         => crc:UINT32 magic:INT8(=0) attributes:INT8 key:NULLABLE_BYTES value:NULLABLE_BYTES
     Message v1         => crc:UINT32 magic:INT8(=1) attributes:INT8 timestamp:INT64 key:NULLABLE_BYTES value:NULLABLE_BYTES
       crc = CRC-32 of the message bytes after the crc field; attributes bits 0..2 = compression codec
       (0 none, 1 gzip, 2 snappy, 3 lz4); a compressed message's value is a compressed MessageSet whose messages
       are themselves uncompressed (the guide: no recursive compression) and of the SAME format as the wrapper
       (brokers reject a batch whose inner message magic does not match the wrapper magic).

   STRICTNESS.  A request parses only if every byte is accounted for: the request is consumed exactly, every
   message fills exactly its message_size, every message set fills exactly record_set_size, every CRC matches,
   array counts and lengths are non-negative (the -1 "null" encodings are accepted only where the grammar says
   NULLABLE), no array announces more elements than bytes remain.  lz4 (codec 3) and codec values 4..7 are
   rejected (not supported by this parser).  Strings are returned as their bytes (UTF-8 is not validated).
   magic and attributes are returned as unsigned bytes (they are bit fields). *)
From AV Require Import Base.Util Model.Prim Model.Crc Model.MsgSet.

Definition P (A : Type) : Type := list Z -> option (A * list Z).

Definition pret {A} (a : A) : P A := fun d => Some (a, d).
Definition pbind {A B} (p : P A) (f : A -> P B) : P B :=
  fun d => match p d with Some (a, r) => f a r | None => None end.
Definition pfail {A} : P A := fun _ => None.
Notation "'get' x <- p ;; k" := (pbind p (fun x => k)) (at level 200, x name, p at level 100, k at level 200).

(* ---- primitive types ---- *)
Fixpoint be_value (l : list Z) (acc : Z) : Z :=
  match l with [] => acc | b :: r => be_value r (acc * 256 + b) end.

Definition sp_split (n : nat) : P (list Z) :=
  fun d => if Nat.ltb (length d) n then None else Some (take n d, drop n d).

Definition sp_uint (n : nat) : P Z := get b <- sp_split n ;; pret (be_value b 0).
Definition sp_int (n : nat) : P Z :=
  get u <- sp_uint n ;;
  pret (if (u <? 2 ^ (8 * Z.of_nat n - 1)) then u else u - 2 ^ (8 * Z.of_nat n)).

Definition INT8 := sp_int 1.
Definition INT16 := sp_int 2.
Definition INT32 := sp_int 4.
Definition INT64 := sp_int 8.
Definition UINT8 := sp_uint 1.
Definition UINT32 := sp_uint 4.

Definition sp_sized (n : Z) : P (list Z) :=
  fun d => if (n <? 0) || (Z.of_nat (length d) <? n) then None else sp_split (Z.to_nat n) d.

Definition STRING : P (list Z) := get n <- INT16 ;; sp_sized n.
Definition NULLABLE_STRING : P (option (list Z)) :=
  get n <- INT16 ;; if (n =? -1) then pret None else (get s <- sp_sized n ;; pret (Some s)).
Definition BYTES : P (list Z) := get n <- INT32 ;; sp_sized n.
Definition NULLABLE_BYTES : P (option (list Z)) :=
  get n <- INT32 ;; if (n =? -1) then pret None else (get s <- sp_sized n ;; pret (Some s)).

Fixpoint sp_repeat {A} (p : P A) (n : nat) : P (list A) :=
  match n with
  | O => pret []
  | S k => get a <- p ;; get r <- sp_repeat p k ;; pret (a :: r)
  end.

(* ARRAY(T): INT32 count N >= 0, then N elements; N may not exceed the bytes that remain *)
Definition ARRAY {A} (p : P A) : P (list A) :=
  fun d => match INT32 d with
           | Some (n, r) => if (n <? 0) || (Z.of_nat (length r) <? n) then None else sp_repeat p (Z.to_nat n) r
           | None => None
           end.

(* ---- message sets ---- *)
Record pmsg := mkPmsg { p_offset : Z; p_magic : Z; p_attr : Z; p_ts : option Z;
                        p_key : option (list Z); p_value : option (list Z) }.
(* a top-level message: uncompressed, or a compressed wrapper together with the messages found inside *)
Inductive smsg := SPlain (m : pmsg) | SWrap (m : pmsg) (inner : list pmsg).

Definition codec_of (attr : Z) : Z := Z.land attr 7.

(* the fields of one message, [mb] = exactly the message_size bytes *)
Definition sp_message (offset : Z) (mb : list Z) : option pmsg :=
  match UINT32 mb with
  | Some (crc, body) =>
      if negb (crc =? crc32 body) then None
      else match (get magic <- UINT8 ;; get attr <- UINT8 ;;
                  get ts <- (if (magic =? 0) then pret None
                         else if (magic =? 1) then (get t <- INT64 ;; pret (Some t)) else pfail) ;;
                  get key <- NULLABLE_BYTES ;; get value <- NULLABLE_BYTES ;;
                  pret (mkPmsg offset magic attr ts key value)) body with
           | Some (m, []) => Some m
           | _ => None
           end
  | None => None
  end.

(* (offset message_size message)* until the bytes are used up; [fuel] >= number of messages *)
Fixpoint sp_message_set {X} (one : Z -> list Z -> option X) (fuel : nat) (d : list Z) : option (list X) :=
  match d with
  | [] => Some []
  | _ :: _ =>
      match fuel with
      | O => None
      | S f =>
          match (get off <- INT64 ;; get sz <- INT32 ;; get mb <- sp_sized sz ;; pret (off, mb)) d with
          | Some ((off, mb), r) =>
              match one off mb, sp_message_set one f r with
              | Some x, Some xs => Some (x :: xs)
              | _, _ => None
              end
          | None => None
          end
      end
  end.

(* inside a wrapper of format [wmagic]: no recursive compression, and the same format as the wrapper (a broker
   rejects the batch otherwise: "inner message magic does not match wrapper magic") *)
Definition sp_inner (wmagic : Z) (offset : Z) (mb : list Z) : option pmsg :=
  match sp_message offset mb with
  | Some m => if (codec_of (p_attr m) =? 0) && (p_magic m =? wmagic) then Some m else None
  | None => None
  end.

Definition decompress (orc : oracle) (codec : Z) (v : list Z) : option (list Z) :=
  if (codec =? 1) then match gz_dec orc v with Ok b => Some b | Err _ => None end
  else if (codec =? 2) then
    (if sn_avail orc then match sn_dec orc v with Ok b => Some b | Err _ => None end else None)
  else None.

Definition sp_outer (orc : oracle) (offset : Z) (mb : list Z) : option smsg :=
  match sp_message offset mb with
  | Some m =>
      if (codec_of (p_attr m) =? 0) then Some (SPlain m)
      else match p_value m with
           | None => None
           | Some v => match decompress orc (codec_of (p_attr m)) v with
                       | Some b => match sp_message_set (sp_inner (p_magic m)) (length b) b with
                                   | Some inner => Some (SWrap m inner)
                                   | None => None
                                   end
                       | None => None
                       end
           end
  | None => None
  end.

Definition RECORDS (orc : oracle) : P (list smsg) :=
  fun d => match BYTES d with
           | Some (b, r) => match sp_message_set (sp_outer orc) (length b) b with
                            | Some ms => Some (ms, r)
                            | None => None
                            end
           | None => None
           end.

(* ---- request bodies ---- *)
Inductive sbody :=
| SProduce (acks timeout : Z) (topics : list (list Z * list (Z * list smsg)))
| SFetch (replica max_wait min_bytes : Z) (topics : list (list Z * list (Z * Z * Z)))
| SListOffsets (replica : Z) (topics : list (list Z * list (Z * Z * Z)))
| SMetadata (topics : list (list Z))
| SOffsetCommit (group : list Z) (generation : Z) (member : list Z)
                (topics : list (list Z * list (Z * Z * Z * option (list Z))))
| SOffsetFetch (group : list Z) (topics : list (list Z * list Z))
| SFindCoordinator (group : list Z)
| SJoinGroup (group : list Z) (session_timeout : Z) (member protocol_type : list Z)
             (protocols : list (list Z * list Z))
| SHeartbeat (group : list Z) (generation : Z) (member : list Z)
| SLeaveGroup (group member : list Z)
| SSyncGroup (group : list Z) (generation : Z) (member : list Z) (assignments : list (list Z * list Z))
| SApiVersions.

Record sreq := mkSreq { s_key : Z; s_version : Z; s_correlation : Z; s_client : option (list Z); s_body : sbody }.

Definition topics_of {A} (part : P A) : P (list (list Z * list A)) :=
  ARRAY (get t <- STRING ;; get ps <- ARRAY part ;; pret (t, ps)).

Definition p_produce (orc : oracle) : P sbody :=
  get acks <- INT16 ;; get timeout <- INT32 ;;
  get ts <- topics_of (get p <- INT32 ;; get ms <- RECORDS orc ;; pret (p, ms)) ;;
  pret (SProduce acks timeout ts).

Definition p_fetch : P sbody :=
  get replica <- INT32 ;; get w <- INT32 ;; get m <- INT32 ;;
  get ts <- topics_of (get p <- INT32 ;; get o <- INT64 ;; get mb <- INT32 ;; pret (p, o, mb)) ;;
  pret (SFetch replica w m ts).

Definition p_list_offsets : P sbody :=
  get replica <- INT32 ;;
  get ts <- topics_of (get p <- INT32 ;; get t <- INT64 ;; get n <- INT32 ;; pret (p, t, n)) ;;
  pret (SListOffsets replica ts).

Definition p_metadata : P sbody := get ts <- ARRAY STRING ;; pret (SMetadata ts).

Definition p_offset_commit : P sbody :=
  get g <- STRING ;; get gen <- INT32 ;; get m <- STRING ;;
  get ts <- topics_of (get p <- INT32 ;; get o <- INT64 ;; get t <- INT64 ;; get md <- NULLABLE_STRING ;; pret (p, o, t, md)) ;;
  pret (SOffsetCommit g gen m ts).

Definition p_offset_fetch : P sbody :=
  get g <- STRING ;; get ts <- topics_of INT32 ;; pret (SOffsetFetch g ts).

Definition p_find_coordinator : P sbody := get g <- STRING ;; pret (SFindCoordinator g).

Definition p_join_group : P sbody :=
  get g <- STRING ;; get s <- INT32 ;; get m <- STRING ;; get pt <- STRING ;;
  get ps <- ARRAY (get n <- STRING ;; get md <- BYTES ;; pret (n, md)) ;;
  pret (SJoinGroup g s m pt ps).

Definition p_heartbeat : P sbody :=
  get g <- STRING ;; get gen <- INT32 ;; get m <- STRING ;; pret (SHeartbeat g gen m).

Definition p_leave_group : P sbody := get g <- STRING ;; get m <- STRING ;; pret (SLeaveGroup g m).

Definition p_sync_group : P sbody :=
  get g <- STRING ;; get gen <- INT32 ;; get m <- STRING ;;
  get a <- ARRAY (get n <- STRING ;; get md <- BYTES ;; pret (n, md)) ;;
  pret (SSyncGroup g gen m a).

Definition p_api_versions : P sbody := pret SApiVersions.

(* which body grammar belongs to (api_key, api_version) *)
Definition body_parser (orc : oracle) (key version : Z) : option (P sbody) :=
  match key, version with
  | 0, 0 | 0, 1 | 0, 2 => Some (p_produce orc)
  | 1, 0 | 1, 1 | 1, 2 => Some p_fetch
  | 2, 0 => Some p_list_offsets
  | 3, 0 => Some p_metadata
  | 8, 1 => Some p_offset_commit
  | 9, 1 => Some p_offset_fetch
  | 10, 0 => Some p_find_coordinator
  | 11, 0 => Some p_join_group
  | 12, 0 => Some p_heartbeat
  | 13, 0 => Some p_leave_group
  | 14, 0 => Some p_sync_group
  | 18, 0 => Some p_api_versions
  | _, _ => None
  end.

Definition p_header : P (Z * Z * Z * option (list Z)) :=
  get k <- INT16 ;; get v <- INT16 ;; get c <- INT32 ;; get cid <- NULLABLE_STRING ;; pret (k, v, c, cid).

(* a request = header, then the body for (key, version), then nothing *)
Definition parse_request (orc : oracle) (d : list Z) : option sreq :=
  match p_header d with
  | Some ((k, v, c, cid), r) =>
      match body_parser orc k v with
      | Some pb => match pb r with
                   | Some (b, []) => Some (mkSreq k v c cid b)
                   | _ => None
                   end
      | None => None
      end
  | None => None
  end.

(* ---- consumer protocol structures (the BYTES of JoinGroup / SyncGroup) ---- *)
Definition parse_subscription (d : list Z) : option (Z * list (list Z) * option (list Z)) :=
  match (get v <- INT16 ;; get ts <- ARRAY STRING ;; get u <- NULLABLE_BYTES ;; pret (v, ts, u)) d with
  | Some (x, []) => Some x
  | _ => None
  end.

Definition parse_assignment (d : list Z) : option (Z * list (list Z * list Z) * option (list Z)) :=
  match (get v <- INT16 ;; get ts <- topics_of INT32 ;; get u <- NULLABLE_BYTES ;; pret (v, ts, u)) d with
  | Some (x, []) => Some x
  | _ => None
  end.

(* ---- message format versus request version (the guide: Produce v0/v1 carry message format 0, Produce v2
        "indicates the client can use message format 1"; a pre-0.10 broker, the only kind that is sent v0 after a
        failed version discovery, does not know magic 1).  The rule checked on captured frames and proved of the
        version-selection model: v0/v1 => every message, wrapper and inner, has magic 0; v2 => magic 1. *)
Definition smsg_magics (m : smsg) : list Z :=
  match m with
  | SPlain p => [p_magic p]
  | SWrap p inner => p_magic p :: map p_magic inner
  end.

Definition body_magics (b : sbody) : list Z :=
  match b with
  | SProduce _ _ ts => flat_map (fun t => flat_map (fun pm => flat_map smsg_magics (snd pm)) (snd t)) ts
  | _ => []
  end.

Definition format_matches_version (r : sreq) : bool :=
  match s_body r with
  | SProduce _ _ _ =>
      forallb (fun mg => mg =? (if (s_version r =? 2) then 1 else 0)) (body_magics (s_body r))
  | _ => true
  end.
