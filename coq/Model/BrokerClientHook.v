(* M7h: Model/BrokerClient.v extended with USER CODE THAT RUNS IN THE MIDDLE OF A METHOD of _KafkaBrokerClient.

   User callbacks/errbacks attached to the Deferred of makeRequest() may call back into the broker client
   synchronously (cancel() of any request, makeRequest(), disconnect(), close()).  Where the Deferred fires in TAIL
   position of a method the call is indistinguishable from the same call made as the next event:
     - handleResponse: tReq.d.callback(response) is the last statement (brokerclient.py:361); further frames of the same
       chunk are handled afterwards exactly as if they had arrived in a later chunk (C06_client_chunking);
     - Deferred.cancel(): the canceller _cancelRequest returns, then Deferred.cancel() errbacks CancelledError;
     - makeRequest on a closed client returns an already failed Deferred: callbacks added by the caller run after it
       returned; makeRequest of a no-reply request on a live connection fires before the caller can add a callback.
   (Checked on the real code by harness/props/brokerclient_lib.py reentrant_part, not proved.)

   In exactly TWO places a Deferred fires while a method is still looping over the request table:
     (F) _sendQueued, brokerclient.py:382-388: _sendRequest fires d.callback(None) for a request that expects no reply
         while the loop iterates over its snapshot of the table;
     (C) close(), brokerclient.py:298-301: `while self.requests: popitem(True); if not cancelled: d.errback(reason)`.
   For these the model takes the calls made by user code as PARAMETERS of the event, so the theorems quantify over
   everything user code can do there:
     IConnOk inter     the connect Deferred succeeds (cbConnect -> _sendQueued); when the Deferred of handle h fires
                       with None inside the loop, the calls [assoc inter h] are made, in order
     IClose inter      close(); when the Deferred of handle h is failed inside the loop, the calls [assoc inter h]
   A call is cancel of handle h / makeRequest / disconnect / close.  Calls made by callbacks that fire as a consequence
   of such a call (a cancel from an errback fires the cancelled Deferred's errback, ...) are in tail position of that
   call, so they are simply the next elements of the same list.  A close() made from inside (F) has a loop (C) of its
   own: [CCloseI inter0].  close() from inside (C) raises AssertionError (the client is closing) and loops nowhere.

   popitem(True) removes the LAST entry of the table as it is at that moment.  While the client is closing makeRequest
   never adds an entry (it fails at once, brokerclient.py:222-227) and removal keeps the order, so the entries popped
   are the entries of the table at the start of the loop, newest first, minus those removed meanwhile: the loop is
   written as an iteration over that reversed snapshot which skips entries that are gone and reads the flags of the
   live entry ([live_entry]: a _RequestState object is identified by the handle of its Deferred).

   [guard] = true is _sendQueued as it is now (commit 7c12cf4, finding F-C10-1):
   `if tReq.sent is None and self.requests.get(tReq.correlationId) is tReq`; [guard] = false is the loop before that
   commit (`if tReq.sent is None`), kept only for the refutation witness in Props/C10.v - for a detached request
   object it is an approximation (the real old code raised KeyError at line 379 for a detached no-reply request). *)
From AV Require Import Base.Util Model.Framing Model.BrokerClient.

Inductive call0 :=
| CCancel (h : nat)                 (* the .cancel() of the Deferred of handle h *)
| CMake (rid : Z) (expect : bool)   (* makeRequest(rid, .., expect) *)
| CDisc                             (* disconnect() *)
| CClose0.                          (* close() in whose loop no user code runs *)
Definition inter0 := list (nat * list call0).

Inductive call1 := C0 (c : call0) | CCloseI (i : inter0).
Definition inter1 := list (nat * list call1).

Fixpoint assoc {A} (l : list (nat * list A)) (h : nat) : list A :=
  match l with
  | [] => []
  | (h', x) :: r => if Nat.eqb h' h then x else assoc r h
  end.

Definition call0_step (s : state) (c : call0) : state * list output :=
  match c with
  | CCancel h => step s (ECancel h)
  | CMake rid ex => step s (EMake rid ex)
  | CDisc => step s EDisconnect
  | CClose0 => step s EClose
  end.

Fixpoint run_calls0 (s : state) (cs : list call0) : state * list output :=
  match cs with
  | [] => (s, [])
  | c :: r => let (s1, o1) := call0_step s c in
              let (s2, o2) := run_calls0 s1 r in (s2, o1 ++ o2)
  end.

Definition live_entry (s : state) (r : req) : option req :=
  find (fun x => Nat.eqb (r_h x) (r_h r)) (t_reqs (s_t s)).

(* (C) the loop of close(), brokerclient.py:298-301 *)
Fixpoint close_loop (inter : inter0) (s : state) (snap : list req) : state * list output :=
  match snap with
  | [] => (s, [])
  | r :: rest =>
      match live_entry s r with
      | None => close_loop inter s rest                                     (* removed meanwhile *)
      | Some r' =>
          let t1 := t_with_reqs (s_t s) (del (r_id r') (t_reqs (s_t s))) in  (* popitem(True) *)
          if r_cancelled r' then close_loop inter (with_t s t1) rest
          else
            let (t2, o1) := fire t1 (r_h r') FailClosed in                   (* tReq.d.errback(reason) *)
            let (s3, o2) := run_calls0 (with_t s t2) (assoc inter (r_h r')) in
            let (s4, o3) := close_loop inter s3 rest in (s4, o1 ++ o2 ++ o3)
      end
  end.

(* close(), brokerclient.py:260-302; the part before the loop is copied from Model.BrokerClient.step
   (Proofs/BrokerClientHook.v close_i_nil: with no user code in the loop this IS step s EClose) *)
Definition close_i (inter : inter0) (s : state) : state * list output :=
  match s_down s with
  | DNone =>
      let s0 := with_down s DPending in
      let '(s1, o1) :=
        if s_proto s0 then (s0, [OLose])
        else match s_connector s0 with
             | CNone => fire_down s0
             | CAttempt => let (s', o') := fire_down (with_connector s0 CStale) in (s', OCancelAttempt :: o')
             | CTimer => let (s', o') := fire_down (with_connector s0 CStale) in (s', OCancelTimer :: o')
             | CStale => (s0, [])
             end in
      let (s2, o2) := close_loop inter s1 (rev (t_reqs (s_t s1))) in
      (s2, o1 ++ o2)
  | _ => (s, [ORaised 2])
  end.

Definition call1_step (s : state) (c : call1) : state * list output :=
  match c with
  | C0 c0 => call0_step s c0
  | CCloseI i => close_i i s
  end.

Fixpoint run_calls1 (s : state) (cs : list call1) : state * list output :=
  match cs with
  | [] => (s, [])
  | c :: r => let (s1, o1) := call1_step s c in
              let (s2, o2) := run_calls1 s1 r in (s2, o1 ++ o2)
  end.

(* which request object the body of _sendQueued sends for snapshot entry r, if any *)
Definition pick (guard : bool) (s : state) (r : req) : option req :=
  match live_entry s r with
  | Some r' => if r_sent r' then None else Some r'          (* tReq.sent is None, read from the live object *)
  | None => if guard then None                               (* ... and self.requests.get(id) is tReq *)
            else if r_sent r then None else Some r           (* old loop: the detached object is sent *)
  end.

(* _sendRequest(tReq) including the user callbacks of a no-reply request, brokerclient.py:365-380 *)
Definition send_one (inter : inter1) (s : state) (r : req) : state * list output :=
  let (t1, o1) := send_request (s_t s) r in
  let s1 := with_t s t1 in
  if r_expect r then (s1, o1)
  else let (s2, o2) := run_calls1 s1 (assoc inter (r_h r)) in (s2, o1 ++ o2).   (* inside d.callback(None) *)

(* (F) _sendQueued, brokerclient.py:382-388 *)
Fixpoint flush_loop (guard : bool) (inter : inter1) (s : state) (snap : list req) : state * list output :=
  match snap with
  | [] => (s, [])
  | r :: rest =>
      match pick guard s r with
      | None => flush_loop guard inter s rest
      | Some r' => let (s1, o1) := send_one inter s r' in
                   let (s2, o2) := flush_loop guard inter s1 rest in (s2, o1 ++ o2)
      end
  end.

(* cbConnect, brokerclient.py:431-439 *)
Definition connok_i (guard : bool) (inter : inter1) (s : state) : state * list output :=
  match s_connector s with
  | CAttempt =>
      let s1 := with_rxbuf (with_proto (with_connector (with_failures s 0) CNone) true) [] in
      match s_down s1 with
      | DNone => flush_loop guard inter s1 (t_reqs (s_t s1))
      | _ => (s1, [OLose])
      end
  | _ => (s, [])
  end.

Inductive ievent := IEv (e : event) | IConnOk (i : inter1) | IClose (i : inter0).

Definition istep (guard : bool) (s : state) (e : ievent) : state * list output :=
  match e with
  | IEv e0 => step s e0
  | IConnOk i => connok_i guard i s
  | IClose i => close_i i s
  end.

Fixpoint irun (guard : bool) (s : state) (evs : list ievent) : state * list output :=
  match evs with
  | [] => (s, [])
  | e :: r => let (s1, o1) := istep guard s e in
              let (s2, o2) := irun guard s1 r in (s2, o1 ++ o2)
  end.

(* ------------------------------------------------------------------------------------------------
   case line = <guard 0/1> then events: the codes of Model/BrokerClient.v plus
     13 <inter1>   IConnOk          14 <inter0>   IClose
     inter0 = n (h m <call0>*m)*n       call0 = 1 h | 2 rid ex | 3 | 4
     inter1 = n (h m <call1>*m)*n       call1 = <call0> | 5 <inter0>
   trace: as Model/BrokerClient.v *)
Fixpoint parse_n {A} (p : list Z -> option (A * list Z)) (n : nat) (l : list Z) : option (list A * list Z) :=
  match n with
  | O => Some ([], l)
  | S m => match p l with
           | Some (a, r) => match parse_n p m r with Some (x, r2) => Some (a :: x, r2) | None => None end
           | None => None
           end
  end.

Definition parse_call0 (l : list Z) : option (call0 * list Z) :=
  match l with
  | 1 :: h :: r => if h <? 0 then None else Some (CCancel (Z.to_nat h), r)
  | 2 :: rid :: ex :: r => Some (CMake rid (negb (ex =? 0)), r)
  | 3 :: r => Some (CDisc, r)
  | 4 :: r => Some (CClose0, r)
  | _ => None
  end.

Definition parse_group {A} (p : list Z -> option (A * list Z)) (l : list Z) : option ((nat * list A) * list Z) :=
  match l with
  | h :: m :: r => if (h <? 0) || (m <? 0) then None
                   else match parse_n p (Z.to_nat m) r with Some (cs, r2) => Some ((Z.to_nat h, cs), r2) | None => None end
  | _ => None
  end.

Definition parse_inter {A} (p : list Z -> option (A * list Z)) (l : list Z) : option (list (nat * list A) * list Z) :=
  match l with
  | n :: r => if n <? 0 then None else parse_n (parse_group p) (Z.to_nat n) r
  | _ => None
  end.

Definition parse_call1 (l : list Z) : option (call1 * list Z) :=
  match l with
  | 5 :: r => match parse_inter parse_call0 r with Some (i, r2) => Some (CCloseI i, r2) | None => None end
  | _ => match parse_call0 l with Some (c, r) => Some (C0 c, r) | None => None end
  end.

Fixpoint parse_ievents (fuel : nat) (l : list Z) : option (list ievent) :=
  match fuel with
  | O => None
  | S f =>
      let k := fun ev r => match parse_ievents f r with Some es => Some (ev :: es) | None => None end in
      match l with
      | [] => Some []
      | 1 :: rid :: ex :: r => k (IEv (EMake rid (negb (ex =? 0)))) r
      | 2 :: h :: r => if h <? 0 then None else k (IEv (ECancel (Z.to_nat h))) r
      | 3 :: r => k (IEv EConnOk) r
      | 4 :: r => k (IEv EConnFail) r
      | 5 :: r => k (IEv ELost) r
      | 6 :: r => match take_lp r with Some (c, r2) => k (IEv (EData c)) r2 | None => None end
      | 7 :: r => match take_lp r with Some (c, r2) => k (IEv (EFrame c)) r2 | None => None end
      | 8 :: r => k (IEv EFire) r
      | 9 :: r => k (IEv EClose) r
      | 10 :: r => k (IEv EDisconnect) r
      | 11 :: sm :: a :: r => k (IEv (EUpdate (negb (sm =? 0)) a)) r
      | 13 :: r => match parse_inter parse_call1 r with Some (i, r2) => k (IConnOk i) r2 | None => None end
      | 14 :: r => match parse_inter parse_call0 r with Some (i, r2) => k (IClose i) r2 | None => None end
      | _ => None
      end
  end.

Fixpoint irun_enc (guard : bool) (s : state) (evs : list ievent) : list Z :=
  match evs with
  | [] => []
  | e :: r => let (s1, o1) := istep guard s e in
              0 :: (if s_proto s1 then 1 else 0) :: flat_map enc_out (canon_outs o1) ++ irun_enc guard s1 r
  end.

Definition run_case (c : list Z) : list Z :=
  match c with
  | g :: r => match parse_ievents (S (length r)) r with
              | Some es => irun_enc (negb (g =? 0)) init es
              | None => [-99]
              end
  | [] => [-99]
  end.
