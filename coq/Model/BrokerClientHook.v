(* M7h: Model/BrokerClient.v extended with the one place where user code runs in the MIDDLE of a method of
   _KafkaBrokerClient: the callback of a request that expects no reply fires inside _sendRequest
   (brokerclient.py:375-380, d.callback(None)) while _sendQueued (brokerclient.py:382-388) is still iterating over its
   snapshot of the request table.  Every other Deferred of the class fires in tail position (handleResponse: last
   statement; cancel: after the canceller returned) or inside close()'s own loop (which pops before it fires), so a
   re-entrant call from those callbacks equals the same call made as the next event.

   New API event:
     HMakeThen rid a    d = makeRequest(rid, <bytes>, expectResponse=False); d.addCallback(lambda _: a())
                        with a = close()  or  the .cancel() of the Deferred of handle h
   hooks : handle -> action, for the Deferreds that have such a callback and have not fired yet.

   [guard] = true is the code as it is now (commit 7c12cf4, finding F-C10-1): _sendQueued sends a snapshot entry only if
   `tReq.sent is None and self.requests.get(tReq.correlationId) is tReq`.  [guard] = false is the loop as it was before
   (`if tReq.sent is None`), kept only for the refutation witness in Props/C10.v; for a detached request object that
   variant is an approximation (the real old code raised KeyError at line 379 for a detached no-reply request).

   A _RequestState object is identified by its handle (one object per Deferred); "the object tReq as it is now" is the
   table entry with tReq's handle, if there is one ([live_entry]). *)
From AV Require Import Base.Util Model.Framing Model.BrokerClient.

Inductive haction := HClose | HCancel (h : nat).
Definition hooks_t := list (nat * haction).

Fixpoint hook_of (hk : hooks_t) (h : nat) : option haction :=
  match hk with
  | [] => None
  | (h', a) :: r => if Nat.eqb h' h then Some a else hook_of r h
  end.

Definition do_action (s : state) (a : haction) : state * list output :=
  match a with
  | HClose => step s EClose
  | HCancel h => step s (ECancel h)
  end.

Definition live_entry (s : state) (r : req) : option req :=
  find (fun x => Nat.eqb (r_h x) (r_h r)) (t_reqs (s_t s)).

(* which request object the loop body sends for snapshot entry r, if any *)
Definition pick (guard : bool) (s : state) (r : req) : option req :=
  match live_entry s r with
  | Some r' => if r_sent r' then None else Some r'          (* tReq.sent is None, read from the live object *)
  | None => if guard then None                               (* ... and self.requests.get(id) is tReq *)
            else if r_sent r then None else Some r           (* old loop: the detached object is sent *)
  end.

(* _sendRequest(tReq) including the user callback of a no-reply request, brokerclient.py:365-380 *)
Definition send_one (hk : hooks_t) (s : state) (r : req) : state * list output :=
  let (t1, o1) := send_request (s_t s) r in
  let s1 := with_t s t1 in
  if r_expect r then (s1, o1)
  else match hook_of hk (r_h r) with
       | Some a => let (s2, o2) := do_action s1 a in (s2, o1 ++ o2)   (* runs inside d.callback(None) *)
       | None => (s1, o1)
       end.

(* _sendQueued, brokerclient.py:382-388 *)
Fixpoint send_each_h (guard : bool) (hk : hooks_t) (s : state) (snap : list req) : state * list output :=
  match snap with
  | [] => (s, [])
  | r :: rest =>
      match pick guard s r with
      | None => send_each_h guard hk s rest
      | Some r' => let (s1, o1) := send_one hk s r' in
                   let (s2, o2) := send_each_h guard hk s1 rest in (s2, o1 ++ o2)
      end
  end.

Inductive hevent := HEv (e : event) | HMakeThen (rid : Z) (a : haction).
Definition hstate := (state * hooks_t)%type.

Definition is_succ_none (h : nat) (o : output) : bool :=
  match o with ODef h' SuccNone => Nat.eqb h' h | _ => false end.

Definition hstep (guard : bool) (hs : hstate) (e : hevent) : hstate * list output :=
  let (s, hk) := hs in
  match e with
  | HEv EConnOk =>                                                         (* cbConnect, 431-439 *)
      match s_connector s with
      | CAttempt =>
          let s1 := with_rxbuf (with_proto (with_connector (with_failures s 0) CNone) true) [] in
          match s_down s1 with
          | DNone => let (s2, o) := send_each_h guard hk s1 (t_reqs (s_t s1)) in ((s2, hk), o)
          | _ => ((s1, hk), [OLose])
          end
      | _ => ((s, hk), [])
      end
  | HEv e0 => let (s', o) := step s e0 in ((s', hk), o)
  | HMakeThen rid a =>
      let h := length (t_dlog (s_t s)) in
      let (s1, o1) := step s (EMake rid false) in
      if Nat.eqb (length (t_dlog (s_t s1))) (S h) then                     (* a Deferred was returned *)
        if is_fired (s_t s1) h then
          if existsb (is_succ_none h) o1                                   (* already fired with None: the callback runs at once *)
          then let (s2, o2) := do_action s1 a in ((s2, hk), o1 ++ o2)
          else ((s1, hk), o1)                                              (* already failed (client closed): never runs *)
        else ((s1, (h, a) :: hk), o1)                                      (* queued: runs when the request is written *)
      else ((s1, hk), o1)                                                  (* DuplicateRequestError *)
  end.

Fixpoint hrun (guard : bool) (hs : hstate) (evs : list hevent) : hstate * list output :=
  match evs with
  | [] => (hs, [])
  | e :: r => let (hs1, o1) := hstep guard hs e in
              let (hs2, o2) := hrun guard hs1 r in (hs2, o1 ++ o2)
  end.

Definition hinit : hstate := (init, []).

(* ------------------------------------------------------------------------------------------------
   case line = <guard 0/1> then events: the codes of Model/BrokerClient.v plus
     12 rid 1 0   HMakeThen rid HClose        12 rid 2 h   HMakeThen rid (HCancel h)
   trace: as Model/BrokerClient.v *)
Fixpoint parse_hevents (fuel : nat) (l : list Z) : option (list hevent) :=
  match fuel with
  | O => None
  | S f =>
      let k := fun ev r => match parse_hevents f r with Some es => Some (ev :: es) | None => None end in
      match l with
      | [] => Some []
      | 1 :: rid :: ex :: r => k (HEv (EMake rid (negb (ex =? 0)))) r
      | 2 :: h :: r => if h <? 0 then None else k (HEv (ECancel (Z.to_nat h))) r
      | 3 :: r => k (HEv EConnOk) r
      | 4 :: r => k (HEv EConnFail) r
      | 5 :: r => k (HEv ELost) r
      | 6 :: r => match take_lp r with Some (c, r2) => k (HEv (EData c)) r2 | None => None end
      | 7 :: r => match take_lp r with Some (c, r2) => k (HEv (EFrame c)) r2 | None => None end
      | 8 :: r => k (HEv EFire) r
      | 9 :: r => k (HEv EClose) r
      | 10 :: r => k (HEv EDisconnect) r
      | 11 :: sm :: a :: r => k (HEv (EUpdate (negb (sm =? 0)) a)) r
      | 12 :: rid :: 1 :: _ :: r => k (HMakeThen rid HClose) r
      | 12 :: rid :: 2 :: h :: r => if h <? 0 then None else k (HMakeThen rid (HCancel (Z.to_nat h))) r
      | _ => None
      end
  end.

Fixpoint hrun_enc (guard : bool) (hs : hstate) (evs : list hevent) : list Z :=
  match evs with
  | [] => []
  | e :: r => let (hs1, o1) := hstep guard hs e in
              0 :: (if s_proto (fst hs1) then 1 else 0) :: flat_map enc_out (canon_outs o1) ++ hrun_enc guard hs1 r
  end.

Definition run_case (c : list Z) : list Z :=
  match c with
  | g :: r => match parse_hevents (S (length r)) r with
              | Some es => hrun_enc (negb (g =? 0)) hinit es
              | None => [-99]
              end
  | [] => [-99]
  end.
