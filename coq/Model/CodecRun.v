(* Runner entry point for the shared codec models Model.Prim, Model.Crc, Model.MsgSet (runner name `codec`,
   extraction in Run/ExCodec.v, Python side harness/props/codec_lib.py).

   CASE LINES (flat integer lists).  Sub-encodings:
     LP(x)    = n x1..xn                       length-prefixed byte / code-point list      (Base.Util.take_lp)
     OLP(x)   = -1  |  LP(x)                   optional list: -1 is None/null
     F        = 1..7 for struct formats  b B h H i I q
     MSG      = magic attr OLP(key) OLP(value) hasts ts       (hasts 0 -> timestamp None, ts ignored but present)
     ORACLE   = sn_avail npairs PAIR*          sn_avail 0/1 = afkak.codec.has_snappy()
     PAIR     = kind LP(input) status LP(output)
                kind 1 gzip_decode, 2 gzip_encode, 3 snappy_decode, 4 snappy_encode;
                status 0 = returned output, otherwise an err code (output then empty): the call raised.
                A query with no matching pair answers Err OracleMiss (code 15): the driver must list every call.
     CLOCK    = base step                      the k-th reading of int(time.time()*1000) is base + step*k

   ops and their traces (ERR = the single integer err_code e >= 1, see Model.Prim):
      1 F v                        struct.pack(">F", v)                 -> 0 LP(bytes) | ERR
      2 F LP(data)                 relative_unpack(">F", data, 0)       -> 0 v consumed | ERR
      3 k OLP(s)                   k=1 write_int_string(bytes) 2 write_short_bytes(bytes)
                                   3 write_short_ascii(code points) 4 write_short_text(code points)
                                                                        -> 0 LP(bytes) | ERR
      4 k LP(data)                 k=1 read_int_string 2 read_short_bytes 3 read_short_ascii 4 read_short_text
                                   (data = the suffix at the cursor)    -> 0 OLP(bytes) consumed | ERR
                                   (ascii/text results are reported as their encoded bytes)
      5 LP(data)                   zlib.crc32(data) & 0xFFFFFFFF        -> crc
      6 now MSG                    KafkaCodec._encode_message           -> 0 LP(bytes) | ERR
      7 CLOCK hasoff off magic n MSG*   KafkaCodec._encode_message_set(msgs, off if hasoff else None, magic)
                                                                        -> 0 LP(bytes) | ERR
      8 depth ORACLE LP(data)      KafkaCodec._decode_message_set_iter(data), consumed to the end
                                                                        -> n (offset MSG)*n outcome
                                   outcome 0 = generator exhausted, otherwise err code of the exception raised
                                   after the n messages were yielded
      9 ORACLE CLOCK codec magic nreq (OLP(key) nmsg OLP(payload)*nmsg)*nreq    create_message_set
                                                                        -> 0 n MSG*n | ERR
     10 ORACLE CLOCK codec magic n MSG*   codec 1: create_gzip_message(msgs, magic), 2: create_snappy_message
                                                                        -> 0 MSG | ERR
   Unparseable case -> -99. *)
From AV Require Import Base.Util Model.Prim Model.Crc Model.MsgSet.

(* ---- parsing ---- *)
Definition take_olp (l : list Z) : option (option (list Z) * list Z) :=
  match l with
  | -1 :: r => Some (None, r)
  | _ => match take_lp l with Some (b, r) => Some (Some b, r) | None => None end
  end.

Fixpoint parse_n {A} (p : list Z -> option (A * list Z)) (n : nat) (l : list Z) : option (list A * list Z) :=
  match n with
  | O => Some ([], l)
  | S k => match p l with
           | Some (a, r) => match parse_n p k r with
                            | Some (xs, r') => Some (a :: xs, r')
                            | None => None
                            end
           | None => None
           end
  end.

(* counted list: n item*n ; the count is checked against the remaining length so a huge n cannot cost work *)
Definition parse_counted {A} (p : list Z -> option (A * list Z)) (l : list Z) : option (list A * list Z) :=
  match l with
  | n :: r => if (n <? 0) || (len r <? n) then None else parse_n p (Z.to_nat n) r
  | [] => None
  end.

Definition ifmt_of (c : Z) : option ifmt :=
  match c with
  | 1 => Some Fb | 2 => Some FB | 3 => Some Fh | 4 => Some FH | 5 => Some Fi | 6 => Some FI | 7 => Some Fq
  | _ => None
  end.

Definition parse_msg (l : list Z) : option (message * list Z) :=
  match l with
  | magic :: attr :: r =>
      match take_olp r with
      | Some (key, r1) =>
          match take_olp r1 with
          | Some (value, hasts :: ts :: r2) =>
              Some (mkMessage magic attr key value (if (hasts =? 0) then None else Some ts), r2)
          | _ => None
          end
      | None => None
      end
  | _ => None
  end.

Record opair := { op_kind : Z; op_in : list Z; op_out : res (list Z) }.

Definition parse_pair (l : list Z) : option (opair * list Z) :=
  match l with
  | kind :: r =>
      match take_lp r with
      | Some (i, status :: r1) =>
          match take_lp r1 with
          | Some (o, r2) =>
              let out := if (status =? 0) then Ok o
                         else match err_of_code status with Some e => Err e | None => Err OracleMiss end in
              Some ({| op_kind := kind; op_in := i; op_out := out |}, r2)
          | None => None
          end
      | _ => None
      end
  | [] => None
  end.

Fixpoint lookup (ps : list opair) (kind : Z) (i : list Z) : res (list Z) :=
  match ps with
  | [] => Err OracleMiss
  | p :: r => if (op_kind p =? kind) && zlist_eqb (op_in p) i then op_out p else lookup r kind i
  end.

Definition oracle_of (avail : bool) (ps : list opair) : oracle :=
  {| gz_dec := lookup ps 1; gz_enc := lookup ps 2; sn_avail := avail; sn_dec := lookup ps 3; sn_enc := lookup ps 4 |}.

Definition parse_oracle (l : list Z) : option (oracle * list Z) :=
  match l with
  | avail :: r => match parse_counted parse_pair r with
                  | Some (ps, r') => Some (oracle_of (negb (avail =? 0)) ps, r')
                  | None => None
                  end
  | [] => None
  end.

Definition clock_of (base step : Z) : nat -> Z := fun k => base + step * Z.of_nat k.

Definition parse_req (l : list Z) : option (send_request * list Z) :=
  match take_olp l with
  | Some (key, r) => match parse_counted take_olp r with
                     | Some (ps, r') => Some ((key, ps), r')
                     | None => None
                     end
  | None => None
  end.

(* ---- traces ---- *)
Definition out_lp (b : list Z) : list Z := len b :: b.
Definition out_olp (o : option (list Z)) : list Z := match o with None => [-1] | Some b => out_lp b end.
Definition out_msg (m : message) : list Z :=
  [m_magic m; m_attr m] ++ out_olp (m_key m) ++ out_olp (m_value m)
  ++ match m_ts m with None => [0; 0] | Some t => [1; t] end.
Definition out_bytes (r : res (list Z)) : list Z :=
  match r with Ok b => 0 :: out_lp b | Err e => [err_code e] end.
Definition out_dres (d : dres) : list Z :=
  Z.of_nat (length (fst d)) :: flat_map (fun om => fst om :: out_msg (snd om)) (fst d)
  ++ [match snd d with None => 0 | Some e => err_code e end].

Definition bad : list Z := [-99].

Definition run_case (c : list Z) : list Z :=
  match c with
  | 1 :: f :: v :: _ =>
      match ifmt_of f with Some f => out_bytes (pack f v) | None => bad end
  | 2 :: f :: r =>
      match ifmt_of f, take_lp r with
      | Some f, Some (d, _) =>
          match unpack f d with
          | Ok (v, rest) => [0; v; len d - len rest]
          | Err e => [err_code e]
          end
      | _, _ => bad
      end
  | 3 :: k :: r =>
      match take_olp r with
      | Some (s, _) =>
          match k with
          | 1 => out_bytes (write_int_string s)
          | 2 => out_bytes (write_short_bytes s)
          | 3 => out_bytes (write_short_ascii s)
          | 4 => out_bytes (write_short_text s)
          | _ => bad
          end
      | None => bad
      end
  | 4 :: k :: r =>
      match take_lp r with
      | Some (d, _) =>
          let show (x : res (option (list Z) * list Z)) :=
            match x with
            | Ok (ob, rest) => 0 :: out_olp ob ++ [len d - len rest]
            | Err e => [err_code e]
            end in
          let some (x : res (list Z * list Z)) := do (b, rest) <- x; Ok (Some b, rest) in
          match k with
          | 1 => show (read_int_string d)
          | 2 => show (read_short_bytes d)
          | 3 => show (some (read_short_ascii d))
          | 4 => show (some (read_short_text d))
          | _ => bad
          end
      | None => bad
      end
  | 5 :: r =>
      match take_lp r with Some (d, _) => [crc32 d] | None => bad end
  | 6 :: now :: r =>
      match parse_msg r with Some (m, _) => out_bytes (encode_message now m) | None => bad end
  | 7 :: base :: step :: hasoff :: off :: magic :: r =>
      match parse_counted parse_msg r with
      | Some (ms, _) =>
          out_bytes (encode_message_set (clock_of base step) O ms (if (hasoff =? 0) then None else Some off) magic)
      | None => bad
      end
  | 8 :: depth :: r =>
      match parse_oracle r with
      | Some (orc, r1) =>
          match take_lp r1 with
          | Some (d, _) => if (depth <? 0) || (1000 <? depth) then bad
                           else out_dres (dec_set (Z.to_nat depth) orc d)
          | None => bad
          end
      | None => bad
      end
  | 9 :: r =>
      match parse_oracle r with
      | Some (orc, base :: step :: codec :: magic :: r1) =>
          match parse_counted parse_req r1 with
          | Some (reqs, _) =>
              match create_message_set orc (clock_of base step) reqs codec magic with
              | Ok ms => 0 :: Z.of_nat (length ms) :: flat_map out_msg ms
              | Err e => [err_code e]
              end
          | None => bad
          end
      | _ => bad
      end
  | 10 :: r =>
      match parse_oracle r with
      | Some (orc, base :: step :: codec :: magic :: r1) =>
          match parse_counted parse_msg r1 with
          | Some (ms, _) =>
              let mk := if (codec =? 1) then Some (create_gzip_message orc)
                        else if (codec =? 2) then Some (create_snappy_message orc) else None in
              match mk with
              | Some mk => match mk (clock_of base step) O ms magic with
                           | Ok m => 0 :: out_msg m
                           | Err e => [err_code e]
                           end
              | None => bad
              end
          | None => bad
          end
      | _ => bad
      end
  | _ => bad
  end.
