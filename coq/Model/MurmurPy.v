(* Meaning of the two Python constructs that harness/py2coq.py does not map onto a Z operator directly.
   Definitions only.  Everything else in a generated file is Z.add/sub/mul/div/modulo/land/lor/lxor/
   shiftl/shiftr/lnot on unbounded integers, which is what Python's int operators compute (// and %
   floor like Z.div/Z.modulo; the translator insists on non-zero constant divisors and non-negative
   constant shift counts, where the two languages could differ). *)
From Coq Require Import ZArith List.
Import ListNotations.
Open Scope Z_scope.

(* x[i] on a bytes-like x: a negative index counts from the end.  An index outside -len..len-1 raises
   IndexError in Python; here it reads 0 (the real code is run on every sampled key, where an
   IndexError would show). *)
Definition py_index (a : list Z) (i : Z) : Z :=
  if i <? 0 then
    (if Z.of_nat (length a) + i <? 0 then 0 else nth (Z.to_nat (Z.of_nat (length a) + i)) a 0)
  else nth (Z.to_nat i) a 0.

(* list(range(start, stop, step)), step <> 0 *)
Definition py_range (start stop step : Z) : list Z :=
  if 0 <? step then
    map (fun j => start + step * Z.of_nat j) (seq 0 (Z.to_nat ((stop - start + step - 1) / step)))
  else if step <? 0 then
    map (fun j => start + step * Z.of_nat j) (seq 0 (Z.to_nat ((start - stop - step - 1) / (- step))))
  else [].
