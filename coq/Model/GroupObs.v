(* State-level observations of Model/Group.v, used by harness/props/C16.py and C17.py beside the output trace:
     obs s   what the harness can see of the real object after every event WITHOUT reading private attributes
             (pending requests by kind, armed DelayedCalls, the stub consumers that have not stopped, whether the Deferred
             returned by start() is still outstanding) computed from the model state;
     chk s   the boolean form of the invariant proved in Proofs/GroupInv.v, evaluated along every sampled run
             (a run-time sanity check of the statement that is proved for every event list).
   run_case dispatches on the first integer: 0/1 output trace (Model.Group.run_case), 2/3 observation vectors,
   4/5 invariant bits.  Definitions only. *)
From AV Require Import Base.Util Model.Group.

Definition adv (g : gen) : bool := match g_ph g with GLookup _ | GMeta _ => false | _ => true end.
Definition is_prep (g : gen) : bool := match g_ph g with GPrepare _ => true | _ => false end.
Definition has_s1 (st : stopi) : bool := match st_ph st with S1 _ => true | _ => false end.
Definition has_s2 (st : stopi) : bool := match st_ph st with S2 _ => true | _ => false end.
Definition has_req (g : gen) : bool := negb (is_prep g).

(* consumers that have been started and have not stopped: the table plus those a shutdown is waiting for *)
Definition shutting (s : state) : list Z :=
  flat_map (fun g => sh_pending_ids (gen_list g)) (gens s) ++ flat_map (fun st => sh_pending_ids (stop_list st)) (stops s).
Definition live_cids (s : state) : list Z := map c_id (consumers s) ++ shutting s.

Definition b2z (b : bool) : Z := if b then 1 else 0.
Definition isSome {A} (o : option A) : bool := match o with Some _ => true | None => false end.

Definition progressb (s : state) : bool :=
  negb (match gens s with [] => true | _ => false end)
  || (negb (rejoin_needed s) && hb_running s)
  || negb (match timers s with [] => true | _ => false end).

Definition obs (s : state) : list Z :=
  [ b2z (isSome (start_d s));                       (* start() Deferred outstanding *)
    Z.of_nat (length (filter has_req (gens s)));    (* lookup / metadata / join / partitions / sync requests unanswered *)
    Z.of_nat (length (timers s));                   (* armed join_and_sync DelayedCalls *)
    b2z (hb_running s);                             (* heartbeat LoopingCall armed *)
    b2z (isSome (hb_req s));                        (* heartbeat request unanswered *)
    Z.of_nat (length (filter has_s2 (stops s)));    (* LeaveGroup requests unanswered *)
    Z.of_nat (length (live_cids s));                (* started, not yet stopped partition consumers *)
    Z.of_nat (length (shutting s));                 (* of which a shutdown() is pending *)
    generation s; member s;
    (* model-only (not observable without private attributes; used to classify what the monitors see) *)
    b2z (escaped s); b2z (stopping s); b2z (stop_requested s); b2z (progressb s); b2z (rejoin_needed s) ].

Fixpoint obs_from (s : state) (evs : list event) : list Z :=
  match evs with
  | [] => []
  | e :: r => let s1 := fst (step s e) in (-1) :: obs s1 ++ obs_from s1 r
  end.

(* ---- boolean mirror of Proofs/GroupInv.inv ---- *)
Definition nilb {A} (l : list A) : bool := match l with [] => true | _ => false end.
Definition noneb {A} (p : A -> bool) (l : list A) : bool := forallb (fun x => negb (p x)) l.
Definition dc_is (d : dcst) (k : nat) : bool :=
  match d, k with DcNone, O => true | DcActive _, 1%nat => true | DcStale, 2%nat => true | _, _ => false end.
Definition pristineb (s : state) : bool :=
  nilb (gens s) && nilb (consumers s) && nilb (stops s) && negb (hb_running s) && negb (isSome (hb_req s))
  && nilb (timers s) && negb (isSome (rejoin_d s)) && rejoin_needed s && dc_is (dc s) 0 && negb (stop_requested s)
  && negb (escaped s).
Definition cons_okb (s : state) (c : consumer) : bool :=
  (c_gen c =? generation s) && (c_mem c =? member s)
  && existsb (fun tp => (fst tp =? c_topic c) && (snd tp =? c_part c)) (cur_assign s).
Definition implb' (a b : bool) : bool := negb a || b.

Definition chk (s : state) : list Z :=
  map b2z
  [ implb' (negb (is_group s)) (nilb (consumers s) && noneb has_s1 (stops s) && noneb is_prep (gens s) && negb (stop_requested s));   (* K1 *)
    nilb (consumers s) || noneb adv (gens s);                                                      (* K2 *)
    implb' (stop_requested s || stopping s) (nilb (consumers s));                                  (* K3 *)
    noneb has_s1 (stops s) || stop_requested s || stopping s;                                      (* K4 *)
    implb' (negb (isSome (start_d s))) (stopping s || pristineb s);                                (* K5 *)
    noneb has_s2 (stops s) || (stopping s && isSome (start_d s));                                  (* K6 *)
    Nat.leb (length (filter adv (gens s))) 1;                                                      (* K7 *)
    implb' (negb (stopping s))
      (match gens s, rejoin_d s with
       | [], None => true | [g], Some gid => g_id g =? gid | _, _ => false end);                   (* K8 *)
    (match dc s with DcActive id => existsb (fun t => (fst t =? id) && (match snd t with TRejoin => true | _ => false end)) (timers s)
                   | _ => true end);                                                               (* K9 *)
    implb' (negb (stopping s)) (negb (dc_is (dc s) 2));                                            (* K10 *)
    forallb (cons_okb s) (consumers s);                                                            (* K12 *)
    implb' (negb (stopping s) && negb (nilb (gens s))) (rejoin_needed s);                          (* K13 *)
    implb' (negb (stopping s) && negb (rejoin_needed s)) (hb_running s);                           (* K14 *)
    implb' (isSome (start_d s) && negb (stopping s) && negb (stop_requested s) && negb (escaped s)) (progressb s);   (* K15 *)
    Nat.leb (length (filter has_s2 (stops s))) 1;                                                  (* K16 *)
    implb' (stop_requested s) (negb (nilb (stops s)) || stopping s);                               (* K17 *)
    implb' (stopping s) (negb (rejoin_needed s));                                                  (* j11 *)
    noneb has_s1 (stops s) || noneb adv (gens s)                                                   (* j14 *)
  ].

Fixpoint chk_from (s : state) (evs : list event) : list Z :=
  match evs with
  | [] => []
  | e :: r => let s1 := fst (step s e) in chk s1 ++ chk_from s1 r
  end.

(* ---- canonical order inside one step: cancellations of requests / delayed calls, consumer stop() calls and the coordinator-metadata
   reset issued by ONE step are independent statements of the code (no observer sits between them); a maximal run of them is sorted,
   so that reordering those statements is not reported as a difference.  Everything else keeps its place. ---- *)
Definition commuting (o : output) : bool :=
  match o with OCancelTimer _ _ | OCancelReq _ | OReset | OStopC _ => true | _ => false end.
Fixpoint lex_leb (a b : list Z) : bool :=
  match a, b with
  | [], _ => true
  | _ :: _, [] => false
  | x :: a', y :: b' => if x <? y then true else if y <? x then false else lex_leb a' b'
  end.
Fixpoint insert_out (o : output) (l : list output) : list output :=
  match l with
  | [] => [o]
  | x :: r => if lex_leb (enc_out o) (enc_out x) then o :: l else x :: insert_out o r
  end.
Definition sort_outs (l : list output) : list output := fold_right insert_out [] l.
Fixpoint canon_from (run : list output) (l : list output) : list output :=
  match l with
  | [] => sort_outs run
  | o :: r => if commuting o then canon_from (o :: run) r else sort_outs run ++ o :: canon_from [] r
  end.
Definition canon_step (l : list output) : list output := canon_from [] l.
Definition enc_trace_canon (os : list (list output)) : list Z :=
  flat_map (fun o => (-1) :: flat_map enc_out (canon_step o)) os.

Definition run_case (c : list Z) : list Z :=
  match c with
  | k :: r =>
      if (k =? 0) || (k =? 1) then
        match parse_events (length r) r with
        | Some evs => enc_trace_canon (snd (run (k =? 1) evs))      (* Model.Group.run_case c with each step's outputs in canonical order *)
        | None => [-99]
        end
      else if (2 <=? k) && (k <=? 5) then
        match parse_events (length r) r with
        | Some evs =>
            let grp := (k =? 3) || (k =? 5) in
            if k <=? 3 then obs_from (init grp) evs else chk_from (init grp) evs
        | None => [-99]
        end
      else [-99]
  | [] => [-99]
  end.
