(* Runner entry point for Model.Requests (afkak's request encoders), Model.KafkaSpecReq (the independent request
   parser) and Model.ClientVersion (version negotiation).  Runner name `req` (Run/ExReq.v), Python side
   harness/props/C04.py.  Sub-encodings LP / OLP / MSG / ORACLE / CLOCK are those of Model.CodecRun.

     HDR   = LP(client_id bytes) correlation_id
     TXT   = OLP(code points)              a Python str or None
     OUT   = 0 code n (key min max)*n      an ApiVersions answer      | 1  KafkaUnavailableError | 2  other failure
     EV    = 0 id key                      get_api_version(key) call  | 1 id OUT   the request of call id completes
             | 2                           reset_all_metadata()

   encoder ops (trace: 0 LP(bytes) | ERR, as Model.CodecRun.out_bytes):
      1 HDR key version                                         encode_api_versions_request
      2 CLOCK HDR acks timeout api_version n (TXT partition nmsg MSG*nmsg)*n     encode_produce_request
      3 HDR max_wait min_bytes api_version n (TXT partition offset max_bytes)*n  encode_fetch_request
      4 HDR n (TXT partition time max_offsets)*n                encode_offset_request
      5 HDR n TXT*n                                             encode_metadata_request
      6 HDR TXT                                                 encode_consumermetadata_request
      7 HDR TXT(group) generation TXT(consumer) n (TXT partition offset timestamp OLP(metadata))*n
                                                                encode_offset_commit_request
      8 HDR TXT(group) n (TXT partition)*n                      encode_offset_fetch_request
      9 HDR TXT(group) session_timeout TXT(member) TXT(protocol_type) n (TXT(name) OLP(metadata))*n
                                                                encode_join_group_request
     10 HDR TXT(group) TXT(member)                              encode_leave_group_request
     11 HDR TXT(group) generation TXT(member)                   encode_heartbeat_request
     12 HDR TXT(group) generation TXT(member) n (TXT(member) OLP(assignment))*n   encode_sync_group_request
     13 version n TXT*n OLP(user_data)                          encode_join_group_protocol_metadata
     14 version n (TXT np partition*np)*n OLP(user_data)        encode_sync_group_member_assignment

   spec parser ops:
     50 ORACLE LP(bytes)   KafkaSpecReq.parse_request   -> 0 | 1 fmt key version correlation OLP(client) BODY
                           fmt = format_matches_version;  BODY by API key:
          Produce  acks timeout nt (LP(topic) np (partition nm SMSG*nm)*np)*nt
                   SMSG = 0 PMSG | 1 PMSG ni PMSG*ni       PMSG = offset magic attr hasts ts OLP(key) OLP(value)
          Fetch / ListOffsets   replica [max_wait min_bytes] nt (LP(topic) np (partition a b)*np)*nt
          Metadata nt LP(topic)*nt          FindCoordinator LP(group)
          OffsetCommit LP(group) generation LP(member) nt (LP(topic) np (partition offset ts OLP(metadata))*np)*nt
          OffsetFetch LP(group) nt (LP(topic) np partition*np)*nt
          JoinGroup LP(group) session LP(member) LP(ptype) n (LP(name) LP(metadata))*n
          Heartbeat LP(group) generation LP(member)      LeaveGroup LP(group) LP(member)
          SyncGroup LP(group) generation LP(member) n (LP(member) LP(assignment))*n       ApiVersions (nothing)
     51 LP(bytes)          parse_subscription           -> 0 | 1 version n LP(topic)*n OLP(user_data)
     52 LP(bytes)          parse_assignment             -> 0 | 1 version n (LP(topic) np partition*np)*n OLP(user_data)

   negotiation ops:
     60 discovery n OUT*n      negotiate                -> 2 (pending) | 3 (failed) | 0 | 1 CHOICE
                               CHOICE = produce_arg produce_header produce_decoder fetch_arg fetch_header fetch_decoder magic
                               (decoder -1 = the decoder raises for that api_version)
     61 discovery n EV*n       run_events, observed after every event:
                               CELL [RESULT]   CELL = 0 | 1 | 2 produce_lookup fetch_lookup
                               RESULT (only when the event completes a call) = -2 (failed) | version returned
   Unparseable case -> -99. *)
From AV Require Import Base.Util Model.Prim Model.Crc Model.MsgSet Model.CodecRun Model.Requests Model.KafkaSpecReq
     Model.ClientVersion.

(* ---- parsing helpers ---- *)
Definition pz (l : list Z) : option (Z * list Z) := match l with x :: r => Some (x, r) | [] => None end.

Definition parse_hdr (l : list Z) : option ((list Z * Z) * list Z) :=
  match take_lp l with
  | Some (cid, corr :: r) => Some ((cid, corr), r)
  | _ => None
  end.

Definition parse_produce_payload (l : list Z) : option (produce_payload * list Z) :=
  match take_olp l with
  | Some (topic, partition :: r) =>
      match parse_counted parse_msg r with
      | Some (ms, r') => Some (mkProduce topic partition ms, r')
      | None => None
      end
  | _ => None
  end.

Definition parse_fetch_payload (l : list Z) : option (fetch_payload * list Z) :=
  match take_olp l with
  | Some (topic, p :: o :: m :: r) => Some (mkFetch topic p o m, r)
  | _ => None
  end.
Definition parse_offset_payload (l : list Z) : option (offset_payload * list Z) :=
  match take_olp l with
  | Some (topic, p :: t :: m :: r) => Some (mkOffset topic p t m, r)
  | _ => None
  end.
Definition parse_commit_payload (l : list Z) : option (commit_payload * list Z) :=
  match take_olp l with
  | Some (topic, p :: o :: t :: r) =>
      match take_olp r with Some (md, r') => Some (mkCommit topic p o t md, r') | None => None end
  | _ => None
  end.
Definition parse_ofetch_payload (l : list Z) : option (ofetch_payload * list Z) :=
  match take_olp l with
  | Some (topic, p :: r) => Some (mkOFetch topic p, r)
  | _ => None
  end.
Definition parse_pair2 (l : list Z) : option ((text * obytes) * list Z) :=
  match take_olp l with
  | Some (a, r) => match take_olp r with Some (b, r') => Some ((a, b), r') | None => None end
  | None => None
  end.
Definition parse_topic_parts (l : list Z) : option ((text * list Z) * list Z) :=
  match take_olp l with
  | Some (t, r) => match take_lp r with Some (ps, r') => Some ((t, ps), r') | None => None end
  | None => None
  end.

Definition parse_entry (l : list Z) : option (api_entry * list Z) :=
  match l with k :: mn :: mx :: r => Some (mkEntry k mn mx, r) | _ => None end.
Definition parse_outcome (l : list Z) : option (outcome * list Z) :=
  match l with
  | 0 :: code :: r => match parse_counted parse_entry r with
                      | Some (t, r') => Some (Answer code t, r')
                      | None => None
                      end
  | 1 :: r => Some (Unavailable, r)
  | 2 :: r => Some (OtherFailure, r)
  | _ => None
  end.
(* an event together with the API key of a Call (the model's [event] does not carry it) *)
Definition parse_event (l : list Z) : option ((event * Z) * list Z) :=
  match l with
  | 0 :: id :: key :: r => if (id <? 0) then None else Some ((Call (Z.to_nat id), key), r)
  | 1 :: id :: r => if (id <? 0) then None
                    else match parse_outcome r with
                         | Some (o, r') => Some ((Reply (Z.to_nat id) o, 0), r')
                         | None => None
                         end
  | 2 :: r => Some ((Reset, 0), r)
  | _ => None
  end.

(* ---- flattening of spec results ---- *)
Definition out_list {A} (f : A -> list Z) (l : list A) : list Z := Z.of_nat (length l) :: flat_map f l.

Definition out_pmsg (m : pmsg) : list Z :=
  [p_offset m; p_magic m; p_attr m] ++ match p_ts m with None => [0; 0] | Some t => [1; t] end
  ++ out_olp (p_key m) ++ out_olp (p_value m).
Definition out_smsg (m : smsg) : list Z :=
  match m with
  | SPlain p => 0 :: out_pmsg p
  | SWrap p inner => 1 :: out_pmsg p ++ out_list out_pmsg inner
  end.

Definition out_topics {A} (f : A -> list Z) (ts : list (list Z * list A)) : list Z :=
  out_list (fun t => out_lp (fst t) ++ out_list f (snd t)) ts.

Definition out_body (b : sbody) : list Z :=
  match b with
  | SProduce acks timeout ts => acks :: timeout :: out_topics (fun pm => fst pm :: out_list out_smsg (snd pm)) ts
  | SFetch replica w m ts =>
      replica :: w :: m :: out_topics (fun x => match x with (p, o, mb) => [p; o; mb] end) ts
  | SListOffsets replica ts => replica :: out_topics (fun x => match x with (p, t, n) => [p; t; n] end) ts
  | SMetadata ts => out_list out_lp ts
  | SOffsetCommit g gen m ts =>
      out_lp g ++ gen :: out_lp m
      ++ out_topics (fun x => match x with (p, o, t, md) => [p; o; t] ++ out_olp md end) ts
  | SOffsetFetch g ts => out_lp g ++ out_topics (fun p => [p]) ts
  | SFindCoordinator g => out_lp g
  | SJoinGroup g s m pt ps =>
      out_lp g ++ s :: out_lp m ++ out_lp pt ++ out_list (fun np => out_lp (fst np) ++ out_lp (snd np)) ps
  | SHeartbeat g gen m => out_lp g ++ gen :: out_lp m
  | SLeaveGroup g m => out_lp g ++ out_lp m
  | SSyncGroup g gen m a =>
      out_lp g ++ gen :: out_lp m ++ out_list (fun np => out_lp (fst np) ++ out_lp (snd np)) a
  | SApiVersions => []
  end.

Definition out_sreq (r : option sreq) : list Z :=
  match r with
  | None => [0]
  | Some r => 1 :: (if format_matches_version r then 1 else 0) :: s_key r :: s_version r :: s_correlation r
              :: out_olp (s_client r) ++ out_body (s_body r)
  end.

Definition out_oz (o : option Z) : list Z := match o with Some v => [v] | None => [-1] end.
Definition out_choice (c : choice) : list Z :=
  [ch_produce_arg c; ch_produce_header c] ++ out_oz (ch_produce_decoder c)
  ++ [ch_fetch_arg c; ch_fetch_header c] ++ out_oz (ch_fetch_decoder c) ++ [ch_magic c].

Definition out_cell (st : vstate) : list Z :=
  match st with
  | VUnknown => [0]
  | VFallback => [1]
  | VTable t => [2; table_lookup t PRODUCE_KEY; table_lookup t FETCH_KEY]
  end.

Definition in_waiting (id : nat) (s : cstate) : bool :=
  match find_call id (waiting s) with Some _ => true | None => false end.

Fixpoint key_of (id : nat) (keys : list (nat * Z)) : Z :=
  match keys with [] => 0 | (i, k) :: r => if Nat.eqb i id then k else key_of id r end.

(* one event: new state, what is observed, the keys of the calls seen so far *)
Definition run_event (s : cstate) (keys : list (nat * Z)) (ek : event * Z) : cstate * list (nat * Z) * list Z :=
  let (e, key) := ek in
  let s' := step s e in
  match e with
  | Call id =>
      let keys' := if in_waiting id s then keys else (id, key) :: keys in
      let result := if is_unknown (cell s) then []                    (* the Deferred stays pending *)
                    else out_oz (version_for (cell s') key) in          (* answered at once *)
      (s', keys', out_cell (cell s') ++ result)
  | Reply id o =>
      let result :=
        if in_waiting id s && negb (in_waiting id s') then
          match o with
          | OtherFailure => [-2]
          | _ => out_oz (version_for (cell s') (key_of id keys))
          end
        else [] in
      (s', keys, out_cell (cell s') ++ result)
  | Reset => (s', keys, out_cell (cell s'))
  end.

Fixpoint run_events_obs (s : cstate) (keys : list (nat * Z)) (evs : list (event * Z)) : list Z :=
  match evs with
  | [] => []
  | ek :: r => let '(s', keys', obs) := run_event s keys ek in obs ++ run_events_obs s' keys' r
  end.

Definition out_parts (t : text * list Z) : (text * list Z) := t.

Definition run_case (c : list Z) : list Z :=
  match c with
  | 1 :: r =>
      match parse_hdr r with
      | Some ((cid, corr), key :: ver :: _) => out_bytes (encode_api_versions_request cid corr key ver)
      | _ => bad
      end
  | 2 :: base :: step :: r =>
      match parse_hdr r with
      | Some ((cid, corr), acks :: timeout :: ver :: r1) =>
          match parse_counted parse_produce_payload r1 with
          | Some (ps, _) => out_bytes (encode_produce_request (clock_of base step) cid corr ps acks timeout ver)
          | None => bad
          end
      | _ => bad
      end
  | 3 :: r =>
      match parse_hdr r with
      | Some ((cid, corr), w :: m :: ver :: r1) =>
          match parse_counted parse_fetch_payload r1 with
          | Some (ps, _) => out_bytes (encode_fetch_request cid corr ps w m ver)
          | None => bad
          end
      | _ => bad
      end
  | 4 :: r =>
      match parse_hdr r with
      | Some ((cid, corr), r1) =>
          match parse_counted parse_offset_payload r1 with
          | Some (ps, _) => out_bytes (encode_offset_request cid corr ps)
          | None => bad
          end
      | _ => bad
      end
  | 5 :: r =>
      match parse_hdr r with
      | Some ((cid, corr), r1) =>
          match parse_counted take_olp r1 with
          | Some (ts, _) => out_bytes (encode_metadata_request cid corr ts)
          | None => bad
          end
      | _ => bad
      end
  | 6 :: r =>
      match parse_hdr r with
      | Some ((cid, corr), r1) =>
          match take_olp r1 with
          | Some (g, _) => out_bytes (encode_consumermetadata_request cid corr g)
          | None => bad
          end
      | _ => bad
      end
  | 7 :: r =>
      match parse_hdr r with
      | Some ((cid, corr), r1) =>
          match take_olp r1 with
          | Some (g, gen :: r2) =>
              match take_olp r2 with
              | Some (consumer, r3) =>
                  match parse_counted parse_commit_payload r3 with
                  | Some (ps, _) => out_bytes (encode_offset_commit_request cid corr g gen consumer ps)
                  | None => bad
                  end
              | None => bad
              end
          | _ => bad
          end
      | _ => bad
      end
  | 8 :: r =>
      match parse_hdr r with
      | Some ((cid, corr), r1) =>
          match take_olp r1 with
          | Some (g, r2) =>
              match parse_counted parse_ofetch_payload r2 with
              | Some (ps, _) => out_bytes (encode_offset_fetch_request cid corr g ps)
              | None => bad
              end
          | None => bad
          end
      | _ => bad
      end
  | 9 :: r =>
      match parse_hdr r with
      | Some ((cid, corr), r1) =>
          match take_olp r1 with
          | Some (g, session :: r2) =>
              match take_olp r2 with
              | Some (member, r3) =>
                  match take_olp r3 with
                  | Some (pt, r4) =>
                      match parse_counted parse_pair2 r4 with
                      | Some (ps, _) => out_bytes (encode_join_group_request cid corr (mkJoin g session member pt ps))
                      | None => bad
                      end
                  | None => bad
                  end
              | None => bad
              end
          | _ => bad
          end
      | _ => bad
      end
  | 10 :: r =>
      match parse_hdr r with
      | Some ((cid, corr), r1) =>
          match take_olp r1 with
          | Some (g, r2) =>
              match take_olp r2 with
              | Some (m, _) => out_bytes (encode_leave_group_request cid corr g m)
              | None => bad
              end
          | None => bad
          end
      | _ => bad
      end
  | 11 :: r =>
      match parse_hdr r with
      | Some ((cid, corr), r1) =>
          match take_olp r1 with
          | Some (g, gen :: r2) =>
              match take_olp r2 with
              | Some (m, _) => out_bytes (encode_heartbeat_request cid corr g gen m)
              | None => bad
              end
          | _ => bad
          end
      | _ => bad
      end
  | 12 :: r =>
      match parse_hdr r with
      | Some ((cid, corr), r1) =>
          match take_olp r1 with
          | Some (g, gen :: r2) =>
              match take_olp r2 with
              | Some (m, r3) =>
                  match parse_counted parse_pair2 r3 with
                  | Some (a, _) => out_bytes (encode_sync_group_request cid corr (mkSync g gen m a))
                  | None => bad
                  end
              | None => bad
              end
          | _ => bad
          end
      | _ => bad
      end
  | 13 :: version :: r =>
      match parse_counted take_olp r with
      | Some (subs, r1) =>
          match take_olp r1 with
          | Some (ud, _) => out_bytes (encode_join_group_protocol_metadata version subs ud)
          | None => bad
          end
      | None => bad
      end
  | 14 :: version :: r =>
      match parse_counted parse_topic_parts r with
      | Some (a, r1) =>
          match take_olp r1 with
          | Some (ud, _) => out_bytes (encode_sync_group_member_assignment version a ud)
          | None => bad
          end
      | None => bad
      end
  | 50 :: r =>
      match parse_oracle r with
      | Some (orc, r1) =>
          match take_lp r1 with
          | Some (d, _) => out_sreq (parse_request orc d)
          | None => bad
          end
      | None => bad
      end
  | 51 :: r =>
      match take_lp r with
      | Some (d, _) =>
          match parse_subscription d with
          | Some (v, ts, ud) => 1 :: v :: out_list out_lp ts ++ out_olp ud
          | None => [0]
          end
      | None => bad
      end
  | 52 :: r =>
      match take_lp r with
      | Some (d, _) =>
          match parse_assignment d with
          | Some (v, ts, ud) => 1 :: v :: out_topics (fun p => [p]) ts ++ out_olp ud
          | None => [0]
          end
      | None => bad
      end
  | 60 :: discovery :: r =>
      match parse_counted parse_outcome r with
      | Some (outs, _) =>
          match resolve (init_versions (negb (discovery =? 0))) outs with
          | Pending => [2]
          | Failed => [3]
          | Resolved st => match choose st with Some ch => 1 :: out_choice ch | None => [0] end
          end
      | None => bad
      end
  | 61 :: discovery :: r =>
      match parse_counted parse_event r with
      | Some (evs, _) => run_events_obs (init_c (negb (discovery =? 0))) [] evs
      | None => bad
      end
  | _ => bad
  end.
