(* The encoder-language terms EXPECTED for afkak/kafkacodec.py's request encoders (translator tie of C04).
   Committed; coq/Proofs/EncDSLSound.v proves what each term computes; on every run harness/py2enc.py translates the
   current source again and Coq checks that it gives exactly these terms.  First produced by the translator from
   /repo at e806a41 and reviewed against the source by hand. *)
From Coq Require Import String.
From AV Require Import Base.Util Model.Prim Model.EncDSL Model.EncDSLV.
Open Scope string_scope.

(* _encode_message_header(client_id, correlation_id, request_key, api_version) *)
Definition ast_encode_message_header : prog :=
  [IPack [(Fh, EVar 2); (Fh, EVar 3); (Fi, EVar 1); (Fh, ELen (EVar 0))];
   IRaw (EVar 0)].

(* encode_api_versions_request(client_id, correlation_id, api_version_request) *)
Definition ast_encode_api_versions_request : prog :=
  [IHeader (EVar 0) (EVar 1) (EField (EVar 2) "api_key") (EField (EVar 2) "api_version")].

(* encode_metadata_request(client_id, correlation_id, topics) *)
Definition ast_encode_metadata_request : prog :=
  [IHeader (EVar 0) (EVar 1) (EConst 3) (EConst 0);
   IPack [(Fi, ELen (EVar 2))];
   IFor (EVar 2)
     [IAscii (EVar 3)]].

(* encode_consumermetadata_request(client_id, correlation_id, consumer_group) *)
Definition ast_encode_consumermetadata_request : prog :=
  [IHeader (EVar 0) (EVar 1) (EConst 10) (EConst 0);
   IAscii (EVar 2)].

(* encode_heartbeat_request(client_id, correlation_id, payload) *)
Definition ast_encode_heartbeat_request : prog :=
  [IHeader (EVar 0) (EVar 1) (EConst 12) (EConst 0);
   IText (EField (EVar 2) "group");
   IPack [(Fi, EField (EVar 2) "generation_id")];
   IText (EField (EVar 2) "member_id")].

(* encode_leave_group_request(client_id, correlation_id, payload) *)
Definition ast_encode_leave_group_request : prog :=
  [IHeader (EVar 0) (EVar 1) (EConst 13) (EConst 0);
   IText (EField (EVar 2) "group");
   IText (EField (EVar 2) "member_id")].

(* encode_join_group_request(client_id, correlation_id, payload) *)
Definition ast_encode_join_group_request : prog :=
  [IHeader (EVar 0) (EVar 1) (EConst 11) (EConst 0);
   IText (EField (EVar 2) "group");
   IPack [(Fi, EField (EVar 2) "session_timeout")];
   IText (EField (EVar 2) "member_id");
   IText (EField (EVar 2) "protocol_type");
   IPack [(Fi, ELen (EField (EVar 2) "group_protocols"))];
   IFor (EField (EVar 2) "group_protocols")
     [IAscii (EField (EVar 3) "protocol_name");
      IIntString (EField (EVar 3) "protocol_metadata")]].

(* encode_sync_group_request(client_id, correlation_id, payload) *)
Definition ast_encode_sync_group_request : prog :=
  [IHeader (EVar 0) (EVar 1) (EConst 14) (EConst 0);
   IText (EField (EVar 2) "group");
   IPack [(Fi, EField (EVar 2) "generation_id")];
   IText (EField (EVar 2) "member_id");
   IPack [(Fi, ELen (EField (EVar 2) "group_assignment"))];
   IFor (EField (EVar 2) "group_assignment")
     [IText (EField (EVar 3) "member_id");
      IIntString (EField (EVar 3) "member_metadata")]].

(* encode_join_group_protocol_metadata(version, subscriptions, user_data) *)
Definition ast_encode_join_group_protocol_metadata : prog :=
  [IPack [(Fh, EVar 0); (Fi, ELen (EVar 1))];
   IFor (EVar 1)
     [IText (EVar 3)];
   IIntString (EVar 2)].

(* encode_sync_group_member_assignment(version, assignments, user_data) *)
Definition ast_encode_sync_group_member_assignment : prog :=
  [IPack [(Fh, EVar 0); (Fi, ELen (EVar 1))];
   IFor (EVar 1)
     [IAscii (EIdx (EVar 3) 0);
      IPackStar Fi (EIdx (EVar 3) 1)];
   IIntString (EVar 2)].

(* encode_offset_request(client_id, correlation_id, payloads) *)
Definition ast_encode_offset_request : prog :=
  [IHeader (EVar 0) (EVar 1) (EConst 2) (EConst 0);
   IPack [(Fi, EConst (-1)); (Fi, ELen (EGroup (EVar 2)))];
   IFor (EGroup (EVar 2))
     [IAscii (EIdx (EVar 3) 0);
      IPack [(Fi, ELen (EIdx (EVar 3) 1))];
      IFor (EIdx (EVar 3) 1)
        [IPack [(Fi, EIdx (EVar 4) 0); (Fq, EField (EIdx (EVar 4) 1) "time"); (Fi, EField (EIdx (EVar 4) 1) "max_offsets")]]]].

(* encode_offset_fetch_request(client_id, correlation_id, group, payloads) *)
Definition ast_encode_offset_fetch_request : prog :=
  [IHeader (EVar 0) (EVar 1) (EConst 9) (EConst 1);
   IAscii (EVar 2);
   IPack [(Fi, ELen (EGroup (EVar 3)))];
   IFor (EGroup (EVar 3))
     [IAscii (EIdx (EVar 4) 0);
      IPack [(Fi, ELen (EIdx (EVar 4) 1))];
      IFor (EKeys (EIdx (EVar 4) 1))
        [IPack [(Fi, EVar 5)]]]].

(* encode_offset_commit_request(client_id, correlation_id, group, group_generation_id, consumer_id, payloads) *)
Definition ast_encode_offset_commit_request : prog :=
  [IHeader (EVar 0) (EVar 1) (EConst 8) (EConst 1);
   IAscii (EVar 2);
   IPack [(Fi, EVar 3)];
   IAscii (EVar 4);
   IPack [(Fi, ELen (EGroup (EVar 5)))];
   IFor (EGroup (EVar 5))
     [IAscii (EIdx (EVar 6) 0);
      IPack [(Fi, ELen (EIdx (EVar 6) 1))];
      IFor (EIdx (EVar 6) 1)
        [IPack [(Fi, EIdx (EVar 7) 0); (Fq, EField (EIdx (EVar 7) 1) "offset"); (Fq, EField (EIdx (EVar 7) 1) "timestamp")];
         IShortBytes (EField (EIdx (EVar 7) 1) "metadata")]]].

(* encode_fetch_request(client_id, correlation_id, payloads, max_wait_time, min_bytes, api_version) *)
Definition ast_encode_fetch_request : prog :=
  [IHeader (EVar 0) (EVar 1) (EConst 1) (EIfGe (EVar 5) 2 (EConst 2) (EVar 5));
   IPack [(Fi, EConst (-1)); (Fi, EVar 3); (Fi, EVar 4); (Fi, ELen (EGroup (EVar 2)))];
   IFor (EGroup (EVar 2))
     [IAscii (EIdx (EVar 6) 0);
      IPack [(Fi, ELen (EIdx (EVar 6) 1))];
      IFor (EIdx (EVar 6) 1)
        [IPack [(Fi, EIdx (EVar 7) 0); (Fq, EField (EIdx (EVar 7) 1) "offset"); (Fi, EField (EIdx (EVar 7) 1) "max_bytes")]]]].

(* encode_produce_request(client_id, correlation_id, payloads, acks, timeout, api_version) *)
Definition ast_encode_produce_request : prog :=
  [IHeader (EVar 0) (EVar 1) (EConst 0) (EIfGe (EVar 5) 2 (EConst 2) (EVar 5));
   IPack [(Fh, EVar 3); (Fi, EVar 4); (Fi, ELen (EGroup (EVar 2)))];
   IFor (EGroup (EVar 2))
     [IAscii (EIdx (EVar 6) 0);
      IPack [(Fi, ELen (EIdx (EVar 6) 1))];
      IFor (EIdx (EVar 6) 1)
        [ILetMsgSet (EField (EIdx (EVar 7) 1) "messages") (EIfGe (EVar 5) 2 (EConst 1) (EConst 0))
           [IPack [(Fi, EIdx (EVar 7) 0); (Fi, ELen (EVar 8))];
            IRaw (EVar 8)]]]].

(* _encode_message_set(messages, offset, magic) *)
Definition ast_encode_message_set : prog :=
  [IForIdx (EVar 0)
     [ICond (CEq (EVar 2) 0)
        [ILetMessage (EVar 4)
           [IPack [(Fq, EAdd (EIfNone (EVar 1) (EConst 0) (EVar 1)) (EMul (EVar 3) (EIfNone (EVar 1) (EConst 0) (EConst 1)))); (Fi, ELen (EVar 5))];
            IRaw (EVar 5)]]
        [ICond (CEq (EVar 2) 1)
           [ILetMessage (EVar 4)
              [IPack [(Fq, EAdd (EIfNone (EVar 1) (EConst 0) (EVar 1)) (EMul (EVar 3) (EIfNone (EVar 1) (EConst 0) (EConst 1)))); (Fi, ELen (EVar 5))];
               IRaw (EVar 5)]]
           [IRaise NameErr]]]].

(* _encode_message(message) *)
Definition ast_encode_message : prog :=
  [ICond (CEq (EField (EVar 0) "magic") 0)
     [ICrc
        [IPack [(FB, EField (EVar 0) "magic"); (FB, EField (EVar 0) "attributes")];
         IIntString (EField (EVar 0) "key");
         IIntString (EField (EVar 0) "value")]]
     [ICond (CEq (EField (EVar 0) "magic") 1)
        [ICond (CIsNone (EField (EVar 0) "timestamp"))
           [ILetNow
              [ICrc
                 [IPack [(FB, EField (EVar 0) "magic"); (FB, EField (EVar 0) "attributes"); (Fq, EVar 1)];
                  IIntString (EField (EVar 0) "key");
                  IIntString (EField (EVar 0) "value")]]]
           [ICrc
              [IPack [(FB, EField (EVar 0) "magic"); (FB, EField (EVar 0) "attributes"); (Fq, EField (EVar 0) "timestamp")];
               IIntString (EField (EVar 0) "key");
               IIntString (EField (EVar 0) "value")]]]
        [IRaise Protocol]]].

(* create_message(payload, key, magic) *)
Definition ast_create_message : vprog :=
  (VCond (CEq (EVar 2) 1)
    (VLetNow
      (VRet (XMessage (EVar 2) (EConst 0) (EVar 1) (EVar 0) (EVar 3))))
    (VRet (XMessage (EVar 2) (EConst 0) (EVar 1) (EVar 0) (ENone)))).

(* create_gzip_message(message_set, magic) *)
Definition ast_create_gzip_message : vprog :=
  (VLetMsgSet (EVar 0)
    (VLetCodec 1 (EVar 2)
      (VCond (CEq (EVar 1) 1)
        (VLetNow
          (VRet (XMessage (EVar 1) (EConst 1) (ENone) (EVar 3) (EVar 4))))
        (VRet (XMessage (EVar 1) (EConst 1) (ENone) (EVar 3) (ENone)))))).

(* create_snappy_message(message_set, magic) *)
Definition ast_create_snappy_message : vprog :=
  (VLetMsgSet (EVar 0)
    (VLetCodec 2 (EVar 2)
      (VCond (CEq (EVar 1) 1)
        (VLetNow
          (VRet (XMessage (EVar 1) (EConst 2) (ENone) (EVar 3) (EVar 4))))
        (VRet (XMessage (EVar 1) (EConst 2) (ENone) (EVar 3) (ENone)))))).

(* create_message_set(requests, codec, magic) *)
Definition ast_create_message_set : vprog :=
  (VLetBuild (EVar 0)
    [BCond (CEq (EVar 2) 1)
       [BExtendCreate (EField (EVar 3) "messages") (EVar 4) (EField (EVar 3) "key") (EConst 1)]
       [BExtendCreate (EField (EVar 3) "messages") (EVar 4) (EField (EVar 3) "key") (EConst 0)]]
    (VCond (CEq (EVar 1) 0)
      (VRet (XE (EVar 3)))
      (VCond (CEq (EVar 1) 1)
        (VLetWrapper 1 (EVar 3) (EVar 2)
          (VRet (XList1 (XE (EVar 4)))))
        (VCond (CEq (EVar 1) 2)
          (VLetWrapper 2 (EVar 3) (EVar 2)
            (VRet (XList1 (XE (EVar 4)))))
          (VRaise Unsupported))))).
