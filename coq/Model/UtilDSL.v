(* A small deep-embedded language for afkak/_util.py - the wire readers and writers every codec model rests on - and its
   interpreter (translator tie of property C12, DESIGN.md 10.2b, tie A).

   harness/py2util.py SYMBOLICALLY EXECUTES the source of each function on every run and emits a term of [tree]:
     * parameters are levels 0, 1, ..; each operation that can raise ([op]) is a [TBind] node at the point where it is
       evaluated and binds the next level; everything pure is an expression [ex] substituted where it is used (local names,
       helper functions, module constants, if/elif/else shapes do not exist in a term);
     * integers are linear forms  c + sum k_i * atom_i  ([ELin]), comparisons are  0 < form  ([CPos]) or  form = 0
       ([CZero]).
   coq/Model/UtilAst.v holds the expected term per function, coq/Proofs/UtilDSLSound.v proves once per function that
   running it is the corresponding function of Model/Prim.v (for all arguments); the per-run obligation is
   gen_f = ast_f (syntactic equality, by computation).

   What the constructors MEAN is fixed here in terms of Model.Prim ([pack_list], [unpack], the UTF-8 / ASCII validity
   predicates); struct.unpack of an n-field format is n single-field [Prim.unpack]s, failing with struct.error unless the
   buffer is consumed exactly.  A value of the wrong kind in an expression (slicing an integer, len of None...) is
   Err TypeErr: argument TYPES are outside the model as in Model/Prim.v. *)
From Coq Require Import String.
From AV Require Import Base.Util Model.Partitioner Model.Prim Model.Requests.

Inductive val :=
| VNone
| VInt (z : Z)
| VBytes (b : list Z)          (* bytes *)
| VText (cps : list Z)         (* str given by the caller: its code points (argument of the writers) *)
| VStr (b : list Z)            (* str produced by bytes.decode: represented by the bytes it was decoded from, as in Model.Prim *)
| VFmt (fs : list ifmt)        (* a struct format ">..." *)
| VTup (l : list val).

Inductive ucodec := Ascii | Utf8.

Inductive ex :=
| EVar (level : nat)
| ENone
| EBytes (b : list Z)
| EFmt (fs : list ifmt)
| ELin (c : Z) (ts : list (Z * ex))     (* c + sum k * atom;  atoms: EVar / ELen / ECalc / EIdx *)
| ELen (e : ex)
| ECalc (e : ex)                        (* struct.calcsize *)
| EIdx (e : ex) (i : nat)
| ESlice (e lo hi : ex)
| ECat (a b : ex)
| ETup (l : list ex).

Inductive cond := CIsNone (e : ex) | CPos (e : ex) | CZero (e : ex).

Inductive op :=
| OPack (fields : list (ifmt * ex))     (* struct.pack(">...", ...) *)
| OUnpack (fmt e : ex)                  (* struct.unpack(fmt, e) *)
| OEncode (c : ucodec) (e : ex)         (* e.encode(c) *)
| ODecode (c : ucodec) (e : ex).        (* e.decode(c) *)

Inductive tree :=
| TRet (e : ex)
| TRaise (k : err)
| TIf (c : cond) (a b : tree)
| TBind (o : op) (t : tree).

(* ---- struct ---- *)
Definition calcsize (fs : list ifmt) : Z := fold_right (fun f n => Z.of_nat (fmt_size f) + n) 0 fs.

(* the fields one after the other *)
Fixpoint unpack_seq (fs : list ifmt) (data : list Z) : res (list Z * list Z) :=
  match fs with
  | [] => Ok ([], data)
  | f :: r => do (v, d1) <- unpack f data; do (vs, d2) <- unpack_seq r d1; Ok (v :: vs, d2)
  end.

(* struct.unpack(fmt, b): struct.error unless b is exactly calcsize(fmt) bytes *)
Definition struct_unpack (fs : list ifmt) (b : list Z) : res (list Z) :=
  match unpack_seq fs b with
  | Ok (vs, []) => Ok vs
  | _ => Err StructErr
  end.

(* b[lo:hi] for non-negative indices *)
Definition slice (b : list Z) (lo hi : Z) : option (list Z) :=
  if (lo <? 0) || (hi <? 0) then None
  else Some (take (Z.to_nat (hi - lo)) (drop (Z.to_nat lo) b)).

(* ---- expressions ---- *)
Fixpoint eval (env : list val) (e : ex) {struct e} : option val :=
  match e with
  | EVar n => nth_error env n
  | ENone => Some VNone
  | EBytes b => Some (VBytes b)
  | EFmt fs => Some (VFmt fs)
  | ELin c ts =>
      (fix go (ts : list (Z * ex)) : option val :=
         match ts with
         | [] => Some (VInt c)
         | (k, a) :: r => match eval env a, go r with
                          | Some (VInt z), Some (VInt s) => Some (VInt (k * z + s))
                          | _, _ => None
                          end
         end) ts
  | ELen e => match eval env e with
              | Some (VBytes b) => Some (VInt (len b))
              | Some (VText b) => Some (VInt (len b))
              | Some (VStr b) => Some (VInt (len b))
              | _ => None
              end
  | ECalc e => match eval env e with Some (VFmt fs) => Some (VInt (calcsize fs)) | _ => None end
  | EIdx e i => match eval env e with Some (VTup l) => nth_error l i | _ => None end
  | ESlice e lo hi =>
      match eval env e, eval env lo, eval env hi with
      | Some (VBytes b), Some (VInt l), Some (VInt h) =>
          match slice b l h with Some s => Some (VBytes s) | None => None end
      | _, _, _ => None
      end
  | ECat a b => match eval env a, eval env b with
                | Some (VBytes x), Some (VBytes y) => Some (VBytes (x ++ y))
                | _, _ => None
                end
  | ETup l =>
      (fix go (l : list ex) : option val :=
         match l with
         | [] => Some (VTup [])
         | x :: r => match eval env x, go r with
                     | Some v, Some (VTup vs) => Some (VTup (v :: vs))
                     | _, _ => None
                     end
         end) l
  end.

Definition eval_cond (env : list val) (c : cond) : option bool :=
  match c with
  | CIsNone e => match eval env e with Some VNone => Some true | Some _ => Some false | None => None end
  | CPos e => match eval env e with Some (VInt z) => Some (0 <? z) | _ => None end
  | CZero e => match eval env e with Some (VInt z) => Some (z =? 0) | _ => None end
  end.

Fixpoint eval_fields (env : list val) (fs : list (ifmt * ex)) : res (list (ifmt * Z)) :=
  match fs with
  | [] => Ok []
  | (f, e) :: r => match eval env e with
                   | Some (VInt z) => do t <- eval_fields env r; Ok ((f, z) :: t)
                   | _ => Err TypeErr
                   end
  end.

Definition run_op (env : list val) (o : op) : res val :=
  match o with
  | OPack fs => do zs <- eval_fields env fs; do b <- pack_list zs; Ok (VBytes b)
  | OUnpack fmt e =>
      match eval env fmt, eval env e with
      | Some (VFmt fs), Some (VBytes b) => do vs <- struct_unpack fs b; Ok (VTup (map VInt vs))
      | _, _ => Err TypeErr
      end
  | OEncode c e =>
      match eval env e with
      | Some (VText cps) =>
          match c with
          | Ascii => if ascii_cps cps then Ok (VBytes cps) else Err UnicodeErr
          | Utf8 => match utf8 cps with Some b => Ok (VBytes b) | None => Err UnicodeErr end
          end
      | Some VNone => Err AttrErr
      | _ => Err TypeErr
      end
  | ODecode c e =>
      match eval env e with
      | Some (VBytes b) =>
          if (match c with Ascii => ascii_valid b | Utf8 => utf8_valid b end) then Ok (VStr b) else Err UnicodeErr
      | Some VNone => Err AttrErr
      | _ => Err TypeErr
      end
  end.

Fixpoint run (t : tree) (env : list val) : res val :=
  match t with
  | TRet e => match eval env e with Some v => Ok v | None => Err TypeErr end
  | TRaise k => Err k
  | TIf c a b => match eval_cond env c with
                 | Some true => run a env
                 | Some false => run b env
                 | None => Err TypeErr
                 end
  | TBind o t => match run_op env o with Ok v => run t (env ++ [v]) | Err e => Err e end
  end.

(* ---- the one dict-building loop of the module: group_by_topic_and_partition.  The translator recognises the loop
   `out = defaultdict(dict); for t in tuples: out[t.A][t.B] = t; return out` as a whole (or refuses) and reports the two
   attribute names; its meaning is Model.Requests.group_by_topic_and_partition (Python's dict update rule, insertion
   order) over records given as field lists *)
Inductive gprog := UGroupBy (outer inner : string).

Inductive fval := FText (t : option (list Z)) | FInt (z : Z).
Definition record : Type := list (string * fval).

Fixpoint rfield (name : string) (r : record) : option fval :=
  match r with
  | [] => None
  | (n, v) :: t => if String.eqb n name then Some v else rfield name t
  end.
Definition rtext (name : string) (r : record) : option (list Z) :=
  match rfield name r with Some (FText t) => t | _ => None end.
Definition rint (name : string) (r : record) : Z :=
  match rfield name r with Some (FInt z) => z | _ => 0 end.

Definition grun (g : gprog) (l : list record) : list (option (list Z) * list (Z * record)) :=
  match g with UGroupBy a b => group_by_topic_and_partition (rtext a) (rint b) l end.
