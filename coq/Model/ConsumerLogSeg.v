(* Specification vocabulary for C02 / C03, third part (definitions only): the delivered stream against the partition
   log (monitor LOG) and the resume position.  See Model/ConsumerLog.v, Model/ConsumerLogFifo.v. *)
From AV Require Import Base.Util Model.Consumer Model.ConsumerLog Model.ConsumerLogFifo.

(* the fetch offset as it will be once the parked reply (if any) has been extracted *)
Definition nxt (s : state) : Z :=
  match s_mblock s with Some (Some (offs, _)) => snd (extract (s_foff s) offs) | _ => s_foff s end.
