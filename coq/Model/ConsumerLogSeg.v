(* Specification vocabulary for C02 / C03, third part (definitions only): the delivered stream against the partition
   log (monitor LOG) and the resume position.  See Model/ConsumerLog.v, Model/ConsumerLogFifo.v. *)
From AV Require Import Base.Util Model.Consumer Model.ConsumerLog Model.ConsumerLogFifo.

(* the fetch offset as it will be once the parked reply (if any) has been extracted *)
Definition nxt (s : state) : Z :=
  match s_mblock s with Some (Some (offs, _)) => snd (extract (s_foff s) offs) | _ => s_foff s end.

(* which request a reply event answers (cf. success_reply / start_accepted in Model/Consumer.v) *)
Definition offset_accepted (s : state) : bool :=
  match s_req s with Some (k, false) => (k =? R_OFFREQ) || (k =? R_OFFFETCH) | _ => false end.
(* a failed fetch that makes the consumer re-resolve its position: OffsetOutOfRange with an auto_offset_reset policy *)
Definition oor_reset (s : state) (fk : Z) : bool := fetch_accepted s && is_oor fk && is_some (reset_off (s_cf s)).
(* the events that make the consumer send a request: an accepted start(), an accepted offset reply, the refetch timer *)
Definition fetching_ev (e : event) (s : state) : bool :=
  match e with
  | EStart _ => is_none (s_startd s)
  | EReqOk _ => offset_accepted s
  | EFireRetry => rcall_active s
  | _ => false
  end.
Definition is_fetch_out (o : output) : bool := match o with OFetch _ _ => true | _ => false end.

(* ---------- monitor LOG: what reaches the processor against the partition log ----------
   It looks at the offsets the consumer ASKS for (OFetch off), never at the model's fetch offset.
   The position is (re)resolved - the only permitted discontinuities - by an accepted start(), by an accepted reply
   to an offset / offset-fetch request, and by an OffsetOutOfRange failure under a reset policy; from then on
   * every fetch request must ask for exactly the offset at which the extraction of the previous accepted reply
     ended (l_nx): VIOLATION otherwise (a gap or a re-read);
   * an accepted reply to the request for offset l_last contributes  fst (extract l_last offs)  (l_E, and FIFO's l_g);
   * the processor must be handed non-empty prefixes of what was extracted and not yet handed on (monitor FIFO).
   l_E is what was extracted since the last resolution (the current segment, which began at offset l_st), l_old what
   was extracted before it since the accepted start(), l_D what the processor has received since that start(). *)
Record glog := mkL {
  l_last : Z;            (* offset of the last fetch request sent *)
  l_nx : option Z;       (* next unread offset; None: the position has just been (re)resolved *)
  l_st : Z;              (* offset of the first fetch request answered since the last resolution *)
  l_E : list Z;
  l_old : list Z;
  l_g : list Z;
  l_D : list Z
}.
Definition log0 : glog := mkL 0 None 0 [] [] [] [].

Definition log_ev (gh : glog) (s : state) (e : event) : glog :=
  match e with
  | EStart _ => if is_none (s_startd s) then mkL (l_last gh) None 0 [] [] [] [] else gh
  | EReqOk _ => if offset_accepted s then mkL (l_last gh) None (l_st gh) (l_E gh) (l_old gh) (l_g gh) (l_D gh) else gh
  | EReqFail fk => if oor_reset s fk then mkL (l_last gh) None (l_st gh) (l_E gh) (l_old gh) (l_g gh) (l_D gh) else gh
  | EFetchOk offs _ =>
    if fetch_accepted s then
      let x := extract (l_last gh) offs in
      match l_nx gh with
      | Some _ => mkL (l_last gh) (Some (snd x)) (l_st gh) (l_E gh ++ fst x) (l_old gh) (l_g gh ++ fst x) (l_D gh)
      | None => mkL (l_last gh) (Some (snd x)) (l_last gh) (fst x) (l_old gh ++ l_E gh) (l_g gh ++ fst x) (l_D gh)
      end
    else gh
  | _ => gh
  end.

Definition log_out (gh : glog) (o : output) : option glog :=
  match o with
  | OFetch off _ =>
    match l_nx gh with
    | Some n => if off =? n then Some (mkL off (l_nx gh) (l_st gh) (l_E gh) (l_old gh) (l_g gh) (l_D gh))
                else None                                  (* VIOLATION: the consumer asks for another offset than the next unread *)
    | None => Some (mkL off (l_nx gh) (l_st gh) (l_E gh) (l_old gh) (l_g gh) (l_D gh))
    end
  | OCallProc blk =>
    match fifo_out (l_g gh) o with
    | Some g' => Some (mkL (l_last gh) (l_nx gh) (l_st gh) (l_E gh) (l_old gh) g' (l_D gh ++ blk))
    | None => None                                         (* VIOLATION: gap, repeat, reordering *)
    end
  | _ => Some gh
  end.

(* the honest broker along a run: every accepted fetch reply is an honest answer (Model/ConsumerLog.v) to the offset
   the last fetch request asked for *)
Definition last_fetch (last : Z) (o : list output) : Z :=
  fold_left (fun a x => match x with OFetch off _ => off | _ => a end) o last.
Fixpoint honest_run (log : list Z) (last : Z) (tr : list tstep) : Prop :=
  match tr with
  | [] => True
  | (s, e, o, _) :: r =>
    match e with EFetchOk offs _ => fetch_accepted s = true -> honest log last offs | _ => True end
    /\ honest_run log (last_fetch last o) r
  end.

(* what LOG establishes when it accepts a run answered honestly from [log] *)
Definition log_ok (log : list Z) (gh : glog) : Prop :=
  l_D gh ++ l_g gh = l_old gh ++ l_E gh
  /\ forall n, l_nx gh = Some n -> l_st gh <= n /\ l_E gh = seg (l_st gh) n log.
