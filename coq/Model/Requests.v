(* M2: afkak's request ENCODERS.
     afkak/_util.py:209-213          group_by_topic_and_partition
     afkak/kafkacodec.py:266-286     KafkaCodec._encode_message_header
     afkak/kafkacodec.py:476-488     encode_api_versions_request
     afkak/kafkacodec.py:524-582     encode_produce_request      (message sets: Model.MsgSet.encode_message_set)
     afkak/kafkacodec.py:640-686     encode_fetch_request
     afkak/kafkacodec.py:718-745     encode_offset_request
     afkak/kafkacodec.py:770-788     encode_metadata_request
     afkak/kafkacodec.py:841-852     encode_consumermetadata_request
     afkak/kafkacodec.py:867-910     encode_offset_commit_request
     afkak/kafkacodec.py:930-955     encode_offset_fetch_request
     afkak/kafkacodec.py:979-1008    encode_join_group_request, encode_join_group_protocol_metadata
     afkak/kafkacodec.py:1046-1058   encode_leave_group_request
     afkak/kafkacodec.py:1070-1084   encode_heartbeat_request
     afkak/kafkacodec.py:1096-1139   encode_sync_group_request, encode_sync_group_member_assignment
   as the code is NOW (after fix 3e08fad: ApiVersions v0 has no body and carries the supplied header version).

   Conventions (Model.Prim): bytes = list Z; text (Python str) = list of code points; None = Python None.
   Every encoder returns [res (list Z)]: [Err e] = the exception the Python function raises
   (StructErr = struct.error for an out-of-range integer or a string longer than 32767 bytes,
    UnicodeErr = UnicodeEncodeError from str.encode, Protocol / NameErr from the message encoders).
   Statements are transcribed in the order Python executes them, so that the FIRST failing statement decides the
   error kind, as in Python.

   Outside the model: argument types (the isinstance / assert guards: client_id must be bytes, consumer_id not
   None, max_wait_time an int), i.e. the model's argument types are the documented ones; dict keys that compare
   equal across types (1 == 1.0 == True). *)
From AV Require Import Base.Util Model.Prim Model.Crc Model.MsgSet.

Definition text : Type := option (list Z).          (* Optional[str] as code points *)
Definition obytes : Type := option (list Z).        (* Optional[bytes] *)

(* API keys, kafkacodec.py:136-152 *)
Definition PRODUCE_KEY : Z := 0.
Definition FETCH_KEY : Z := 1.
Definition OFFSET_KEY : Z := 2.
Definition METADATA_KEY : Z := 3.
Definition OFFSET_COMMIT_KEY : Z := 8.
Definition OFFSET_FETCH_KEY : Z := 9.
Definition CONSUMER_METADATA_KEY : Z := 10.
Definition JOIN_GROUP_KEY : Z := 11.
Definition HEARTBEAT_KEY : Z := 12.
Definition LEAVE_GROUP_KEY : Z := 13.
Definition SYNC_GROUP_KEY : Z := 14.
Definition API_VERSIONS_KEY : Z := 18.

Definition llen {A} (l : list A) : Z := Z.of_nat (length l).     (* Python len() of any list / dict *)

(* concatenation of the encodings of a list, left to right: the `for x in xs: message += enc(x)` loops *)
Fixpoint enc_all {A} (enc : A -> res (list Z)) (xs : list A) : res (list Z) :=
  match xs with
  | [] => Ok []
  | x :: r => do a <- enc x; do b <- enc_all enc r; Ok (a ++ b)
  end.

(* ------------------------------------------------------------------ _util.py:209-213
     out = collections.defaultdict(dict)
     for t in tuples: out[t.topic][t.partition] = t
   Python dicts keep INSERTION order and `d[k] = v` on an existing key replaces the value IN PLACE.  Hence:
     * topics appear in the order of their first occurrence in the payload list,
     * within a topic, partitions appear in the order of their first occurrence,
     * of several payloads with the same (topic, partition) only the LAST survives, at the position of the first.
   [aset] is one `d[k] = f(d.get(k))` on an association list with that behaviour. *)
Fixpoint aset {K V} (eqb : K -> K -> bool) (k : K) (f : option V -> V) (l : list (K * V)) : list (K * V) :=
  match l with
  | [] => [(k, f None)]
  | (k', v') :: r => if eqb k' k then (k', f (Some v')) :: r else (k', v') :: aset eqb k f r
  end.

Definition text_eqb (a b : text) : bool :=
  match a, b with
  | None, None => true
  | Some x, Some y => zlist_eqb x y
  | _, _ => false
  end.

Definition group_step {P} (topic : P -> text) (part : P -> Z) (out : list (text * list (Z * P))) (t : P)
  : list (text * list (Z * P)) :=
  aset text_eqb (topic t)
       (fun inner => aset Z.eqb (part t) (fun _ => t) (match inner with Some i => i | None => [] end)) out.

Definition group_by_topic_and_partition {P} (topic : P -> text) (part : P -> Z) (ps : list P)
  : list (text * list (Z * P)) :=
  fold_left (group_step topic part) ps [].

(* ------------------------------------------------------------------ kafkacodec.py:266-286
   struct.pack(">hhih", request_key, api_version, correlation_id, len(client_id)) + client_id *)
Definition encode_message_header (client_id : list Z) (correlation_id request_key api_version : Z) : res (list Z) :=
  do h <- pack_list [(Fh, request_key); (Fh, api_version); (Fi, correlation_id); (Fh, len client_id)];
  Ok (h ++ client_id).

(* ------------------------------------------------------------------ kafkacodec.py:476-488
   ApiVersionRequest = (api_key, api_version); the key in the header is the one of the ApiVersionRequest *)
Definition encode_api_versions_request (client_id : list Z) (correlation_id : Z) (api_key api_version : Z)
  : res (list Z) :=
  encode_message_header client_id correlation_id api_key api_version.

(* ------------------------------------------------------------------ kafkacodec.py:524-582 *)
Record produce_payload := mkProduce { pr_topic : text; pr_partition : Z; pr_messages : list message }.

(* kafkacodec.py:559-565: the version written in the header, and the `magic` handed to _encode_message_set
   (which only decides between "encode" and UnboundLocalError: each message is encoded in ITS OWN format) *)
Definition produce_header_version (api_version : Z) : Z := if (2 <=? api_version) then 2 else api_version.
Definition produce_magic (api_version : Z) : Z := if (2 <=? api_version) then 1 else 0.

(* [clock]/[k]: readings of time.time() for magic-1 messages without a timestamp, in encoding order *)
Fixpoint encode_produce_partitions (clock : nat -> Z) (k : nat) (magic : Z) (ps : list (Z * produce_payload))
  : res (list Z) :=
  match ps with
  | [] => Ok []
  | (partition, payload) :: r =>
      do ms <- encode_message_set clock k (pr_messages payload) None magic;      (* :578 *)
      do ph <- pack_list [(Fi, partition); (Fi, len ms)];                         (* :579 *)
      do t <- encode_produce_partitions clock (k + clock_uses (pr_messages payload))%nat magic r;
      Ok (ph ++ ms ++ t)
  end.

Definition topic_clock_uses (ps : list (Z * produce_payload)) : nat :=
  fold_right (fun pp n => (clock_uses (pr_messages (snd pp)) + n)%nat) O ps.

Fixpoint encode_produce_topics (clock : nat -> Z) (k : nat) (magic : Z)
         (ts : list (text * list (Z * produce_payload))) : res (list Z) :=
  match ts with
  | [] => Ok []
  | (topic, topic_payloads) :: r =>
      do n <- write_short_ascii topic;                                            (* :574 *)
      do c <- pack Fi (llen topic_payloads);                                       (* :576 *)
      do ps <- encode_produce_partitions clock k magic topic_payloads;
      do t <- encode_produce_topics clock (k + topic_clock_uses topic_payloads)%nat magic r;
      Ok (n ++ c ++ ps ++ t)
  end.

Definition encode_produce_request (clock : nat -> Z) (client_id : list Z) (correlation_id : Z)
           (payloads : list produce_payload) (acks timeout api_version : Z) : res (list Z) :=
  let grouped := group_by_topic_and_partition pr_topic pr_partition payloads in
  do h <- encode_message_header client_id correlation_id PRODUCE_KEY (produce_header_version api_version);
  do b <- pack_list [(Fh, acks); (Fi, timeout); (Fi, llen grouped)];               (* :571 *)
  do t <- encode_produce_topics clock O (produce_magic api_version) grouped;
  Ok (h ++ b ++ t).

(* ------------------------------------------------------------------ kafkacodec.py:640-686 *)
Record fetch_payload := mkFetch { fe_topic : text; fe_partition : Z; fe_offset : Z; fe_max_bytes : Z }.

Definition fetch_header_version (api_version : Z) : Z := if (2 <=? api_version) then 2 else api_version.

(* the shape shared by every "grouped payloads" body: topic name, partition count, per-partition fields *)
Definition encode_topics {P} (enc_part : Z * P -> res (list Z)) (grouped : list (text * list (Z * P)))
  : res (list Z) :=
  enc_all (fun tp => do n <- write_short_ascii (fst tp);
                     do c <- pack Fi (llen (snd tp));
                     do ps <- enc_all enc_part (snd tp);
                     Ok (n ++ c ++ ps)) grouped.

Definition encode_fetch_request (client_id : list Z) (correlation_id : Z) (payloads : list fetch_payload)
           (max_wait_time min_bytes api_version : Z) : res (list Z) :=
  let grouped := group_by_topic_and_partition fe_topic fe_partition payloads in
  do h <- encode_message_header client_id correlation_id FETCH_KEY (fetch_header_version api_version);
  do b <- pack_list [(Fi, -1); (Fi, max_wait_time); (Fi, min_bytes); (Fi, llen grouped)];   (* :678, -1 = replica id *)
  do t <- encode_topics (fun pp => pack_list [(Fi, fst pp); (Fq, fe_offset (snd pp)); (Fi, fe_max_bytes (snd pp))])
                        grouped;                                                         (* :684 *)
  Ok (h ++ b ++ t).

(* ------------------------------------------------------------------ kafkacodec.py:718-745 *)
Record offset_payload := mkOffset { of_topic : text; of_partition : Z; of_time : Z; of_max_offsets : Z }.

Definition encode_offset_request (client_id : list Z) (correlation_id : Z) (payloads : list offset_payload)
  : res (list Z) :=
  let grouped := group_by_topic_and_partition of_topic of_partition payloads in
  do h <- encode_message_header client_id correlation_id OFFSET_KEY 0;
  do b <- pack_list [(Fi, -1); (Fi, llen grouped)];                                       (* :736 *)
  do t <- encode_topics (fun pp => pack_list [(Fi, fst pp); (Fq, of_time (snd pp)); (Fi, of_max_offsets (snd pp))])
                        grouped;                                                         (* :743 *)
  Ok (h ++ b ++ t).

(* ------------------------------------------------------------------ kafkacodec.py:770-788 *)
Definition encode_metadata_request (client_id : list Z) (correlation_id : Z) (topics : list text) : res (list Z) :=
  do h <- encode_message_header client_id correlation_id METADATA_KEY 0;
  do c <- pack Fi (llen topics);
  do t <- enc_all write_short_ascii topics;
  Ok (h ++ c ++ t).

(* ------------------------------------------------------------------ kafkacodec.py:841-852 *)
Definition encode_consumermetadata_request (client_id : list Z) (correlation_id : Z) (consumer_group : text)
  : res (list Z) :=
  do h <- encode_message_header client_id correlation_id CONSUMER_METADATA_KEY 0;
  do g <- write_short_ascii consumer_group;
  Ok (h ++ g).

(* ------------------------------------------------------------------ kafkacodec.py:867-910 (OffsetCommit v1) *)
Record commit_payload := mkCommit { co_topic : text; co_partition : Z; co_offset : Z; co_timestamp : Z;
                                    co_metadata : obytes }.

Definition encode_offset_commit_request (client_id : list Z) (correlation_id : Z) (group : text)
           (group_generation_id : Z) (consumer_id : text) (payloads : list commit_payload) : res (list Z) :=
  let grouped := group_by_topic_and_partition co_topic co_partition payloads in
  do h <- encode_message_header client_id correlation_id OFFSET_COMMIT_KEY 1;
  do g <- write_short_ascii group;                                                       (* :897 *)
  do gen <- pack Fi group_generation_id;                                                 (* :898 *)
  do cn <- write_short_ascii consumer_id;                                                (* :899 *)
  do c <- pack Fi (llen grouped);                                                         (* :900 *)
  do t <- encode_topics (fun pp => do f <- pack_list [(Fi, fst pp); (Fq, co_offset (snd pp)); (Fq, co_timestamp (snd pp))];
                                   do m <- write_short_bytes (co_metadata (snd pp));     (* :907-908 *)
                                   Ok (f ++ m)) grouped;
  Ok (h ++ g ++ gen ++ cn ++ c ++ t).

(* ------------------------------------------------------------------ kafkacodec.py:930-955 (OffsetFetch v1) *)
Record ofetch_payload := mkOFetch { og_topic : text; og_partition : Z }.

Definition encode_offset_fetch_request (client_id : list Z) (correlation_id : Z) (group : text)
           (payloads : list ofetch_payload) : res (list Z) :=
  let grouped := group_by_topic_and_partition og_topic og_partition payloads in
  do h <- encode_message_header client_id correlation_id OFFSET_FETCH_KEY 1;
  do g <- write_short_ascii group;
  do c <- pack Fi (llen grouped);
  do t <- encode_topics (fun pp => pack Fi (fst pp)) grouped;                            (* :952-953: the dict KEYS *)
  Ok (h ++ g ++ c ++ t).

(* ------------------------------------------------------------------ kafkacodec.py:979-1008 *)
Record join_group_request := mkJoin { jg_group : text; jg_session_timeout : Z; jg_member_id : text;
                                      jg_protocol_type : text; jg_protocols : list (text * obytes) }.

Definition encode_join_group_request (client_id : list Z) (correlation_id : Z) (p : join_group_request)
  : res (list Z) :=
  do h <- encode_message_header client_id correlation_id JOIN_GROUP_KEY 0;
  do g <- write_short_text (jg_group p);
  do s <- pack Fi (jg_session_timeout p);
  do m <- write_short_text (jg_member_id p);
  do pt <- write_short_text (jg_protocol_type p);
  do c <- pack Fi (llen (jg_protocols p));
  do ps <- enc_all (fun gp => do n <- write_short_ascii (fst gp);
                              do md <- write_int_string (snd gp);
                              Ok (n ++ md)) (jg_protocols p);
  Ok (h ++ g ++ s ++ m ++ pt ++ c ++ ps).

Definition encode_join_group_protocol_metadata (version : Z) (subscriptions : list text) (user_data : obytes)
  : res (list Z) :=
  do h <- pack_list [(Fh, version); (Fi, llen subscriptions)];
  do s <- enc_all write_short_text subscriptions;
  do u <- write_int_string user_data;
  Ok (h ++ s ++ u).

(* ------------------------------------------------------------------ kafkacodec.py:1046-1058 *)
Definition encode_leave_group_request (client_id : list Z) (correlation_id : Z) (group member_id : text)
  : res (list Z) :=
  do h <- encode_message_header client_id correlation_id LEAVE_GROUP_KEY 0;
  do g <- write_short_text group;
  do m <- write_short_text member_id;
  Ok (h ++ g ++ m).

(* ------------------------------------------------------------------ kafkacodec.py:1070-1084 *)
Definition encode_heartbeat_request (client_id : list Z) (correlation_id : Z) (group : text) (generation_id : Z)
           (member_id : text) : res (list Z) :=
  do h <- encode_message_header client_id correlation_id HEARTBEAT_KEY 0;
  do g <- write_short_text group;
  do gen <- pack Fi generation_id;
  do m <- write_short_text member_id;
  Ok (h ++ g ++ gen ++ m).

(* ------------------------------------------------------------------ kafkacodec.py:1096-1139 *)
Record sync_group_request := mkSync { sg_group : text; sg_generation_id : Z; sg_member_id : text;
                                      sg_assignment : list (text * obytes) }.

Definition encode_sync_group_request (client_id : list Z) (correlation_id : Z) (p : sync_group_request)
  : res (list Z) :=
  do h <- encode_message_header client_id correlation_id SYNC_GROUP_KEY 0;
  do g <- write_short_text (sg_group p);
  do gen <- pack Fi (sg_generation_id p);
  do m <- write_short_text (sg_member_id p);
  do c <- pack Fi (llen (sg_assignment p));
  do a <- enc_all (fun ma => do n <- write_short_text (fst ma);
                             do md <- write_int_string (snd ma);
                             Ok (n ++ md)) (sg_assignment p);
  Ok (h ++ g ++ gen ++ m ++ c ++ a).

(* assignments: Dict[str, List[int]] in iteration (= insertion) order; keys are unique because it is a dict.
   struct.pack(">i%si" % len(partitions), len(partitions), *partitions) *)
Definition encode_sync_group_member_assignment (version : Z) (assignments : list (text * list Z))
           (user_data : obytes) : res (list Z) :=
  do v <- pack Fh version;
  do c <- pack Fi (llen assignments);
  do a <- enc_all (fun tp => do n <- write_short_ascii (fst tp);
                             do ps <- pack_list ((Fi, len (snd tp)) :: map (fun x => (Fi, x)) (snd tp));
                             Ok (n ++ ps)) assignments;
  do u <- write_int_string user_data;
  Ok (v ++ c ++ a ++ u).
