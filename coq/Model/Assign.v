(* M5: group assignment.
     afkak/_group.py:572-653     _ConsumerProtocol.generate_assignments / _round_robin_assignment /
                                 decode_assignment
     afkak/kafkacodec.py:1002-1025  encode/decode_join_group_protocol_metadata (struct layout; the
                                 UTF-8 text<->bytes step is CPython's and is not modelled: subscriptions
                                 are byte strings there)
     afkak/kafkacodec.py:1120-1150  encode/decode_sync_group_member_assignment
     afkak/_util.py:87-203       write_int_string, write_short_ascii/text/bytes, read_short_bytes/ascii,
                                 read_int_string, relative_unpack (for the formats used above)

   A Python [str] is the list of its code points, a [bytes] the list of its bytes (both [list Z]).
   CPython orders [str] lexicographically by code point and tuples lexicographically by component;
   [sorted]/[list.sort] return THE ascending permutation (the orders below are total and antisymmetric,
   so which stable algorithm is used cannot be observed).
   Python dicts are insertion-ordered association lists whose keys are kept distinct by [dict_upd].
   Definitions only; proofs are in Proofs/Assign*.v. *)
From AV Require Import Base.Util.
From Coq Require Import Sorting.Mergesort Orders.

Definition str := list Z.
Definition str_eqb : str -> str -> bool := zlist_eqb.

(* ---- orders ------------------------------------------------------------------------------- *)
(* str.__le__ : lexicographic by code point, a proper prefix is smaller *)
Fixpoint str_leb (a b : str) : bool :=
  match a, b with
  | [], _ => true
  | _ :: _, [] => false
  | x :: a', y :: b' => if x <? y then true else if y <? x then false else str_leb a' b'
  end.

(* tuple (topic, partition) comparison: first components decide unless equal *)
Definition tp_leb (x y : str * Z) : bool :=
  if str_leb (fst x) (fst y)
  then (if str_leb (fst y) (fst x) then (snd x <=? snd y) else true)
  else false.

Module StrOrder <: TotalLeBool.
  Definition t := str.
  Definition leb := str_leb.
  Theorem leb_total : forall a1 a2, leb a1 a2 = true \/ leb a2 a1 = true.
  Proof.
    unfold leb. induction a1 as [|x a IH]; intros [|y b]; cbn [str_leb]; auto.
    destruct (Z.ltb_spec x y); auto. destruct (Z.ltb_spec y x); auto.
  Qed.
End StrOrder.
Module StrSort := Sort StrOrder.
Definition str_sort : list str -> list str := StrSort.sort.

Module TPOrder <: TotalLeBool.
  Definition t := (str * Z)%type.
  Definition leb := tp_leb.
  Theorem leb_total : forall a1 a2, leb a1 a2 = true \/ leb a2 a1 = true.
  Proof.
    intros [t1 p1] [t2 p2]. unfold leb, tp_leb. cbn [fst snd].
    destruct (StrOrder.leb_total t1 t2) as [H|H]; unfold StrOrder.leb in H; rewrite H;
      destruct (str_leb t2 t1) eqn:E2; destruct (str_leb t1 t2) eqn:E1; auto; try discriminate;
      destruct (Z.leb_spec p1 p2); auto; right; apply Z.leb_le; apply Z.lt_le_incl; assumption.
  Qed.
End TPOrder.
Module TPSort := Sort TPOrder.
Definition tp_sort : list (str * Z) -> list (str * Z) := TPSort.sort.

(* only used to print dicts in a canonical order (run_case) *)
Module KeyOrder <: TotalLeBool.
  Definition t := (str * list Z)%type.
  Definition leb (x y : t) := str_leb (fst x) (fst y).
  Theorem leb_total : forall a1 a2, leb a1 a2 = true \/ leb a2 a1 = true.
  Proof. intros a b. apply StrOrder.leb_total. Qed.
End KeyOrder.
Module KeySort := Sort KeyOrder.

(* ---- results and exceptions --------------------------------------------------------------- *)
Inductive err :=
| EAssert                      (* AssertionError: `assert all_topics` *)
| ENeed (topics : list str)    (* _NeedTopicPartitions(all_topics); the set is carried sorted *)
| EFuel                        (* the inner `while` would spin forever   (proved unreachable) *)
| EStop                        (* next() on cycle([]) : StopIteration    (proved unreachable) *)
| EKey                         (* member_metadata[member_id] : KeyError  (proved unreachable) *)
| EStruct                      (* struct.error *)
| EUnicode                     (* UnicodeEncodeError / UnicodeDecodeError of the ascii codec *)
| EUnderflow                   (* BufferUnderflowError *)
| EProtocol                    (* ProtocolError: unsupported version, or a string length below -1 *)
| ENone.                       (* AttributeError: None.decode(...) for a null short string *)

Inductive result (A : Type) := Ok (a : A) | Err (e : err).
Arguments Ok {A} _.
Arguments Err {A} _.

(* ---- insertion-ordered dict ----------------------------------------------------------------- *)
Fixpoint dict_get {V} (d : list (str * V)) (k : str) : option V :=
  match d with
  | [] => None
  | (k', v) :: r => if str_eqb k' k then Some v else dict_get r k
  end.

(* d[k] = f(d.get(k)) : replace in place, or append a new key at the end *)
Fixpoint dict_upd {V} (d : list (str * V)) (k : str) (f : option V -> V) : list (str * V) :=
  match d with
  | [] => [(k, f None)]
  | (k', v) :: r => if str_eqb k' k then (k', f (Some v)) :: r else (k', v) :: dict_upd r k f
  end.

Definition dict_set {V} (d : list (str * V)) (k : str) (v : V) := dict_upd d k (fun _ => v).

Fixpoint str_mem (x : str) (l : list str) : bool :=
  match l with [] => false | y :: r => str_eqb y x || str_mem x r end.

(* a set built by repeated .update(): one copy of each element *)
Fixpoint dedup (l : list str) : list str :=
  match l with
  | [] => []
  | x :: r => if str_mem x r then dedup r else x :: dedup r
  end.

Definition mdict := list (str * list str).         (* member_id -> metadata.subscriptions *)
Definition tpmap := list (str * list Z).           (* topic -> partition ids *)
Definition adict := list (str * list Z).           (* one member's assignment: topic -> [partition] *)
Definition asg := list (str * adict).              (* member_id -> adict *)

(* ---- _group.py:595-597  member_metadata[member.member_id] = decode(...)  (a later duplicate id wins) *)
Definition build_md (members : list (str * list str)) : mdict :=
  fold_left (fun d m => dict_set d (fst m) (snd m)) members [].

(* ---- _group.py:614-616  all_topics = set(); for metadata in values(): all_topics.update(subscriptions) *)
Definition all_topics (md : mdict) : list str := dedup (flat_map snd md).

(* ---- _group.py:620-623  [(topic, partition) for topic in all_topics for partition in topic_partitions[topic]]
        None = KeyError *)
Fixpoint expand (tp : tpmap) (ts : list str) : option (list (str * Z)) :=
  match ts with
  | [] => Some []
  | t :: r => match dict_get tp t, expand tp r with
              | Some ps, Some l => Some (map (pair t) ps ++ l)
              | _, _ => None
              end
  end.

(* ---- _group.py:632-639  member_id = next(member_iter); while topic not in ...subscriptions: next(...)
        [ms] is sorted(member_metadata.keys()), [pos] the index itertools.cycle will yield next.
        One unit of fuel per next(); callers give [length ms]. *)
Fixpoint pick (fuel : nat) (md : mdict) (ms : list str) (pos : nat) (t : str) : result (str * nat) :=
  match fuel with
  | O => Err EFuel
  | S f =>
      match nth_error ms pos with
      | None => Err EStop
      | Some m =>
          let pos' := Nat.modulo (S pos) (length ms) in
          match dict_get md m with
          | None => Err EKey
          | Some subs => if str_mem t subs then Ok (m, pos') else pick f md ms pos' t
          end
      end
  end.

(* ---- _group.py:640  assignment[member_id][topic].append(partition)  on defaultdict(defaultdict(list)) *)
Definition asg_add (a : asg) (m t : str) (p : Z) : asg :=
  dict_upd a m (fun od =>
    dict_upd (match od with Some d => d | None => [] end) t
             (fun ol => (match ol with Some l => l | None => [] end) ++ [p])).

(* ---- _group.py:631-642  the for loop *)
Fixpoint rr_loop (md : mdict) (ms : list str) (pos : nat) (l : list (str * Z)) (a : asg) : result asg :=
  match l with
  | [] => Ok a
  | (t, p) :: r =>
      match pick (length ms) md ms pos t with
      | Ok (m, pos') => rr_loop md ms pos' r (asg_add a m t p)
      | Err e => Err e
      end
  end.

(* ---- _group.py:612-642  _round_robin_assignment *)
Definition round_robin (md : mdict) (tp : tpmap) : result asg :=
  match all_topics md with
  | [] => Err EAssert
  | ts => match expand tp ts with
          | None => Err (ENeed (str_sort ts))
          | Some l => rr_loop md (str_sort (map fst md)) 0 (tp_sort l) []
          end
  end.

(* the leader's decision for a member list as received in the JoinGroup response *)
Definition leader_assign (members : list (str * list str)) (tp : tpmap) : result asg :=
  round_robin (build_md members) tp.

(* assignments.get(member_id, {}) *)
Definition asg_get (a : asg) (m : str) : adict :=
  match dict_get a m with Some d => d | None => [] end.

(* ---- primitives: struct.pack/unpack big-endian ---------------------------------------------- *)
Definition in_i16 (x : Z) : bool := (-32768 <=? x) && (x <=? 32767).
Definition in_i32 (x : Z) : bool := (-2147483648 <=? x) && (x <=? 2147483647).
Definition enc_i16 (x : Z) : list Z := [(x / 256) mod 256; x mod 256].
Definition enc_i32 (x : Z) : list Z :=
  [(x / 16777216) mod 256; (x / 65536) mod 256; (x / 256) mod 256; x mod 256].
Definition dec_i16 (b0 b1 : Z) : Z :=
  let u := b0 * 256 + b1 in if u <? 32768 then u else u - 65536.
Definition dec_i32 (b0 b1 b2 b3 : Z) : Z :=
  let u := b0 * 16777216 + b1 * 65536 + b2 * 256 + b3 in if u <? 2147483648 then u else u - 4294967296.

Definition pack_i16 (x : Z) : result (list Z) := if in_i16 x then Ok (enc_i16 x) else Err EStruct.
Definition pack_i32 (x : Z) : result (list Z) := if in_i32 x then Ok (enc_i32 x) else Err EStruct.

Definition bind {A B} (r : result A) (f : A -> result B) : result B :=
  match r with Ok a => f a | Err e => Err e end.

(* struct.pack(">%si" % n, *xs) *)
Fixpoint pack_i32s (xs : list Z) : result (list Z) :=
  match xs with
  | [] => Ok []
  | x :: r => bind (pack_i32 x) (fun b => bind (pack_i32s r) (fun bs => Ok (b ++ bs)))
  end.

Definition len {A} (l : list A) : Z := Z.of_nat (length l).

(* _util.py:87-90 write_int_string *)
Definition write_int_string (s : option (list Z)) : result (list Z) :=
  match s with
  | None => pack_i32 (-1)
  | Some b => bind (pack_i32 (len b)) (fun h => Ok (h ++ b))
  end.

(* _util.py:130-150 write_short_bytes (non-null) : len > 32767 raises struct.error *)
Definition write_short_bytes (b : list Z) : result (list Z) :=
  if 32767 <? len b then Err EStruct else Ok (enc_i16 (len b) ++ b).

(* _util.py:93-109 write_short_ascii (non-null text): s.encode("ascii") *)
Definition is_ascii (c : Z) : bool := (0 <=? c) && (c <? 128).
Definition write_short_ascii (s : str) : result (list Z) :=
  if forallb is_ascii s then write_short_bytes s else Err EUnicode.

(* relative_unpack(">h"/">i") on the remaining data *)
Definition rd_i16 (d : list Z) : result (Z * list Z) :=
  match d with b0 :: b1 :: r => Ok (dec_i16 b0 b1, r) | _ => Err EUnderflow end.
Definition rd_i32 (d : list Z) : result (Z * list Z) :=
  match d with b0 :: b1 :: b2 :: b3 :: r => Ok (dec_i32 b0 b1 b2 b3, r) | _ => Err EUnderflow end.

(* _util.py:153-168 read_short_bytes *)
Definition read_short_bytes (d : list Z) : result (option (list Z) * list Z) :=
  bind (rd_i16 d) (fun nr =>
    let '(n, r) := nr in
    if n =? -1 then Ok (None, r)
    else if n <? -1 then Err EProtocol                 (* "invalid ... string length" *)
    else if len r <? n then Err EUnderflow
    else Ok (Some (take (Z.to_nat n) r), drop (Z.to_nat n) r)).

(* _util.py:171-173 read_short_ascii : b.decode("ascii") *)
Definition read_short_ascii (d : list Z) : result (str * list Z) :=
  bind (read_short_bytes d) (fun br =>
    match br with
    | (None, _) => Err ENone
    | (Some b, r) => if forallb (fun c => c <? 128) b then Ok (b, r) else Err EUnicode
    end).

(* _util.py:181-196 read_int_string *)
Definition read_int_string (d : list Z) : result (option (list Z) * list Z) :=
  bind (rd_i32 d) (fun nr =>
    let '(n, r) := nr in
    if n =? -1 then Ok (None, r)
    else if n <? -1 then Err EProtocol                 (* "invalid ... string length" *)
    else if len r <? n then Err EUnderflow
    else Ok (Some (take (Z.to_nat n) r), drop (Z.to_nat n) r)).

(* relative_unpack(">%si" % n) once the size check has passed *)
Fixpoint rd_i32s (n : nat) (d : list Z) : result (list Z * list Z) :=
  match n with
  | O => Ok ([], d)
  | S n' => bind (rd_i32 d) (fun xr => bind (rd_i32s n' (snd xr)) (fun xsr => Ok (fst xr :: fst xsr, snd xsr)))
  end.

(* ---- kafkacodec.py:1120-1131 encode_sync_group_member_assignment ---------------------------- *)
Fixpoint enc_topics (d : adict) : result (list Z) :=
  match d with
  | [] => Ok []
  | (t, ps) :: r =>
      bind (write_short_ascii t) (fun bt =>
      bind (pack_i32 (len ps)) (fun bn =>
      bind (pack_i32s ps) (fun bp =>
      bind (enc_topics r) (fun br => Ok (bt ++ bn ++ bp ++ br)))))
  end.

Definition enc_assignment (version : Z) (d : adict) (user_data : option (list Z)) : result (list Z) :=
  bind (pack_i16 version) (fun bv =>
  bind (pack_i32 (len d)) (fun bn =>
  bind (enc_topics d) (fun bt =>
  bind (write_int_string user_data) (fun bu => Ok (bv ++ bn ++ bt ++ bu))))).

(* ---- kafkacodec.py:1133-1150 decode_sync_group_member_assignment ----------------------------
   for _i in range(num_assignments): one unit of fuel per iteration; callers give S (length data),
   every iteration consumes at least six bytes. *)
Fixpoint dec_topics (fuel : nat) (n : Z) (d : list Z) (acc : adict) : result (adict * list Z) :=
  if n <=? 0 then Ok (acc, d)
  else match fuel with
       | O => Err EFuel
       | S f =>
           bind (read_short_ascii d) (fun tr =>
           bind (rd_i32 (snd tr)) (fun nr =>
             let '(np, r) := nr in
             if np <? 0 then Err EStruct                       (* ">-1i": bad char in struct format *)
             else if len r <? 4 * np then Err EUnderflow
             else bind (rd_i32s (Z.to_nat np) r) (fun pr =>
                    dec_topics f (n - 1) (snd pr) (dict_set acc (fst tr) (fst pr)))))
       end.

Definition dec_assignment (data : list Z) : result (Z * adict * option (list Z)) :=
  bind (rd_i16 data) (fun vr =>
  bind (rd_i32 (snd vr)) (fun nr =>
    if negb (fst vr =? 0) then Err EProtocol
    else bind (dec_topics (S (length data)) (fst nr) (snd nr) []) (fun ar =>
         bind (read_int_string (snd ar)) (fun ur => Ok (fst vr, fst ar, fst ur))))).

(* ---- _group.py:602-610  encode every member's share, in the order of [members] -------------- *)
Fixpoint encode_all (a : asg) (ids : list str) : result (list (str * list Z)) :=
  match ids with
  | [] => Ok []
  | m :: r => bind (enc_assignment 0 (asg_get a m) (Some [])) (fun b =>
              bind (encode_all a r) (fun l => Ok ((m, b) :: l)))
  end.

(* ---- _group.py:572-610 generate_assignments (member metadata already decoded) *)
Definition generate_assignments (members : list (str * list str)) (tp : tpmap)
  : result (list (str * list Z)) :=
  bind (leader_assign members tp) (fun a => encode_all a (map fst members)).

(* ---- _group.py:644-653 decode_assignment *)
Definition decode_assignment (data : list Z) : result adict :=
  bind (dec_assignment data) (fun x => Ok (snd (fst x))).

(* ---- kafkacodec.py:1002-1008 / 1010-1025 member metadata; subscriptions are UTF-8 byte strings -- *)
Fixpoint enc_subs (subs : list (list Z)) : result (list Z) :=
  match subs with
  | [] => Ok []
  | s :: r => bind (write_short_bytes s) (fun b => bind (enc_subs r) (fun br => Ok (b ++ br)))
  end.

Definition enc_metadata (version : Z) (subs : list (list Z)) (user_data : option (list Z)) : result (list Z) :=
  bind (pack_i16 version) (fun bv =>
  bind (pack_i32 (len subs)) (fun bn =>
  bind (enc_subs subs) (fun bs =>
  bind (write_int_string user_data) (fun bu => Ok (bv ++ bn ++ bs ++ bu))))).

Fixpoint dec_subs (fuel : nat) (n : Z) (d : list Z) (acc : list (list Z)) : result (list (list Z) * list Z) :=
  if n <=? 0 then Ok (rev acc, d)
  else match fuel with
       | O => Err EFuel
       | S f => bind (read_short_bytes d) (fun br =>
                  match br with
                  | (None, _) => Err ENone
                  | (Some b, r) => dec_subs f (n - 1) r (b :: acc)
                  end)
       end.

Definition dec_metadata (data : list Z) : result (Z * list (list Z) * option (list Z)) :=
  bind (rd_i16 data) (fun vr =>
  bind (rd_i32 (snd vr)) (fun nr =>
  bind (dec_subs (S (length data)) (fst nr) (snd nr) []) (fun sr =>
  bind (read_int_string (snd sr)) (fun ur => Ok (fst vr, fst sr, fst ur))))).

(* ---- _group.py:612-616 generate_assignments from the members' metadata BYTES: decode every member in the order
        received (the first undecodable one raises), then assign.  Names are the UTF-8 byte strings of the wire here
        (for ASCII names: the code points); ids stay text. *)
Fixpoint decode_members (raw : list (str * list Z)) : result (list (str * list str)) :=
  match raw with
  | [] => Ok []
  | (m, b) :: r => bind (dec_metadata b) (fun x =>
                   bind (decode_members r) (fun l => Ok ((m, snd (fst x)) :: l)))
  end.
Definition generate_assignments_raw (raw : list (str * list Z)) (tp : tpmap) : result (list (str * list Z)) :=
  bind (decode_members raw) (fun members => generate_assignments members tp).

(* ---- vocabulary of the statements in Props/C15.v -------------------------------------------- *)
(* does member m list topic t in its subscriptions *)
Definition subscribed (md : mdict) (m t : str) : bool :=
  match dict_get md m with Some subs => str_mem t subs | None => false end.
Definition some_subscriber (md : mdict) (t : str) : bool :=
  existsb (fun m => subscribed md m t) (map fst md).
Definition parts_of (d : list (str * list Z)) (t : str) : list Z :=
  match dict_get d t with Some l => l | None => [] end.
(* how many times partition p of topic t occurs in the shares of the members [ids] *)
Definition assigned_count (a : asg) (ids : list str) (t : str) (p : Z) : nat :=
  list_sum (map (fun m => count_occ Z.eq_dec (parts_of (asg_get a m) t) p) ids).
(* number of partitions in one member's share *)
Definition asg_size (d : adict) : nat := list_sum (map (fun e => length (snd e)) d).
(* two partition maps that list, topic by topic, the same partitions in a possibly different order *)
Definition tp_equiv (tp tp' : tpmap) : Prop :=
  forall t, match dict_get tp t, dict_get tp' t with
            | Some l, Some l' => Permutation.Permutation l l'
            | None, None => True
            | _, _ => False
            end.
(* the snapshot the leader got from client._load_topic_partitions (client.py:412-424) has an entry for each
   topic it asked for, i.e. for every subscribed topic ("An entry is present for each requested topic") *)
Definition snapshot_covers (members : list (str * list str)) (tp : tpmap) : bool :=
  forallb (fun t => match dict_get tp t with Some _ => true | None => false end) (all_topics (build_md members)).
(* two member lists with the same ids in the same order whose subscriptions agree as SETS (names reordered / repeated) *)
Definition subs_equiv (members members' : list (str * list str)) : Prop :=
  Forall2 (fun m m' => fst m = fst m' /\ forall t, In t (snd m) <-> In t (snd m')) members members'.
(* raw = what the coordinator hands the leader when every member wrote its subscriptions with the real encoder *)
Definition encoded_members (members : list (str * list str)) (raw : list (str * list Z)) : Prop :=
  Forall2 (fun m r => fst r = fst m /\ exists v ud, enc_metadata v (snd m) ud = Ok (snd r)) members raw.
(* ranges under which the leader's encoder cannot raise *)
Definition topic_ok (t : str) : bool := forallb is_ascii t && (len t <=? 32767).
Definition adict_ok (d : adict) : bool :=
  (len d <=? 2147483647) &&
  forallb (fun e => topic_ok (fst e) && (len (snd e) <=? 2147483647) && forallb in_i32 (snd e)) d.
Definition ud_ok (ud : option (list Z)) : bool :=
  match ud with None => true | Some u => len u <=? 2147483647 end.
Definition input_ok (members : list (str * list str)) (tp : tpmap) : bool :=
  let ts := all_topics (build_md members) in
  (len ts <=? 2147483647) &&
  forallb (fun t => topic_ok t && (len (parts_of tp t) <=? 2147483647) && forallb in_i32 (parts_of tp t)) ts.

(* ---- case lines ------------------------------------------------------------------------------ *)
Definition count_ok (n : Z) (l : list Z) : bool := (0 <=? n) && (n <=? len l).

Fixpoint parse_n {A} (f : list Z -> option (A * list Z)) (n : nat) (l : list Z) : option (list A * list Z) :=
  match n with
  | O => Some ([], l)
  | S n' => match f l with
            | Some (x, r) => match parse_n f n' r with
                             | Some (xs, r') => Some (x :: xs, r')
                             | None => None
                             end
            | None => None
            end
  end.

(* count followed by that many items (each item is at least one integer long) *)
Definition parse_list {A} (f : list Z -> option (A * list Z)) (l : list Z) : option (list A * list Z) :=
  match l with
  | n :: r => if count_ok n r then parse_n f (Z.to_nat n) r else None
  | [] => None
  end.

Definition parse_member (l : list Z) : option ((str * list str) * list Z) :=
  match take_lp l with
  | Some (id, r) => match parse_list take_lp r with
                    | Some (subs, r') => Some ((id, subs), r')
                    | None => None
                    end
  | None => None
  end.

Definition parse_entry (l : list Z) : option ((str * list Z) * list Z) :=
  match take_lp l with
  | Some (t, r) => match take_lp r with
                   | Some (ps, r') => Some ((t, ps), r')
                   | None => None
                   end
  | None => None
  end.

(* flag 0 = None, 1 = Some; followed by a length-prefixed list *)
Definition parse_opt (l : list Z) : option (option (list Z) * list Z) :=
  match l with
  | 0 :: r => match take_lp r with Some (_, r') => Some (None, r') | None => None end
  | 1 :: r => match take_lp r with Some (b, r') => Some (Some b, r') | None => None end
  | _ => None
  end.

Definition out_lp (l : list Z) : list Z := len l :: l.
Definition out_dict (d : adict) : list Z :=
  len d :: flat_map (fun e => out_lp (fst e) ++ out_lp (snd e)) d.
Definition out_opt (o : option (list Z)) : list Z :=
  match o with None => 0 :: out_lp [] | Some b => 1 :: out_lp b end.

Definition err_code (e : err) : list Z :=
  match e with
  | EAssert => [-1]
  | ENeed ts => -2 :: len ts :: flat_map out_lp ts
  | EFuel => [-3]
  | EStop => [-4]
  | EKey => [-5]
  | EStruct => [-6]
  | EUnicode => [-7]
  | EUnderflow => [-8]
  | EProtocol => [-9]
  | ENone => [-10]
  end.

(* op 1: what every member decodes from the leader's encoded assignment (dict printed by ascending topic) *)
Fixpoint out_decoded (l : list (str * list Z)) : list Z :=
  match l with
  | [] => []
  | (m, b) :: r =>
      out_lp m ++ (match decode_assignment b with
                   | Ok d => 0 :: out_dict (KeySort.sort d)
                   | Err e => err_code e
                   end) ++ out_decoded r
  end.

(* op 6: the encoded bytes themselves *)
Definition out_bytes (l : list (str * list Z)) : list Z :=
  flat_map (fun mb => out_lp (fst mb) ++ out_lp (snd mb)) l.

Definition run_generate (op : Z) (r : list Z) : list Z :=
  match parse_list parse_member r with
  | Some (members, r2) =>
      match parse_list parse_entry r2 with
      | Some (tp, _) =>
          match generate_assignments members tp with
          | Ok l => 0 :: len l :: (if op =? 1 then out_decoded l else out_bytes l)
          | Err e => err_code e
          end
      | None => [-99]
      end
  | None => [-99]
  end.

Definition run_case (c : list Z) : list Z :=
  match c with
  | 1 :: r => run_generate 1 r
  | 6 :: r => run_generate 6 r
  | 2 :: v :: r =>                                   (* encode_sync_group_member_assignment *)
      match parse_list parse_entry r with
      | Some (d, r2) => match parse_opt r2 with
                        | Some (ud, _) => match enc_assignment v d ud with
                                          | Ok b => 0 :: b
                                          | Err e => err_code e
                                          end
                        | None => [-99]
                        end
      | None => [-99]
      end
  | 3 :: r =>                                        (* decode_sync_group_member_assignment *)
      match take_lp r with
      | Some (data, _) => match dec_assignment data with
                          | Ok (v, d, ud) => 0 :: v :: out_dict (KeySort.sort d) ++ out_opt ud
                          | Err e => err_code e
                          end
      | None => [-99]
      end
  | 4 :: v :: r =>                                   (* encode_join_group_protocol_metadata *)
      match parse_list take_lp r with
      | Some (subs, r2) => match parse_opt r2 with
                           | Some (ud, _) => match enc_metadata v subs ud with
                                             | Ok b => 0 :: b
                                             | Err e => err_code e
                                             end
                           | None => [-99]
                           end
      | None => [-99]
      end
  | 5 :: r =>                                        (* decode_join_group_protocol_metadata *)
      match take_lp r with
      | Some (data, _) => match dec_metadata data with
                          | Ok (v, subs, ud) =>
                              0 :: v :: len subs :: flat_map out_lp subs ++ out_opt ud
                          | Err e => err_code e
                          end
      | None => [-99]
      end
  | _ => [-99]
  end.
