(* The committed terms of the consumer-arithmetic tie (C12/C14, DESIGN.md 10.2b): what harness/py2grow.py makes of
   afkak/consumer.py at the commit the soundness proofs (Proofs/GrowDSLSound.v) were written against.
   Regenerate with  python3 harness/py2grow.py --snapshot  ONLY together with those proofs. *)
From Coq Require Import String QArith.
From AV Require Import Base.Util Model.GrowDSL.
Open Scope string_scope.
Open Scope Z_scope.

Definition ast_growth : gtree :=
  GIf (GCPos (GLin (-1048576) 1 0))
    (GIf (GCMaxNone)
      (GGrow (GLin 0 2 0))
      (GIf (GCPos (GLin 0 (-1) 1))
        (GGrow (GMin (GLin 0 0 1) (GLin 0 2 0)))
        (GFail)))
    (GIf (GCMaxNone)
      (GGrow (GLin 0 16 0))
      (GIf (GCPos (GLin 0 (-1) 1))
        (GGrow (GMin (GLin 0 0 1) (GLin 0 16 0)))
        (GFail))).

Definition ast_delay : dtree :=
  DSet (DMin (DLin (0 # 1) (1 # 1)) (DLin (24041 # 20000) (0 # 1))).

Definition ast_resets : reset_sites :=
  [("__init__", RFloatInitArg); ("_handle_fetch_response", RInitDelay); ("_handle_offset_response", RInitDelay)].
