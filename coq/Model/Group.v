(* M11: afkak/_group.py:50-538 (Coordinator) and 673-901 (ConsumerGroup) as a state machine
     step : state -> event -> state * list output
   over the CONTRACT of the partition Consumer (afkak/consumer.py:289-464; the Consumer itself is model M10):
     start(OFFSET_COMMITTED) returns a Deferred that may later fail (the attribute _start_d stays set until stop());
     shutdown() returns a plain Deferred that fires - or fails - after the consumer has stopped itself;
     stop() stops it at once (a pending shutdown Deferred then fails); it commits with the generation / member id
     it was constructed with.

   ENVIRONMENT + API ALPHABET (type [event]).  Requests the member hands to the client are numbered by issue order
   (rid), partition consumers by creation order (cid), join_and_sync DelayedCalls by creation order (timer id).
     EStart / EStop                 start() / stop()  (ConsumerGroup.stop for a group, Coordinator.stop otherwise)
     ELookup rid r                  client._get_coordinator_for_group Deferred fires: broker / falsy / failure class
     EMeta rid r                    client.load_metadata_for_topics Deferred fires: ok / failure class
     EJoin rid r                    JoinGroup reply: ok generation member role (0 follower, 1 leader, 2 leader whose member
                                    metadata subscribes nothing: generate_assignments raises AssertionError) / failure class
     EParts rid r                   client._load_topic_partitions (leader): ok / ok-but-a-topic-missing / failure class
     ESync rid r                    SyncGroup reply: ok assignment / undecodable (non-Kafka exc.) / undecodable (ProtocolError) / failure /
                                    ok assignment but the Consumer constructor raises for the (n+1)-th consumer created (on_join_complete :845-857)
     ETick                          the reactor fires the heartbeat LoopingCall
     EHbReply rid r                 Heartbeat reply
     EFire id                       the reactor fires join_and_sync DelayedCall number id (rejoin timer or coordinator retry)
     ELeave rid r                   LeaveGroup reply
     ECFail cid k                   consumer cid's start Deferred fails with failure class k
     ECShut cid ok                  consumer cid's shutdown() Deferred fires (ok) / fails
   An event the environment cannot produce in the current state (no such pending Deferred / armed call / live consumer)
   is a no-op without output.  Failure classes [ekind] are exactly the classes _group.py distinguishes with Failure.check.

   OBSERVABLES (type [output]): calls on the client (OLookup OMeta OJoin OParts OSync OHeartbeat OLeave OReset),
   Deferred.cancel() reaching a request (OCancelReq), reactor.callLater (OSched kind delay id; the delay is WHICH documented
   delay - the float is checked bit for bit by the driver), DelayedCall.cancel (OCancelTimer), calls on partition consumers
   (OStartC cid topic partition generation member, OShutC, OStopC), the outcome of the Deferreds returned by start()/stop()
   (OStartD, OStopD) and the API result (OApi).

   Twisted semantics used (DESIGN.md section 2; modelled, not verified):
   * inlineCallbacks: every `yield <pending Deferred>` is a suspension point = a [gphase] of a generator instance [gen]
     (for _join_and_sync) or an [sphase] of a [stopi] (for stop); a generator resumes synchronously inside the step that
     fires the awaited Deferred.  `yield` of a non-Deferred / fired Deferred continues at once.
   * d.cancel() on the Deferred of an inlineCallbacks generator cancels the Deferred it is waiting on; what happens next is
     what that Deferred's errbacks do with CancelledError - see [cancel_gen].  While the generator is itself running (inside
     the errback of the Deferred it awaits) the cancel is a no-op.
   * LoopingCall: running flag + one armed call; stop() cancels the call, reset() re-arms it, the call re-arms after f().
   * DeferredList(fireOnOneErrback, consumeErrors): fires when all succeeded or at the first failure; cancel() cancels each.

   Outside the model: group-assignment computation (model M5 / C15: only "leader sends assignments" is kept), request
   encodings, log output, a client whose methods raise synchronously or return already-fired Deferreds, Consumer
   start() / shutdown() that raise or return already-fired Deferreds, user code cancelling the Deferred returned by stop(). *)
From AV Require Import Base.Util.

Inductive ekind := KRebalance | KCna | KNotCoord | KIllGen | KInvGroup | KUnkMember | KInconsistent | KTimeout
                 | KOtherKafka | KCancelled | KNonKafka.
Definition is_kafka (k : ekind) : bool := match k with KCancelled | KNonKafka => false | _ => true end.

Inductive tkind := TRejoin | TCoordRetry | THeartbeat.
Inductive delay := DInitial | DRetry | DFatal | DHeartbeat.
Inductive dcst := DcNone | DcActive (id : Z) | DcStale.     (* self._rejoin_wait_dc: None / armed call / fired-or-cancelled call object *)

Record consumer := mkC { c_id : Z; c_topic : Z; c_part : Z; c_gen : Z; c_mem : Z;
                         c_failed : bool (* its start Deferred has already failed; _start_d still set *) }.
Record shc := mkSh { sh_c : consumer; sh_done : bool (* its shutdown Deferred fired ok: the consumer has stopped *) }.

(* suspension points of _join_and_sync, _group.py:467-518 *)
Inductive gphase :=
| GLookup (rid : Z)          (* :470 waiting for the coordinator lookup *)
| GMeta (rid : Z)            (* :470 lookup Deferred chained on load_metadata_for_topics (:153-155) *)
| GPrepare (l : list shc)    (* :476 waiting for on_join_prepare = shutdown_consumers' DeferredList (:781) *)
| GJoin (rid : Z)            (* :479 *)
| GParts (rid : Z)           (* :497 *)
| GSync (rid : Z).           (* :506 *)
Record gen := mkGen { g_id : Z; g_ph : gphase }.

(* suspension points of ConsumerGroup.stop (:890) and Coordinator.stop (:290) *)
Inductive sphase := S1 (l : list shc) | S2 (rid : Z).
Record stopi := mkStop { st_idx : Z (* index of the API stop() call, -1 = the internal self.stop() of :414 *);
                         st_err : option ekind (* errback_result *); st_ph : sphase }.

Record state := mkS {
  is_group : bool;
  member : Z;
  generation : Z;
  coord_known : bool;
  start_d : option Z;
  n_start : Z;
  n_stop : Z;
  rejoin_needed : bool;
  stopping : bool;
  stop_requested : bool;
  dc : dcst;
  rejoin_d : option Z;
  hb_running : bool;
  hb_req : option Z;
  gens : list gen;
  next_gen : Z;
  stops : list stopi;
  timers : list (Z * tkind);
  next_timer : Z;
  next_rid : Z;
  consumers : list consumer;
  next_cid : Z;
  cur_assign : list (Z * Z);
  escaped : bool;
  stop_called : bool;
  tail_done : bool
}.
Definition set_is_group (x : bool) (s : state) : state := mkS x (member s) (generation s) (coord_known s) (start_d s) (n_start s) (n_stop s) (rejoin_needed s) (stopping s) (stop_requested s) (dc s) (rejoin_d s) (hb_running s) (hb_req s) (gens s) (next_gen s) (stops s) (timers s) (next_timer s) (next_rid s) (consumers s) (next_cid s) (cur_assign s) (escaped s) (stop_called s) (tail_done s).
Definition set_member (x : Z) (s : state) : state := mkS (is_group s) x (generation s) (coord_known s) (start_d s) (n_start s) (n_stop s) (rejoin_needed s) (stopping s) (stop_requested s) (dc s) (rejoin_d s) (hb_running s) (hb_req s) (gens s) (next_gen s) (stops s) (timers s) (next_timer s) (next_rid s) (consumers s) (next_cid s) (cur_assign s) (escaped s) (stop_called s) (tail_done s).
Definition set_generation (x : Z) (s : state) : state := mkS (is_group s) (member s) x (coord_known s) (start_d s) (n_start s) (n_stop s) (rejoin_needed s) (stopping s) (stop_requested s) (dc s) (rejoin_d s) (hb_running s) (hb_req s) (gens s) (next_gen s) (stops s) (timers s) (next_timer s) (next_rid s) (consumers s) (next_cid s) (cur_assign s) (escaped s) (stop_called s) (tail_done s).
Definition set_coord_known (x : bool) (s : state) : state := mkS (is_group s) (member s) (generation s) x (start_d s) (n_start s) (n_stop s) (rejoin_needed s) (stopping s) (stop_requested s) (dc s) (rejoin_d s) (hb_running s) (hb_req s) (gens s) (next_gen s) (stops s) (timers s) (next_timer s) (next_rid s) (consumers s) (next_cid s) (cur_assign s) (escaped s) (stop_called s) (tail_done s).
Definition set_start_d (x : option Z) (s : state) : state := mkS (is_group s) (member s) (generation s) (coord_known s) x (n_start s) (n_stop s) (rejoin_needed s) (stopping s) (stop_requested s) (dc s) (rejoin_d s) (hb_running s) (hb_req s) (gens s) (next_gen s) (stops s) (timers s) (next_timer s) (next_rid s) (consumers s) (next_cid s) (cur_assign s) (escaped s) (stop_called s) (tail_done s).
Definition set_n_start (x : Z) (s : state) : state := mkS (is_group s) (member s) (generation s) (coord_known s) (start_d s) x (n_stop s) (rejoin_needed s) (stopping s) (stop_requested s) (dc s) (rejoin_d s) (hb_running s) (hb_req s) (gens s) (next_gen s) (stops s) (timers s) (next_timer s) (next_rid s) (consumers s) (next_cid s) (cur_assign s) (escaped s) (stop_called s) (tail_done s).
Definition set_n_stop (x : Z) (s : state) : state := mkS (is_group s) (member s) (generation s) (coord_known s) (start_d s) (n_start s) x (rejoin_needed s) (stopping s) (stop_requested s) (dc s) (rejoin_d s) (hb_running s) (hb_req s) (gens s) (next_gen s) (stops s) (timers s) (next_timer s) (next_rid s) (consumers s) (next_cid s) (cur_assign s) (escaped s) (stop_called s) (tail_done s).
Definition set_rejoin_needed (x : bool) (s : state) : state := mkS (is_group s) (member s) (generation s) (coord_known s) (start_d s) (n_start s) (n_stop s) x (stopping s) (stop_requested s) (dc s) (rejoin_d s) (hb_running s) (hb_req s) (gens s) (next_gen s) (stops s) (timers s) (next_timer s) (next_rid s) (consumers s) (next_cid s) (cur_assign s) (escaped s) (stop_called s) (tail_done s).
Definition set_stopping (x : bool) (s : state) : state := mkS (is_group s) (member s) (generation s) (coord_known s) (start_d s) (n_start s) (n_stop s) (rejoin_needed s) x (stop_requested s) (dc s) (rejoin_d s) (hb_running s) (hb_req s) (gens s) (next_gen s) (stops s) (timers s) (next_timer s) (next_rid s) (consumers s) (next_cid s) (cur_assign s) (escaped s) (stop_called s) (tail_done s).
Definition set_stop_requested (x : bool) (s : state) : state := mkS (is_group s) (member s) (generation s) (coord_known s) (start_d s) (n_start s) (n_stop s) (rejoin_needed s) (stopping s) x (dc s) (rejoin_d s) (hb_running s) (hb_req s) (gens s) (next_gen s) (stops s) (timers s) (next_timer s) (next_rid s) (consumers s) (next_cid s) (cur_assign s) (escaped s) (stop_called s) (tail_done s).
Definition set_dc (x : dcst) (s : state) : state := mkS (is_group s) (member s) (generation s) (coord_known s) (start_d s) (n_start s) (n_stop s) (rejoin_needed s) (stopping s) (stop_requested s) x (rejoin_d s) (hb_running s) (hb_req s) (gens s) (next_gen s) (stops s) (timers s) (next_timer s) (next_rid s) (consumers s) (next_cid s) (cur_assign s) (escaped s) (stop_called s) (tail_done s).
Definition set_rejoin_d (x : option Z) (s : state) : state := mkS (is_group s) (member s) (generation s) (coord_known s) (start_d s) (n_start s) (n_stop s) (rejoin_needed s) (stopping s) (stop_requested s) (dc s) x (hb_running s) (hb_req s) (gens s) (next_gen s) (stops s) (timers s) (next_timer s) (next_rid s) (consumers s) (next_cid s) (cur_assign s) (escaped s) (stop_called s) (tail_done s).
Definition set_hb_running (x : bool) (s : state) : state := mkS (is_group s) (member s) (generation s) (coord_known s) (start_d s) (n_start s) (n_stop s) (rejoin_needed s) (stopping s) (stop_requested s) (dc s) (rejoin_d s) x (hb_req s) (gens s) (next_gen s) (stops s) (timers s) (next_timer s) (next_rid s) (consumers s) (next_cid s) (cur_assign s) (escaped s) (stop_called s) (tail_done s).
Definition set_hb_req (x : option Z) (s : state) : state := mkS (is_group s) (member s) (generation s) (coord_known s) (start_d s) (n_start s) (n_stop s) (rejoin_needed s) (stopping s) (stop_requested s) (dc s) (rejoin_d s) (hb_running s) x (gens s) (next_gen s) (stops s) (timers s) (next_timer s) (next_rid s) (consumers s) (next_cid s) (cur_assign s) (escaped s) (stop_called s) (tail_done s).
Definition set_gens (x : list gen) (s : state) : state := mkS (is_group s) (member s) (generation s) (coord_known s) (start_d s) (n_start s) (n_stop s) (rejoin_needed s) (stopping s) (stop_requested s) (dc s) (rejoin_d s) (hb_running s) (hb_req s) x (next_gen s) (stops s) (timers s) (next_timer s) (next_rid s) (consumers s) (next_cid s) (cur_assign s) (escaped s) (stop_called s) (tail_done s).
Definition set_next_gen (x : Z) (s : state) : state := mkS (is_group s) (member s) (generation s) (coord_known s) (start_d s) (n_start s) (n_stop s) (rejoin_needed s) (stopping s) (stop_requested s) (dc s) (rejoin_d s) (hb_running s) (hb_req s) (gens s) x (stops s) (timers s) (next_timer s) (next_rid s) (consumers s) (next_cid s) (cur_assign s) (escaped s) (stop_called s) (tail_done s).
Definition set_stops (x : list stopi) (s : state) : state := mkS (is_group s) (member s) (generation s) (coord_known s) (start_d s) (n_start s) (n_stop s) (rejoin_needed s) (stopping s) (stop_requested s) (dc s) (rejoin_d s) (hb_running s) (hb_req s) (gens s) (next_gen s) x (timers s) (next_timer s) (next_rid s) (consumers s) (next_cid s) (cur_assign s) (escaped s) (stop_called s) (tail_done s).
Definition set_timers (x : list (Z * tkind)) (s : state) : state := mkS (is_group s) (member s) (generation s) (coord_known s) (start_d s) (n_start s) (n_stop s) (rejoin_needed s) (stopping s) (stop_requested s) (dc s) (rejoin_d s) (hb_running s) (hb_req s) (gens s) (next_gen s) (stops s) x (next_timer s) (next_rid s) (consumers s) (next_cid s) (cur_assign s) (escaped s) (stop_called s) (tail_done s).
Definition set_next_timer (x : Z) (s : state) : state := mkS (is_group s) (member s) (generation s) (coord_known s) (start_d s) (n_start s) (n_stop s) (rejoin_needed s) (stopping s) (stop_requested s) (dc s) (rejoin_d s) (hb_running s) (hb_req s) (gens s) (next_gen s) (stops s) (timers s) x (next_rid s) (consumers s) (next_cid s) (cur_assign s) (escaped s) (stop_called s) (tail_done s).
Definition set_next_rid (x : Z) (s : state) : state := mkS (is_group s) (member s) (generation s) (coord_known s) (start_d s) (n_start s) (n_stop s) (rejoin_needed s) (stopping s) (stop_requested s) (dc s) (rejoin_d s) (hb_running s) (hb_req s) (gens s) (next_gen s) (stops s) (timers s) (next_timer s) x (consumers s) (next_cid s) (cur_assign s) (escaped s) (stop_called s) (tail_done s).
Definition set_consumers (x : list consumer) (s : state) : state := mkS (is_group s) (member s) (generation s) (coord_known s) (start_d s) (n_start s) (n_stop s) (rejoin_needed s) (stopping s) (stop_requested s) (dc s) (rejoin_d s) (hb_running s) (hb_req s) (gens s) (next_gen s) (stops s) (timers s) (next_timer s) (next_rid s) x (next_cid s) (cur_assign s) (escaped s) (stop_called s) (tail_done s).
Definition set_next_cid (x : Z) (s : state) : state := mkS (is_group s) (member s) (generation s) (coord_known s) (start_d s) (n_start s) (n_stop s) (rejoin_needed s) (stopping s) (stop_requested s) (dc s) (rejoin_d s) (hb_running s) (hb_req s) (gens s) (next_gen s) (stops s) (timers s) (next_timer s) (next_rid s) (consumers s) x (cur_assign s) (escaped s) (stop_called s) (tail_done s).
Definition set_cur_assign (x : list (Z * Z)) (s : state) : state := mkS (is_group s) (member s) (generation s) (coord_known s) (start_d s) (n_start s) (n_stop s) (rejoin_needed s) (stopping s) (stop_requested s) (dc s) (rejoin_d s) (hb_running s) (hb_req s) (gens s) (next_gen s) (stops s) (timers s) (next_timer s) (next_rid s) (consumers s) (next_cid s) x (escaped s) (stop_called s) (tail_done s).
Definition set_escaped (x : bool) (s : state) : state := mkS (is_group s) (member s) (generation s) (coord_known s) (start_d s) (n_start s) (n_stop s) (rejoin_needed s) (stopping s) (stop_requested s) (dc s) (rejoin_d s) (hb_running s) (hb_req s) (gens s) (next_gen s) (stops s) (timers s) (next_timer s) (next_rid s) (consumers s) (next_cid s) (cur_assign s) x (stop_called s) (tail_done s).
Definition set_stop_called (x : bool) (s : state) : state := mkS (is_group s) (member s) (generation s) (coord_known s) (start_d s) (n_start s) (n_stop s) (rejoin_needed s) (stopping s) (stop_requested s) (dc s) (rejoin_d s) (hb_running s) (hb_req s) (gens s) (next_gen s) (stops s) (timers s) (next_timer s) (next_rid s) (consumers s) (next_cid s) (cur_assign s) (escaped s) x (tail_done s).
Definition set_tail_done (x : bool) (s : state) : state := mkS (is_group s) (member s) (generation s) (coord_known s) (start_d s) (n_start s) (n_stop s) (rejoin_needed s) (stopping s) (stop_requested s) (dc s) (rejoin_d s) (hb_running s) (hb_req s) (gens s) (next_gen s) (stops s) (timers s) (next_timer s) (next_rid s) (consumers s) (next_cid s) (cur_assign s) (escaped s) (stop_called s) x.

Definition init (grp : bool) : state :=     (* __init__, _group.py:59-104, 731-738 *)
  mkS grp 0 (-1) false None 0 0 true false false DcNone None false None [] 0 [] [] 0 0 [] 0 [] false false false.

Inductive lookup_res := LBroker | LNone | LFail (k : ekind).
Inductive simple_res := ROk | RFail (k : ekind).
Inductive join_res := JOk (gen mem role : Z) | JFail (k : ekind).
Inductive parts_res := POk | PMissing | PFail (k : ekind).
Inductive sync_res := SOk (asg : list (Z * Z)) | SBadNonKafka | SBadKafka | SFail (k : ekind)
                     | SOkRaise (asg : list (Z * Z)) (n : Z).   (* as SOk, but constructing the (n+1)-th partition consumer raises (e.g. bad consumer_kwargs) *)

Inductive event :=
| EStart | EStop
| ELookup (rid : Z) (r : lookup_res) | EMeta (rid : Z) (r : simple_res) | EJoin (rid : Z) (r : join_res)
| EParts (rid : Z) (r : parts_res) | ESync (rid : Z) (r : sync_res)
| ETick | EHbReply (rid : Z) (r : simple_res) | EFire (id : Z) | ELeave (rid : Z) (r : simple_res)
| ECFail (cid : Z) (k : ekind) | ECShut (cid : Z) (ok : bool).

Inductive output :=
| OLookup (rid : Z) | OMeta (rid : Z) | OJoin (rid mem : Z) | OParts (rid : Z) | OSync (rid gen mem : Z) (leader : bool)
| OHeartbeat (rid gen mem : Z) | OLeave (rid mem : Z)
| OSched (k : tkind) (d : delay) (id : Z) | OCancelTimer (k : tkind) (id : Z)
| OStartC (cid topic part gen mem : Z) | OShutC (cid : Z) | OStopC (cid : Z)
| OStartD (idx : Z) (r : option ekind) | OStopD (idx : Z) (code : Z) | OApi (code : Z)
| OReset | OCancelReq (rid : Z).

(* ---- a small imperative vocabulary: an action maps a state to a new state and the outputs it caused ---- *)
Definition act := state -> state * list output.
Definition skip : act := fun s => (s, []).
Definition seq (a b : act) : act :=
  fun s => let (s1, o1) := a s in let (s2, o2) := b s1 in (s2, o1 ++ o2).
Infix ";;" := seq (at level 61, right associativity).
Definition emit (o : output) : act := fun s => (s, [o]).
Definition emits (o : list output) : act := fun s => (s, o).
Definition upd (f : state -> state) : act := fun s => (f s, []).
Definition fresh_rid (k : Z -> act) : act := fun s => k (next_rid s) (set_next_rid (next_rid s + 1) s).

Fixpoint take_first {A} (p : A -> bool) (l : list A) : option (A * list A) :=
  match l with
  | [] => None
  | x :: r => if p x then Some (x, r)
              else match take_first p r with Some (y, r') => Some (y, x :: r') | None => None end
  end.

(* ---- shutdown lists (the local current_consumers of one shutdown_consumers call, _group.py:755) ---- *)
Definition sh_has (cid : Z) (l : list shc) : bool :=
  existsb (fun x => (c_id (sh_c x) =? cid) && negb (sh_done x)) l.
Definition sh_mark_done (cid : Z) (l : list shc) : list shc :=
  map (fun x => if c_id (sh_c x) =? cid then mkSh (sh_c x) true else x) l.
Definition sh_all_done (l : list shc) : bool := forallb sh_done l.
Definition sh_pending_ids (l : list shc) : list Z :=
  map (fun x => c_id (sh_c x)) (filter (fun x => negb (sh_done x)) l).
Definition c_fail (cid : Z) (c : consumer) : consumer :=
  if c_id c =? cid then mkC (c_id c) (c_topic c) (c_part c) (c_gen c) (c_mem c) true else c.
Definition sh_fail (cid : Z) (l : list shc) : list shc := map (fun x => mkSh (c_fail cid (sh_c x)) (sh_done x)) l.
Definition sh_can_fail (cid : Z) (l : list shc) : bool :=
  existsb (fun x => (c_id (sh_c x) =? cid) && negb (sh_done x) && negb (c_failed (sh_c x))) l.

(* dict-of-lists order: self.consumers.setdefault(topic, []).append(c), flattened topic by topic (:855, :758-759) *)
Fixpoint insert_by {A} (key : A -> Z) (x : A) (l : list A) : list A :=
  match l with
  | [] => [x]
  | y :: r => if (key y =? key x) && negb (existsb (fun z => key z =? key x) r) then y :: x :: r
              else y :: insert_by key x r
  end.
Definition group_by_topic (asg : list (Z * Z)) : list (Z * Z) :=
  fold_left (fun acc tp => insert_by fst tp acc) asg [].

(* ---- consumers ---- *)
(* stop_consumers :795-814 = on_group_leave :816-822 (Coordinator.on_group_leave :520-525 only logs) *)
Definition on_group_leave : act := fun s =>
  if is_group s then (set_consumers [] s, map (fun c => OStopC (c_id c)) (consumers s)) else (s, []).

(* the first half of shutdown_consumers :754-779: take self.consumers, call shutdown() on each *)
Definition begin_shutdown (s : state) : list shc * state * list output :=
  (map (fun c => mkSh c false) (consumers s), set_consumers [] s, map (fun c => OShutC (c_id c)) (consumers s)).

(* Coordinator._stop_pending :463-465 (ConsumerGroup.stop sets _stop_requested before it waits for its consumers) *)
Definition stop_pend (s : state) : bool := stopping s || stop_requested s.

(* ---- the join generator ---- *)
Definition add_gen (g : gen) (s : state) : state := set_gens (g :: gens s) s.

(* send_join_group_request :161-190 issued from generator gid, which then waits at :479 *)
Definition send_join (gid : Z) : act :=
  fresh_rid (fun rid s => (add_gen (mkGen gid (GJoin rid)) s, [OJoin rid (member s)])).
(* send_sync_group_request :192-207, generator waits at :506 *)
Definition send_sync (gid : Z) (leader : bool) : act :=
  fresh_rid (fun rid s => (add_gen (mkGen gid (GSync rid)) s, [OSync rid (generation s) (member s) leader])).

(* cleanup_rejoin_d :449-451 - runs whenever ANY _join_and_sync generator finishes *)
Definition gen_end : act := upd (set_rejoin_d None).

(* except branch of shutdown_consumers :782-792: stop every consumer of the list that still has _start_d *)
Definition stop_pending (l : list shc) : list output := map OStopC (sh_pending_ids l).

(* d.cancel() on self._rejoin_d (:294-296) when it is the Deferred of generator gid *)
Definition cancel_gen (gid : Z) : act := fun s =>
  match take_first (fun g => g_id g =? gid) (gens s) with
  | None => (s, [])                                    (* the generator is running right now: nothing to cancel *)
  | Some (g, rest) =>
      let s := set_gens rest s in
      match g_ph g with
      | GLookup rid | GMeta rid | GParts rid =>        (* CancelledError is raised inside the generator: it dies; *)
          (emit (OCancelReq rid) ;; gen_end) s         (* rejoin_d_errback only logs it (not a KafkaError) *)
      | GJoin rid | GSync rid =>                       (* rejoin_after_error(:394-396) turns it into None: generator returns *)
          (emit (OCancelReq rid) ;; gen_end) s
      | GPrepare l =>                                  (* DeferredList.cancel -> first shutdown Deferred fails -> :782-792 stops every
                                                          consumer, shutdown_consumers returns normally; the caller (Coordinator.stop
                                                          :294-296) has _stopping set, so _stop_pending() at :477 ends the generator *)
          (emits (stop_pending l) ;; gen_end) s
      end
  end.

(* ---- stop ---- *)
(* end of a stop() call: `finally` of ConsumerGroup.stop :892-893, then its Deferred fires *)
Definition finish_stop (st : stopi) (code : Z) : act := fun s =>
  (if is_group s then set_stop_requested false s else s,
   if 0 <=? st_idx st then [OStopD (st_idx st) code] else []).

(* Coordinator.stop :294-309, after the leave-group exchange *)
Definition stop_tail (st : stopi) : act := fun s =>
  let (s1, o1) := match rejoin_d s with
                  | Some gid => cancel_gen gid (set_rejoin_d None s)
                  | None => (s, [])
                  end in
  let s2 := set_cur_assign [] (set_coord_known false (set_generation (-1) (set_member 0 s1))) in
  match start_d s2 with
  | Some idx =>
      let (s3, o3) := finish_stop st 0 (set_tail_done true (set_start_d None s2)) in
      (s3, o1 ++ [OStartD idx (st_err st)] ++ o3)
  | None =>                                            (* `d.called` on None: AttributeError ends the call *)
      let (s3, o3) := finish_stop st 2 s2 in (s3, o1 ++ o3)
  end.

Definition remove_timer (id : Z) (s : state) : state :=
  set_timers (filter (fun t => negb (fst t =? id)) (timers s)) s.

(* LoopingCall.stop() on the heartbeat looper *)
Definition hb_stop : act := fun s => (set_hb_running false s, [OCancelTimer THeartbeat 0]).

(* Coordinator.stop :265-292 *)
Definition coord_stop (st : stopi) : act := fun s =>
  match start_d s with
  | None => finish_stop st 1 s                                        (* :267-268 RestopError *)
  | Some _ =>
      if stopping s then finish_stop st 1 s                           (* :270-271 RestopError *)
      else
        let s := set_rejoin_needed false (set_stopping true s) in     (* :275-276 *)
        match dc s with
        | DcStale => finish_stop st 2 s                               (* :278 cancel() of a dead call raises *)
        | _ =>
            let (s, o1) := match dc s with                            (* :277-278 *)
                           | DcActive id => (set_dc DcStale (remove_timer id s), [OCancelTimer TRejoin id])
                           | _ => (s, []) end in
            let (s, o2) := match hb_req s with                        (* :280-281 -> _handle_heartbeat_failure(:332-335) *)
                           | Some rid =>
                               let s := set_hb_req None s in
                               if hb_running s then let (s', o) := hb_stop s in (s', OCancelReq rid :: o)
                               else (s, [OCancelReq rid])             (* AssertionError inside the errback: swallowed *)
                           | None => (s, []) end in
            let (s, o3) := if hb_running s then hb_stop s else (s, []) in   (* :283-285 *)
            if coord_known s && negb (member s =? 0) then             (* :288-292 *)
              let rid := next_rid s in
              (set_stops (mkStop (st_idx st) (st_err st) (S2 rid) :: stops s) (set_next_rid (rid + 1) s),
               o1 ++ o2 ++ o3 ++ [OLeave rid (member s)])
            else let (s, o4) := stop_tail st s in (s, o1 ++ o2 ++ o3 ++ o4)
        end
  end.

(* self.stop(errback_result): ConsumerGroup.stop :878-893 or Coordinator.stop *)
Definition do_stop (idx : Z) (err : option ekind) : act := fun s =>
  if is_group s then
    let s := set_stop_requested true s in                             (* :888 *)
    match consumers s with
    | [] => coord_stop (mkStop idx err (S2 0)) s                      (* :890 nothing to wait for, :891 *)
    | _ :: _ => let '(l, s, o) := begin_shutdown s in
                (set_stops (mkStop idx err (S1 l) :: stops s) s, o)
    end
  else coord_stop (mkStop idx err (S2 0)) s.

(* ---- rejoin_after_error :354-426 ---- *)
(* ghost [escaped]: "the last _join_and_sync ended with a non-Kafka exception that was only logged, and nothing has been scheduled or
   started since" - set by gen_fail, cleared whenever a join_and_sync call is armed or a new generator starts *)
Definition new_timer (k : tkind) (d : delay) (f : Z -> state -> state) : act := fun s =>
  let id := next_timer s in
  (f id (set_escaped false (set_timers ((id, k) :: timers s) (set_next_timer (id + 1) s))), [OSched k d id]).

Definition schedule_rejoin (d : delay) : act := fun s =>
  let s := set_rejoin_needed true s in                                (* :421-422 *)
  match dc s with
  | DcNone => new_timer TRejoin d (fun id => set_dc (DcActive id)) s  (* :423-426 *)
  | _ => (s, [])
  end.

Definition fatal (k : ekind) : act := on_group_leave ;; do_stop (-1) (Some k).   (* :410-415 *)

(* :417-419: while stop() is leaving the group nothing is scheduled *)
Definition resched (d : delay) : act := fun s => if stopping s then (s, []) else schedule_rejoin d s.

Definition rejoin_after_error (k : ekind) : act :=
  match k with
  | KRebalance => resched DRetry
  | KCna | KNotCoord => emit OReset ;; resched DRetry
  | KIllGen => on_group_leave ;; resched DRetry
  | KInvGroup | KUnkMember => on_group_leave ;; upd (set_member 0) ;; resched DRetry
  | KInconsistent => resched DFatal
  | KTimeout => on_group_leave ;; emit OReset ;; resched DFatal
  | KCancelled => fun s => if stopping s then (s, []) else fatal KCancelled s
  | KOtherKafka => resched DFatal
  | KNonKafka => fatal KNonKafka
  end.

(* the generator raised k: cleanup_rejoin_d, then rejoin_d_errback :453-457 *)
Definition gen_fail (k : ekind) : act :=
  gen_end ;; (if is_kafka k then rejoin_after_error k else upd (set_escaped true)).

(* ---- join_and_sync :428-461, ConsumerGroup.join_and_sync :895-901 ---- *)
Definition join_and_sync : act := fun s =>
  if is_group s && stop_requested s then
    (match dc s with DcActive _ => s | _ => set_dc DcNone s end, [])
  else
    let s := set_dc DcNone s in                                       (* :436-437 *)
    if negb (rejoin_needed s) then (s, [])                            (* :439-441 *)
    else match rejoin_d s with
         | Some _ => (s, [])                                          (* :444-447 *)
         | None =>                                                    (* :459 _join_and_sync() runs to :470 *)
             let gid := next_gen s in let rid := next_rid s in
             (set_rejoin_d (Some gid) (add_gen (mkGen gid (GLookup rid))
                (set_escaped false (set_next_gen (gid + 1) (set_next_rid (rid + 1) s)))), [OLookup rid])
         end.

(* on_join_prepare :824-831 then :477-479 (reached with _stop_pending() false: without consumers nothing runs in between) *)
Definition prepare_and_join (gid : Z) : act := fun s =>
  if is_group s then
    match consumers s with
    | [] => send_join gid s
    | _ :: _ => let '(l, s, o) := begin_shutdown s in (add_gen (mkGen gid (GPrepare l)) s, o)
    end
  else send_join gid s.

(* reset_heartbeat_timer :254-263 *)
Definition reset_heartbeat_timer : act := fun s =>
  if hb_running s then (s, [OCancelTimer THeartbeat 0; OSched THeartbeat DHeartbeat 0])
  else (set_hb_running true s, [OSched THeartbeat DHeartbeat 0]).

(* on_join_complete :833-858 *)
Fixpoint start_consumers (tps : list (Z * Z)) : act :=
  match tps with
  | [] => skip
  | (t, p) :: r =>
      (fun s => let c := mkC (next_cid s) t p (generation s) (member s) false in
                (set_consumers (insert_by c_topic c (consumers s)) (set_next_cid (next_cid s + 1) s),
                 [OStartC (c_id c) t p (c_gen c) (c_mem c)])) ;; start_consumers r
  end.
Definition on_join_complete (asg : list (Z * Z)) : act := fun s =>
  if is_group s then (if stop_requested s then (s, []) else start_consumers (group_by_topic asg) s) else (s, []).
(* does `Consumer(...)` raise for the (n+1)-th consumer of this assignment?  (only a ConsumerGroup that is not stopping builds any) *)
Definition ctor_raises (asg : list (Z * Z)) (n : Z) (s : state) : bool :=
  is_group s && negb (stop_requested s) && (0 <=? n) && (n <? Z.of_nat (length (group_by_topic asg))).

(* ---- event handlers ---- *)
Definition awaits (ph : gphase) (g : gen) : bool :=
  match ph, g_ph g with
  | GLookup a, GLookup b | GMeta a, GMeta b | GJoin a, GJoin b | GParts a, GParts b | GSync a, GSync b => a =? b
  | _, _ => false
  end.
Definition with_gen (ph : gphase) (k : gen -> act) : act := fun s =>
  match take_first (awaits ph) (gens s) with
  | Some (g, rest) => k g (set_gens rest s)
  | None => (s, [])
  end.

Definition coord_retry (d : delay) : act := new_timer TCoordRetry d (fun _ s => s).    (* :137-140, :145-148 *)

Definition on_lookup (rid : Z) (r : lookup_res) : act :=
  with_gen (GLookup rid) (fun g =>
    match r with
    | LBroker => fresh_rid (fun rid' s => (add_gen (mkGen (g_id g) (GMeta rid')) s, [OMeta rid']))     (* :153-155 *)
    | LNone => coord_retry DInitial ;; gen_end                                                          (* :144-149, :471-472 *)
    | LFail k =>
        match k with
        | KCna | KNotCoord => coord_retry DInitial ;; gen_end                                           (* :120-130 *)
        | KTimeout => coord_retry DFatal ;; gen_end
        | KCancelled | KNonKafka => gen_fail k                                                          (* :134-135 *)
        | _ => coord_retry DFatal ;; gen_end                                                            (* :131-133 *)
        end
    end).

Definition on_meta (rid : Z) (r : simple_res) : act :=
  with_gen (GMeta rid) (fun g =>
    match r with
    | ROk => fun s => if stop_pend s then gen_end s                                                     (* :471-472 *)
                      else prepare_and_join (g_id g) (set_coord_known true s)                           (* :473-479 *)
    | RFail k => gen_fail k
    end).

Definition on_join (rid : Z) (r : join_res) : act :=
  with_gen (GJoin rid) (fun g =>
    match r with
    | JOk gn mem role =>
        upd (fun s => set_cur_assign [] (set_generation gn (set_member mem s))) ;;                      (* :170-174 *)
        (fun s => if stop_pend s then gen_end s                                                         (* :480-482 *)
                  else if role =? 0 then send_sync (g_id g) false s                                     (* :489-490, :505-506 *)
                  else if role =? 1 then
                         fresh_rid (fun rid' s => (add_gen (mkGen (g_id g) (GParts rid')) s, [OParts rid'])) s   (* :491-497 *)
                  else gen_fail KNonKafka s)                                                            (* :492 raises *)
    | JFail k => rejoin_after_error k ;; gen_end                                                        (* :187, :480-482 *)
    end).

Definition on_parts (rid : Z) (r : parts_res) : act :=
  with_gen (GParts rid) (fun g =>
    match r with
    | POk => fun s => if stop_pend s then gen_end s else send_sync (g_id g) true s                      (* :498-506 *)
    | PMissing => gen_fail KNonKafka                                                                    (* :498 raises _NeedTopicPartitions again *)
    | PFail k => gen_fail k
    end).

Definition on_sync (rid : Z) (r : sync_res) : act :=
  with_gen (GSync rid) (fun g =>
    match r with
    | SFail k => rejoin_after_error k ;; gen_end                                                        (* :206, :507-509 *)
    | _ => fun s =>
        if stop_pend s then gen_end s                                                                   (* :507-509 *)
        else match r with
             | SOk asg => (upd (set_cur_assign asg) ;; reset_heartbeat_timer ;;                         (* :513-514 *)
                           upd (set_rejoin_needed false) ;; on_join_complete asg ;; gen_end) s          (* :515-518 *)
             | SOkRaise asg n =>
                 if ctor_raises asg n s then                                   (* :845 raises inside the loop: the consumers built so far stay *)
                   (upd (set_cur_assign asg) ;; reset_heartbeat_timer ;; upd (set_rejoin_needed false) ;;
                    start_consumers (firstn (Z.to_nat n) (group_by_topic asg)) ;; gen_fail KNonKafka) s   (* exception escapes, :453-457 logs it *)
                 else (upd (set_cur_assign asg) ;; reset_heartbeat_timer ;; upd (set_rejoin_needed false) ;; on_join_complete asg ;; gen_end) s
             | SBadNonKafka => gen_fail KNonKafka s                                                     (* :513 raises *)
             | _ => gen_fail KOtherKafka s
             end
    end).

(* LoopingCall.__call__ -> _heartbeat :311-325 *)
Definition on_tick : act := fun s =>
  if hb_running s then
    if stopping s || rejoin_needed s || (match hb_req s with Some _ => true | None => false end)
    then (s, [OSched THeartbeat DHeartbeat 0])
    else let rid := next_rid s in
         (set_hb_req (Some rid) (set_next_rid (rid + 1) s),
          [OHeartbeat rid (generation s) (member s); OSched THeartbeat DHeartbeat 0])
  else (s, []).

Definition on_hb_reply (rid : Z) (r : simple_res) : act := fun s =>
  match hb_req s with
  | Some rid' =>
      if rid' =? rid then
        let s := set_hb_req None s in
        match r with
        | ROk => (s, [])                                                                                (* :327-330 *)
        | RFail k => if hb_running s then (hb_stop ;; rejoin_after_error k) s                           (* :332-335 *)
                     else (s, [])                                       (* LoopingCall.stop asserts: the errback raises, nothing else runs *)
        end
      else (s, [])
  | None => (s, [])
  end.

Definition on_fire (id : Z) : act := fun s =>
  if existsb (fun t => fst t =? id) (timers s) then
    let s := remove_timer id s in
    let s := match dc s with DcActive id' => if id' =? id then set_dc DcStale s else s | _ => s end in
    join_and_sync s
  else (s, []).

Definition is_s2 (rid : Z) (st : stopi) : bool := match st_ph st with S2 r => r =? rid | _ => false end.
Definition on_leave (rid : Z) (r : simple_res) : act := fun s =>
  match take_first (is_s2 rid) (stops s) with
  | Some (st, rest) =>
      let s := set_stops rest s in
      let s := match r with
               | ROk => set_cur_assign [] (set_generation (-1) (set_member 0 s))                        (* :216-219 *)
               | RFail _ => s end in                                                                    (* :291-292 *)
      stop_tail st s
  | None => (s, [])
  end.

(* consumer start Deferred fails -> on_consumer_error :860-876 *)
Definition gen_fail_c (cid : Z) (g : gen) : gen :=
  match g_ph g with GPrepare l => mkGen (g_id g) (GPrepare (sh_fail cid l)) | _ => g end.
Definition stop_fail_c (cid : Z) (st : stopi) : stopi :=
  match st_ph st with S1 l => mkStop (st_idx st) (st_err st) (S1 (sh_fail cid l)) | _ => st end.
Definition gen_list (g : gen) : list shc := match g_ph g with GPrepare l => l | _ => [] end.
Definition stop_list (st : stopi) : list shc := match st_ph st with S1 l => l | _ => [] end.
Definition can_fail (cid : Z) (s : state) : bool :=
  existsb (fun c => (c_id c =? cid) && negb (c_failed c)) (consumers s)
  || existsb (fun g => sh_can_fail cid (gen_list g)) (gens s)
  || existsb (fun st => sh_can_fail cid (stop_list st)) (stops s).
Definition on_cfail (cid : Z) (k : ekind) : act := fun s =>
  if can_fail cid s then
    let s := set_stops (map (stop_fail_c cid) (stops s))
               (set_gens (map (gen_fail_c cid) (gens s)) (set_consumers (map (c_fail cid) (consumers s)) s)) in
    match k, consumers s with
    | KCancelled, [] => (s, [])                                                                         (* :872-874 *)
    | _, _ => rejoin_after_error k s                                                                    (* :876 *)
    end
  else (s, []).

(* :477-479: on_join_prepare's Deferred fired *)
Definition after_prepare (gid : Z) : act := fun s => if stop_pend s then gen_end s else send_join gid s.

(* a consumer's shutdown Deferred fires: the DeferredList of :781 *)
Definition on_cshut (cid : Z) (ok : bool) : act := fun s =>
  match take_first (fun g => sh_has cid (gen_list g)) (gens s) with
  | Some (g, rest) =>
      let l := gen_list g in
      if ok then
        let l' := sh_mark_done cid l in
        if sh_all_done l' then after_prepare (g_id g) (set_gens rest s)                                 (* :793, :477-479 *)
        else (set_gens (mkGen (g_id g) (GPrepare l') :: rest) s, [])
      else (emits (stop_pending (sh_mark_done cid l)) ;; after_prepare (g_id g)) (set_gens rest s)      (* :782-792, :477-479 *)
  | None =>
      match take_first (fun st => sh_has cid (stop_list st)) (stops s) with
      | Some (st, rest) =>
          let l := stop_list st in
          if ok then
            let l' := sh_mark_done cid l in
            if sh_all_done l' then coord_stop st (set_stops rest s)                                     (* :891 *)
            else (set_stops (mkStop (st_idx st) (st_err st) (S1 l') :: rest) s, [])
          else (emits (stop_pending (sh_mark_done cid l)) ;; coord_stop st) (set_stops rest s)
      | None => (s, [])
      end
  end.

(* ghost: the member has been started at some point (before that, stop() only raises RestopError) *)
Definition started (s : state) : bool := match start_d s with Some _ => true | None => stopping s end.

Definition is_stopd (idx : Z) (o : output) : bool := match o with OStopD i _ => i =? idx | _ => false end.

Definition step (s : state) (e : event) : state * list output :=
  match e with
  | EStart =>                                                                                           (* :245-252 *)
      match start_d s with
      | Some _ => (s, [OApi 1])
      | None => let (s', o) := join_and_sync (set_n_start (n_start s + 1) (set_start_d (Some (n_start s)) s)) in
                (s', o ++ [OApi 0])
      end
  | EStop =>
      let idx := n_stop s in
      let (s', o) := do_stop idx None (set_stop_called (stop_called s || started s) (set_n_stop (idx + 1) s)) in
      (* the caller sees the Deferred only when stop() has returned *)
      (s', filter (fun x => negb (is_stopd idx x)) o ++ [OApi 0] ++ filter (is_stopd idx) o)
  | ELookup rid r => on_lookup rid r s
  | EMeta rid r => on_meta rid r s
  | EJoin rid r => on_join rid r s
  | EParts rid r => on_parts rid r s
  | ESync rid r => on_sync rid r s
  | ETick => on_tick s
  | EHbReply rid r => on_hb_reply rid r s
  | EFire id => on_fire id s
  | ELeave rid r => on_leave rid r s
  | ECFail cid k => on_cfail cid k s
  | ECShut cid ok => on_cshut cid ok s
  end.

Fixpoint run_from (s : state) (evs : list event) : state * list (list output) :=
  match evs with
  | [] => (s, [])
  | e :: r => let (s1, o) := step s e in let (s2, os) := run_from s1 r in (s2, o :: os)
  end.
Definition run (grp : bool) (evs : list event) := run_from (init grp) evs.
Definition state_after (grp : bool) (evs : list event) : state := fold_left (fun s e => fst (step s e)) evs (init grp).

(* ================= case lines (harness/props/group_lib.py documents the integer format) ================= *)
Definition kind_of_Z (z : Z) : option ekind :=
  match z with
  | 0 => Some KRebalance | 1 => Some KCna | 2 => Some KNotCoord | 3 => Some KIllGen | 4 => Some KInvGroup
  | 5 => Some KUnkMember | 6 => Some KInconsistent | 7 => Some KTimeout | 8 => Some KOtherKafka
  | 9 => Some KCancelled | 10 => Some KNonKafka | _ => None
  end.
Definition Z_of_kind (k : ekind) : Z :=
  match k with
  | KRebalance => 0 | KCna => 1 | KNotCoord => 2 | KIllGen => 3 | KInvGroup => 4 | KUnkMember => 5
  | KInconsistent => 6 | KTimeout => 7 | KOtherKafka => 8 | KCancelled => 9 | KNonKafka => 10
  end.
Definition fail_of_Z (z : Z) : option ekind := if 100 <=? z then kind_of_Z (z - 100) else None.
Definition simple_of_Z (z : Z) : option simple_res :=
  if z =? 0 then Some ROk else option_map RFail (fail_of_Z z).

Fixpoint pairs_of (n : nat) (l : list Z) : option (list (Z * Z) * list Z) :=
  match n with
  | O => Some ([], l)
  | S n' => match l with
            | t :: p :: r =>
                if (0 <=? t) && (t <? 1000) && (0 <=? p) && (p <? 2147483648) then
                  match pairs_of n' r with Some (ps, r') => Some ((t, p) :: ps, r') | None => None end
                else None
            | _ => None
            end
  end.

Fixpoint parse_events (fuel : nat) (l : list Z) : option (list event) :=
  match fuel with
  | O => match l with [] => Some [] | _ => None end
  | S f =>
      let k (e : option event) (r : list Z) :=
        match e, parse_events f r with Some e, Some es => Some (e :: es) | _, _ => None end in
      match l with
      | [] => Some []
      | 1 :: r => k (Some EStart) r
      | 2 :: r => k (Some EStop) r
      | 3 :: rid :: x :: r =>
          k (if x =? 0 then Some (ELookup rid LBroker) else if x =? 1 then Some (ELookup rid LNone)
             else option_map (fun e => ELookup rid (LFail e)) (fail_of_Z x)) r
      | 4 :: rid :: x :: r => k (option_map (EMeta rid) (simple_of_Z x)) r
      | 5 :: rid :: x :: gn :: mem :: role :: r =>
          k (if (0 <=? gn) && (0 <=? mem) && (0 <=? role) && (role <=? 2) then
               if x =? 0 then Some (EJoin rid (JOk gn mem role))
               else option_map (fun e => EJoin rid (JFail e)) (fail_of_Z x)
             else None) r
      | 6 :: rid :: x :: r =>
          k (if x =? 0 then Some (EParts rid POk) else if x =? 1 then Some (EParts rid PMissing)
             else option_map (fun e => EParts rid (PFail e)) (fail_of_Z x)) r
      | 7 :: rid :: x :: n :: r =>
          if n <? 0 then None else
          match pairs_of (Z.to_nat n) r with
          | Some (ps, r') =>
              k (if x =? 0 then Some (ESync rid (SOk ps)) else if x =? 1 then Some (ESync rid SBadNonKafka)
                 else if x =? 2 then Some (ESync rid SBadKafka)
                 else if (10 <=? x) && (x <? 100) then Some (ESync rid (SOkRaise ps (x - 10)))
                 else option_map (fun e => ESync rid (SFail e)) (fail_of_Z x)) r'
          | None => None
          end
      | 8 :: r => k (Some ETick) r
      | 9 :: rid :: x :: r => k (option_map (EHbReply rid) (simple_of_Z x)) r
      | 10 :: id :: r => k (Some (EFire id)) r
      | 11 :: rid :: x :: r => k (option_map (ELeave rid) (simple_of_Z x)) r
      | 12 :: cid :: x :: r => k (option_map (ECFail cid) (kind_of_Z x)) r
      | 13 :: cid :: x :: r => k (if x =? 0 then Some (ECShut cid true) else if x =? 1 then Some (ECShut cid false) else None) r
      | _ => None
      end
  end.

Definition Z_of_tclass (k : tkind) : Z := match k with THeartbeat => 1 | _ => 0 end.
Definition Z_of_delay (d : delay) : Z := match d with DInitial => 0 | DRetry => 1 | DFatal => 2 | DHeartbeat => 3 end.
Definition enc_out (o : output) : list Z :=
  match o with
  | OLookup rid => [1; rid] | OMeta rid => [2; rid] | OJoin rid m => [3; rid; m] | OParts rid => [4; rid]
  | OSync rid g m l => [5; rid; g; m; if l then 1 else 0]
  | OHeartbeat rid g m => [6; rid; g; m] | OLeave rid m => [7; rid; m]
  | OSched k d id => [8; Z_of_tclass k; Z_of_delay d; id] | OCancelTimer k id => [9; Z_of_tclass k; id]
  | OStartC cid t p g m => [10; cid; t; p; g; m; 1]       (* start(OFFSET_COMMITTED), :856 *)
  | OShutC cid => [11; cid] | OStopC cid => [12; cid]
  | OStartD idx r => [13; idx; match r with None => 0 | Some k => 100 + Z_of_kind k end]
  | OStopD idx c => [14; idx; c] | OApi c => [15; c] | OReset => [16] | OCancelReq rid => [17; rid]
  end.

Definition enc_trace (os : list (list output)) : list Z :=
  flat_map (fun o => (-1) :: flat_map enc_out o) os.

Definition run_case (c : list Z) : list Z :=
  match c with
  | k :: r =>
      if (k =? 0) || (k =? 1) then
        match parse_events (length r) r with
        | Some evs => enc_trace (snd (run (k =? 1) evs))
        | None => [-99]
        end
      else [-99]
  | [] => [-99]
  end.
