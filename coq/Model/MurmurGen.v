(* GENERATED: translation FAILED: assignment form *)
From Coq Require Import ZArith List.
Open Scope Z_scope.
Definition gen_pure_murmur2 (a : list Z) (s : Z) : Z := -1.
Definition gen_seed : Z := -1.
