(* M0b: zlib.crc32 as the bitwise reflected CRC-32
     polynomial 0xEDB88320 (reflected 0x04C11DB7), initial register 0xFFFFFFFF, final xor 0xFFFFFFFF,
     bytes processed least-significant bit first.
   Used by afkak/kafkacodec.py:344,354 (_encode_message) and :386 (_decode_message) as
   `zlib.crc32(msg) & 0xFFFFFFFF`.  zlib itself is outside the model (trusted base); the tie is the
   correspondence run (op 5 of Model.CodecRun) and the check value crc32 "123456789" = 0xCBF43926.

   The register-level definitions ([POLY] [upd0] [is32] [b2n] [updb] [crc_bits] [val] [xorl]) carry the SAME names
   and bodies as the burst-error proof probe (memory/probe_crc_burst_proof.v.txt) so that proof ports unchanged:
   it speaks about [crc_bits r bits]; the byte-level functions below are [crc_bits] on [bits_of data]
   (bytes LSB first), which is the bridge lemma a proof file has to supply:
       crc_update r data = crc_bits r (bits_of data)          for bytes < 256
   (by crc_bits_word: crc_bits r (byte_bits b) = Nat.iter 8 upd0 (lxor r (val (byte_bits b))), val (byte_bits b) = b). *)
From Coq Require Import NArith.
From AV Require Import Base.Util.

Local Open Scope N_scope.

Definition POLY : N := 0xEDB88320.

(* one zero-bit step of the reflected shift register *)
Definition upd0 (r : N) : N := N.lxor (N.shiftr r 1) (if N.odd r then POLY else 0).

Definition is32 (r : N) : Prop := r < 2 ^ 32.

(* ---- bit-serial view (what the burst theorem is stated on) ---- *)
Definition b2n (b : bool) : N := if b then 1 else 0.
Definition updb (r : N) (b : bool) : N := upd0 (N.lxor r (b2n b)).
Definition crc_bits (r : N) (bits : list bool) : N := fold_left updb bits r.

(* value of an LSB-first bit list *)
Fixpoint val (bits : list bool) : N :=
  match bits with [] => 0 | b :: t => N.lxor (b2n b) (N.shiftl (val t) 1) end.

(* xor of two bit lists (truncates to the shorter) *)
Fixpoint xorl (a b : list bool) : list bool :=
  match a, b with x :: a', y :: b' => xorb x y :: xorl a' b' | _, _ => [] end.

(* the 8 bits of a byte in the order the CRC consumes them (least significant first) *)
Definition byte_bits (b : N) : list bool :=
  [N.testbit b 0; N.testbit b 1; N.testbit b 2; N.testbit b 3;
   N.testbit b 4; N.testbit b 5; N.testbit b 6; N.testbit b 7].
Definition bits_of (data : list N) : list bool := flat_map byte_bits data.

(* ---- byte-wise view (what runs) ---- *)
(* xor the byte into the low 8 bits, then 8 zero-steps *)
Definition upd_byte (r b : N) : N := Nat.iter 8 upd0 (N.lxor r b).
Definition crc_update (r : N) (data : list N) : N := fold_left upd_byte data r.

Definition INIT : N := 0xFFFFFFFF.
Definition crc32N (data : list N) : N := N.lxor (crc_update INIT data) 0xFFFFFFFF.

(* zlib.crc32(bytes) & 0xFFFFFFFF on the framework's byte representation *)
Definition crc32 (data : list Z) : Z := Z.of_N (crc32N (map Z.to_N data)).
