(* The step-preserved invariant of Model/Producer.v and the accounting of caller Deferreds:
   every step splits the outstanding sends into those resolved in the step (exactly one outcome each) and those
   still outstanding.  Used by ProducerC19.v, ProducerC09.v (and by the C01 proofs). *)
From AV Require Import Base.Util Model.Producer Proofs.ProducerBase.
From Coq Require Import Lia Permutation Sorted.

(* ------------------------------------------------------------------ vocabulary *)
Definition ids (l : list send) : list Z := map s_id l.

(* the requests of the batch in flight *)
Definition batch_sends (p : phase) : list send :=
  match p with
  | Idle => []
  | Looking reqs _ | VerWait reqs _ => reqs
  | Sending pls _ | RetryWait pls _ _ => all_sends pls
  end.

(* send ids that receive an outcome in a list of outputs *)
Definition oc (out : list output) : list Z :=
  flat_map (fun o => match o with OOutcome sid _ => [sid] | _ => [] end) out.

Fixpoint zsum (l : list Z) : Z := match l with [] => 0 | x :: r => x + zsum r end.

Definition sorted_lt (l : list Z) : Prop := StronglySorted Z.lt l.

Lemma oc_app : forall a b, oc (a ++ b) = oc a ++ oc b.
Proof. intros; unfold oc; apply flat_map_app. Qed.

Lemma oc_lk : forall o, lk_outs o -> oc o = [].
Proof.
  induction o as [|x r IH]; intros H; [reflexivity|]. inversion H; subst. simpl.
  rewrite (IH H3). destruct x; simpl in *; try discriminate; reflexivity.
Qed.

Lemma zsum_app : forall a b, zsum (a ++ b) = zsum a + zsum b.
Proof. induction a; simpl; intros; [reflexivity|rewrite IHa; lia]. Qed.

Lemma zmem_In : forall x l, zmem x l = true <-> In x l.
Proof.
  unfold zmem; intros x l. rewrite existsb_exists. split.
  - intros (y & H & E). apply Z.eqb_eq in E; subst; auto.
  - intros H; exists x; split; auto. apply Z.eqb_refl.
Qed.
Lemma zmem_false : forall x l, zmem x l = false <-> ~ In x l.
Proof. intros x l. rewrite <- zmem_In. destruct (zmem x l); split; intros; try congruence; try tauto. Qed.

Lemma zremove_In : forall x y l, In y (zremove x l) <-> In y l /\ y <> x.
Proof.
  unfold zremove; intros. rewrite filter_In. split; intros [A B]; split; auto.
  - intros ->. rewrite Z.eqb_refl in B; discriminate.
  - apply Z.eqb_neq in B. rewrite B; reflexivity.
Qed.

Lemma zremove_notin : forall x l, ~ In x l -> zremove x l = l.
Proof.
  induction l as [|y r IH]; simpl; intros H; [reflexivity|].
  destruct (y =? x) eqn:E; simpl.
  - apply Z.eqb_eq in E; subst; tauto.
  - rewrite IH; tauto.
Qed.

Lemma zremove_perm : forall x l, NoDup l -> In x l -> Permutation l (x :: zremove x l).
Proof.
  induction l as [|y r IH]; simpl; intros N H; [tauto|]. inversion N; subst.
  destruct (y =? x) eqn:E; simpl.
  - apply Z.eqb_eq in E; subst. rewrite zremove_notin; auto.
  - destruct H as [->|H]; [rewrite Z.eqb_refl in E; discriminate|].
    etransitivity; [apply perm_skip; apply IH; auto|apply perm_swap].
Qed.

Lemma nodup_app_r : forall (a b : list Z), NoDup (a ++ b) -> NoDup b.
Proof. induction a; simpl; intros b H; auto. inversion H; auto. Qed.
Lemma nodup_app_l : forall (a b : list Z), NoDup (a ++ b) -> NoDup a.
Proof.
  induction a; simpl; intros b H; [constructor|]. inversion H; subst. constructor; eauto.
  intros X; apply H2; apply in_or_app; auto.
Qed.
Lemma nodup_app_disj : forall (a b : list Z) x, NoDup (a ++ b) -> In x a -> In x b -> False.
Proof.
  induction a; simpl; intros b x H A B; [tauto|]. inversion H; subst. destruct A as [->|A]; eauto.
  apply H2; apply in_or_app; auto.
Qed.

(* ------------------------------------------------------------------ accounting of outcomes
   B: the sends whose Deferreds the piece of code may fire *)
Record ostep (B : list Z) (s s' : state) (out : list output) : Prop := {
  os_perm : Permutation (outstanding s) (oc out ++ outstanding s');
  os_in : incl (oc out) B }.

Lemma ostep_nil : forall B s s', outstanding s' = outstanding s -> ostep B s s' [].
Proof. intros B s s' H; constructor; simpl; [rewrite H; reflexivity|intros ? []]. Qed.

Lemma ostep_same : forall B s s' out, outstanding s' = outstanding s -> oc out = [] -> ostep B s s' out.
Proof. intros B s s' out H E; constructor; rewrite E; simpl; [rewrite H; reflexivity|intros ? []]. Qed.

Lemma ostep_trans : forall B s s1 s2 o1 o2, ostep B s s1 o1 -> ostep B s1 s2 o2 -> ostep B s s2 (o1 ++ o2).
Proof.
  intros B s s1 s2 o1 o2 [P1 I1] [P2 I2]; constructor; rewrite oc_app.
  - rewrite P1, P2. rewrite app_assoc. reflexivity.
  - apply incl_app; auto.
Qed.

Lemma ostep_mono : forall B B' s s' out, incl B B' -> ostep B s s' out -> ostep B' s s' out.
Proof. intros B B' s s' out H [P I]; constructor; auto. eapply incl_tran; eauto. Qed.

Lemma ostep_nodup : forall B s s' out, ostep B s s' out -> NoDup (outstanding s) -> NoDup (outstanding s').
Proof.
  intros B s s' out [P _] N. eapply Permutation_NoDup in N; [|exact P]. eapply nodup_app_r; eauto.
Qed.

Lemma ostep_sub : forall B s s' out, ostep B s s' out -> incl (outstanding s') (outstanding s).
Proof. intros B s s' out [P _] i H. eapply Permutation_in; [symmetry; exact P|]. apply in_or_app; auto. Qed.

Lemma ostep_keep : forall B s s' out i, ostep B s s' out -> In i (outstanding s) -> ~ In i B -> In i (outstanding s').
Proof.
  intros B s s' out i [P I] H N. eapply Permutation_in in H; [|exact P]. apply in_app_or in H as [H|H]; auto.
  exfalso; auto.
Qed.

Lemma eq_xo_fields : forall s s', eq_xo s s' ->
  queue s' = queue s /\ wcnt s' = wcnt s /\ wbytes s' = wbytes s /\ ph s' = ph s /\ attempts s' = attempts s /\
  didx s' = didx s /\ nsp s' = nsp s /\ stopping s' = stopping s /\ looper s' = looper s /\ api s' = api s /\
  cache s' = cache s /\ nsend s' = nsend s /\ nload s' = nload s /\ ntimer s' = ntimer s.
Proof. unfold eq_xo; intros s s' H; rewrite H; simpl; repeat split. Qed.

Lemma deliver_ostep : forall l s o s' out, NoDup (outstanding s) -> deliver s l o = (s', out) ->
  ostep (ids l) s s' out /\ Forall (fun ou => exists sid, ou = OOutcome sid o) out.
Proof.
  induction l as [|x r IH]; simpl; intros s o s' out N H.
  - inv H. split; [apply ostep_nil; reflexivity|constructor].
  - destruct (zmem (s_id x) (outstanding s)) eqn:M.
    + destruct (deliver _ r o) as [s1 o1] eqn:E. inv H. apply zmem_In in M.
      pose proof (zremove_perm _ _ N M) as P.
      assert (N1 : NoDup (zremove (s_id x) (outstanding s))).
      { eapply Permutation_NoDup in N; [|exact P]. inversion N; auto. }
      apply IH in E as [[P1 I1] F1]; [|exact N1]. simpl in P1. split.
      * constructor; simpl.
        -- rewrite P. apply perm_skip. exact P1.
        -- intros i [<-|Hi]; [left; reflexivity|right; apply I1; auto].
      * constructor; eauto.
    + apply IH in H as [[P1 I1] F1]; auto. split; auto. constructor; auto. intros i Hi; right; apply I1; auto.
Qed.

Lemma Forall_outcome_only : forall o out, Forall (fun ou => exists sid, ou = OOutcome sid o) out -> only_outcomes out.
Proof. intros o out H; eapply Forall_impl; [|exact H]. intros ? [sid ->]; reflexivity. Qed.

(* ------------------------------------------------------------------ payload bookkeeping *)
Lemma all_sends_app : forall a b, all_sends (a ++ b) = all_sends a ++ all_sends b.
Proof. intros; unfold all_sends; apply flat_map_app. Qed.

Lemma sends_of_incl : forall pls x, incl (sends_of pls x) (all_sends pls).
Proof.
  unfold sends_of, find_payload, all_sends; intros pls x. destruct (find _ pls) as [p|] eqn:E; [|intros ? []].
  apply find_some in E as [E _]. intros y Hy. apply in_flat_map. eauto.
Qed.

Lemma all_sends_filter_incl : forall f pls, incl (all_sends (filter f pls)) (all_sends pls).
Proof.
  unfold all_sends; intros f pls y Hy. apply in_flat_map in Hy as (p & Hp & Hy). apply filter_In in Hp as [Hp _].
  apply in_flat_map; eauto.
Qed.

Lemma ids_incl : forall a b, incl a b -> incl (ids a) (ids b).
Proof. unfold ids; intros a b H i Hi. apply in_map_iff in Hi as (x & <- & Hx). apply in_map; auto. Qed.

Lemma add_to_payload_perm : forall pls x r, Permutation (all_sends (add_to_payload pls x r)) (r :: all_sends pls).
Proof.
  induction pls as [|p rest IH]; simpl; intros x r; [reflexivity|].
  destruct (tp_eqb (p_tp p) x); simpl.
  - rewrite <- app_assoc. simpl. symmetry. apply Permutation_middle.
  - unfold all_sends in *. rewrite IH. symmetry. apply Permutation_middle.
Qed.

Lemma group_requests_spec : forall reqs res s pls s' out pls', NoDup (outstanding s) ->
  group_requests s reqs res pls = (s', out, pls') ->
  ostep (ids reqs) s s' out /\
  incl (all_sends pls') (all_sends pls ++ reqs) /\
  (NoDup (ids (all_sends pls) ++ ids reqs) -> NoDup (ids (all_sends pls'))).
Proof.
  induction reqs as [|x r IH]; cbn [group_requests]; intros res s pls s' out pls' N H.
  - inv H. split; [apply ostep_nil; reflexivity|]. split; [rewrite app_nil_r; apply incl_refl|].
    simpl; rewrite app_nil_r; auto.
  - destruct res as [|y res].
    { inv H. split; [apply ostep_nil; reflexivity|]. split; [apply incl_appl; apply incl_refl|].
      intros D; eapply nodup_app_l; eauto. }
    assert (SKIP : forall s0 pls0 out0, NoDup (outstanding s0) -> group_requests s0 r res pls = (s', out0, pls0) ->
      ostep (ids (x :: r)) s0 s' out0 /\ incl (all_sends pls0) (all_sends pls ++ x :: r) /\
      (NoDup (ids (all_sends pls) ++ ids (x :: r)) -> NoDup (ids (all_sends pls0)))).
    { intros s0 pls0 out0 N0 H0. apply IH in H0 as (A & B & C); auto. split; [|split].
      - eapply ostep_mono; [|exact A]. apply incl_tl; apply incl_refl.
      - intros z Hz. apply B in Hz. apply in_app_or in Hz as [Hz|Hz]; apply in_or_app; [left|right; right]; auto.
      - intros D. apply C. simpl in D. apply NoDup_remove_1 in D. exact D. }
    destruct (negb (zmem (s_id x) (outstanding s))); [apply SKIP; auto|].
    destruct y.
    + apply IH in H as (A & B & C); auto. split; [|split].
      * eapply ostep_mono; [|exact A]. apply incl_tl; apply incl_refl.
      * intros z Hz. apply B in Hz. apply in_app_or in Hz as [Hz|Hz]; apply in_or_app.
        -- eapply Permutation_in in Hz; [|apply add_to_payload_perm]. destruct Hz as [<-|Hz]; [right; left|left]; auto.
        -- right; right; auto.
      * intros D. apply C. eapply Permutation_NoDup; [|exact D].
        unfold ids. rewrite (Permutation_map s_id (add_to_payload_perm pls (s_topic x, p) x)). simpl.
        symmetry. apply Permutation_middle.
    + destruct (deliver s [x] (OFail k 0)) as [s1 o1] eqn:E1.
      destruct (group_requests s1 r res pls) as [[s2 o2] pls2] eqn:E2. inv H.
      apply deliver_ostep in E1 as [A1 _]; auto.
      pose proof (ostep_nodup _ _ _ _ A1 N) as N1.
      apply SKIP in E2 as (A & B & C); auto. split; [|split]; auto.
      eapply ostep_trans; [|exact A]. eapply ostep_mono; [|exact A1]. simpl. intros z [<-|[]]; left; reflexivity.
Qed.

Lemma process_resps_ostep : forall rs s pls s' out fl, NoDup (outstanding s) ->
  process_resps s pls rs = (s', out, fl) -> ostep (ids (all_sends pls)) s s' out.
Proof.
  induction rs as [|[[x err] off] r IH]; simpl; intros s pls s' out fl N H.
  - inv H; apply ostep_nil; reflexivity.
  - destruct (err =? 0).
    + destruct (deliver s (sends_of pls x) _) as [s1 o1] eqn:E1.
      destruct (process_resps s1 pls r) as [[s2 o2] f2] eqn:E2. inv H.
      apply deliver_ostep in E1 as [A1 _]; auto. pose proof (ostep_nodup _ _ _ _ A1 N) as N1.
      apply IH in E2; auto. eapply ostep_trans; [|exact E2]. eapply ostep_mono; [|exact A1].
      apply ids_incl, sends_of_incl.
    + destruct (process_resps s pls r) as [[s2 o2] f2] eqn:E2. inv H. eapply IH; eauto.
Qed.

Lemma deliver_failed_ostep : forall fl s pls s' out, NoDup (outstanding s) ->
  deliver_failed s pls fl = (s', out) -> ostep (ids (all_sends pls)) s s' out.
Proof.
  induction fl as [|[[x k] b] r IH]; simpl; intros s pls s' out N H.
  - inv H; apply ostep_nil; reflexivity.
  - destruct (deliver s (sends_of pls x) _) as [s1 o1] eqn:E1.
    destruct (deliver_failed s1 pls r) as [s2 o2] eqn:E2. inv H.
    apply deliver_ostep in E1 as [A1 _]; auto. pose proof (ostep_nodup _ _ _ _ A1 N) as N1.
    apply IH in E2; auto. eapply ostep_trans; [|exact E2]. eapply ostep_mono; [|exact A1].
    apply ids_incl, sends_of_incl.
Qed.

(* ------------------------------------------------------------------ helpers that work on the batch in flight
   B: the requests of that batch at entry *)
Definition ph_wf (p : phase) : Prop := match p with Looking reqs ls => length ls = length reqs | _ => True end.

Record bstep (B : list send) (s s1 : state) (o1 : list output) (done : bool) : Prop := {
  bs_keeps : keeps_q s s1;
  bs_ng : no_ghost o1;
  bs_ostep : ostep (ids B) s s1 o1;
  bs_ph : done = false -> ph s1 <> Idle /\ incl (batch_sends (ph s1)) B /\ NoDup (ids (batch_sends (ph s1))) /\ ph_wf (ph s1) }.

Lemma bstep_seq : forall B s s1 o1 s2 o2 done,
  keeps_q s s1 -> no_ghost o1 -> ostep (ids B) s s1 o1 -> bstep B s1 s2 o2 done -> bstep B s s2 (o1 ++ o2) done.
Proof.
  intros B s s1 o1 s2 o2 done K N O [K2 N2 O2 P2]; constructor; auto with prod.
  - eapply keeps_q_trans; eauto.
  - eapply ostep_trans; eauto.
Qed.

Lemma xo_ostep_keeps : forall s s', eq_xo s s' -> keeps_q s s'.
Proof. auto with prod. Qed.

Lemma send_requests_bstep : forall s reqs res s1 o1 done, NoDup (outstanding s) -> NoDup (ids reqs) ->
  send_requests s reqs res = (s1, o1, done) -> bstep reqs s s1 o1 done.
Proof.
  unfold send_requests; intros s reqs res s1 o1 done N D H.
  destruct (stopping s).
  { inv H; constructor; auto with prod; [apply ostep_nil; reflexivity|discriminate]. }
  destruct (api s =? 0).
  { inv H; constructor; [kq|repeat constructor|apply ostep_same; reflexivity|].
    intros _; simpl; repeat split; [discriminate|apply incl_refl|exact D]. }
  destruct (group_requests s reqs res []) as [[s2 o2] pls] eqn:E.
  pose proof (group_requests_xo _ _ _ _ _ _ _ E) as [X1 X2].
  apply group_requests_spec in E as (A & B & C); auto. simpl in B, C.
  destruct pls as [|p pls].
  - inv H; constructor; auto with prod; discriminate.
  - destruct (broken s2); [inv H; constructor; auto with prod; discriminate|].
    inv H; constructor.
    + eapply keeps_q_trans; [apply eq_xo_keeps; exact X1|kq].
    + apply no_ghost_app; auto with prod. repeat constructor.
    + replace (o2 ++ [_]) with (o2 ++ [] ++ [OSendProduce 1 (magic_of s2) (map payload_view (p :: pls))]) by reflexivity.
      constructor; [|].
      * rewrite oc_app; simpl; rewrite app_nil_r. destruct A as [PA _]. exact PA.
      * rewrite oc_app; simpl; rewrite app_nil_r. destruct A as [_ IA]. exact IA.
    + intros _; simpl; repeat split; [discriminate|exact B|apply C; exact D].
Qed.

Lemma lookups_progress_bstep : forall s reqs ls s1 o1 done, NoDup (outstanding s) -> NoDup (ids reqs) ->
  length ls = length reqs ->
  lookups_progress s reqs ls = (s1, o1, done) -> bstep reqs s s1 o1 done.
Proof.
  unfold lookups_progress; intros s reqs ls s1 o1 done N D L H. destruct (all_done ls).
  - eapply send_requests_bstep; eauto.
  - inv H; constructor; [kq|constructor|apply ostep_nil; reflexivity|].
    intros _; simpl; repeat split; [discriminate|apply incl_refl|exact D|exact L].
Qed.

Lemma version_failed_bstep : forall s reqs k s1 o1 done, NoDup (outstanding s) ->
  version_failed s reqs k = (s1, o1, done) -> bstep reqs s s1 o1 done.
Proof.
  unfold version_failed; intros s reqs k s1 o1 done N H. destruct (deliver s reqs (OFail k 0)) as [s2 o2] eqn:E.
  pose proof (deliver_xo _ _ _ _ _ E) as [E1 E2]. apply deliver_ostep in E as [A _]; auto.
  inv H; constructor; auto with prod; discriminate.
Qed.

Lemma check_retry_bstep : forall c s pls fl s1 o1 done, NoDup (outstanding s) -> NoDup (ids (all_sends pls)) ->
  check_retry c s pls fl = (s1, o1, done) -> bstep (all_sends pls) s s1 o1 done.
Proof.
  unfold check_retry; intros c s pls fl s1 o1 done N D H.
  destruct ((c_max c <=? attempts s) || stopping s).
  - destruct (deliver_failed s pls fl) as [s2 o2] eqn:E. pose proof (deliver_failed_xo _ _ _ _ _ E) as [E1 E2].
    apply deliver_failed_ostep in E; auto. inv H; constructor; auto with prod; discriminate.
  - inv H; constructor.
    + destruct (reset_topics fl); kq.
    + destruct (reset_topics fl); repeat constructor.
    + apply ostep_same; [destruct (reset_topics fl); reflexivity|destruct (reset_topics fl); reflexivity].
    + intros _; simpl; repeat split; [discriminate|apply incl_refl|exact D].
Qed.

Lemma handle_result_bstep : forall c s pls cur v s1 o1 done, NoDup (outstanding s) -> NoDup (ids (all_sends pls)) ->
  handle_result c s pls cur v = (s1, o1, done) -> bstep (all_sends pls) s s1 o1 done.
Proof.
  unfold handle_result; intros c s pls cur v s1 o1 done N D H. destruct v.
  - destruct (deliver s (all_sends pls) _) as [s2 o2] eqn:E. pose proof (deliver_xo _ _ _ _ _ E) as [E1 E2].
    apply deliver_ostep in E as [A _]; auto. inv H; constructor; auto with prod; discriminate.
  - destruct (process_resps s pls rs) as [[s2 o2] f2] eqn:E. pose proof (process_resps_xo _ _ _ _ _ _ E) as [E1 E2].
    apply process_resps_ostep in E; auto. pose proof (ostep_nodup _ _ _ _ E N) as N2.
    destruct f2.
    + inv H; constructor; auto with prod; discriminate.
    + destruct (check_retry c s2 pls (p :: f2)) as [[s3 o3] d3] eqn:E3. inv H.
      apply check_retry_bstep in E3; auto. apply bstep_seq with s2; auto with prod.
  - destruct (if c_acks c =? 0 then _ else _) as [s0 o0] eqn:E0.
    assert (A0 : eq_xo s s0 /\ only_outcomes o0 /\ ostep (ids (all_sends pls)) s s0 o0).
    { destruct (c_acks c =? 0).
      - pose proof (deliver_xo _ _ _ _ _ E0) as [X1 X2]. apply deliver_ostep in E0 as [A _]; auto.
        split; [auto|split; [auto|]]. eapply ostep_mono; [|exact A]. apply ids_incl, all_sends_filter_incl.
      - inv E0; split; [auto with prod|split; [auto with prod|]]. apply ostep_nil; reflexivity. }
    destruct A0 as (A1 & A2 & A3). pose proof (ostep_nodup _ _ _ _ A3 N) as N0.
    destruct (process_resps s0 pls rs) as [[s2 o2] f2] eqn:E. pose proof (process_resps_xo _ _ _ _ _ _ E) as [E1 E2].
    apply process_resps_ostep in E; auto. pose proof (ostep_nodup _ _ _ _ E N0) as N2.
    destruct (check_retry c s2 pls _) as [[s3 o3] d3] eqn:E3. inv H.
    apply check_retry_bstep in E3; auto.
    apply bstep_seq with s0; auto with prod. apply bstep_seq with s2; auto with prod.
  - eapply check_retry_bstep; eauto.
  - destruct (deliver s (all_sends pls) _) as [s2 o2] eqn:E. pose proof (deliver_xo _ _ _ _ _ E) as [E1 E2].
    apply deliver_ostep in E as [A _]; auto. inv H; constructor; auto with prod; discriminate.
Qed.

(* ------------------------------------------------------------------ the events that work on the batch in flight *)
Lemma eq_xl_fields : forall s s', eq_xl s s' ->
  queue s' = queue s /\ wcnt s' = wcnt s /\ wbytes s' = wbytes s /\ ph s' = ph s /\ outstanding s' = outstanding s /\
  nsp s' = nsp s /\ stopping s' = stopping s /\ looper s' = looper s /\ api s' = api s /\
  cache s' = cache s /\ nsend s' = nsend s.
Proof. unfold eq_xl; intros s s' H; rewrite H; simpl; repeat split. Qed.

Lemma lk_outs_ostep : forall B s s' o, eq_xl s s' -> lk_outs o -> ostep B s s' o.
Proof. intros B s s' o X L. apply ostep_same; [apply eq_xl_outstanding; auto|apply oc_lk; auto]. Qed.

Definition batch_event (e : event) : bool :=
  match e with ELoadDone _ _ _ | ETimer _ | EVersion _ | EResult _ | EResultOmit _ => true | _ => false end.

Lemma set_client_keeps : forall s a c, keeps_q s (set_client s a c).
Proof. intros; kq. Qed.

Lemma core_batch : forall c s e s1 o1 ep,
  NoDup (outstanding s) -> NoDup (ids (batch_sends (ph s))) -> ph_wf (ph s) -> batch_event e = true ->
  core c s e = (s1, o1, ep) ->
  (s1 = s /\ o1 = [] /\ ep = NoEpi) \/
  (ph s <> Idle /\ exists done, bstep (batch_sends (ph s)) s s1 o1 done /\ ep = (if done then Fin else NoEpi)).
Proof.
  intros c s e s1 o1 ep N D W BE H. destruct e; try discriminate; cbn [core] in H.
  - (* ELoadDone *)
    destruct (ph s) eqn:P; try (inv H; left; auto; fail). simpl in D, W.
    destruct (map_lookups _ s reqs ls) as [[s2 o2] ls2] eqn:E.
    apply map_lookups_xl in E as (A1 & A2 & A3).
    2:{ intros st x l st' o' l' Hf. destruct l; try discriminate. destruct (lid0 =? lid); [|discriminate].
        inv Hf. destruct ok; [eapply lookup_loaded_xl; eauto|inv H1; xl_done]. }
    destruct (lookups_progress s2 reqs ls2) as [[s3 o3] d3] eqn:E3. unfold fin_if in H. inv H.
    right; split; [discriminate|]. exists d3; split; auto. simpl.
    apply lookups_progress_bstep in E3; [|rewrite (eq_xl_outstanding _ _ A1); auto|auto|congruence].
    apply bstep_seq with s2; auto with prod. apply lk_outs_ostep; auto.
  - (* ETimer *)
    destruct (ph s) eqn:P; try (inv H; left; auto; fail); simpl in D, W.
    + destruct (map_lookups _ s reqs ls) as [[s2 o2] ls2] eqn:E.
      apply map_lookups_xl in E as (A1 & A2 & A3).
      2:{ intros st x l st' o' l' Hf. destruct l; try discriminate. destruct (tid0 =? tid); [|discriminate].
          inv Hf. eapply lookup_head_xl; eauto. }
      destruct (lookups_progress s2 reqs ls2) as [[s3 o3] d3] eqn:E3. unfold fin_if in H. inv H.
      right; split; [discriminate|]. exists d3; split; auto. simpl.
      apply lookups_progress_bstep in E3; [|rewrite (eq_xl_outstanding _ _ A1); auto|auto|congruence].
      apply bstep_seq with s2; auto with prod. apply lk_outs_ostep; auto.
    + destruct (tid0 =? tid); [|inv H; left; auto].
      destruct (broken s).
      { inv H. right; split; [discriminate|]. exists true; split; auto. constructor;
          [apply keeps_q_refl|constructor|apply ostep_nil; reflexivity|discriminate]. }
      inv H.
      right; split; [discriminate|]. exists false; split; auto. constructor.
      * kq.
      * repeat constructor.
      * apply ostep_same; reflexivity.
      * intros _; simpl; repeat split; [discriminate|apply incl_refl|exact D].
  - (* EVersion *)
    destruct (ph s) eqn:P; try (inv H; left; auto; fail); simpl in D, W.
    assert (G : forall a d, send_requests (set_client s a (cache s)) reqs res = (s1, o1, d) -> bstep reqs s s1 o1 d).
    { intros a d Hs. apply send_requests_bstep in Hs; auto. destruct Hs as [K G O Pp]. constructor; auto.
      - eapply keeps_q_trans; [apply set_client_keeps|exact K].
      - destruct O as [OP OI]; constructor; auto. }
    destruct (r =? 0).
    { destruct (send_requests _ reqs res) as [[s2 o2] d2] eqn:E. unfold fin_if in H. inv H.
      right; split; [discriminate|]. exists d2; split; auto. simpl; eauto. }
    destruct (r =? 1).
    { destruct (send_requests _ reqs res) as [[s2 o2] d2] eqn:E. unfold fin_if in H. inv H.
      right; split; [discriminate|]. exists d2; split; auto. simpl; eauto. }
    destruct (version_failed s reqs r) as [[s2 o2] d2] eqn:E. unfold fin_if in H. inv H.
    right; split; [discriminate|]. exists d2; split; auto. simpl. eapply version_failed_bstep; eauto.
  - (* EResult *)
    destruct (ph s) eqn:P; try (inv H; left; auto; fail); simpl in D, W.
    destruct (result_ok c cur v); [|inv H; left; auto].
    destruct (handle_result c s pls cur v) as [[s2 o2] d2] eqn:E. unfold fin_if in H. inv H.
    right; split; [discriminate|]. exists d2; split; auto. simpl. eapply handle_result_bstep; eauto.
  - (* EResultOmit *)
    destruct (ph s) eqn:P; try (inv H; left; auto; fail); simpl in D, W.
    destruct (omit_ok c cur v); [|inv H; left; auto].
    destruct (handle_result c s pls cur v) as [[s2 o2] d2] eqn:E. unfold fin_if in H. inv H.
    right; split; [discriminate|]. exists d2; split; auto. simpl. eapply handle_result_bstep; eauto.
Qed.

Lemma cancel_batch_bstep : forall c s cv s1 o1 done,
  NoDup (outstanding s) -> NoDup (ids (batch_sends (ph s))) -> ph_wf (ph s) -> ph s <> Idle ->
  cancel_batch c s cv = (s1, o1, done) -> bstep (batch_sends (ph s)) s s1 o1 done.
Proof.
  unfold cancel_batch; intros c s cv s1 o1 done N D W NI H. destruct (ph s) eqn:P; [congruence| | | |]; simpl in D, W |- *.
  - destruct (map_lookups _ s reqs ls) as [[s2 o2] ls2] eqn:E.
    apply map_lookups_xl in E as (A1 & A2 & A3).
    2:{ intros st x l st' o' l' Hf. destruct l; [discriminate| |].
        - inv Hf. eapply lookup_loaded_xl; eauto.
        - inv Hf. xl_done. }
    destruct (lookups_progress s2 reqs ls2) as [[s3 o3] d3] eqn:E3. inv H.
    apply lookups_progress_bstep in E3; [|rewrite (eq_xl_outstanding _ _ A1); auto|auto|congruence].
    apply bstep_seq with s2; auto with prod. apply lk_outs_ostep; auto.
  - eapply version_failed_bstep; eauto.
  - eapply handle_result_bstep; eauto.
  - destruct (deliver s (all_sends pls) _) as [s2 o2] eqn:E. pose proof (deliver_xo _ _ _ _ _ E) as [E1 E2].
    apply deliver_ostep in E as [A _]; auto. inv H. constructor.
    + auto with prod.
    + constructor; [reflexivity|apply only_outcomes_no_ghost; auto].
    + destruct A as [PA IA]. constructor; simpl; auto.
    + discriminate.
Qed.

(* while stopping, cancelling the batch always ends it *)
Lemma all_done_Forall : forall ls, Forall (fun l => exists r, l = LDone r) ls -> exists res, all_done ls = Some res.
Proof.
  induction ls as [|l r IH]; intros H; [exists []; reflexivity|]. inversion H; subst.
  destruct (IH H3) as [res E]. destruct H2 as [x ->]. exists (x :: res). unfold all_done in *. simpl. rewrite E. reflexivity.
Qed.

Lemma cancel_lookups_done : forall c reqs ls s s' o ls', stopping s = true -> length ls = length reqs ->
  map_lookups (fun st x l =>
          match l with
          | LDone _ => None
          | LLoad _ => Some (lookup_loaded c st x)
          | LTimer tid => Some (st, [OCancelTimer tid], LDone (LFail K_TIDCANCEL))
          end) s reqs ls = (s', o, ls') ->
  Forall (fun l => exists r, l = LDone r) ls'.
Proof.
  induction reqs as [|x r IH]; intros ls s s' o ls' St L H; destruct ls as [|l ls]; try discriminate.
  - inv H; constructor.
  - cbn [map_lookups] in H. simpl in L. destruct l.
    + destruct (map_lookups _ s r ls) as [[s2 o2] ls2] eqn:E. inv H. constructor; eauto.
    + unfold lookup_loaded at 1 in H. rewrite St in H.
      destruct (map_lookups _ s r ls) as [[s2 o2] ls2] eqn:E. inv H. constructor; eauto.
    + destruct (map_lookups _ s r ls) as [[s2 o2] ls2] eqn:E. inv H. constructor; eauto.
Qed.

Lemma send_requests_stopping : forall s reqs res, stopping s = true -> send_requests s reqs res = (s, [], true).
Proof. unfold send_requests; intros s reqs res H; rewrite H; reflexivity. Qed.

Lemma check_retry_stopping : forall c s pls fl s1 o1 done, stopping s = true ->
  check_retry c s pls fl = (s1, o1, done) -> done = true.
Proof.
  unfold check_retry; intros c s pls fl s1 o1 done St H. rewrite St, orb_true_r in H.
  destruct (deliver_failed s pls fl); inv H; reflexivity.
Qed.

Lemma handle_result_stopping : forall c s pls cur v s1 o1 done, stopping s = true ->
  handle_result c s pls cur v = (s1, o1, done) -> done = true.
Proof.
  unfold handle_result; intros c s pls cur v s1 o1 done St H. destruct v.
  - destruct (deliver s (all_sends pls) _); inv H; reflexivity.
  - destruct (process_resps s pls rs) as [[s2 o2] f2] eqn:E. apply process_resps_xo in E as [E _].
    destruct f2; [inv H; reflexivity|].
    destruct (check_retry c s2 pls _) as [[s3 o3] d3] eqn:E3. inv H.
    eapply check_retry_stopping; [|exact E3]. apply eq_xo_keeps in E. destruct E; congruence.
  - destruct (if c_acks c =? 0 then _ else _) as [s0 o0] eqn:E0.
    assert (A0 : stopping s0 = true).
    { destruct (c_acks c =? 0); [apply deliver_xo in E0 as [E _]; apply eq_xo_keeps in E; destruct E; congruence|inv E0; auto]. }
    destruct (process_resps s0 pls rs) as [[s2 o2] f2] eqn:E. apply process_resps_xo in E as [E _].
    destruct (check_retry c s2 pls _) as [[s3 o3] d3] eqn:E3. inv H.
    eapply check_retry_stopping; [|exact E3]. apply eq_xo_keeps in E. destruct E; congruence.
  - eapply check_retry_stopping; eauto.
  - destruct (deliver s (all_sends pls) _); inv H; reflexivity.
Qed.

Lemma cancel_batch_done : forall c s cv s1 o1 done, stopping s = true -> ph_wf (ph s) -> ph s <> Idle ->
  cancel_batch c s cv = (s1, o1, done) -> done = true.
Proof.
  unfold cancel_batch; intros c s cv s1 o1 done St W NI H. destruct (ph s) eqn:P; [congruence| | | |]; simpl in W.
  - destruct (map_lookups _ s reqs ls) as [[s2 o2] ls2] eqn:E.
    pose proof (cancel_lookups_done _ _ _ _ _ _ _ St W E) as F.
    apply map_lookups_xl in E as (A1 & _).
    2:{ intros st x l st' o' l' Hf. destruct l; [discriminate| |].
        - inv Hf. eapply lookup_loaded_xl; eauto.
        - inv Hf. xl_done. }
    apply all_done_Forall in F as [res F]. unfold lookups_progress in H. rewrite F in H.
    rewrite send_requests_stopping in H; [inv H; reflexivity|].
    apply eq_xl_keeps in A1. destruct A1; congruence.
  - unfold version_failed in H. destruct (deliver s reqs _); inv H; reflexivity.
  - eapply handle_result_stopping; eauto.
  - destruct (deliver s (all_sends pls) _); inv H; reflexivity.
Qed.

(* ------------------------------------------------------------------ the invariant *)
Definition id_ok (s : state) (i : Z) : Prop := 0 <= i < nsend s.

(* B: the requests of the batch in flight *)
Record InvB (B : list send) (s : state) : Prop := {
  i_qwf : Forall (fun x => 1 <= s_cnt x /\ 0 <= s_bytes x) (queue s);
  i_wcnt : wcnt s = zsum (map s_cnt (queue s));
  i_wbytes : wbytes s = zsum (map s_bytes (queue s));
  i_qsorted : sorted_lt (ids (queue s));
  i_qbound : Forall (id_ok s) (ids (queue s));
  i_bnodup : NoDup (ids B);
  i_bbound : Forall (id_ok s) (ids B);
  i_blt : forall a b, In a (ids B) -> In b (ids (queue s)) -> a < b;
  i_onodup : NoDup (outstanding s);
  i_obound : Forall (id_ok s) (outstanding s);
  i_qout : incl (ids (queue s)) (outstanding s);
  i_nsend : 0 <= nsend s }.

(* WInv also holds half-way through stop(), where the LoopingCall has not been stopped yet *)
Record WInv (s : state) : Prop := {
  i_b : InvB (batch_sends (ph s)) s;
  i_phwf : ph_wf (ph s);
  i_idle : ph s = Idle -> attempts s = 0 /\ didx s = 0 /\ nsp s = 0;
  i_stop : stopping s = true -> ph s = Idle }.

Definition Inv (s : state) : Prop := WInv s /\ (stopping s = true -> looper s = false).

Lemma sorted_lt_nodup : forall l, sorted_lt l -> NoDup l.
Proof.
  induction l as [|x r IH]; intros H; [constructor|]. inversion H; subst. constructor; auto.
  intros X. rewrite Forall_forall in H3. apply H3 in X. lia.
Qed.

Lemma sorted_lt_app1 : forall l x, sorted_lt l -> Forall (fun y => y < x) l -> sorted_lt (l ++ [x]).
Proof.
  induction l as [|y r IH]; simpl; intros x S F; [repeat constructor|].
  inversion S; subst. inversion F; subst. constructor; [apply IH; auto|].
  apply Forall_app; split; auto.
Qed.

Lemma init_inv : forall has_t api0 cache0, Inv (init_state has_t api0 cache0).
Proof.
  intros; split; [|simpl; discriminate]. constructor; simpl; auto; try discriminate.
  constructor; simpl; auto; try constructor; try tauto; try lia. intros ? [].
Qed.

(* a piece of code that works on the batch keeps InvB, for whatever part of the batch is still in flight *)
Lemma invB_bstep : forall B s s1 o1 done B', InvB B s -> bstep B s s1 o1 done ->
  incl B' B -> NoDup (ids B') -> InvB B' s1.
Proof.
  intros B s s1 o1 done B' [Q1 Q2 Q3 Q4 Q5 B1 B2 B3 O1 O2 O3 NS] [[K1 K2 K3 K4 K5 K6 K7] G O P] I D.
  assert (II : incl (ids B') (ids B)) by (apply ids_incl; auto).
  constructor; try rewrite K1; try rewrite K2; try rewrite K3; unfold id_ok in *; try rewrite K6; auto.
  - rewrite Forall_forall in *; intros i Hi; apply B2; auto.
  - eapply ostep_nodup; eauto.
  - rewrite Forall_forall in *; intros i Hi. apply O2. eapply ostep_sub; eauto.
  - intros i Hi. eapply ostep_keep; [exact O|apply O3; exact Hi|]. intros X. specialize (B3 _ _ X Hi). lia.
Qed.

Lemma invB_xl : forall B s s', eq_xl s s' -> InvB B s -> InvB B s'.
Proof.
  intros B s s' X [Q1 Q2 Q3 Q4 Q5 B1 B2 B3 O1 O2 O3 NS].
  apply eq_xl_fields in X as (F1 & F2 & F3 & F4 & F5 & F6 & F7 & F8 & F9 & F10 & F11).
  constructor; unfold id_ok in *; try rewrite F1; try rewrite F2; try rewrite F3; try rewrite F5; try rewrite F11; auto.
Qed.

(* the end of a batch *)
Lemma finish0_inv : forall B s s' o, InvB B s ->
  finish0 s = (s', o) -> WInv s' /\ o = [OBatchDone] /\ keeps_q s s' /\ outstanding s' = outstanding s /\ ph s' = Idle.
Proof.
  unfold finish0; intros B s s' o [Q1 Q2 Q3 Q4 Q5 B1 B2 B3 O1 O2 O3 NS] H. inv H.
  split; [|repeat split; reflexivity]. constructor; simpl; auto.
  constructor; simpl; auto; try constructor. intros ? ? [].
Qed.

(* _send_batch once its guard passed *)
Lemma dispatch_inv : forall c s s' o, InvB [] s -> ph s = Idle -> stopping s = false ->
  dispatch c s = (s', o) ->
  WInv s' /\ ostep (ids (queue s)) s s' o /\ queue s' = [] /\ stopping s' = false /\ looper s' = looper s /\
  nsend s' = nsend s /\ incl (batch_sends (ph s')) (queue s).
Proof.
  unfold dispatch; intros c s s' o I P St H.
  set (s0 := set_queue s [] 0 0) in *.
  assert (I0 : InvB (queue s) s0).
  { destruct I as [Q1 Q2 Q3 Q4 Q5 B1 B2 B3 O1 O2 O3 NS]. constructor; simpl; auto; try constructor.
    - apply sorted_lt_nodup; auto.
    - intros ? ? ? []. - intros ? []. }
  destruct (map_lookups _ s0 (queue s) _) as [[s1 o1] ls] eqn:E1.
  apply map_lookups_xl in E1 as (A1 & A2 & A3);
    [|intros st x l st' o' l' Hf; inv Hf; eapply lookup_head_xl; eauto].
  rewrite map_length in A3.
  pose proof (invB_xl _ _ _ A1 I0) as I1.
  pose proof (eq_xl_fields _ _ A1) as (F1 & F2 & F3 & F4 & F5 & F6 & F7 & F8 & F9 & F10 & F11). simpl in *.
  destruct (lookups_progress s1 (queue s) ls) as [[s2 o2] done] eqn:E2.
  apply lookups_progress_bstep in E2; [|apply (i_onodup _ _ I1)|apply (i_bnodup _ _ I1)|exact A3].
  assert (O12 : ostep (ids (queue s)) s s2 (o1 ++ o2)).
  { eapply ostep_trans; [|apply (bs_ostep _ _ _ _ _ E2)]. apply lk_outs_ostep with (s := s0) (s' := s1) (B := ids (queue s)) in A2; auto.
    destruct A2 as [PA IA]; constructor; auto. }
  pose proof (bs_keeps _ _ _ _ _ E2) as [K1 K2 K3 K4 K5 K6 K7].
  destruct done.
  - pose proof (invB_bstep _ _ _ _ _ [] I1 E2 (incl_nil_l _) (NoDup_nil _)) as I2.
    destruct (finish0_inv [] s2 _ _ I2 eq_refl) as (J & _ & [L1 L2 L3 L4 L5 L6 L7b] & L7 & L8).
    unfold finish0 in *. simpl in H. inv H.
    split; auto. split.
    { replace (ODispatch (map s_id (queue s)) :: o1 ++ o2 ++ [OBatchDone]) with ([ODispatch (map s_id (queue s))] ++ (o1 ++ o2) ++ [OBatchDone])
        by (simpl; rewrite <- app_assoc; reflexivity).
      destruct O12 as [PA IA]. rewrite oc_app in PA, IA. constructor; repeat rewrite oc_app; simpl; rewrite app_nil_r; auto. }
    simpl in *. repeat split; try congruence. intros ? [].
  - inv H. destruct (bs_ph _ _ _ _ _ E2 eq_refl) as (P1 & P2 & P3 & P4).
    pose proof (invB_bstep _ _ _ _ _ _ I1 E2 P2 P3) as I2.
    split; [constructor; auto; [tauto|intros X; congruence]|].
    split.
    { destruct O12 as [PA IA]. constructor; simpl; auto. }
    repeat split; try congruence. auto.
Qed.

Lemma try_send_batch_inv : forall c s s' o, WInv s -> ph s = Idle ->
  try_send_batch c s = (s', o) ->
  WInv s' /\ ostep (ids (queue s)) s s' o /\ stopping s' = stopping s /\ looper s' = looper s /\ nsend s' = nsend s.
Proof.
  intros c s s' o I P H. apply try_send_batch_spec in H as [[R D]|(R & -> & ->)].
  - unfold ready, can_dispatch in R. rewrite P in R. destruct (queue s) eqn:Q; [discriminate|].
    apply negb_true_iff in R. rewrite <- Q in *.
    pose proof (i_b _ I) as IB. rewrite P in IB. simpl in IB.
    apply dispatch_inv in D as (A & B & C & E & F & G & _); auto.
    split; [auto|split; [auto|split; [congruence|split; auto]]].
  - split; [auto|split; [apply ostep_nil; reflexivity|auto]].
Qed.

Lemma check_send_batch_inv : forall c s s' o, WInv s -> ph s = Idle ->
  check_send_batch c s = (s', o) ->
  WInv s' /\ ostep (ids (queue s)) s s' o /\ stopping s' = stopping s /\ looper s' = looper s /\ nsend s' = nsend s.
Proof.
  unfold check_send_batch; intros c s s' o I P H. destruct (threshold c s).
  - eapply try_send_batch_inv; eauto.
  - inv H. split; [auto|split; [apply ostep_nil; reflexivity|auto]].
Qed.

Lemma finish_inv : forall c B s s' o, InvB B s -> finish c s = (s', o) ->
  WInv s' /\ ostep (ids (queue s)) s s' o /\ stopping s' = stopping s /\ looper s' = looper s /\ nsend s' = nsend s /\
  exists o2, o = OBatchDone :: o2.
Proof.
  unfold finish; intros c B s s' o I H.
  destruct (finish0_inv B s _ _ I eq_refl) as (J & _ & [L1 L2 L3 L4 L5 L6 L7b] & L7 & L8).
  unfold finish0 in *. cbn [fst snd] in *.
  destruct (check_send_batch c _) as [s2 o2] eqn:E. inv H.
  apply check_send_batch_inv in E as (A & Bq & C & D & F); auto.
  split; auto. split.
  { destruct Bq as [PA IA]. rewrite L1 in IA. constructor; simpl; auto. }
  repeat split; try congruence. eexists; reflexivity.
Qed.

Lemma not_idle_no_dispatch : forall c s, ph s <> Idle -> try_send_batch c s = (s, []) /\ check_send_batch c s = (s, []).
Proof.
  intros c s H. assert (E : try_send_batch c s = (s, [])).
  { unfold try_send_batch, can_dispatch. destruct (queue s); auto. destruct (ph s); auto; congruence. }
  split; auto. unfold check_send_batch. rewrite E. destruct (threshold c s); reflexivity.
Qed.

Lemma stopping_no_dispatch : forall c s, stopping s = true -> try_send_batch c s = (s, []) /\ check_send_batch c s = (s, []).
Proof.
  intros c s H. assert (E : try_send_batch c s = (s, [])).
  { unfold try_send_batch, can_dispatch. rewrite H. destruct (queue s); auto. destruct (ph s); auto. }
  split; auto. unfold check_send_batch. rewrite E. destruct (threshold c s); reflexivity.
Qed.

(* ------------------------------------------------------------------ queue surgery *)
Lemma sorted_lt_remove : forall (a b : list Z) x, sorted_lt (a ++ x :: b) -> sorted_lt (a ++ b).
Proof.
  induction a as [|y a IH]; simpl; intros b x H; inversion H; subst; auto.
  constructor; [eapply IH; eauto|]. apply Forall_app in H3 as [F1 F2]. inversion F2; subst. apply Forall_app; auto.
Qed.

Lemma invB_cancel_queued : forall B s a x b s',
  InvB B s -> queue s = a ++ x :: b -> queue s' = a ++ b -> wcnt s' = wcnt s - s_cnt x -> wbytes s' = wbytes s - s_bytes x ->
  outstanding s' = zremove (s_id x) (outstanding s) -> nsend s' = nsend s -> InvB B s'.
Proof.
  intros B s a x b s' [Q1 Q2 Q3 Q4 Q5 B1 B2 B3 O1 O2 O3 NS] Eq Eq' Ec Eb Eo En.
  rewrite Eq in *. unfold ids in *. rewrite map_app in *. simpl in *.
  assert (Hx : ~ In (s_id x) (map s_id a ++ map s_id b)).
  { apply sorted_lt_nodup in Q4. apply NoDup_remove_2 in Q4. exact Q4. }
  constructor; unfold id_ok, ids in *; rewrite ?Eq', ?Ec, ?Eb, ?Eo, ?En, ?map_app in *; auto.
  - apply Forall_app in Q1 as [F1 F2]. inversion F2; subst. apply Forall_app; auto.
  - rewrite Q2, !zsum_app. simpl. lia.
  - rewrite Q3, !zsum_app. simpl. lia.
  - eapply sorted_lt_remove; eauto.
  - apply Forall_app in Q5 as [F1 F2]. inversion F2; subst. apply Forall_app; auto.
  - intros p q Hp Hq. apply B3; auto. apply in_app_or in Hq as [Hq|Hq]; apply in_or_app; [left|right; right]; auto.
  - unfold zremove. apply NoDup_filter; auto.
  - rewrite Forall_forall in *. intros i Hi. apply zremove_In in Hi as [Hi _]. auto.
  - intros i Hi. apply zremove_In. split.
    + apply O3. apply in_app_or in Hi as [Hi|Hi]; apply in_or_app; [left|right; right]; auto.
    + intros ->. auto.
Qed.

Lemma invB_cancel_detached : forall B s sid s',
  InvB B s -> ~ In sid (ids (queue s)) -> queue s' = queue s -> wcnt s' = wcnt s -> wbytes s' = wbytes s ->
  outstanding s' = zremove sid (outstanding s) -> nsend s' = nsend s -> InvB B s'.
Proof.
  intros B s sid s' [Q1 Q2 Q3 Q4 Q5 B1 B2 B3 O1 O2 O3 NS] Hn Eq Ec Eb Eo En.
  constructor; unfold id_ok in *; rewrite ?Eq, ?Ec, ?Eb, ?Eo, ?En in *; auto.
  - unfold zremove. apply NoDup_filter; auto.
  - rewrite Forall_forall in *. intros i Hi. apply zremove_In in Hi as [Hi _]. auto.
  - intros i Hi. apply zremove_In. split; auto. intros ->; auto.
Qed.

Lemma cancel_send_inv : forall B s sid s1 o1, InvB B s -> cancel_send s sid = (s1, o1) ->
  InvB B s1 /\ ostep [sid] s s1 o1.
Proof.
  intros B s sid s1 o1 I H. pose proof (i_onodup _ _ I) as N.
  apply cancel_send_spec in H as (OO & P & St & Lp & Ns & At & Di & Np & Ap & Ca & Nl & Nt & [(-> & -> & M)|(M & Eo & [(Q & Wc & Wb & R & ->)|(x & R & Wc & Wb & ->)])]).
  - split; auto. apply ostep_nil; reflexivity.
  - split.
    + eapply invB_cancel_detached; eauto. apply remove_send_none; auto.
    + apply zmem_In in M. constructor; simpl; [rewrite Eo; apply zremove_perm; auto|intros ? [<-|[]]; left; reflexivity].
  - apply remove_send_spec in R as (a & b & Qa & Qb & Sx & _). subst sid. split.
    + eapply invB_cancel_queued; eauto.
    + apply zmem_In in M. constructor; simpl; [rewrite Eo; apply zremove_perm; auto|intros ? [<-|[]]; left; reflexivity].
Qed.

Lemma cancel_all_inv : forall B ids0 s s1 o1, InvB B s -> cancel_all s ids0 = (s1, o1) ->
  InvB B s1 /\ ostep ids0 s s1 o1 /\ (forall i, In i (outstanding s1) -> ~ In i ids0).
Proof.
  intros B; induction ids0 as [|i r IH]; simpl; intros s s1 o1 I H.
  - inv H. split; [auto|split; [apply ostep_nil; reflexivity|intros ? ? []]].
  - destruct (cancel_send s i) as [s2 o2] eqn:E. destruct (cancel_all s2 r) as [s3 o3] eqn:E3. inv H.
    pose proof (cancel_send_spec _ _ _ _ E) as SP.
    apply cancel_send_inv with (B := B) in E as [I2 O2]; auto.
    apply IH in E3 as (I3 & O3 & F3); auto. split; auto. split.
    + eapply ostep_trans; [eapply ostep_mono; [|exact O2]|eapply ostep_mono; [|exact O3]].
      * intros ? [<-|[]]; left; reflexivity.
      * apply incl_tl, incl_refl.
    + intros j Hj [<-|Hr]; [|eapply F3; eauto].
      apply (ostep_sub _ _ _ _ O3) in Hj.
      destruct SP as (_ & _ & _ & _ & _ & _ & _ & _ & _ & _ & _ & _ & [(-> & _ & M)|(M & Eo & _)]).
      * apply zmem_false in M; auto.
      * rewrite Eo in Hj. apply zremove_In in Hj as [_ Hj]; auto.
Qed.

Lemma cancel_all_frame : forall ids0 s s1 o1, cancel_all s ids0 = (s1, o1) ->
  ph s1 = ph s /\ attempts s1 = attempts s /\ didx s1 = didx s /\ nsp s1 = nsp s /\ nsend s1 = nsend s /\
  stopping s1 = stopping s /\ looper s1 = looper s.
Proof.
  induction ids0 as [|i r IH]; simpl; intros s s1 o1 H.
  - inv H; repeat split.
  - destruct (cancel_send s i) as [s2 o2] eqn:E. destruct (cancel_all s2 r) as [s3 o3] eqn:E3. inv H.
    apply cancel_send_spec in E as (_ & P & St & Lp & Ns & At & Di & Np & _).
    apply IH in E3 as (A1 & A2 & A3 & A4 & A5 & A6 & A7). repeat split; congruence.
Qed.

(* ------------------------------------------------------------------ every step keeps the invariant *)
Definition new_sids (s : state) (e : event) : list Z :=
  match e with ESend _ _ _ _ | EBadSend _ => [nsend s] | _ => [] end.

Record step_ok (s : state) (e : event) (s' : state) (out : list output) : Prop := {
  so_inv : Inv s';
  so_perm : Permutation (outstanding s ++ new_sids s e) (oc out ++ outstanding s');
  so_nsend : nsend s <= nsend s' }.

Lemma invB_same : forall B s s', InvB B s -> queue s' = queue s -> wcnt s' = wcnt s -> wbytes s' = wbytes s ->
  outstanding s' = outstanding s -> nsend s' = nsend s -> InvB B s'.
Proof.
  intros B s s' [Q1 Q2 Q3 Q4 Q5 B1 B2 B3 O1 O2 O3 NS] E1 E2 E3 E4 E5.
  constructor; unfold id_ok in *; rewrite ?E1, ?E2, ?E3, ?E4, ?E5; auto.
Qed.

Lemma invB_more_ids : forall B s s', InvB B s -> queue s' = queue s -> wcnt s' = wcnt s -> wbytes s' = wbytes s ->
  outstanding s' = outstanding s -> nsend s <= nsend s' -> InvB B s'.
Proof.
  intros B s s' [Q1 Q2 Q3 Q4 Q5 B1 B2 B3 O1 O2 O3 NS] E1 E2 E3 E4 E5.
  constructor; unfold id_ok in *; rewrite ?E1, ?E2, ?E3, ?E4; auto; try lia;
    (eapply Forall_impl; [|eassumption]); simpl; intros; lia.
Qed.

Lemma winv_frame : forall s s', WInv s -> InvB (batch_sends (ph s)) s' -> ph s' = ph s ->
  attempts s' = attempts s -> didx s' = didx s -> nsp s' = nsp s -> (stopping s' = true -> ph s = Idle) -> WInv s'.
Proof.
  intros s s' [A B C D] I P E1 E2 E3 St. constructor; rewrite ?P, ?E1, ?E2, ?E3; auto.
Qed.

Lemma phase_eq_idle : forall p : phase, p = Idle \/ p <> Idle.
Proof. intros []; [left; reflexivity|right; discriminate..]. Qed.

Lemma epi_dispatch_inv : forall c s1 ep s2 o2, WInv s1 -> ep = Check \/ ep = Try ->
  apply_epi c s1 ep = (s2, o2) ->
  WInv s2 /\ ostep (ids (queue s1)) s1 s2 o2 /\ stopping s2 = stopping s1 /\ looper s2 = looper s1 /\ nsend s2 = nsend s1.
Proof.
  intros c s1 ep s2 o2 W E H.
  destruct (phase_eq_idle (ph s1)) as [P|P].
  - destruct E as [-> | ->]; simpl in H; [eapply check_send_batch_inv|eapply try_send_batch_inv]; eauto.
  - destruct (not_idle_no_dispatch c s1 P) as [T C].
    assert (X : (s2, o2) = (s1, [])) by (destruct E as [-> | ->]; simpl in H; congruence).
    inv X. split; [auto|split; [apply ostep_nil; reflexivity|auto]].
Qed.

Lemma ostep_perm0 : forall B s s' out, ostep B s s' out -> Permutation (outstanding s ++ []) (oc out ++ outstanding s').
Proof. intros B s s' out [P _]. rewrite app_nil_r. exact P. Qed.

(* the body of a non-stop event, then its epilogue *)
Lemma step_nonstop : forall c s e s' out, (forall cv, e <> EStop cv) -> step c s e = (s', out) ->
  exists s1 o1 ep o2, core c s e = (s1, o1, ep) /\ apply_epi c s1 ep = (s', o2) /\ out = o1 ++ o2.
Proof.
  intros c s e s' out NE H. destruct e; try (exfalso; eapply NE; reflexivity); unfold step in H;
    destruct (core c s _) as [[s1 o1] ep] eqn:E; destruct (apply_epi c s1 ep) as [s2 o2] eqn:E2; inv H;
    exists s1, o1, ep, o2; auto.
Qed.

Lemma inv_send : forall s x, WInv s -> s_id x = nsend s -> 1 <= s_cnt x -> 0 <= s_bytes x ->
  WInv (set_outstanding (set_queue (set_ids s (nsend s + 1) (nload s) (ntimer s)) (queue s ++ [x]) (wcnt s + s_cnt x) (wbytes s + s_bytes x))
                        (outstanding s ++ [nsend s])).
Proof.
  intros s x [[Q1 Q2 Q3 Q4 Q5 B1 B2 B3 O1 O2 O3 NS] PW ID ST] Ex C1 C2.
  constructor; simpl; auto. constructor; simpl; unfold id_ok, ids in *; simpl; rewrite ?map_app; simpl; auto; try lia.
  - apply Forall_app; split; auto.
  - rewrite zsum_app; simpl; lia.
  - rewrite zsum_app; simpl; lia.
  - apply sorted_lt_app1; auto. eapply Forall_impl; [|exact Q5]. simpl; intros; lia.
  - apply Forall_app; split; [eapply Forall_impl; [|exact Q5]; simpl; intros; lia|constructor; [lia|constructor]].
  - eapply Forall_impl; [|exact B2]; simpl; intros; lia.
  - intros a b Ha Hb. apply in_app_or in Hb as [Hb|[<-|[]]]; auto. rewrite Forall_forall in B2. apply B2 in Ha. lia.
  - apply Permutation_NoDup with (nsend s :: outstanding s); [apply Permutation_cons_append|].
    constructor; auto. intros X. rewrite Forall_forall in O2. apply O2 in X. lia.
  - apply Forall_app; split; [eapply Forall_impl; [|exact O2]; simpl; intros; lia|constructor; [lia|constructor]].
  - intros i Hi. apply in_app_or in Hi as [Hi|[<-|[]]]; apply in_or_app; [left; auto|right; left; auto].
Qed.

Lemma step_batch_inv : forall c s e s' out, Inv s -> batch_event e = true -> step c s e = (s', out) -> step_ok s e s' out.
Proof.
  intros c s e s' out [W L] BE H. pose proof W as [IB PW ID ST].
  assert (NSd : new_sids s e = []) by (destruct e; try discriminate; reflexivity).
  destruct (step_nonstop c s e s' out) as (s1 & o1 & ep & o2 & C & A & ->); auto.
  { intros cv ->; discriminate. }
  apply core_batch in C as [(-> & -> & ->)|(NI & done & BS & ->)]; auto;
    try apply (i_onodup _ _ IB); try apply (i_bnodup _ _ IB).
  - simpl in A. inv A. constructor; simpl; rewrite ?NSd; try lia; [split; auto|rewrite app_nil_r; reflexivity].
  - assert (St : stopping s = false) by (destruct (stopping s); auto; exfalso; auto).
    pose proof (bs_keeps _ _ _ _ _ BS) as [K1 K2 K3 K4 K5 K6 K7].
    destruct done.
    + pose proof (invB_bstep _ _ _ _ _ [] IB BS (incl_nil_l _) (NoDup_nil _)) as I2.
      simpl in A. apply finish_inv with (B := []) in A as (W2 & O2 & S2 & L2 & N2 & _); auto.
      constructor; rewrite ?NSd; try lia.
      * split; auto. intros X. congruence.
      * eapply (ostep_perm0 (ids (batch_sends (ph s)) ++ ids (queue s1))). eapply ostep_trans.
        -- eapply ostep_mono; [apply incl_appl, incl_refl|apply (bs_ostep _ _ _ _ _ BS)].
        -- eapply ostep_mono; [apply incl_appr, incl_refl|exact O2].
    + simpl in A. inv A. destruct (bs_ph _ _ _ _ _ BS eq_refl) as (P1 & P2 & P3 & P4).
      pose proof (invB_bstep _ _ _ _ _ _ IB BS P2 P3) as I2. rewrite app_nil_r.
      constructor; rewrite ?NSd; try lia.
      * split; [|intros X; congruence]. constructor; auto; [tauto|intros X; congruence].
      * eapply ostep_perm0. apply (bs_ostep _ _ _ _ _ BS).
Qed.

Lemma step_stop_inv : forall c s cv s' out, Inv s -> step c s (EStop cv) = (s', out) -> step_ok s (EStop cv) s' out /\ outstanding s' = [].
Proof.
  intros c s cv s' out [W L] H. pose proof W as [IB PW ID ST].
  unfold step in H.
  set (s0 := set_flags s true (looper s)) in *.
  assert (I0 : InvB (batch_sends (ph s0)) s0) by (eapply invB_same; eauto).
  destruct (cancel_batch c s0 cv) as [[s1 o1] done] eqn:E.
  assert (M : exists s2 o2, apply_epi c s1 (if done then Fin else NoEpi) = (s2, o2) /\
               WInv s2 /\ ostep (ids (batch_sends (ph s)) ++ ids (queue s)) s s2 (o1 ++ o2) /\ stopping s2 = true /\ nsend s2 = nsend s).
  { destruct (phase_eq_idle (ph s)) as [P|P].
    - unfold cancel_batch in E. replace (ph s0) with Idle in E by (symmetry; exact P). inv E.
      exists s0, []. simpl. split; auto. split; [|split; [apply ostep_nil; reflexivity|auto]].
      eapply winv_frame with (s := s); auto.
    - pose proof (cancel_batch_done c s0 cv _ _ _ (eq_refl : stopping s0 = true) PW P E) as ->.
      apply cancel_batch_bstep in E; auto; [|apply (i_onodup _ _ I0)|apply (i_bnodup _ _ I0)].
      pose proof (bs_keeps _ _ _ _ _ E) as [K1 K2 K3 K4 K5 K6 K7].
      pose proof (invB_bstep _ _ _ _ _ [] I0 E (incl_nil_l _) (NoDup_nil _)) as I2.
      destruct (apply_epi c s1 Fin) as [s2 o2] eqn:A. exists s2, o2. split; auto. simpl in A.
      apply finish_inv with (B := []) in A as (W2 & O2 & S2 & L2 & N2 & _); auto.
      split; auto. split; [|split; simpl in *; congruence].
      eapply ostep_trans with (s1 := s1).
      + eapply ostep_mono; [apply incl_appl, incl_refl|]. destruct (bs_ostep _ _ _ _ _ E) as [PA IA]. constructor; [exact PA|exact IA].
      + eapply ostep_mono; [|exact O2]. rewrite K1. apply incl_appr, incl_refl. }
  destruct M as (s2 & o2 & A & W2 & O12 & S2 & N2).
  unfold fin_if in H. rewrite A in H.
  set (s3 := set_flags s2 true false) in *.
  destruct (cancel_all s3 (outstanding s3)) as [s4 o4] eqn:E4. inv H.
  assert (P2 : ph s2 = Idle) by (apply (i_stop _ W2); auto).
  assert (W3 : WInv s3) by (eapply winv_frame with (s := s2); auto; eapply invB_same; [apply (i_b _ W2)|reflexivity..]).
  pose proof (cancel_all_frame _ _ _ _ E4) as (F1 & F2 & F3 & F4 & F5 & F6 & F7).
  apply cancel_all_inv with (B := batch_sends (ph s3)) in E4 as (I4 & O4 & Z4); [|apply (i_b _ W3)].
  assert (E0 : outstanding s' = []).
  { destruct (outstanding s') as [|i r] eqn:Q; auto. exfalso. apply (Z4 i); [left; reflexivity|].
    eapply ostep_sub; [exact O4|]. rewrite Q; left; reflexivity. }
  split; auto. constructor; simpl.
  - split; [|intros _; simpl in *; congruence]. eapply winv_frame with (s := s3); auto; try (intros _; exact P2).
  - rewrite app_nil_r, app_assoc. destruct O12 as [P12 _]. destruct O4 as [P4 _]. rewrite oc_app.
    rewrite P12. simpl in P4. rewrite P4. rewrite !app_assoc. reflexivity.
  - simpl in *. lia.
Qed.

Lemma stopping_dec : forall s, stopping s = true \/ stopping s = false.
Proof. intros s; destruct (stopping s); auto. Qed.

Theorem step_inv : forall c s e s' out, Inv s -> step c s e = (s', out) -> step_ok s e s' out.
Proof.
  intros c s e s' out [W L] H.
  pose proof W as [IB PW ID ST].
  assert (NS : (forall cv, e <> EStop cv) -> exists s1 o1 ep o2, core c s e = (s1, o1, ep) /\ apply_epi c s1 ep = (s', o2) /\ out = o1 ++ o2)
    by (intros; eapply step_nonstop; eauto).
  destruct e.
  - (* ESend *)
    destruct (NS ltac:(intros ? X; discriminate X)) as (s1 & o1 & ep & o2 & C & A & ->). cbn [core] in C.
    destruct ((cnt <? 1) || (bytes <? 0)) eqn:G; [|destruct (stopping_dec s) as [SG|SG]; rewrite SG in C].
    + inv C. simpl in A. inv A. constructor; simpl; try lia.
      * split; [|exact L]. eapply winv_frame with (s := s); simpl; auto.
        eapply invB_more_ids; eauto; simpl; lia.
      * apply Permutation_sym, Permutation_cons_append.
    + inv C. simpl in A. inv A. constructor; simpl; try lia.
      * split; [|exact L]. eapply winv_frame with (s := s); simpl; auto.
        eapply invB_more_ids; eauto; simpl; lia.
      * apply Permutation_sym, Permutation_cons_append.
    + apply orb_false_iff in G as [G1 G2]. apply Z.ltb_ge in G1, G2. inv C.
      match type of A with apply_epi _ ?st _ = _ => assert (W1 : WInv st) by (apply inv_send; auto) end.
      apply epi_dispatch_inv in A as (W2 & O2 & S2 & L2 & N2); auto. simpl in *.
      constructor; simpl; try lia.
      * split; auto. rewrite S2, L2. exact L.
      * destruct O2 as [P2 _]. exact P2.
  - (* EBadSend *)
    destruct (NS ltac:(intros ? X; discriminate X)) as (s1 & o1 & ep & o2 & C & A & ->). cbn [core] in C.
    inv C. simpl in A. inv A. constructor; simpl; try lia.
    + split; [|exact L]. eapply winv_frame with (s := s); simpl; auto.
      eapply invB_more_ids; eauto; simpl; lia.
    + apply Permutation_sym, Permutation_cons_append.
  - (* ECancel *)
    destruct (NS ltac:(intros ? X; discriminate X)) as (s1 & o1 & ep & o2 & C & A & ->). cbn [core] in C.
    destruct (cancel_send s sid) as [s2 o3] eqn:E. inv C. simpl in A. inv A. rewrite app_nil_r.
    pose proof (cancel_send_spec _ _ _ _ E) as (_ & P & St & Lp & Ns & At & Di & Np & _).
    apply cancel_send_inv with (B := batch_sends (ph s)) in E as [I2 O2]; auto.
    constructor; try lia.
    + split; [|rewrite St, Lp; exact L]. eapply winv_frame with (s := s); auto. rewrite St; auto.
    + eapply ostep_perm0; eauto.
  - (* ETick *)
    destruct (NS ltac:(intros ? X; discriminate X)) as (s1 & o1 & ep & o2 & C & A & ->). cbn [core] in C.
    inv C. destruct (looper s1) eqn:Lp.
    + apply epi_dispatch_inv in A as (W2 & O2 & S2 & L2 & N2); auto. simpl.
      constructor; try lia; [split; auto; rewrite S2; intros X; apply L in X; discriminate X|eapply ostep_perm0; eauto].
    + simpl in A. inv A. constructor; simpl; try lia; [split; auto|rewrite app_nil_r; reflexivity].
  - (* EMetaSet *)
    destruct (NS ltac:(intros ? X; discriminate X)) as (s1 & o1 & ep & o2 & C & A & ->). cbn [core] in C.
    inv C. simpl in A. inv A. constructor; simpl; try lia; [|rewrite app_nil_r; reflexivity].
    split; [|exact L]. eapply winv_frame with (s := s); simpl; auto. eapply invB_same; eauto.
  - (* EMetaClearAll *)
    destruct (NS ltac:(intros ? X; discriminate X)) as (s1 & o1 & ep & o2 & C & A & ->). cbn [core] in C.
    inv C. simpl in A. inv A. constructor; simpl; try lia; [|rewrite app_nil_r; reflexivity].
    split; [|exact L]. eapply winv_frame with (s := s); simpl; auto. eapply invB_same; eauto.
  - (* ELoadDone *) eapply step_batch_inv; [split; [exact W|exact L]|reflexivity|exact H].
  - (* ETimer *) eapply step_batch_inv; [split; [exact W|exact L]|reflexivity|exact H].
  - (* EVersion *) eapply step_batch_inv; [split; [exact W|exact L]|reflexivity|exact H].
  - (* EResult *) eapply step_batch_inv; [split; [exact W|exact L]|reflexivity|exact H].
  - (* EResultOmit *) eapply step_batch_inv; [split; [exact W|exact L]|reflexivity|exact H].
  - (* EBroken *)
    destruct (NS ltac:(intros ? X; discriminate X)) as (s1 & o1 & ep & o2 & C & A & ->). cbn [core] in C.
    inv C. simpl in A. inv A. constructor; simpl; try lia; [|rewrite app_nil_r; reflexivity].
    split; [|exact L]. eapply winv_frame with (s := s); simpl; auto. eapply invB_same; eauto.
  - (* EStop *) eapply step_stop_inv; [split; [exact W|exact L]|exact H].
Qed.

(* ------------------------------------------------------------------ reachable states *)
Lemma run_app : forall c evs1 evs2 s, run c s (evs1 ++ evs2) =
  let '(s1, t1) := run c s evs1 in let '(s2, t2) := run c s1 evs2 in (s2, t1 ++ t2).
Proof.
  induction evs1 as [|e r IH]; simpl; intros evs2 s.
  - destruct (run c s evs2); reflexivity.
  - destruct (step c s e) as [s1 o]. rewrite IH. destruct (run c s1 r) as [s2 t2]. destruct (run c s2 evs2); reflexivity.
Qed.

Theorem run_inv : forall c evs s s' tr, Inv s -> run c s evs = (s', tr) -> Inv s'.
Proof.
  induction evs as [|e r IH]; simpl; intros s s' tr I H; [inv H; auto|].
  destruct (step c s e) as [s1 o] eqn:E. destruct (run c s1 r) as [s2 t2] eqn:E2. inv H.
  eapply IH; [|exact E2]. eapply step_inv; eauto.
Qed.

Definition reachable (c : cfg) (s : state) : Prop :=
  exists has_t api0 cache0 evs, fst (run c (init_state has_t api0 cache0) evs) = s.

Theorem reachable_inv : forall c s, reachable c s -> Inv s.
Proof.
  intros c s (h & a & ca & evs & <-). destruct (run c _ evs) as [s' tr] eqn:E. simpl.
  eapply run_inv; [|exact E]. apply init_inv.
Qed.

(* ------------------------------------------------------------------ only the EBroken event touches [broken] *)
Lemma dispatch_broken : forall c s s' o, dispatch c s = (s', o) -> broken s' = broken s.
Proof.
  unfold dispatch; intros c s s' o H.
  destruct (map_lookups _ _ (queue s) _) as [[s1 o1] ls] eqn:E1.
  apply map_lookups_xl in E1 as (A1 & _ & _);
    [|intros st x l st' o' l' Hf; inv Hf; eapply lookup_head_xl; eauto].
  apply eq_xl_keeps in A1. destruct A1 as [_ _ _ _ _ _ B1]. simpl in B1.
  destruct (lookups_progress s1 (queue s) ls) as [[s2 o2] done] eqn:E2.
  apply lookups_progress_ok in E2 as [[_ _ _ _ _ _ B2] _ _].
  destruct done; [unfold finish0 in H|]; inv H; simpl; congruence.
Qed.

Lemma epi_broken : forall c s1 ep s2 o2, apply_epi c s1 ep = (s2, o2) -> broken s2 = broken s1.
Proof.
  intros c s1 ep s2 o2 A.
  assert (T : forall s s' o, try_send_batch c s = (s', o) -> broken s' = broken s).
  { intros s s' o H. apply try_send_batch_spec in H as [[_ D]|(_ & -> & _)]; auto. eapply dispatch_broken; eauto. }
  assert (Ck : forall s s' o, check_send_batch c s = (s', o) -> broken s' = broken s).
  { unfold check_send_batch; intros s s' o H. destruct (threshold c s); [eauto|inv H; auto]. }
  destruct ep; simpl in A; eauto.
  - inv A; auto.
  - unfold finish, finish0 in A. destruct (check_send_batch c _) as [s4 o4] eqn:E. inv A. apply Ck in E. exact E.
Qed.

Lemma cancel_send_broken : forall s sid s1 o1, cancel_send s sid = (s1, o1) -> broken s1 = broken s.
Proof.
  unfold cancel_send; intros s sid s1 o1 H. destruct (negb (zmem sid (outstanding s))); [inv H; auto|].
  destruct (remove_send sid (queue s)) as [[x q]|]; inv H; reflexivity.
Qed.
Lemma cancel_all_broken : forall ids0 s s1 o1, cancel_all s ids0 = (s1, o1) -> broken s1 = broken s.
Proof.
  induction ids0 as [|i r IH]; simpl; intros s s1 o1 H; [inv H; auto|].
  destruct (cancel_send s i) as [s2 o2] eqn:E. destruct (cancel_all s2 r) as [s3 o3] eqn:E3. inv H.
  apply cancel_send_broken in E. apply IH in E3. congruence.
Qed.

Theorem step_broken : forall c s e s' out, Inv s -> step c s e = (s', out) ->
  broken s' = match e with EBroken b => b | _ => broken s end.
Proof.
  intros c s e s' out I H. pose proof I as [W L]. pose proof W as [IB PW ID ST].
  assert (NS : (forall cv, e <> EStop cv) -> exists s1 o1 ep o2, core c s e = (s1, o1, ep) /\ apply_epi c s1 ep = (s', o2) /\ out = o1 ++ o2)
    by (intros; eapply step_nonstop; eauto).
  destruct (batch_event e) eqn:BE.
  - destruct (NS ltac:(intros ? ->; discriminate)) as (s1 & o1 & ep & o2 & C & A & ->).
    apply epi_broken in A. rewrite A.
    assert (X : broken s1 = broken s).
    { apply core_batch in C as [(-> & _)|(_ & done & BS & _)]; auto;
        try apply (i_onodup _ _ IB); try apply (i_bnodup _ _ IB).
      destruct (bs_keeps _ _ _ _ _ BS) as [_ _ _ _ _ _ K]. exact K. }
    rewrite X. destruct e; try discriminate; reflexivity.
  - destruct e; try discriminate.
    + destruct (NS ltac:(intros ? X; discriminate X)) as (s1 & o1 & ep & o2 & C & A & ->). cbn [core] in C.
      apply epi_broken in A. rewrite A. destruct ((cnt <? 1) || (bytes <? 0)); [|destruct (stopping s)]; inv C; reflexivity.
    + destruct (NS ltac:(intros ? X; discriminate X)) as (s1 & o1 & ep & o2 & C & A & ->). cbn [core] in C.
      apply epi_broken in A. rewrite A. inv C; reflexivity.
    + destruct (NS ltac:(intros ? X; discriminate X)) as (s1 & o1 & ep & o2 & C & A & ->). cbn [core] in C.
      apply epi_broken in A. rewrite A. destruct (cancel_send s sid) as [s2 o3] eqn:Ec. inv C. eapply cancel_send_broken; eauto.
    + destruct (NS ltac:(intros ? X; discriminate X)) as (s1 & o1 & ep & o2 & C & A & ->). cbn [core] in C.
      apply epi_broken in A. rewrite A. inv C; reflexivity.
    + destruct (NS ltac:(intros ? X; discriminate X)) as (s1 & o1 & ep & o2 & C & A & ->). cbn [core] in C.
      apply epi_broken in A. rewrite A. inv C; reflexivity.
    + destruct (NS ltac:(intros ? X; discriminate X)) as (s1 & o1 & ep & o2 & C & A & ->). cbn [core] in C.
      apply epi_broken in A. rewrite A. inv C; reflexivity.
    + destruct (NS ltac:(intros ? X; discriminate X)) as (s1 & o1 & ep & o2 & C & A & ->). cbn [core] in C.
      apply epi_broken in A. rewrite A. inv C; reflexivity.
    + unfold step in H. set (s0 := set_flags s true (looper s)) in *.
      destruct (cancel_batch c s0 cv) as [[s1 o1] done] eqn:E.
      apply cancel_batch_ok in E. destruct E as [[_ _ _ _ _ _ K] _ _].
      unfold fin_if in H. destruct (apply_epi c s1 (if done then Fin else NoEpi)) as [s2 o2] eqn:A.
      apply epi_broken in A. destruct (cancel_all _ _) as [s4 o4] eqn:E4. inv H.
      apply cancel_all_broken in E4. simpl in *. congruence.
Qed.
