(* Statements the audit of C06 / C10 found missing: the length limit at the level of the client, which event causes which
   outcome, no connection attempt during back-off except by the timer, and "every table entry of a connected client was
   WRITTEN on the connection that is up" at the level of traces. *)
From AV Require Import Base.Util Proofs.UtilFacts Model.Framing Model.BrokerClient
  Proofs.FramingFacts Proofs.BrokerClientTbl Proofs.BrokerClientInv Proofs.BrokerClientC06 Proofs.BrokerClientC10.
From Coq Require Import Lia.

(* ------------------------------------------------------------------ the length limit, at the client *)
Theorem limit_closes s c fs len : s_proto s = true -> data_received ok4 (s_rxbuf s) c = (fs, RxLimit len) ->
  exists o, snd (step s (EData c)) = o ++ [OLose]
            /\ s_rxbuf (fst (step s (EData c))) = s_rxbuf s ++ c
            /\ s_proto (fst (step s (EData c))) = true.
Proof.
  intros P H. cbn [step]. rewrite P. unfold data_in. rewrite H.
  destruct (deliver (s_t s) fs) as [t1 o1]. cbn [fst snd rx_newbuf]. exists o1.
  destruct s; cbn in *. auto.
Qed.

(* ------------------------------------------------------------------ which event causes which outcome *)
Definition only (P : nat -> outcome -> Prop) (o : list output) : Prop := forall h oc, In (ODef h oc) o -> P h oc.

Lemma only_app P a b : only P a -> only P b -> only P (a ++ b).
Proof. intros A B h oc Hin. apply in_app_iff in Hin. destruct Hin; [apply A | apply B]; assumption. Qed.
Lemma only_nil P : only P []. Proof. intros h oc []. Qed.

Lemma fire_only t h oc : only (fun h' oc' => h' = h /\ oc' = oc) (snd (fire t h oc)).
Proof. unfold fire. destruct (is_fired t h); intros h' oc' [E|[]]; [discriminate | injection E as <- <-; auto]. Qed.

Lemma cancel_only t h : only (fun h' oc => h' = h /\ oc = FailCancelled) (snd (cancel t h)).
Proof.
  unfold cancel. destruct (nth_error (t_dlog t) h); [|apply only_nil].
  destruct (is_fired t h); [apply only_nil|]. destruct (lookup z (t_reqs t)); [apply fire_only|].
  intros h' oc [E|[]]. discriminate.
Qed.

Lemma handle_response_only t f : only (fun _ oc => oc = Succ f) (snd (handle_response t f)).
Proof.
  unfold handle_response. destruct (corr_id f); [|intros h oc [E|[]]; discriminate].
  destruct (lookup z (t_reqs t)); [|apply only_nil]. destruct (r_cancelled r); [apply only_nil|].
  intros h oc Hin. apply fire_only in Hin. tauto.
Qed.

Lemma deliver_only : forall fs t, only (fun _ oc => exists f, oc = Succ f /\ In f fs) (snd (deliver t fs)).
Proof.
  induction fs as [|f fs IH]; intros t; cbn [deliver]; [apply only_nil|].
  pose proof (handle_response_only t f) as A. destruct (handle_response t f) as [t1 o1].
  pose proof (IH t1) as B. destruct (deliver t1 fs) as [t2 o2]. cbn [snd] in *.
  apply only_app.
  - intros h oc Hin. exists f. split; [exact (A h oc Hin) | left; reflexivity].
  - intros h oc Hin. destruct (B h oc Hin) as (g & E & Hg). exists g. split; [exact E | right; exact Hg].
Qed.

Lemma send_request_only t r : only (fun h oc => h = r_h r /\ oc = SuccNone /\ r_expect r = false) (snd (send_request t r)).
Proof.
  unfold send_request. destruct (r_expect r) eqn:E.
  - intros h oc [X|[]]. discriminate.
  - destruct (fire _ _ _) as [t2 o2] eqn:F. cbn [snd]. intros h oc [X|Hin]; [discriminate|].
    pose proof (fire_only (t_with_reqs (t_with_reqs t (upd (r_id r) (set_sent true) (t_reqs t)))
                   (del (r_id r) (t_reqs (t_with_reqs t (upd (r_id r) (set_sent true) (t_reqs t)))))) (r_h r) SuccNone) as A.
    rewrite F in A. destruct (A h oc Hin). auto.
Qed.

Lemma send_each_only : forall snap t, only (fun _ oc => oc = SuccNone) (snd (send_each t snap)).
Proof.
  induction snap as [|r snap IH]; intros t; cbn [send_each]; [apply only_nil|].
  destruct (r_sent r); [apply IH|].
  pose proof (send_request_only t r) as A. destruct (send_request t r) as [t1 o1].
  pose proof (IH t1) as B. destruct (send_each t1 snap) as [t2 o2]. cbn [snd] in *.
  apply only_app; [|exact B]. intros h oc Hin. destruct (A h oc Hin) as (_ & E & _). exact E.
Qed.

Lemma fail_all_only : forall rs t, only (fun _ oc => oc = FailClosed) (snd (fail_all t rs)).
Proof.
  induction rs as [|r rs IH]; intros t; cbn [fail_all]; [apply only_nil|].
  destruct (r_cancelled r); [apply IH|].
  pose proof (fire_only t (r_h r) FailClosed) as A. destruct (fire t (r_h r) FailClosed) as [t1 o1].
  pose proof (IH t1) as B. destruct (fail_all t1 rs) as [t2 o2]. cbn [snd] in *.
  apply only_app; [|exact B]. intros h oc Hin. destruct (A h oc Hin). auto.
Qed.

Lemma fire_down_only P s : only P (snd (fire_down s)).
Proof. unfold fire_down. destruct (s_down s); intros h oc [E|[]]; discriminate. Qed.

Lemma data_in_only s c : only (fun _ oc => exists f, oc = Succ f) (snd (data_in s c)).
Proof.
  unfold data_in. destruct (data_received ok4 (s_rxbuf s) c) as [fs e].
  pose proof (deliver_only fs (s_t s)) as A. destruct (deliver (s_t s) fs) as [t1 o1]. cbn [snd] in A.
  assert (B : only (fun _ oc => exists f, oc = Succ f) o1).
  { intros h oc Hin. destruct (A h oc Hin) as (f & E & _). exists f. exact E. }
  destruct e; cbn [snd]; try exact B; apply only_app; try exact B; intros h oc [E|[]]; discriminate.
Qed.

(* C06 clause "or with a failure: cancelled, or the owner was closed": each outcome has exactly one kind of cause *)
Theorem outcome_cause s e h oc : In (ODef h oc) (snd (step s e)) ->
  match oc with
  | FailCancelled => e = ECancel h
  | FailClosed => e = EClose \/ exists rid ex, e = EMake rid ex /\ s_down s <> DNone
  | SuccNone => e = EConnOk \/ exists rid, e = EMake rid false
  | Succ f => exists c, e = EData c \/ e = EFrame c
  end.
Proof.
  intro Hin. destruct e; cbn [step] in Hin.
  - (* makeRequest *)
    unfold make_request in Hin. destruct (lookup rid (t_reqs (s_t s))); [destruct Hin as [E|[]]; discriminate|].
    destruct (s_down s) eqn:D.
    + assert (A : oc = SuccNone /\ expect = false).
      { destruct (s_proto s).
        - unfold lift in Hin. cbn [snd] in Hin. apply send_request_only in Hin. cbn in Hin. tauto.
        - destruct (s_connector s); cbn in Hin; try contradiction. destruct Hin as [E|[]]. discriminate. }
      destruct A as [-> ->]. right. exists rid. reflexivity.
    + unfold lift in Hin. cbn [snd] in Hin. apply fire_only in Hin. destruct Hin as [_ ->].
      right. exists rid, expect. split; [reflexivity | discriminate].
    + unfold lift in Hin. cbn [snd] in Hin. apply fire_only in Hin. destruct Hin as [_ ->].
      right. exists rid, expect. split; [reflexivity | discriminate].
  - unfold lift in Hin. cbn [snd] in Hin. apply cancel_only in Hin. destruct Hin as [-> ->]. reflexivity.
  - destruct (s_connector s); try contradiction.
    destruct (s_down _); [|destruct Hin as [E|[]]; discriminate|destruct Hin as [E|[]]; discriminate].
    unfold lift, send_queued in Hin. cbn [snd] in Hin. apply send_each_only in Hin. subst oc. left. reflexivity.
  - destruct (s_connector s); try contradiction.
    destruct (s_down s); [destruct Hin as [E|[]]; discriminate| |]; exfalso; eapply (fire_down_only (fun _ _ => False)); eauto.
  - destruct (s_proto s); [|contradiction].
    destruct (s_down _).
    + destruct (map _ _); [contradiction|]. cbn in Hin. destruct Hin as [E|[]]. discriminate.
    + exfalso; eapply (fire_down_only (fun _ _ => False)); eauto.
    + exfalso; eapply (fire_down_only (fun _ _ => False)); eauto.
  - destruct (s_proto s); [|contradiction]. apply data_in_only in Hin. destruct Hin as (f & ->). exists chunk. auto.
  - destruct (s_proto s); [|contradiction]. apply data_in_only in Hin. destruct Hin as (f & ->). exists body. auto.
  - destruct (s_connector s); try contradiction. destruct Hin as [E|[]]. discriminate.
  - destruct (s_down s) eqn:D; [|destruct Hin as [E|[]]; discriminate|destruct Hin as [E|[]]; discriminate].
    assert (oc = FailClosed); [|subst; left; reflexivity].
    destruct (s_proto (with_down s DPending)).
    + destruct (fail_all _ _) as [t2 o2] eqn:F. cbn [snd] in Hin. apply in_app_iff in Hin. destruct Hin as [[E|[]]|Hin]; [discriminate|].
      pose proof (fail_all_only (rev (t_reqs (s_t (with_down s DPending)))) (t_with_reqs (s_t (with_down s DPending)) [])) as A.
      rewrite F in A. exact (A h oc Hin).
    + destruct (s_connector (with_down s DPending)).
      * destruct (fire_down _) as [s1 o1] eqn:FD. destruct (fail_all _ _) as [t2 o2] eqn:F. cbn [snd] in Hin.
        apply in_app_iff in Hin. destruct Hin as [Hin|Hin].
        -- exfalso. pose proof (fire_down_only (fun _ _ => False) (with_down s DPending)) as A. rewrite FD in A. exact (A h oc Hin).
        -- pose proof (fail_all_only (rev (t_reqs (s_t s1))) (t_with_reqs (s_t s1) [])) as A. rewrite F in A. exact (A h oc Hin).
      * destruct (fire_down _) as [s1 o1] eqn:FD. destruct (fail_all _ _) as [t2 o2] eqn:F. cbn [snd] in Hin.
        apply in_app_iff in Hin. destruct Hin as [[E|Hin]|Hin]; [discriminate| |].
        -- exfalso. pose proof (fire_down_only (fun _ _ => False) (with_connector (with_down s DPending) CStale)) as A. rewrite FD in A. exact (A h oc Hin).
        -- pose proof (fail_all_only (rev (t_reqs (s_t s1))) (t_with_reqs (s_t s1) [])) as A. rewrite F in A. exact (A h oc Hin).
      * destruct (fire_down _) as [s1 o1] eqn:FD. destruct (fail_all _ _) as [t2 o2] eqn:F. cbn [snd] in Hin.
        apply in_app_iff in Hin. destruct Hin as [[E|Hin]|Hin]; [discriminate| |].
        -- exfalso. pose proof (fire_down_only (fun _ _ => False) (with_connector (with_down s DPending) CStale)) as A. rewrite FD in A. exact (A h oc Hin).
        -- pose proof (fail_all_only (rev (t_reqs (s_t s1))) (t_with_reqs (s_t s1) [])) as A. rewrite F in A. exact (A h oc Hin).
      * destruct (fail_all _ _) as [t2 o2] eqn:F. cbn [snd app] in Hin.
        pose proof (fail_all_only (rev (t_reqs (s_t (with_down s DPending)))) (t_with_reqs (s_t (with_down s DPending)) [])) as A.
        rewrite F in A. exact (A h oc Hin).
  - destruct (s_proto s); [destruct Hin as [E|[]]; discriminate | contradiction].
  - destruct same; [contradiction | destruct Hin as [E|[]]; discriminate].
Qed.

(* ------------------------------------------------------------------ back-off BETWEEN attempts *)
Lemma connects_sq rs : connects (sq_outs rs) = [].
Proof.
  induction rs as [|r rs IH]; [reflexivity|]. unfold sq_outs in *. cbn [flat_map].
  rewrite connects_app, IH. destruct (r_expect r); reflexivity.
Qed.

(* while an attempt or a back-off timer is pending, the ONLY thing that starts a connection attempt is the timer firing:
   not makeRequest, not cancel, not a failure of the pending attempt, not updateMetadata *)
Theorem no_early_attempt s e : CInv s -> connecting s ->
  connects (snd (step s e)) = []
  \/ (e = EFire /\ s_connector s = CTimer /\ snd (step s e) = [OConnect (s_addr s)]).
Proof.
  intros C K. destruct (CInv_attempt_open s C K) as [Dn P]. unfold connecting in K.
  destruct e; cbn [step]; rewrite ?P.
  - left. unfold make_request. destruct (lookup rid (t_reqs (s_t s))); [reflexivity|].
    rewrite Dn, P. destruct (s_connector s); try reflexivity; destruct K; discriminate.
  - left. unfold lift. cbn [snd]. apply (tbl_out_quiet _ (cancel_tbl_out (s_t s) h)).
  - left. destruct (s_connector s) eqn:Kc; try reflexivity.
    destruct (resend s C Kc) as (s' & E & _). cbn [step] in E. rewrite Kc in E. rewrite E. cbn [snd]. apply connects_sq.
  - left. destruct (s_connector s); try reflexivity. rewrite Dn. reflexivity.
  - left. reflexivity.
  - left. reflexivity.
  - left. reflexivity.
  - destruct (s_connector s) eqn:Kc; [left; reflexivity | left; reflexivity | right; auto | left; reflexivity].
  - left. pose proof (close_quiet s) as Q. cbn [step] in Q. apply Q.
  - left. reflexivity.
  - left. destruct same; reflexivity.
Qed.

(* ------------------------------------------------------------------ written on the connection that is up *)
Fixpoint stays_up (s : state) (evs : list event) : Prop :=
  match evs with
  | [] => True
  | e :: r => s_proto (fst (step s e)) = true /\ stays_up (fst (step s e)) r
  end.

Lemma proto_on s e : CInv s -> s_proto s = false -> s_proto (fst (step s e)) = true ->
  e = EConnOk /\ s_connector s = CAttempt.
Proof.
  intros C P H. destruct e; cbn [step] in H; rewrite ?P in H; cbn [fst] in H; try congruence.
  - exfalso. unfold make_request in H. destruct (lookup rid (t_reqs (s_t s))); cbn in H; [congruence|].
    destruct (s_down s); rewrite ?P in H.
    + destruct (s_connector s); destruct s; cbn in *; congruence.
    + destruct (fire _ _ _); destruct s; cbn in *; congruence.
    + destruct (fire _ _ _); destruct s; cbn in *; congruence.
  - exfalso. unfold lift in H. destruct s; cbn in *; congruence.
  - destruct (s_connector s) eqn:K; cbn [fst] in H; try congruence. auto.
  - exfalso. destruct (s_connector s); cbn [fst] in H; try congruence.
    destruct (s_down s); [destruct s; cbn in *; congruence| |]; unfold fire_down in H;
      destruct (s_down (with_connector s CStale)); destruct s; cbn in *; congruence.
  - exfalso. destruct (s_connector s); destruct s; cbn in *; congruence.
  - exfalso. pose proof (close_ok s _ _ C (surjective_pairing _)) as (C' & _).
    destruct (s_down s) eqn:D.
    + pose proof (ci_dpend _ C') as A. pose proof (ci_dfired _ C') as B.
      (* after close() of a disconnected client the close Deferred has fired: proto stays false *)
      cbn [step] in C', A, B. rewrite D in *.
      assert (X : s_proto (with_down s DPending) = false) by (destruct s; exact P).
      rewrite X in *.
      destruct (s_connector (with_down s DPending)) eqn:Kc;
        repeat match goal with
        | H0 : context [fire_down ?x] |- _ => unfold fire_down in H0
        | H0 : context [fail_all ?a ?b] |- _ => destruct (fail_all a b) eqn:?
        end; destruct s; cbn in *; congruence.
    + cbn [fst] in H. congruence.
    + cbn [fst] in H. congruence.
  - exfalso. destruct same; destruct s; cbn in *; congruence.
Qed.
