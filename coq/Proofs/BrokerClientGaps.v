(* Statements the audit of C06 / C10 found missing: the length limit at the level of the client, which event causes which
   outcome, no connection attempt during back-off except by the timer, and "every table entry of a connected client was
   WRITTEN on the connection that is up" at the level of traces. *)
From AV Require Import Base.Util Proofs.UtilFacts Model.Framing Model.BrokerClient
  Proofs.FramingFacts Proofs.BrokerClientTbl Proofs.BrokerClientInv Proofs.BrokerClientC06 Proofs.BrokerClientC10.
From Coq Require Import Lia.

(* ------------------------------------------------------------------ the length limit, at the client *)
Theorem limit_closes s c fs len : s_proto s = true -> data_received ok4 (s_rxbuf s) c = (fs, RxLimit len) ->
  exists o, snd (step s (EData c)) = o ++ [OLose]
            /\ s_rxbuf (fst (step s (EData c))) = s_rxbuf s ++ c
            /\ s_proto (fst (step s (EData c))) = true.
Proof.
  intros P H. cbn [step]. rewrite P. unfold data_in. rewrite H.
  destruct (deliver (s_t s) fs) as [t1 o1]. cbn [fst snd rx_newbuf]. exists o1.
  destruct s; cbn in *. auto.
Qed.

(* ------------------------------------------------------------------ which event causes which outcome *)
Definition only (P : nat -> outcome -> Prop) (o : list output) : Prop := forall h oc, In (ODef h oc) o -> P h oc.

Lemma only_app P a b : only P a -> only P b -> only P (a ++ b).
Proof. intros A B h oc Hin. apply in_app_iff in Hin. destruct Hin; [apply A | apply B]; assumption. Qed.
Lemma only_nil P : only P []. Proof. intros h oc []. Qed.

Lemma fire_only t h oc : only (fun h' oc' => h' = h /\ oc' = oc) (snd (fire t h oc)).
Proof. unfold fire. destruct (is_fired t h); intros h' oc' [E|[]]; [discriminate | injection E as <- <-; auto]. Qed.

Lemma cancel_only t h : only (fun h' oc => h' = h /\ oc = FailCancelled) (snd (cancel t h)).
Proof.
  unfold cancel. destruct (nth_error (t_dlog t) h); [|apply only_nil].
  destruct (is_fired t h); [apply only_nil|]. destruct (lookup z (t_reqs t)); [apply fire_only|].
  intros h' oc [E|[]]. discriminate.
Qed.

Lemma handle_response_only t f : only (fun _ oc => oc = Succ f) (snd (handle_response t f)).
Proof.
  unfold handle_response. destruct (corr_id f); [|intros h oc [E|[]]; discriminate].
  destruct (lookup z (t_reqs t)); [|apply only_nil]. destruct (r_cancelled r); [apply only_nil|].
  intros h oc Hin. apply fire_only in Hin. tauto.
Qed.

Lemma deliver_only : forall fs t, only (fun _ oc => exists f, oc = Succ f /\ In f fs) (snd (deliver t fs)).
Proof.
  induction fs as [|f fs IH]; intros t; cbn [deliver]; [apply only_nil|].
  pose proof (handle_response_only t f) as A. destruct (handle_response t f) as [t1 o1].
  pose proof (IH t1) as B. destruct (deliver t1 fs) as [t2 o2]. cbn [snd] in *.
  apply only_app.
  - intros h oc Hin. exists f. split; [exact (A h oc Hin) | left; reflexivity].
  - intros h oc Hin. destruct (B h oc Hin) as (g & E & Hg). exists g. split; [exact E | right; exact Hg].
Qed.

Lemma send_request_only t r : only (fun h oc => h = r_h r /\ oc = SuccNone /\ r_expect r = false) (snd (send_request t r)).
Proof.
  unfold send_request. destruct (r_expect r) eqn:E.
  - intros h oc [X|[]]. discriminate.
  - destruct (fire _ _ _) as [t2 o2] eqn:F. cbn [snd]. intros h oc [X|Hin]; [discriminate|].
    pose proof (fire_only (t_with_reqs (t_with_reqs t (upd (r_id r) (set_sent true) (t_reqs t)))
                   (del (r_id r) (t_reqs (t_with_reqs t (upd (r_id r) (set_sent true) (t_reqs t)))))) (r_h r) SuccNone) as A.
    rewrite F in A. destruct (A h oc Hin). auto.
Qed.

Lemma send_each_only : forall snap t, only (fun _ oc => oc = SuccNone) (snd (send_each t snap)).
Proof.
  induction snap as [|r snap IH]; intros t; cbn [send_each]; [apply only_nil|].
  destruct (r_sent r); [apply IH|].
  pose proof (send_request_only t r) as A. destruct (send_request t r) as [t1 o1].
  pose proof (IH t1) as B. destruct (send_each t1 snap) as [t2 o2]. cbn [snd] in *.
  apply only_app; [|exact B]. intros h oc Hin. destruct (A h oc Hin) as (_ & E & _). exact E.
Qed.

Lemma fail_all_only : forall rs t, only (fun _ oc => oc = FailClosed) (snd (fail_all t rs)).
Proof.
  induction rs as [|r rs IH]; intros t; cbn [fail_all]; [apply only_nil|].
  destruct (r_cancelled r); [apply IH|].
  pose proof (fire_only t (r_h r) FailClosed) as A. destruct (fire t (r_h r) FailClosed) as [t1 o1].
  pose proof (IH t1) as B. destruct (fail_all t1 rs) as [t2 o2]. cbn [snd] in *.
  apply only_app; [|exact B]. intros h oc Hin. destruct (A h oc Hin). auto.
Qed.

Lemma fire_down_only P s : only P (snd (fire_down s)).
Proof. unfold fire_down. destruct (s_down s); intros h oc [E|[]]; discriminate. Qed.

Lemma data_in_only s c : only (fun _ oc => exists f, oc = Succ f) (snd (data_in s c)).
Proof.
  unfold data_in. destruct (data_received ok4 (s_rxbuf s) c) as [fs e].
  pose proof (deliver_only fs (s_t s)) as A. destruct (deliver (s_t s) fs) as [t1 o1]. cbn [snd] in A.
  assert (B : only (fun _ oc => exists f, oc = Succ f) o1).
  { intros h oc Hin. destruct (A h oc Hin) as (f & E & _). exists f. exact E. }
  destruct e; cbn [snd]; try exact B; apply only_app; try exact B; intros h oc [E|[]]; discriminate.
Qed.

(* C06 clause "or with a failure: cancelled, or the owner was closed": each outcome has exactly one kind of cause *)
Theorem outcome_cause s e h oc : In (ODef h oc) (snd (step s e)) ->
  match oc with
  | FailCancelled => e = ECancel h
  | FailClosed => e = EClose \/ exists rid ex, e = EMake rid ex /\ s_down s <> DNone
  | SuccNone => e = EConnOk \/ exists rid, e = EMake rid false
  | Succ f => exists c, e = EData c \/ e = EFrame c
  end.
Proof.
  intro Hin. destruct e; cbn [step] in Hin.
  - (* makeRequest *)
    unfold make_request in Hin. destruct (lookup rid (t_reqs (s_t s))); [destruct Hin as [E|[]]; discriminate|].
    destruct (s_down s) eqn:D.
    + assert (A : oc = SuccNone /\ expect = false).
      { destruct (s_proto s).
        - unfold lift in Hin. cbn [snd] in Hin. apply send_request_only in Hin. cbn in Hin. tauto.
        - destruct (s_connector s); cbn in Hin; try contradiction. destruct Hin as [E|[]]. discriminate. }
      destruct A as [-> ->]. right. exists rid. reflexivity.
    + unfold lift in Hin. cbn [snd] in Hin. apply fire_only in Hin. destruct Hin as [_ ->].
      right. exists rid, expect. split; [reflexivity | discriminate].
    + unfold lift in Hin. cbn [snd] in Hin. apply fire_only in Hin. destruct Hin as [_ ->].
      right. exists rid, expect. split; [reflexivity | discriminate].
  - unfold lift in Hin. cbn [snd] in Hin. apply cancel_only in Hin. destruct Hin as [-> ->]. reflexivity.
  - destruct (s_connector s); try contradiction.
    destruct (s_down _); [|destruct Hin as [E|[]]; discriminate|destruct Hin as [E|[]]; discriminate].
    unfold lift, send_queued in Hin. cbn [snd] in Hin. apply send_each_only in Hin. subst oc. left. reflexivity.
  - destruct (s_connector s); try contradiction.
    destruct (s_down s); [destruct Hin as [E|[]]; discriminate| |]; exfalso; eapply (fire_down_only (fun _ _ => False)); eauto.
  - destruct (s_proto s); [|contradiction].
    destruct (s_down _).
    + destruct (map _ _); [contradiction|]. cbn in Hin. destruct Hin as [E|[]]. discriminate.
    + exfalso; eapply (fire_down_only (fun _ _ => False)); eauto.
    + exfalso; eapply (fire_down_only (fun _ _ => False)); eauto.
  - destruct (s_proto s); [|contradiction]. apply data_in_only in Hin. destruct Hin as (f & ->). exists chunk. auto.
  - destruct (s_proto s); [|contradiction]. apply data_in_only in Hin. destruct Hin as (f & ->). exists body. auto.
  - destruct (s_connector s); try contradiction. destruct Hin as [E|[]]. discriminate.
  - destruct (s_down s) eqn:D; [|destruct Hin as [E|[]]; discriminate|destruct Hin as [E|[]]; discriminate].
    assert (oc = FailClosed); [|subst; left; reflexivity].
    destruct (s_proto (with_down s DPending)).
    + destruct (fail_all _ _) as [t2 o2] eqn:F. cbn [snd] in Hin. apply in_app_iff in Hin. destruct Hin as [[E|[]]|Hin]; [discriminate|].
      pose proof (fail_all_only (rev (t_reqs (s_t (with_down s DPending)))) (t_with_reqs (s_t (with_down s DPending)) [])) as A.
      rewrite F in A. exact (A h oc Hin).
    + destruct (s_connector (with_down s DPending)).
      * destruct (fire_down _) as [s1 o1] eqn:FD. destruct (fail_all _ _) as [t2 o2] eqn:F. cbn [snd] in Hin.
        apply in_app_iff in Hin. destruct Hin as [Hin|Hin].
        -- exfalso. pose proof (fire_down_only (fun _ _ => False) (with_down s DPending)) as A. rewrite FD in A. exact (A h oc Hin).
        -- pose proof (fail_all_only (rev (t_reqs (s_t s1))) (t_with_reqs (s_t s1) [])) as A. rewrite F in A. exact (A h oc Hin).
      * destruct (fire_down _) as [s1 o1] eqn:FD. destruct (fail_all _ _) as [t2 o2] eqn:F. cbn [snd] in Hin.
        apply in_app_iff in Hin. destruct Hin as [[E|Hin]|Hin]; [discriminate| |].
        -- exfalso. pose proof (fire_down_only (fun _ _ => False) (with_connector (with_down s DPending) CStale)) as A. rewrite FD in A. exact (A h oc Hin).
        -- pose proof (fail_all_only (rev (t_reqs (s_t s1))) (t_with_reqs (s_t s1) [])) as A. rewrite F in A. exact (A h oc Hin).
      * destruct (fire_down _) as [s1 o1] eqn:FD. destruct (fail_all _ _) as [t2 o2] eqn:F. cbn [snd] in Hin.
        apply in_app_iff in Hin. destruct Hin as [[E|Hin]|Hin]; [discriminate| |].
        -- exfalso. pose proof (fire_down_only (fun _ _ => False) (with_connector (with_down s DPending) CStale)) as A. rewrite FD in A. exact (A h oc Hin).
        -- pose proof (fail_all_only (rev (t_reqs (s_t s1))) (t_with_reqs (s_t s1) [])) as A. rewrite F in A. exact (A h oc Hin).
      * destruct (fail_all _ _) as [t2 o2] eqn:F. cbn [snd app] in Hin.
        pose proof (fail_all_only (rev (t_reqs (s_t (with_down s DPending)))) (t_with_reqs (s_t (with_down s DPending)) [])) as A.
        rewrite F in A. exact (A h oc Hin).
  - destruct (s_proto s); [destruct Hin as [E|[]]; discriminate | contradiction].
  - destruct same; [contradiction | destruct Hin as [E|[]]; discriminate].
Qed.

(* ------------------------------------------------------------------ back-off BETWEEN attempts *)
Lemma connects_sq rs : connects (sq_outs rs) = [].
Proof.
  induction rs as [|r rs IH]; [reflexivity|]. unfold sq_outs in *. cbn [flat_map].
  rewrite connects_app, IH. destruct (r_expect r); reflexivity.
Qed.

(* while an attempt or a back-off timer is pending, the ONLY thing that starts a connection attempt is the timer firing:
   not makeRequest, not cancel, not a failure of the pending attempt, not updateMetadata *)
Theorem no_early_attempt s e : CInv s -> connecting s ->
  connects (snd (step s e)) = []
  \/ (e = EFire /\ s_connector s = CTimer /\ snd (step s e) = [OConnect (s_addr s)]).
Proof.
  intros C K. destruct (CInv_attempt_open s C K) as [Dn P]. unfold connecting in K.
  destruct e; cbn [step]; rewrite ?P.
  - left. unfold make_request. destruct (lookup rid (t_reqs (s_t s))); [reflexivity|].
    rewrite Dn, P. destruct (s_connector s); try reflexivity; destruct K; discriminate.
  - left. unfold lift. cbn [snd]. apply (tbl_out_quiet _ (cancel_tbl_out (s_t s) h)).
  - left. destruct (s_connector s) eqn:Kc; try reflexivity.
    destruct (resend s C Kc) as (s' & E & _). cbn [step] in E. rewrite Kc in E. rewrite E. cbn [snd]. apply connects_sq.
  - left. destruct (s_connector s); try reflexivity. rewrite Dn. reflexivity.
  - left. reflexivity.
  - left. reflexivity.
  - left. reflexivity.
  - destruct (s_connector s) eqn:Kc; [left; reflexivity | left; reflexivity | right; auto | left; reflexivity].
  - left. pose proof (close_quiet s) as Q. cbn [step] in Q. apply Q.
  - left. reflexivity.
  - left. destruct same; reflexivity.
Qed.

(* ------------------------------------------------------------------ written on the connection that is up *)
Fixpoint stays_up (s : state) (evs : list event) : Prop :=
  match evs with
  | [] => True
  | e :: r => s_proto (fst (step s e)) = true /\ stays_up (fst (step s e)) r
  end.

Lemma fire_down_proto s : s_proto (fst (fire_down s)) = s_proto s.
Proof. unfold fire_down. destruct (s_down s); destruct s; reflexivity. Qed.

Lemma step_close_proto s : s_proto (fst (step s EClose)) = s_proto s.
Proof.
  cbn [step]. destruct (s_down s); try reflexivity.
  assert (W : forall s1 o1, s_proto (fst (let (t2, o2) := fail_all (t_with_reqs (s_t s1) []) (rev (t_reqs (s_t s1))) in (with_t s1 t2, o1 ++ o2))) = s_proto s1).
  { intros s1 o1. destruct (fail_all _ _). destruct s1; reflexivity. }
  assert (E0 : s_proto (with_down s DPending) = s_proto s) by (destruct s; reflexivity).
  destruct (s_proto (with_down s DPending)) eqn:P0.
  - rewrite W. congruence.
  - destruct (s_connector (with_down s DPending)).
    + destruct (fire_down (with_down s DPending)) as [s1 o1] eqn:F. rewrite W.
      pose proof (fire_down_proto (with_down s DPending)) as X. rewrite F in X. cbn [fst] in X. congruence.
    + destruct (fire_down (with_connector (with_down s DPending) CStale)) as [s1 o1] eqn:F. rewrite W.
      pose proof (fire_down_proto (with_connector (with_down s DPending) CStale)) as X. rewrite F in X. cbn [fst] in X.
      rewrite X. destruct s; cbn in *; congruence.
    + destruct (fire_down (with_connector (with_down s DPending) CStale)) as [s1 o1] eqn:F. rewrite W.
      pose proof (fire_down_proto (with_connector (with_down s DPending) CStale)) as X. rewrite F in X. cbn [fst] in X.
      rewrite X. destruct s; cbn in *; congruence.
    + rewrite W. congruence.
Qed.

Lemma proto_on s e : CInv s -> s_proto s = false -> s_proto (fst (step s e)) = true ->
  e = EConnOk /\ s_connector s = CAttempt.
Proof.
  intros C P H.
  assert (HC : e = EClose -> False). { intros ->. rewrite step_close_proto in H. congruence. }
  destruct e; cbn [step] in H; rewrite ?P in H; cbn [fst] in H.
  - exfalso. unfold make_request in H. destruct (lookup rid (t_reqs (s_t s))); cbn in H; [congruence|].
    destruct (s_down s); rewrite ?P in H.
    + destruct (s_connector s); destruct s; cbn in *; congruence.
    + destruct (fire _ _ _); destruct s; cbn in *; congruence.
    + destruct (fire _ _ _); destruct s; cbn in *; congruence.
  - exfalso. unfold lift in H. destruct s; cbn in *; congruence.
  - destruct (s_connector s) eqn:K; cbn [fst] in H; try congruence. auto.
  - exfalso. destruct (s_connector s); cbn [fst] in H; try congruence.
    destruct (s_down s).
    + destruct s; cbn in *; congruence.
    + rewrite fire_down_proto in H. destruct s; cbn in *; congruence.
    + rewrite fire_down_proto in H. destruct s; cbn in *; congruence.
  - congruence.
  - congruence.
  - congruence.
  - exfalso. destruct (s_connector s); destruct s; cbn in *; congruence.
  - exfalso. apply HC. reflexivity.
  - congruence.
  - exfalso. destruct same; destruct s; cbn in *; congruence.
Qed.

Definition from_or_written (s s' : state) (o : list output) : Prop :=
  forall r, In r (reqs s') -> (exists r0, In r0 (reqs s) /\ r_h r0 = r_h r) \/ In (OWrite (r_h r) (r_id r)) o.

Lemma sub_from s s' o : sub_flags (s_t s) (s_t s') -> from_or_written s s' o.
Proof. intros S r Hr. left. destruct (S r Hr) as (x & Hx & _ & _ & E). exists x. auto. Qed.

Lemma up_step s e s' o : CInv s -> s_proto s = true -> step s e = (s', o) -> s_proto s' = true ->
  from_or_written s s' o.
Proof.
  intros C P H P'. pose proof (ci_t s C) as T. pose proof H as H0. destruct e; cbn [step] in H; rewrite ?P in H.
  - (* makeRequest on the live connection: written at once *)
    unfold make_request in H. destruct (lookup rid (t_reqs (s_t s))) eqn:L.
    { injection H as <- <-. apply sub_from. apply sub_flags_refl. }
    destruct (s_down s) eqn:D.
    + rewrite P in H.
      set (hh := length (t_dlog (s_t s))) in *.
      assert (Hh : ~ In hh (t_fired (s_t s))). { intro F. apply (ti_fired_lt _ T) in F. unfold hh in F. lia. }
      set (r1 := mkReq rid hh expect false false) in *.
      set (t1 := mkT (t_reqs (s_t s) ++ [r1]) (t_dlog (s_t s) ++ [rid]) (t_fired (s_t s))) in *.
      assert (T1 : TInv t1) by (apply TInv_add; auto).
      pose proof (send_request_new t1 (t_reqs (s_t s)) r1 eq_refl (ti_ids _ T1) eq_refl Hh) as SR.
      unfold lift in H. rewrite SR in H. cbn [fst snd] in H. injection H as <- <-.
      intros r Hr. unfold reqs in Hr. destruct s as [t0 p0 rx0 c0 d0 f0 a0]. cbn [with_t s_t t_reqs] in Hr.
      apply in_app_iff in Hr. destruct Hr as [Hr|Hr]; [left; exists r; auto|].
      right. unfold sq_reqs in Hr. cbn [filter r_expect r1] in Hr. destruct expect; cbn in Hr; [|contradiction].
      destruct Hr as [<-|[]]. cbn. left. reflexivity.
    + unfold lift in H. injection H as <- <-. intros r Hr. left. exists r. split; [|reflexivity].
      unfold reqs in *. destruct (fire _ _ _) eqn:F. pose proof (fire_reqs (mkT (t_reqs (s_t s)) (t_dlog (s_t s) ++ [rid]) (t_fired (s_t s))) (length (t_dlog (s_t s))) FailClosed) as X.
      rewrite F in X. cbn [fst] in X. destruct s; cbn in *. rewrite X in Hr. exact Hr.
    + unfold lift in H. injection H as <- <-. intros r Hr. left. exists r. split; [|reflexivity].
      unfold reqs in *. destruct (fire _ _ _) eqn:F. pose proof (fire_reqs (mkT (t_reqs (s_t s)) (t_dlog (s_t s) ++ [rid]) (t_fired (s_t s))) (length (t_dlog (s_t s))) FailClosed) as X.
      rewrite F in X. cbn [fst] in X. destruct s; cbn in *. rewrite X in Hr. exact Hr.
  - unfold lift in H. injection H as <- <-. apply sub_from. destruct s; apply cancel_sub.
  - rewrite (ci_conn s C P) in H. injection H as <- <-. apply sub_from. apply sub_flags_refl.
  - rewrite (ci_conn s C P) in H. injection H as <- <-. apply sub_from. apply sub_flags_refl.
  - (* connectionLost: the connection is no longer up *)
    exfalso. destruct (s_down _); [destruct (map _ _)|..];
      repeat match goal with H0 : context [fire_down ?x] |- _ => unfold fire_down in H0; destruct (s_down x) end;
      unfold connect, try_connect in H; injection H as <- _; destruct s; cbn in *; congruence.
  - pose proof (f_equal fst H) as E1. pose proof (f_equal snd H) as E2. cbn [fst snd] in E1, E2. subst s' o.
    apply sub_from. apply data_in_sub.
  - pose proof (f_equal fst H) as E1. pose proof (f_equal snd H) as E2. cbn [fst snd] in E1, E2. subst s' o.
    apply sub_from. apply data_in_sub.
  - rewrite (ci_conn s C P) in H. injection H as <- <-. apply sub_from. apply sub_flags_refl.
  - pose proof (close_quiet s) as (_ & _ & S & _). rewrite H0 in S. cbn [fst] in S. apply sub_from. exact S.
  - injection H as <- <-. apply sub_from. apply sub_flags_refl.
  - destruct same; injection H as <- <-; apply sub_from; destruct s; apply sub_flags_refl.
Qed.

Lemma up_run : forall evs s s' o, CInv s -> s_proto s = true -> stays_up s evs -> run s evs = (s', o) ->
  from_or_written s s' o.
Proof.
  induction evs as [|e evs IH]; intros s s' o C P U H; cbn [run] in H.
  - injection H as <- <-. intros r Hr. left. exists r. auto.
  - destruct (step s e) as [s1 o1] eqn:E1. destruct (run s1 evs) as [s2 o2] eqn:E2. injection H as <- <-.
    cbn [stays_up] in U. rewrite E1 in U. cbn [fst] in U. destruct U as [P1 U1].
    pose proof (proj1 (step_inv _ _ _ _ C E1)) as C1.
    pose proof (up_step _ _ _ _ C P E1 P1) as A. pose proof (IH _ _ _ C1 P1 U1 E2) as B.
    intros r Hr. destruct (B r Hr) as [(r1 & Hr1 & Eh)|W]; [|right; apply in_app_iff; right; exact W].
    destruct (A r1 Hr1) as [(r0 & Hr0 & Eh0)|W].
    + left. exists r0. split; [exact Hr0 | congruence].
    + right. apply in_app_iff. left.
      (* same handle, hence same id: both entries satisfy entry_ok w.r.t. logs that extend each other *)
      assert (r_id r1 = r_id r).
      { destruct (TInv_entry _ r1 (ci_t _ C1) Hr1) as (X1 & _).
        pose proof (run_inv _ _ _ _ C1 E2) as (C2 & (x & D2) & _).
        destruct (TInv_entry _ r (ci_t _ C2) Hr) as (X2 & _). rewrite D2 in X2.
        rewrite nth_error_app1 in X2 by (apply nth_error_Some; rewrite <- Eh; congruence).
        rewrite <- Eh in X2. congruence. }
      rewrite <- Eh, <- H. exact W.
Qed.

(* the last time the connection came up *)
Lemma last_up : forall evs s0 s o, CInv s0 -> run s0 evs = (s, o) -> s_proto s = true ->
  (s_proto s0 = true /\ stays_up s0 evs)
  \/ exists evs1 evs2 s1 o1 s2 oc o2, evs = evs1 ++ EConnOk :: evs2 /\ run s0 evs1 = (s1, o1)
       /\ s_connector s1 = CAttempt /\ step s1 EConnOk = (s2, oc) /\ s_proto s2 = true
       /\ stays_up s2 evs2 /\ run s2 evs2 = (s, o2) /\ o = o1 ++ oc ++ o2.
Proof.
  induction evs as [|e evs IH]; intros s0 s o C H P; cbn [run] in H.
  - injection H as <- <-. left. split; [exact P | exact I].
  - destruct (step s0 e) as [s1 o1] eqn:E1. destruct (run s1 evs) as [s2 o2] eqn:E2. injection H as <- <-.
    pose proof (proj1 (step_inv _ _ _ _ C E1)) as C1.
    destruct (IH s1 s2 o2 C1 E2 P) as [[P1 U1]|(evs1 & evs2 & sa & oa & sb & oc & ob & -> & R1 & K & St & Pb & U & R2 & ->)].
    + destruct (s_proto s0) eqn:P0.
      * left. split; [reflexivity|]. cbn [stays_up]. rewrite E1. cbn [fst]. auto.
      * right. pose proof (proto_on s0 e C P0) as X. rewrite E1 in X. cbn [fst] in X. destruct (X P1) as [-> K].
        exists [], evs, s0, [], s1, o1, o2. cbn [app run]. repeat split; auto.
    + right. exists (e :: evs1), evs2, sa, (o1 ++ oa), sb, oc, ob. cbn [app run]. rewrite E1, R1.
      repeat split; auto. rewrite <- app_assoc. reflexivity.
Qed.

(* C10 "exactly once per connection", lower bound at the level of traces: in every run that ends connected there is a
   point where the connection that is up was established (an enabled EConnOk), after which it was never lost, and every
   entry of the final table was WRITTEN (OWrite with its handle and id) at or after that point *)
Theorem written_on_current_connection evs s outs : run init evs = (s, outs) -> s_proto s = true ->
  exists evs1 evs2 s1 o1 s2 oc o2, evs = evs1 ++ EConnOk :: evs2 /\ run init evs1 = (s1, o1)
    /\ s_connector s1 = CAttempt /\ step s1 EConnOk = (s2, oc) /\ stays_up s2 evs2 /\ run s2 evs2 = (s, o2)
    /\ outs = o1 ++ oc ++ o2
    /\ forall r, In r (t_reqs (s_t s)) -> In (OWrite (r_h r) (r_id r)) (oc ++ o2).
Proof.
  intros H P. destruct (last_up evs init s outs CInv_init H P) as [[P0 _]|X]; [discriminate P0|].
  destruct X as (evs1 & evs2 & s1 & o1 & s2 & oc & o2 & E & R1 & K & St & P2 & U & R2 & Eo).
  exists evs1, evs2, s1, o1, s2, oc, o2. repeat split; auto.
  pose proof (proj1 (run_inv _ _ _ _ CInv_init R1)) as C1.
  pose proof (proj1 (step_inv _ _ _ _ C1 St)) as C2.
  destruct (resend s1 C1 K) as (s2' & E2 & W & _ & _ & Rq & _). rewrite St in E2. injection E2 as <- ->.
  intros r Hr. apply in_app_iff.
  destruct (up_run evs2 s2 s o2 C2 P2 U R2 r Hr) as [(r0 & Hr0 & Eh)|Wr]; [left | right; exact Wr].
  (* r0 is an entry of the table right after the connection came up: all of those were written by that step *)
  unfold reqs in *. rewrite Rq in Hr0. unfold sq_reqs in Hr0. apply in_map_iff in Hr0. destruct Hr0 as (q & <- & Hq).
  apply filter_In in Hq. destruct Hq as [Hq _].
  assert (In (r_h q, r_id q) (writes (sq_outs (t_reqs (s_t s1))))) by (rewrite W; apply (in_map (fun r => (r_h r, r_id r))); exact Hq).
  assert (Ei : r_id q = r_id r).
  { destruct (TInv_entry _ q (ci_t _ C1) Hq) as (X1 & _).
    pose proof (run_inv _ _ _ _ C2 R2) as (C3 & (x & D3) & _).
    pose proof (step_inv _ _ _ _ C1 St) as (_ & (y & D2) & _).
    destruct (TInv_entry _ r (ci_t _ C3) Hr) as (X2 & _). rewrite D3, D2, <- app_assoc in X2. cbn [set_sent r_h] in Eh.
    rewrite nth_error_app1 in X2 by (apply nth_error_Some; rewrite <- Eh; congruence).
    rewrite <- Eh in X2. congruence. }
  cbn [set_sent r_h] in Eh. rewrite <- Eh, <- Ei.
  clear - H0. unfold writes in H0. induction (sq_outs (t_reqs (s_t s1))) as [|x l IH]; [contradiction|].
  destruct x; cbn in H0; try (right; apply IH; exact H0).
  destruct H0 as [E|H0]; [left; injection E as -> ->; reflexivity | right; apply IH; exact H0].
Qed.

(* ------------------------------------------------------------------ one received frame, two requests (outside the fault model) *)
(* After the receiver aborted (length limit / short frame) Twisted keeps the whole buffer and re-parses it on every later
   dataReceived.  IF the transport keeps delivering after loseConnection() was requested AND the caller re-uses the
   correlation id on that doomed connection, the frame already consumed completes the new request as well. *)
Theorem frame_instance_refuted : exists evs s outs h1 h2 f stream,
  run init evs = (s, outs) /\ h1 <> h2 /\ In (ODef h1 (Succ f)) outs /\ In (ODef h2 (Succ f)) outs
  /\ In OLose outs
  /\ concat (flat_map (fun e => match e with EData c => [c] | _ => [] end) evs) = stream
  /\ stream = encode_frame f ++ enc32 2147483648 ++ [9].
Proof.
  exists [EMake 1 true; EConnOk; EData (encode_frame [0;0;0;1;79] ++ [128;0;0;0]); EMake 1 true; EData [9]].
  eexists. eexists. exists 0%nat, 1%nat, [0;0;0;1;79]. eexists.
  split; [vm_compute; reflexivity|]. split; [discriminate|].
  split; [cbn; auto 10|]. split; [cbn; auto 10|]. split; [cbn; auto 10|]. split; vm_compute; reflexivity.
Qed.
