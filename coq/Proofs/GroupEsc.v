(* The ghost flag [escaped] of Model/Group.v is set by exactly the events that make a non-Kafka exception escape
   _join_and_sync; hence "no such event in the list" implies the flag is clear.  Used by Props/C17.v. *)
From Coq Require Import Lia.
From AV Require Import Base.Util Model.Group Model.GroupObs Proofs.GroupInv Proofs.GroupInvH.

Definition escape_event (e : event) : bool :=
  match e with
  | ELookup _ (LFail k) | EMeta _ (RFail k) | EParts _ (PFail k) => negb (is_kafka k)
  | EJoin _ (JOk _ _ role) => negb (role =? 0) && negb (role =? 1)
  | EParts _ PMissing | ESync _ SBadNonKafka | ESync _ (SOkRaise _ _) => true
  | _ => false
  end.
Definition benign (evs : list event) : bool := forallb (fun e => negb (escape_event e)) evs.

Definition keeps (a : act) : Prop := forall s, escaped (fst (a s)) = escaped s.

Lemma k_seq : forall a b, keeps a -> keeps b -> keeps (a ;; b).
Proof. intros a b Ha Hb s. rewrite seq_fst, Hb, Ha. reflexivity. Qed.
Lemma k_emit : forall o, keeps (emit o). Proof. intros o s. reflexivity. Qed.
Lemma k_emits : forall o, keeps (emits o). Proof. intros o s. reflexivity. Qed.
Lemma k_skip : keeps skip. Proof. intros s. reflexivity. Qed.
Lemma k_gen_end : keeps gen_end. Proof. intros s. ds s. reflexivity. Qed.
Lemma k_ogl : keeps on_group_leave. Proof. intros s. pose proof (ogl_fields s) as F. cbv zeta in F. intuition. Qed.
Lemma k_cancel_gen : forall gid, keeps (cancel_gen gid).
Proof. intros gid s. pose proof (cancel_gen_fields gid s) as F. cbv zeta in F. intuition. Qed.
Lemma k_finish_stop : forall st c, keeps (finish_stop st c).
Proof. intros st c s. unfold finish_stop. ds s. destruct grp; reflexivity. Qed.

Lemma k_stop_tail : forall st, keeps (stop_tail st).
Proof.
  intros st s. unfold stop_tail.
  assert (X : escaped (fst (match rejoin_d s with Some gid => cancel_gen gid (set_rejoin_d None s) | None => (s, []) end)) = escaped s).
  { destruct (rejoin_d s); [rewrite k_cancel_gen; ds s; reflexivity|reflexivity]. }
  destruct (match rejoin_d s with Some gid => cancel_gen gid (set_rejoin_d None s) | None => (s, []) end) as [s1 o1]. cbn [fst] in X.
  rewrite <- X. ds s1. unfold finish_stop. destruct sd; destruct grp; reflexivity.
Qed.

Lemma k_coord_stop : forall st, keeps (coord_stop st).
Proof.
  intros st s. ds s. destruct sd as [idx|]; [|unfold coord_stop; cbn [start_d]; apply k_finish_stop].
  destruct stp; [unfold coord_stop; cbn [start_d stopping]; apply k_finish_stop|].
  destruct dc0 as [|i|]; [| |unfold coord_stop; cbn [start_d stopping dc set_rejoin_needed set_stopping]; rewrite k_finish_stop; reflexivity];
    destruct hbq as [rid|]; destruct hbr; destruct ck; destruct (mem =? 0) eqn:M;
    unfold coord_stop, hb_stop, remove_timer; prj; rewrite ?M; prj.
  all: try match goal with |- context [stop_tail ?st0 ?s0] =>
         let Y := fresh in pose proof (k_stop_tail st0 s0) as Y; destruct (stop_tail st0 s0) as [s3 o4]; prj; exact Y end.
  all: reflexivity.
Qed.

Lemma k_do_stop : forall idx err, keeps (do_stop idx err).
Proof.
  intros idx err s. unfold do_stop. destruct (is_group s).
  - destruct (consumers (set_stop_requested true s)); [rewrite k_coord_stop; ds s; reflexivity|]. unfold begin_shutdown. ds s. reflexivity.
  - apply k_coord_stop.
Qed.
Lemma k_fatal : forall k, keeps (fatal k). Proof. intros k. unfold fatal. apply k_seq; [apply k_ogl|apply k_do_stop]. Qed.
Lemma k_schedule_rejoin : forall d, keeps (schedule_rejoin d).
Proof. intros d s. unfold schedule_rejoin, new_timer. ds s. destruct dc0; reflexivity. Qed.
Lemma k_resched : forall d, keeps (resched d).
Proof. intros d s. unfold resched. destruct (stopping s); [reflexivity|apply k_schedule_rejoin]. Qed.
Lemma k_upd_member : keeps (upd (set_member 0)). Proof. intros s. ds s. reflexivity. Qed.

Lemma k_rae : forall k, keeps (rejoin_after_error k).
Proof.
  intros k. destruct k; cbn [rejoin_after_error].
  - apply k_resched.
  - apply k_seq; [apply k_emit|apply k_resched].
  - apply k_seq; [apply k_emit|apply k_resched].
  - apply k_seq; [apply k_ogl|apply k_resched].
  - apply k_seq; [apply k_ogl|apply k_seq; [apply k_upd_member|apply k_resched]].
  - apply k_seq; [apply k_ogl|apply k_seq; [apply k_upd_member|apply k_resched]].
  - apply k_resched.
  - apply k_seq; [apply k_ogl|apply k_seq; [apply k_emit|apply k_resched]].
  - apply k_resched.
  - intros s. destruct (stopping s); [reflexivity|apply k_fatal].
  - apply k_fatal.
Qed.

Lemma gen_fail_esc : forall k s, escaped (fst (gen_fail k s)) = escaped s || negb (is_kafka k).
Proof.
  intros k s. unfold gen_fail. rewrite seq_fst. destruct (is_kafka k).
  - rewrite k_rae, k_gen_end. rewrite orb_false_r. reflexivity.
  - unfold upd, gen_end. ds s. cbn. rewrite orb_true_r. reflexivity.
Qed.

Lemma k_coord_retry_end : forall d, keeps (coord_retry d ;; gen_end).
Proof. intros d s. rewrite seq_fst. ds s. reflexivity. Qed.
Lemma k_send_join : forall gid, keeps (send_join gid). Proof. intros gid s. ds s. reflexivity. Qed.
Lemma k_send_sync : forall gid ld, keeps (send_sync gid ld). Proof. intros gid ld s. ds s. reflexivity. Qed.
Lemma k_prepare_and_join : forall gid, keeps (prepare_and_join gid).
Proof.
  intros gid s. unfold prepare_and_join. destruct (is_group s); [|apply k_send_join].
  destruct (consumers s) eqn:C; [apply k_send_join|]. unfold begin_shutdown. ds s. reflexivity.
Qed.
Lemma k_after_prepare : forall gid, keeps (after_prepare gid).
Proof. intros gid s. unfold after_prepare. destruct (stop_pend s); [apply k_gen_end|apply k_send_join]. Qed.
Lemma k_join_and_sync : keeps join_and_sync.
Proof.
  intros s. unfold join_and_sync. destruct (is_group s && stop_requested s).
  - destruct (dc s); ds s; reflexivity.
  - destruct (negb (rejoin_needed (set_dc DcNone s))); [ds s; reflexivity|].
    destruct (rejoin_d (set_dc DcNone s)); ds s; reflexivity.
Qed.
Lemma k_on_join_complete : forall asg, keeps (on_join_complete asg).
Proof.
  intros asg s. unfold on_join_complete. destruct (is_group s); [|reflexivity]. destruct (stop_requested s); [reflexivity|].
  destruct (start_consumers_spec (group_by_topic asg) s) as [SC _]. unfold same_core in SC.
  destruct SC as (_&_&_&_&_&_&_&_&_&_&_&_&_&_&_&_&E). rewrite E. ds s. reflexivity.
Qed.
Lemma k_with_gen : forall ph (k : gen -> act), (forall g, keeps (k g)) -> keeps (with_gen ph k).
Proof.
  intros ph k H s. unfold with_gen. destruct (take_first (awaits ph) (gens s)) as [[g rest]|]; [|reflexivity].
  rewrite H. ds s. reflexivity.
Qed.

(* a step sets the flag only if the event is one of the listed ones *)
Lemma step_escaped : forall s e, escaped (fst (step s e)) = true -> escaped s = true \/ escape_event e = true.
Proof.
  intros s e H. destruct (escape_event e) eqn:EE; [right; reflexivity|left]. rewrite <- H. symmetry.
  destruct e; cbn [step].
  - destruct (start_d s); [reflexivity|]. match goal with |- context [join_and_sync ?x] => pose proof (k_join_and_sync x) as J; destruct (join_and_sync x) end.
    cbn [fst] in *. rewrite J. ds s. reflexivity.
  - match goal with |- context [do_stop ?a ?b ?x] => pose proof (k_do_stop a b x) as J; destruct (do_stop a b x) end.
    cbn [fst] in *. rewrite J. ds s. reflexivity.
  - unfold on_lookup. apply k_with_gen. intros g. destruct r as [| |k].
    + intros s0. ds s0. reflexivity.
    + apply k_coord_retry_end.
    + cbn in EE. destruct k; try discriminate; try apply k_coord_retry_end.
  - unfold on_meta. apply k_with_gen. intros g. destruct r as [|k].
    + intros s0. destruct (stop_pend s0); [apply k_gen_end|]. rewrite k_prepare_and_join. ds s0. reflexivity.
    + intros s0. rewrite gen_fail_esc. cbn in EE. rewrite EE. apply orb_false_r.
  - unfold on_join. apply k_with_gen. intros g. destruct r as [gn mem role|k].
    + intros s0. rewrite seq_fst. unfold upd. cbn [fst]. cbv beta.
      set (s1 := set_cur_assign [] (set_generation gn (set_member mem s0))).
      assert (E1 : escaped s1 = escaped s0) by (subst s1; destruct s0; reflexivity). rewrite <- E1. clearbody s1.
      destruct (stop_pend s1); [apply k_gen_end|]. cbn in EE.
      destruct (role =? 0); [apply k_send_sync|]. destruct (role =? 1); [destruct s1; reflexivity|discriminate].
    + apply k_seq; [apply k_rae|apply k_gen_end].
  - unfold on_parts. apply k_with_gen. intros g. destruct r as [| |k]; try discriminate.
    + intros s0. destruct (stop_pend s0); [apply k_gen_end|apply k_send_sync].
    + intros s0. rewrite gen_fail_esc. cbn in EE. rewrite EE. apply orb_false_r.
  - unfold on_sync. apply k_with_gen. intros g. destruct r as [asg| | |k|asg n]; try discriminate.
    + intros s0. destruct (stop_pend s0); [apply k_gen_end|].
      rewrite !seq_fst. unfold upd at 1 2, gen_end. cbn [fst]. rewrite reset_hb_fst.
      match goal with |- escaped (fst (upd _ ?x)) = _ => rewrite (k_gen_end x || eq_refl) end || idtac.
      unfold upd. cbn [fst]. match goal with |- escaped (set_rejoin_d None ?x) = _ => transitivity (escaped x); [destruct x; reflexivity|] end.
      rewrite k_on_join_complete. ds s0. reflexivity.
    + intros s0. destruct (stop_pend s0); [apply k_gen_end|]. rewrite gen_fail_esc. apply orb_false_r.
    + apply k_seq; [apply k_rae|apply k_gen_end].
  - unfold on_tick. destruct (hb_running s); [|reflexivity]. destruct (_ || _); [reflexivity|ds s; reflexivity].
  - unfold on_hb_reply. destruct (hb_req s); [|reflexivity]. destruct (_ =? _); [|reflexivity]. destruct r; [ds s; reflexivity|].
    destruct (hb_running _); [|ds s; reflexivity]. rewrite seq_fst, k_rae. ds s. reflexivity.
  - unfold on_fire. destruct (existsb _ _); [|reflexivity]. rewrite k_join_and_sync. unfold remove_timer. ds s.
    destruct dc0 as [|i|]; cbn; try (destruct (i =? id)); reflexivity.
  - unfold on_leave. destruct (take_first _ _) as [[st rest]|]; [|reflexivity]. rewrite k_stop_tail. destruct r; ds s; reflexivity.
  - unfold on_cfail. destruct (can_fail cid s); [|reflexivity].
    match goal with |- context [rejoin_after_error k ?x] => set (s1 := x) end.
    assert (E1 : escaped s1 = escaped s) by (subst s1; ds s; reflexivity).
    destruct k; try (rewrite k_rae; exact E1). destruct (consumers s1); [exact E1|rewrite k_rae; exact E1].
  - unfold on_cshut. destruct (take_first (fun g => sh_has cid (gen_list g)) (gens s)) as [[g rest]|].
    + destruct ok.
      * destruct (sh_all_done _); [rewrite k_after_prepare|]; ds s; reflexivity.
      * rewrite emits_fst, k_after_prepare. ds s. reflexivity.
    + destruct (take_first (fun st => sh_has cid (stop_list st)) (stops s)) as [[st rest]|]; [|reflexivity].
      destruct ok.
      * destruct (sh_all_done _); [rewrite k_coord_stop|]; ds s; reflexivity.
      * rewrite emits_fst, k_coord_stop. ds s. reflexivity.
Qed.

Lemma benign_not_escaped : forall grp evs, benign evs = true -> escaped (state_after grp evs) = false.
Proof.
  intros grp evs. unfold state_after.
  assert (G : forall s, escaped s = false -> benign evs = true -> escaped (fold_left (fun s e => fst (step s e)) evs s) = false).
  { induction evs as [|e evs IH]; intros s Hs Hb; cbn [fold_left]; auto. cbn [benign forallb] in Hb. apply andb_prop in Hb. destruct Hb as [B1 B2].
    apply IH; auto. destruct (escaped (fst (step s e))) eqn:E; auto. destruct (step_escaped s e E) as [X|X]; [congruence|].
    rewrite X in B1. discriminate. }
  apply G. destruct grp; reflexivity.
Qed.
