(* The ghost flag [escaped] of Model/Group.v is set by exactly the events that make a non-Kafka exception escape
   _join_and_sync; hence "no such event in the list" implies the flag is clear.  Used by Props/C17.v. *)
From Coq Require Import Lia.
From AV Require Import Base.Util Model.Group Model.GroupObs Proofs.GroupInv Proofs.GroupInvH.

Definition escape_event (e : event) : bool :=
  match e with
  | ELookup _ (LFail k) | EMeta _ (RFail k) | EParts _ (PFail k) => negb (is_kafka k)
  | EJoin _ (JOk _ _ role) => negb (role =? 0) && negb (role =? 1)
  | EParts _ PMissing | ESync _ SBadNonKafka | ESync _ (SOkRaise _ _) => true
  | _ => false
  end.
Definition benign (evs : list event) : bool := forallb (fun e => negb (escape_event e)) evs.

(* the flag is only ever SET by gen_fail; arming a call or starting a generator clears it *)
Definition keeps (a : act) : Prop := forall s, escaped (fst (a s)) = true -> escaped s = true.

Lemma k_seq : forall a b, keeps a -> keeps b -> keeps (a ;; b).
Proof. intros a b Ha Hb s H. rewrite seq_fst in H. apply Ha. apply Hb. exact H. Qed.
Lemma k_emit : forall o, keeps (emit o). Proof. intros o s H. exact H. Qed.
Lemma k_emits : forall o, keeps (emits o). Proof. intros o s H. exact H. Qed.
Lemma k_skip : keeps skip. Proof. intros s H. exact H. Qed.
Lemma k_eq : forall (a : act), (forall s, escaped (fst (a s)) = escaped s) -> keeps a.
Proof. intros a E s H. rewrite E in H. exact H. Qed.
Lemma k_gen_end : keeps gen_end. Proof. apply k_eq. intros s. ds s. reflexivity. Qed.
Lemma k_ogl : keeps on_group_leave. Proof. apply k_eq. intros s. pose proof (ogl_fields s) as F. cbv zeta in F. intuition. Qed.
Lemma k_cancel_gen : forall gid, keeps (cancel_gen gid).
Proof. intros gid. apply k_eq. intros s. pose proof (cancel_gen_fields gid s) as F. cbv zeta in F. intuition. Qed.
Lemma k_finish_stop : forall st c, keeps (finish_stop st c).
Proof. intros st c. apply k_eq. intros s. unfold finish_stop. ds s. destruct grp; reflexivity. Qed.

Lemma k_stop_tail : forall st, keeps (stop_tail st).
Proof.
  intros st s H. unfold stop_tail in H.
  assert (X : escaped (fst (match rejoin_d s with Some gid => cancel_gen gid (set_rejoin_d None s) | None => (s, []) end)) = escaped s).
  { destruct (rejoin_d s) as [gid|]; [|reflexivity]. pose proof (cancel_gen_fields gid (set_rejoin_d None s)) as F. cbv zeta in F.
    destruct F as (_&_&_&_&_&_&_&_&_&_&F). rewrite F. ds s. reflexivity. }
  destruct (match rejoin_d s with Some gid => cancel_gen gid (set_rejoin_d None s) | None => (s, []) end) as [s1 o1]. cbn [fst] in X.
  rewrite <- X. ds s1. unfold finish_stop in H. destruct sd; destruct grp; exact H.
Qed.

Lemma k_coord_stop : forall st, keeps (coord_stop st).
Proof.
  intros st s. ds s. destruct sd as [idx|]; [|unfold coord_stop; cbn [start_d]; apply k_finish_stop].
  destruct stp; [unfold coord_stop; cbn [start_d stopping]; apply k_finish_stop|].
  destruct dc0 as [|i|]; [| |unfold coord_stop; cbn [start_d stopping dc set_rejoin_needed set_stopping]; intros H; apply k_finish_stop in H; exact H];
    destruct hbq as [rid|]; destruct hbr; destruct ck; destruct (mem =? 0) eqn:M;
    unfold coord_stop, hb_stop, remove_timer; prj; rewrite ?M; prj.
  all: try match goal with |- context [stop_tail ?st0 ?s0] =>
         let Y := fresh "Y" in pose proof (k_stop_tail st0 s0) as Y; destruct (stop_tail st0 s0) as [s3 o4]; prj; exact Y end.
  all: auto.
Qed.

Lemma k_do_stop : forall idx err, keeps (do_stop idx err).
Proof.
  intros idx err s H. unfold do_stop in H. destruct (is_group s).
  - destruct (consumers (set_stop_requested true s)); [apply k_coord_stop in H; ds s; exact H|]. unfold begin_shutdown in H. ds s. exact H.
  - apply k_coord_stop in H. exact H.
Qed.
Lemma k_fatal : forall k, keeps (fatal k). Proof. intros k. unfold fatal. apply k_seq; [apply k_ogl|apply k_do_stop]. Qed.
Lemma k_schedule_rejoin : forall d, keeps (schedule_rejoin d).
Proof. intros d s H. unfold schedule_rejoin, new_timer in H. ds s. destruct dc0; cbn in H; auto; discriminate. Qed.
Lemma k_resched : forall d, keeps (resched d).
Proof. intros d s H. unfold resched in H. destruct (stopping s); [exact H|apply k_schedule_rejoin in H; exact H]. Qed.
Lemma k_upd_member : keeps (upd (set_member 0)). Proof. apply k_eq. intros s. ds s. reflexivity. Qed.

Lemma k_rae : forall k, keeps (rejoin_after_error k).
Proof.
  intros k. destruct k; cbn [rejoin_after_error].
  - apply k_resched.
  - apply k_seq; [apply k_emit|apply k_resched].
  - apply k_seq; [apply k_emit|apply k_resched].
  - apply k_seq; [apply k_ogl|apply k_resched].
  - apply k_seq; [apply k_ogl|apply k_seq; [apply k_upd_member|apply k_resched]].
  - apply k_seq; [apply k_ogl|apply k_seq; [apply k_upd_member|apply k_resched]].
  - apply k_resched.
  - apply k_seq; [apply k_ogl|apply k_seq; [apply k_emit|apply k_resched]].
  - apply k_resched.
  - intros s. destruct (stopping s); [auto|apply k_fatal].
  - apply k_fatal.
Qed.

Lemma gen_fail_esc : forall k s, escaped (fst (gen_fail k s)) = true -> escaped s = true \/ is_kafka k = false.
Proof.
  intros k s H. unfold gen_fail in H. rewrite seq_fst in H. destruct (is_kafka k); [|right; reflexivity].
  left. apply k_rae in H. apply k_gen_end in H. exact H.
Qed.
Lemma k_gen_fail_kafka : forall k, is_kafka k = true -> keeps (gen_fail k).
Proof. intros k K s H. destruct (gen_fail_esc k s H); [auto|congruence]. Qed.

Lemma k_coord_retry_end : forall d, keeps (coord_retry d ;; gen_end).
Proof. intros d s H. rewrite seq_fst in H. ds s. cbn in H. discriminate. Qed.
Lemma k_send_join : forall gid, keeps (send_join gid). Proof. intros gid. apply k_eq. intros s. ds s. reflexivity. Qed.
Lemma k_send_sync : forall gid ld, keeps (send_sync gid ld). Proof. intros gid ld. apply k_eq. intros s. ds s. reflexivity. Qed.
Lemma k_prepare_and_join : forall gid, keeps (prepare_and_join gid).
Proof.
  intros gid s H. unfold prepare_and_join in H. destruct (is_group s); [|apply k_send_join in H; exact H].
  destruct (consumers s) eqn:C; [apply k_send_join in H; exact H|]. unfold begin_shutdown in H. ds s. exact H.
Qed.
Lemma k_after_prepare : forall gid, keeps (after_prepare gid).
Proof. intros gid s H. unfold after_prepare in H. destruct (stop_pend s); [apply k_gen_end in H|apply k_send_join in H]; exact H. Qed.
Lemma k_join_and_sync : keeps join_and_sync.
Proof.
  intros s H. unfold join_and_sync in H. destruct (is_group s && stop_requested s).
  - destruct (dc s); ds s; exact H.
  - destruct (negb (rejoin_needed (set_dc DcNone s))); [ds s; exact H|].
    destruct (rejoin_d (set_dc DcNone s)); ds s; cbn in H; auto; discriminate.
Qed.
Lemma k_on_join_complete : forall asg, keeps (on_join_complete asg).
Proof.
  intros asg. apply k_eq. intros s. unfold on_join_complete. destruct (is_group s); [|reflexivity]. destruct (stop_requested s); [reflexivity|].
  destruct (start_consumers_spec (group_by_topic asg) s) as [SC _]. unfold same_core in SC.
  destruct SC as (_&_&_&_&_&_&_&_&_&_&_&_&_&_&_&_&E). rewrite E. ds s. reflexivity.
Qed.
Lemma k_start_consumers : forall tps, keeps (start_consumers tps).
Proof.
  intros tps. apply k_eq. intros s. destruct (start_consumers_spec tps s) as [SC _]. unfold same_core in SC.
  destruct SC as (_&_&_&_&_&_&_&_&_&_&_&_&_&_&_&_&E). rewrite E. ds s. reflexivity.
Qed.
Lemma k_with_gen : forall ph (k : gen -> act), (forall g, keeps (k g)) -> keeps (with_gen ph k).
Proof.
  intros ph k H s X. unfold with_gen in X. destruct (take_first (awaits ph) (gens s)) as [[g rest]|]; [|exact X].
  apply H in X. ds s. exact X.
Qed.
Lemma k_upd_eq : forall f, (forall s, escaped (f s) = escaped s) -> keeps (upd f).
Proof. intros f E. apply k_eq. intros s. apply E. Qed.
Lemma k_reset_hb : keeps reset_heartbeat_timer.
Proof. apply k_eq. intros s. rewrite reset_hb_fst. ds s. reflexivity. Qed.

(* a step sets the flag only if the event is one of the listed ones *)
Lemma step_escaped : forall s e, escaped (fst (step s e)) = true -> escaped s = true \/ escape_event e = true.
Proof.
  intros s e H. destruct (escape_event e) eqn:EE; [right; reflexivity|left].
  assert (W : forall (a : act), keeps a -> escaped (fst (a s)) = true -> escaped s = true) by (intros a K; apply K).
  destruct e; cbn [step] in H.
  - destruct (start_d s); [exact H|]. match type of H with context [join_and_sync ?x] => pose proof (k_join_and_sync x) as J; destruct (join_and_sync x) end.
    cbn [fst] in *. apply J in H. ds s. exact H.
  - match type of H with context [do_stop ?a ?b ?x] => pose proof (k_do_stop a b x) as J; destruct (do_stop a b x) end.
    cbn [fst] in *. apply J in H. ds s. exact H.
  - revert H. apply W. unfold on_lookup. apply k_with_gen. intros g. destruct r as [| |k].
    + apply k_eq. intros s0. ds s0. reflexivity.
    + apply k_coord_retry_end.
    + cbn in EE. destruct k; try discriminate; try apply k_coord_retry_end.
  - revert H. apply W. unfold on_meta. apply k_with_gen. intros g. destruct r as [|k].
    + intros s0 X. destruct (stop_pend s0); [apply k_gen_end in X; exact X|]. apply k_prepare_and_join in X. ds s0. exact X.
    + apply k_gen_fail_kafka. cbn in EE. destruct (is_kafka k); [reflexivity|discriminate].
  - revert H. apply W. unfold on_join. apply k_with_gen. intros g. destruct r as [gn' mem' role|k]; [|apply k_seq; [apply k_rae|apply k_gen_end]].
    apply k_seq; [apply k_upd_eq; intros s0; destruct s0; reflexivity|].
    intros s0 X. destruct (stop_pend s0); [apply k_gen_end in X; exact X|]. cbn in EE.
    destruct (role =? 0); [apply k_send_sync in X; exact X|]. destruct (role =? 1); [destruct s0; exact X|discriminate].
  - revert H. apply W. unfold on_parts. apply k_with_gen. intros g. destruct r as [| |k]; try discriminate.
    + intros s0 X. destruct (stop_pend s0); [apply k_gen_end in X|apply k_send_sync in X]; exact X.
    + apply k_gen_fail_kafka. cbn in EE. destruct (is_kafka k); [reflexivity|discriminate].
  - revert H. apply W. unfold on_sync. apply k_with_gen. intros g. destruct r as [asg| | |k|asg n]; try discriminate.
    + intros s0 X. destruct (stop_pend s0); [apply k_gen_end in X; exact X|]. revert s0 X.
      repeat apply k_seq; try apply k_reset_hb; try apply k_on_join_complete; try apply k_gen_end; apply k_upd_eq; intros s0; destruct s0; reflexivity.
    + intros s0 X. destruct (stop_pend s0); [apply k_gen_end in X; exact X|]. apply (k_gen_fail_kafka KOtherKafka eq_refl) in X. exact X.
    + apply k_seq; [apply k_rae|apply k_gen_end].
  - unfold on_tick in H. destruct (hb_running s); [|exact H]. destruct (_ || _); [exact H|ds s; exact H].
  - unfold on_hb_reply in H. destruct (hb_req s); [|exact H]. destruct (_ =? _); [|exact H]. destruct r; [ds s; exact H|].
    destruct (hb_running _); [|ds s; exact H]. rewrite seq_fst in H. apply k_rae in H. ds s. exact H.
  - unfold on_fire in H. destruct (existsb _ _); [|exact H]. apply k_join_and_sync in H. unfold remove_timer in H. ds s.
    destruct dc0 as [|i|]; cbn in H; try (destruct (i =? id)); exact H.
  - unfold on_leave in H. destruct (take_first _ _) as [[st rest]|]; [|exact H]. apply k_stop_tail in H. destruct r; ds s; exact H.
  - unfold on_cfail in H. destruct (can_fail cid s); [|exact H].
    match type of H with context [rejoin_after_error k ?x] => set (s1 := x) in * end.
    assert (E1 : escaped s1 = escaped s) by (subst s1; ds s; reflexivity). rewrite <- E1. clearbody s1.
    destruct k; cbv beta iota in H; try (apply k_rae in H; exact H). destruct (consumers s1); [exact H|apply k_rae in H; exact H].
  - unfold on_cshut in H. destruct (take_first (fun g => sh_has cid (gen_list g)) (gens s)) as [[g rest]|].
    + destruct ok.
      * destruct (sh_all_done _); [apply k_after_prepare in H|]; ds s; exact H.
      * rewrite emits_fst in H. apply k_after_prepare in H. ds s. exact H.
    + destruct (take_first (fun st => sh_has cid (stop_list st)) (stops s)) as [[st rest]|]; [|exact H].
      destruct ok.
      * destruct (sh_all_done _); [apply k_coord_stop in H|]; ds s; exact H.
      * rewrite emits_fst in H. apply k_coord_stop in H. ds s. exact H.
Qed.

Lemma benign_not_escaped : forall grp evs, benign evs = true -> escaped (state_after grp evs) = false.
Proof.
  intros grp evs. unfold state_after.
  assert (G : forall s, escaped s = false -> benign evs = true -> escaped (fold_left (fun s e => fst (step s e)) evs s) = false).
  { induction evs as [|e evs IH]; intros s Hs Hb; cbn [fold_left]; auto. cbn [benign forallb] in Hb. apply andb_prop in Hb. destruct Hb as [B1 B2].
    apply IH; auto. destruct (escaped (fst (step s e))) eqn:E; auto. destruct (step_escaped s e E) as [X|X]; [congruence|].
    rewrite X in B1. discriminate. }
  apply G. destruct grp; reflexivity.
Qed.
