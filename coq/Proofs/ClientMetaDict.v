(* Association-list dictionaries of Model/ClientMeta.v: read-after-write laws, key sets, sorting. *)
From AV Require Import Base.Util Model.ClientMeta.
From Coq Require Import Lia Permutation Sorted.

Lemma NoDup_snoc : forall {A} (l : list A) (x : A), NoDup l -> ~ In x l -> NoDup (l ++ [x]).
Proof.
  intros A l x H Hn. induction H as [|y r Hy Hr IH]; simpl.
  - constructor; [intros []|constructor].
  - constructor.
    + rewrite in_app_iff. simpl. intros [H|[H|[]]]; [contradiction|]. subst. apply Hn. left. reflexivity.
    + apply IH. intro H. apply Hn. right. exact H.
Qed.

Section DictFacts.
  Context {K V : Type} (eqb : K -> K -> bool).
  Hypothesis eqb_eq : forall a b, eqb a b = true <-> a = b.

  Lemma eqb_refl' : forall a, eqb a a = true.
  Proof. intro a. apply eqb_eq. reflexivity. Qed.

  Lemma eqb_neq : forall a b, a <> b -> eqb a b = false.
  Proof. intros a b H. destruct (eqb a b) eqn:E; [|reflexivity]. apply eqb_eq in E. contradiction. Qed.

  Lemma dget_dset_same : forall k (v : V) d, dget eqb k (dset eqb k v d) = Some v.
  Proof.
    intros k v d. induction d as [|e r IH]; simpl.
    - rewrite eqb_refl'. reflexivity.
    - destruct (eqb k (fst e)) eqn:E; simpl.
      + rewrite eqb_refl'. reflexivity.
      + rewrite E. exact IH.
  Qed.

  Lemma dget_dset_other : forall k k' (v : V) d, k <> k' -> dget eqb k (dset eqb k' v d) = dget eqb k d.
  Proof.
    intros k k' v d Hne. induction d as [|e r IH]; simpl.
    - rewrite (eqb_neq _ _ Hne). reflexivity.
    - destruct (eqb k' (fst e)) eqn:E; simpl.
      + apply eqb_eq in E. subst k'. rewrite (eqb_neq _ _ Hne). reflexivity.
      + destruct (eqb k (fst e)); [reflexivity|exact IH].
  Qed.

  Lemma dget_ddel_same : forall k (d : list (K * V)), dget eqb k (ddel eqb k d) = None.
  Proof.
    intros k d. induction d as [|e r IH]; simpl; [reflexivity|].
    destruct (eqb k (fst e)) eqn:E; simpl; [exact IH|]. rewrite E. exact IH.
  Qed.

  Lemma dget_ddel_other : forall k k' (d : list (K * V)), k <> k' -> dget eqb k (ddel eqb k' d) = dget eqb k d.
  Proof.
    intros k k' d Hne. induction d as [|e r IH]; simpl; [reflexivity|].
    destruct (eqb k' (fst e)) eqn:E; simpl.
    - apply eqb_eq in E. subst k'. rewrite (eqb_neq _ _ Hne). exact IH.
    - destruct (eqb k (fst e)); [reflexivity|exact IH].
  Qed.

  Lemma dget_ddel_none : forall k k' (d : list (K * V)), dget eqb k d = None -> dget eqb k (ddel eqb k' d) = None.
  Proof.
    intros k k' d. induction d as [|e r IH]; simpl; [auto|].
    destruct (eqb k (fst e)) eqn:E; [discriminate|]. intro H.
    destruct (eqb k' (fst e)); simpl; [auto|]. rewrite E. auto.
  Qed.

  Lemma dget_some_in : forall k (v : V) d, dget eqb k d = Some v -> In (k, v) d.
  Proof.
    intros k v d. induction d as [|e r IH]; simpl; [discriminate|].
    destruct (eqb k (fst e)) eqn:E.
    - intro H. inversion H. apply eqb_eq in E. subst. left. destruct e; reflexivity.
    - intro H. right. auto.
  Qed.

  Lemma dget_none_notin : forall k (d : list (K * V)), dget eqb k d = None <-> ~ In k (map fst d).
  Proof.
    intros k d. induction d as [|e r IH]; simpl.
    - split; auto.
    - destruct (eqb k (fst e)) eqn:E.
      + apply eqb_eq in E. split; [discriminate|]. intro H. exfalso. apply H. left. auto.
      + rewrite IH. split.
        * intros H [H1|H1]; [|auto]. subst k. rewrite eqb_refl' in E. discriminate.
        * intros H H1. apply H. right. exact H1.
  Qed.

  Lemma dget_in_nodup : forall k (v : V) d, NoDup (map fst d) -> In (k, v) d -> dget eqb k d = Some v.
  Proof.
    intros k v d. induction d as [|e r IH]; simpl; [intros _ []|].
    intros Hnd [H|H].
    - subst e. simpl. rewrite eqb_refl'. reflexivity.
    - inversion Hnd; subst. destruct (eqb k (fst e)) eqn:E.
      + apply eqb_eq in E. subst k. exfalso. apply H2. change (fst e) with (fst (fst e, v)). apply in_map. exact H.
      + auto.
  Qed.

  Lemma dmem_in : forall k (d : list (K * V)), dmem eqb k d = true <-> In k (map fst d).
  Proof.
    intros k d. unfold dmem. destruct (dget eqb k d) eqn:E.
    - split; [|auto]. intros _. apply dget_some_in in E. change k with (fst (k, v)). apply in_map. exact E.
    - split; [discriminate|]. intro H. apply dget_none_notin in E. contradiction.
  Qed.

  Lemma dset_keys : forall k (v : V) d,
    map fst (dset eqb k v d) = if dmem eqb k d then map fst d else map fst d ++ [k].
  Proof.
    intros k v d. unfold dmem. induction d as [|e r IH]; simpl; [reflexivity|].
    destruct (eqb k (fst e)) eqn:E; simpl.
    - apply eqb_eq in E. subst. reflexivity.
    - rewrite IH. destruct (dget eqb k r); reflexivity.
  Qed.

  Lemma dset_nodup : forall k (v : V) d, NoDup (map fst d) -> NoDup (map fst (dset eqb k v d)).
  Proof.
    intros k v d H. rewrite dset_keys. destruct (dmem eqb k d) eqn:E; [exact H|].
    apply NoDup_snoc; [exact H|]. intro Hin. apply dmem_in in Hin. congruence.
  Qed.

  Lemma ddel_keys_subset : forall k k' (d : list (K * V)), In k (map fst (ddel eqb k' d)) -> In k (map fst d).
  Proof.
    intros k k' d. unfold ddel. rewrite !in_map_iff. intros [x [H1 H2]]. apply filter_In in H2.
    exists x. tauto.
  Qed.

  Lemma ddel_nodup : forall k (d : list (K * V)), NoDup (map fst d) -> NoDup (map fst (ddel eqb k d)).
  Proof.
    intros k d. induction d as [|e r IH]; simpl; [auto|]. intro H. inversion H; subst.
    destruct (eqb k (fst e)); simpl; [auto|]. constructor; [|auto].
    intro Hin. apply H2. eapply ddel_keys_subset. exact Hin.
  Qed.

  (* appending entries with fresh distinct keys: fold_left dset rebuilds the list *)
  Lemma fold_dset_fresh : forall {A} (key : A -> K) (val : A -> V) (l : list A) (acc : list (K * V)),
    NoDup (map key l) -> (forall x, In x l -> ~ In (key x) (map fst acc)) ->
    fold_left (fun d x => dset eqb (key x) (val x) d) l acc = acc ++ map (fun x => (key x, val x)) l.
  Proof.
    intros A key val l. induction l as [|x r IH]; intros acc Hnd Hfresh; simpl.
    - rewrite app_nil_r. reflexivity.
    - inversion Hnd; subst.
      assert (Hs : dset eqb (key x) (val x) acc = acc ++ [(key x, val x)]).
      { assert (Hn : ~ In (key x) (map fst acc)) by (apply Hfresh; left; reflexivity).
        clear - Hn eqb_eq. induction acc as [|e a IHa]; simpl; [reflexivity|].
        destruct (eqb (key x) (fst e)) eqn:E.
        - apply eqb_eq in E. exfalso. apply Hn. left. auto.
        - f_equal. apply IHa. intro H. apply Hn. right. exact H. }
      rewrite Hs. rewrite IH; [rewrite <- app_assoc; reflexivity|exact H2|].
      intros y Hy. rewrite map_app, in_app_iff. simpl. intros [H|[H|[]]].
      + eapply Hfresh; [right; exact Hy|exact H].
      + apply H1. rewrite H. apply in_map. exact Hy.
  Qed.

  (* any fold of dset yields unique keys *)
  Lemma fold_dset_nodup : forall {A} (key : A -> K) (val : A -> V) (l : list A) (acc : list (K * V)),
    NoDup (map fst acc) -> NoDup (map fst (fold_left (fun d x => dset eqb (key x) (val x) d) l acc)).
  Proof.
    intros A key val l. induction l as [|x r IH]; intros acc H; simpl; [exact H|].
    apply IH. apply dset_nodup. exact H.
  Qed.
End DictFacts.

Lemma tp_eqb_eq : forall a b, tp_eqb a b = true <-> a = b.
Proof.
  intros [a1 a2] [b1 b2]. unfold tp_eqb. simpl. rewrite andb_true_iff, !Z.eqb_eq.
  split; [intros [-> ->]; reflexivity|intro H; inversion H; auto].
Qed.

Lemma addr_eqb_eq : forall a b, addr_eqb a b = true <-> a = b.
Proof. exact tp_eqb_eq. Qed.

Lemma zmem_in : forall x l, zmem x l = true <-> In x l.
Proof.
  intros x l. unfold zmem. rewrite existsb_exists. split.
  - intros [y [H1 H2]]. apply Z.eqb_eq in H2. subst. exact H1.
  - intro H. exists x. split; [exact H|apply Z.eqb_refl].
Qed.

Lemma nodupb_nodup : forall l, nodupb l = true <-> NoDup l.
Proof.
  induction l as [|x r IH]; simpl.
  - split; [constructor|reflexivity].
  - rewrite andb_true_iff, negb_true_iff, IH. split.
    + intros [H1 H2]. constructor; [|exact H2]. intro Hin. apply zmem_in in Hin. congruence.
    + intro H. inversion H; subst. split; [|assumption].
      destruct (zmem x r) eqn:E; [|reflexivity]. apply zmem_in in E. contradiction.
Qed.

(* ---- insertion sort ---- *)
Lemma zinsert_perm : forall x l, Permutation (x :: l) (zinsert x l).
Proof.
  intros x l. induction l as [|y r IH]; simpl; [apply Permutation_refl|].
  destruct (x <=? y); [apply Permutation_refl|].
  eapply Permutation_trans; [apply perm_swap|]. apply perm_skip. exact IH.
Qed.

Lemma zisort_perm : forall l, Permutation l (zisort l).
Proof.
  induction l as [|x r IH]; simpl; [constructor|].
  eapply Permutation_trans; [apply perm_skip; exact IH|apply zinsert_perm].
Qed.

Lemma zisort_in : forall x l, In x (zisort l) <-> In x l.
Proof.
  intros x l. split; intro H.
  - eapply Permutation_in; [apply Permutation_sym, zisort_perm|exact H].
  - eapply Permutation_in; [apply zisort_perm|exact H].
Qed.

Lemma zinsert_sorted : forall x l, Sorted Z.le l -> Sorted Z.le (zinsert x l).
Proof.
  intros x l H. induction H as [|y r Hs IH Hhd]; simpl.
  - constructor; constructor.
  - destruct (x <=? y) eqn:E.
    + apply Z.leb_le in E. constructor; [constructor; assumption|constructor; exact E].
    + apply Z.leb_gt in E. constructor; [exact IH|].
      destruct r as [|z r']; simpl.
      * constructor. lia.
      * destruct (x <=? z) eqn:E2; constructor; [lia|]. inversion Hhd; subst. assumption.
  Qed.

Lemma zisort_sorted : forall l, Sorted Z.le (zisort l).
Proof. induction l as [|x r IH]; simpl; [constructor|apply zinsert_sorted; exact IH]. Qed.
