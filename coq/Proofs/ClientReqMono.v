(* Monotone facts about the client request layer, proved once for any preorder that the primitive updates respect
   (Section Generic), then instantiated. *)
From AV Require Import Base.Util Proofs.UtilFacts Model.Framing Proofs.FramingFacts
  Proofs.BrokerClientTbl Proofs.BrokerClientInv Proofs.BrokerClientC06 Proofs.BrokerClientC10.
From AV Require Model.BrokerClient.
From AV Require Import Model.ClientReq Proofs.ClientReqBase Proofs.ClientReqStep Proofs.ClientReqC11.
From Coq Require Import Lia.

(* ------------------------------------------------------------------ monotone facts, generically.
   Any preorder on client states that every primitive update respects is respected by the whole machinery that runs
   when a broker client makes a step (the callback chains of the Deferreds it fires). *)
Section Generic.
Variable R : cstate -> cstate -> Prop.
Hypothesis R_refl : forall C, R C C.
Hypothesis R_trans : forall A B C, R A B -> R B C -> R A C.
Hypothesis R_frame2 : forall C C', same_core C C' -> c_cfg C' = c_cfg C -> c_clients C' = c_clients C -> R C C'.
Hypothesis R_apply : forall C i e, R C (fst (apply_bc C i e)).
Hypothesis R_reqs_app : forall C i q, q_to q = false -> R C (upd_bc C i (fun b => set_reqs (b_reqs b ++ [q]) b)).
Hypothesis R_creq : forall C i h f,
  (forall q, q_owner (f q) = q_owner q /\ q_timer (f q) = None /\ (q_to q = true -> q_to (f q) = true)) -> R C (upd_creq C i h f).
Hypothesis R_clients : forall C cl x, c_clients C = Some cl -> R C (with_clients C x).
Hypothesis R_newbc : forall C cl node a, c_clients C = Some cl -> assoc node cl = None ->
  R C (with_clients (with_bcs C (c_bcs C ++ [mkBc node (BrokerClient.with_addr BrokerClient.init a) [] None]))
                    (Some (cl ++ [(node, length (c_bcs C))]))).

Lemma R_frame C C' : same_core C C' -> same_rest C C' -> R C C'.
Proof. intros A (B1 & B2 & _). apply R_frame2; assumption. Qed.
Lemma R_phase C p ph : R C (set_phase C p ph).
Proof. apply R_frame2; [score | reflexivity | reflexivity]. Qed.
Lemma R_boot_new C x : R C (with_boots C (c_boots C ++ [x])).
Proof. apply R_frame2; [score | reflexivity | reflexivity]. Qed.

Lemma g_tr_list os C i : R C (fst (tr_list C i os)).
Proof. apply R_frame; [apply tr_list_core | apply tr_list_rest]. Qed.

Lemma g_make_req C i rid expect mint ow : R C (fst (fst (make_req C i rid expect mint ow))).
Proof.
  unfold make_req. destruct (nth_error (c_bcs C) i) as [b|]; [|apply R_refl].
  pose proof (R_apply C i (BrokerClient.EMake rid expect)) as H1.
  destruct (apply_bc C i (BrokerClient.EMake rid expect)) as [C1 mo]. cbn [fst] in H1.
  destruct (raised_dup mo); [exact H1|].
  pose proof (g_tr_list (filter (fun o => negb (is_def o)) mo) C1 i) as H2.
  destruct (tr_list C1 i (filter (fun o => negb (is_def o)) mo)) as [C2 o2]. cbn [fst] in H2.
  unfold new_timer.
  assert (R C2 (with_timers C2 (c_timers C2 ++ [TReq i (length (BrokerClient.t_dlog (BrokerClient.s_t (b_st b))))]))) as H3.
  { apply R_frame; [split; [reflexivity | eexists; reflexivity] | repeat split]. }
  destruct (first_def mo); cbn [fst]; (eapply R_trans; [exact H1|]; eapply R_trans; [exact H2|]; eapply R_trans; [exact H3|]; apply R_reqs_app; reflexivity).
Qed.

Lemma g_get_client C cl n C1 i : c_clients C = Some cl -> get_client C cl n = Some (C1, i) -> R C C1.
Proof.
  intros Hc H. unfold get_client in H. destruct (assoc n cl) eqn:A; [injection H as <- _; apply R_refl|].
  destruct (assoc n (c_brokers C)); [|discriminate]. injection H as <- _. apply R_newbc; assumption.
Qed.

Lemma g_op_fail C p r : R C (fst (op_fail C p r)).
Proof. unfold op_fail. destruct (nth_error (c_ops C) p); [apply R_phase | apply R_refl]. Qed.

Lemma g_boot_next C p hosts : R C (fst (boot_next C p hosts)).
Proof.
  unfold boot_next. destruct (closing C); [apply g_op_fail|]. destruct hosts; [apply g_op_fail|]. cbn [fst].
  eapply R_trans; [apply R_boot_new | apply R_phase].
Qed.

Lemma g_op_known : forall nodes C p rid, R C (fst (op_known C p rid nodes)).
Proof.
  induction nodes as [|n rest IH]; intros C p rid; cbn [op_known]; [apply g_boot_next|].
  destruct (c_clients C) as [cl|] eqn:Ec; [|apply g_op_fail].
  destruct (get_client C cl n) as [[C1 i]|] eqn:G; [|apply g_op_fail].
  pose proof (g_get_client _ _ _ _ _ Ec G) as H1.
  pose proof (g_make_req C1 i rid true (-1) (OfOp p)) as H2.
  destruct (make_req C1 i rid true (-1) (OfOp p)) as [[C2 r] o2]. cbn [fst] in H2.
  assert (R C C2) as H12 by (eapply R_trans; eauto).
  destruct r as [|h|h r]; cbn [fst].
  - pose proof (IH C2 p rid) as X. destruct (op_known C2 p rid rest). cbn [fst] in *. eapply R_trans; eauto.
  - eapply R_trans; [exact H12 | apply R_phase].
  - destruct r; try solve [pose proof (IH C2 p rid) as X; destruct (op_known C2 p rid rest); cbn [fst] in *; eapply R_trans; eauto].
    pose proof (g_op_fail C2 p RCancelled) as X'. destruct (op_fail C2 p RCancelled). cbn [fst] in *. eapply R_trans; eauto.
Qed.

Section GLevel.
Variable succ : cstate -> nat -> list Z -> cstate * list output.
Hypothesis R_succ : forall C p f, R C (fst (succ C p f)).

Lemma g_on_def C i h oc : R C (fst (on_def succ C i h oc)).
Proof.
  unfold on_def. destruct (nth_error (c_bcs C) i) as [b|]; [|apply R_refl].
  destruct (nth_error (b_reqs b) h) as [q|]; [|apply R_refl].
  set (X := match q_timer q with
            | Some t => (upd_creq C i h (fun q0 => mkCreq (q_owner q0) None (q_to q0)), [OCancelTimer t])
            | None => (C, []) end).
  assert (R C (fst X)) as H1 by (unfold X; destruct (q_timer q); cbn [fst]; [apply R_creq; intro; repeat split; auto | apply R_refl]).
  destruct X as [C1 o1]. cbn [fst] in H1.
  destruct (q_owner q) as [d|p]; [exact H1|].
  destruct (nth_error (c_ops C1) p) as [[k al rid ph]|]; [|exact H1].
  destruct ph as [rest i' h'| | | |]; try exact H1.
  destruct (Nat.eqb i i' && Nat.eqb h h'); [|exact H1].
  destruct (if q_to q then RTimedOut else res_of oc);
    try solve [pose proof (g_op_known rest C1 p rid) as Y; destruct (op_known C1 p rid rest); cbn [fst] in *; eapply R_trans; eauto].
  - pose proof (R_succ C1 p frame) as Y. destruct (succ C1 p frame). cbn [fst] in *. eapply R_trans; eauto.
  - pose proof (g_op_fail C1 p RCancelled) as Y. destruct (op_fail C1 p RCancelled). cbn [fst] in *. eapply R_trans; eauto.
Qed.

Lemma g_proc : forall os C i, R C (fst (proc succ C i os)).
Proof.
  induction os as [|o os IH]; intros C i; cbn [proc]; [apply R_refl|].
  assert (R C (fst (match o with BrokerClient.ODef h oc => on_def succ C i h oc | _ => tr_out C i o end))) as H1.
  { destruct o; try (apply R_frame; [apply tr_out_core | apply tr_out_rest]). apply g_on_def. }
  destruct (match o with BrokerClient.ODef h oc => on_def succ C i h oc | _ => tr_out C i o end) as [C1 o1]. cbn [fst] in H1.
  pose proof (IH C1 i) as H2. destruct (proc succ C1 i os). cbn [fst] in *. eapply R_trans; eauto.
Qed.

Lemma g_bc_event C i e : R C (fst (bc_event succ C i e)).
Proof.
  unfold bc_event. pose proof (R_apply C i e) as H1. destruct (apply_bc C i e) as [C1 mo]. cbn [fst] in H1.
  pose proof (g_proc mo C1 i) as H2. destruct (proc succ C1 i mo). cbn [fst] in *. eapply R_trans; eauto.
Qed.
End GLevel.

(* level 0, and what is built on it *)
Lemma g_close_each : forall l C, R C (fst (close_each C l)).
Proof.
  induction l as [|i l IH]; intros C; cbn [close_each]; [apply R_refl|].
  pose proof (g_bc_event succ0 (fun C p f => R_refl C) C i BrokerClient.EClose) as H1.
  destruct (bc_event succ0 C i BrokerClient.EClose) as [C1 o1]. cbn [fst] in H1.
  pose proof (IH C1) as H2. destruct (close_each C1 l). cbn [fst] in *. eapply R_trans; eauto.
Qed.

Lemma g_dl C x : R C (with_dl C x).
Proof. apply R_frame2; [score | reflexivity | reflexivity]. Qed.

Lemma g_dl_refresh C : R C (fst (dl_refresh C)).
Proof.
  apply R_frame; [apply dl_refresh_core|]. unfold dl_refresh. destruct (c_dl C) as [l|]; [|apply same_rest_refl].
  destruct (filter (bc_pending C) l); [|repeat split]. destruct (c_wait _); repeat split.
Qed.

Lemma g_close_brokerclients C l : R C (fst (close_brokerclients C l)).
Proof.
  unfold close_brokerclients. pose proof (g_close_each l C) as H1. destruct (close_each C l) as [C1 o1]. cbn [fst] in H1.
  set (C1' := with_dl C1 _). pose proof (g_dl_refresh C1') as H2. destruct (dl_refresh C1') as [C2 o2]. cbn [fst] in *.
  eapply R_trans; [exact H1|]. eapply R_trans; [apply (g_dl C1)|exact H2].
Qed.

Lemma g_update_each : forall bs C cl, R C (update_each C cl bs).
Proof.
  induction bs as [|[n a] bs IH]; intros C cl; cbn [update_each]; [apply R_refl|].
  destruct (assoc n cl) as [i|]; [|apply IH]. eapply R_trans; [apply (R_apply C i (BrokerClient.EUpdate true a)) | apply IH].
Qed.

Lemma update_each_clients : forall bs C cl, c_clients (update_each C cl bs) = c_clients C.
Proof.
  induction bs as [|[n a] bs IH]; intros C cl; cbn [update_each]; [reflexivity|].
  destruct (assoc n cl) as [i|]; [|apply IH]. rewrite IH.
  pose proof (apply_bc_rest C i (BrokerClient.EUpdate true a)) as (_ & X & _). exact X.
Qed.

Lemma g_update_brokers C brokers remove : R C (fst (update_brokers C brokers remove)).
Proof.
  unfold update_brokers. set (C1 := with_brokers C _).
  assert (R C C1) as H1 by (apply R_frame2; [unfold C1; score | reflexivity | reflexivity]).
  destruct (c_clients C1) as [cl|] eqn:Ec.
  - pose proof (g_update_each (dict_update [] brokers) C1 cl) as H2.
    assert (c_clients (update_each C1 cl (dict_update [] brokers)) = Some cl) as Ec2 by (rewrite update_each_clients; exact Ec).
    destruct remove; [|cbn [fst]; eapply R_trans; eauto].
    destruct (flat_map _ _) as [|i0 idx]; [cbn [fst]; eapply R_trans; eauto|].
    eapply R_trans; [exact H1|]. eapply R_trans; [exact H2|].
    eapply R_trans; [|apply g_close_brokerclients]. apply (R_clients _ cl). exact Ec2.
  - destruct (dict_update [] brokers); [destruct remove|]; exact H1.
Qed.

Lemma g_merge C payload all : R C (fst (merge C payload all)).
Proof.
  unfold merge. destruct (parse_meta payload) as [[brokers topics]|]; [|apply R_refl].
  set (rm := all && _). pose proof (g_update_brokers C brokers rm) as H1.
  destruct (update_brokers C brokers rm) as [C1 o1]. cbn [fst] in *.
  eapply R_trans; [exact H1|]. apply R_frame2; [score | reflexivity | reflexivity].
Qed.

Lemma g_succ1 C p f : R C (fst (succ1 C p f)).
Proof.
  unfold succ1. destruct (nth_error (c_ops C) p) as [o|]; [|apply R_refl].
  destruct (o_kind o =? 1).
  - destruct (closing (set_phase C p PDone)); [apply R_phase|].
    pose proof (g_merge (set_phase C p PDone) (drop 4 f) (o_all o)) as X. destruct (merge (set_phase C p PDone) (drop 4 f) (o_all o)).
    cbn [fst] in *. eapply R_trans; [apply R_phase | exact X].
  - destruct (is_ltp (o_kind o)); [|apply R_phase]. destruct (closing (set_phase C p PDone)); [apply R_phase|].
    pose proof (g_merge (set_phase C p PDone) (drop 4 f) false) as X. destruct (merge (set_phase C p PDone) (drop 4 f) false) as [C2 o2].
    cbn [fst] in X. assert (R C C2) as X2 by (eapply R_trans; [apply R_phase | exact X]).
    destruct (missing (drop 4 f)); [|exact X2]. unfold new_timer. cbn [fst].
    eapply R_trans; [exact X2|]. apply R_frame2; [split; [reflexivity | eexists; reflexivity] | reflexivity | reflexivity].
Qed.

Lemma g_ev_bc C i e : R C (fst (ev_bc C i e)).
Proof. apply (g_bc_event succ1 g_succ1). Qed.

Lemma g_set_boot C a st : R C (set_boot C a st).
Proof. apply R_frame2; [score | reflexivity | reflexivity]. Qed.

Lemma g_cancel_boots : forall n C p, R C (fst (cancel_boots C n p)).
Proof.
  induction n as [|n IH]; intros C p; cbn [cancel_boots]; [apply R_refl|].
  set (X := match nth_error (c_ops C) p with
            | Some (mkOp _ _ _ (PBootConn a rest)) => let (C', o') := boot_next (set_boot C a KDead) p rest in (C', OBootCancel a :: o')
            | Some (mkOp _ _ _ (PBootReq a t rest)) => let (C', o') := boot_next C p rest in (C', OCancelTimer t :: OBootLose a :: o')
            | Some (mkOp _ _ _ (PWait t)) => let (C', o') := op_fail C p RCancelled in (C', OCancelTimer t :: o')
            | _ => (C, []) end).
  assert (R C (fst X)) as H1.
  { unfold X. destruct (nth_error (c_ops C) p) as [[k al rid ph]|]; [|apply R_refl]. destruct ph; try apply R_refl.
    - pose proof (g_boot_next (set_boot C a KDead) p rest) as Y. destruct (boot_next (set_boot C a KDead) p rest). cbn [fst] in *.
      eapply R_trans; [apply g_set_boot | exact Y].
    - pose proof (g_boot_next C p rest) as Y. destruct (boot_next C p rest). cbn [fst] in *. exact Y.
    - pose proof (g_op_fail C p RCancelled) as Y. destruct (op_fail C p RCancelled). cbn [fst] in *. exact Y. }
  destruct X as [C1 o1]. cbn [fst] in H1. pose proof (IH C1 (S p)) as Y. destruct (cancel_boots C1 n (S p)). cbn [fst] in *.
  eapply R_trans; eauto.
Qed.

Theorem g_step C e : R C (fst (step C e)).
Proof.
  destruct e; cbn [step].
  - destruct (c_clients C) as [cl|] eqn:Ec; [|apply R_refl].
    destruct (get_client C cl node) as [[C1 i]|] eqn:G; [|apply R_refl].
    pose proof (g_get_client _ _ _ _ _ Ec G) as H1. unfold next_id.
    set (C2 := with_corr C1 _). assert (R C1 C2) as H2 by (apply R_frame2; [unfold C2; score | reflexivity | reflexivity]).
    pose proof (g_make_req C2 i ((c_corr C1 + 1) mod 2147483648) expect mint (Direct (length (c_direct C2)))) as H3.
    destruct (make_req C2 i _ expect mint _) as [[C3 r] o3]. cbn [fst] in H3.
    assert (R C C3) as H by (eapply R_trans; [exact H1|]; eapply R_trans; eauto).
    destruct r; cbn [fst]; [exact H | |]; (eapply R_trans; [exact H|]; apply R_frame2; [score | reflexivity | reflexivity]).
  - destruct (nth_error (c_direct C) d) as [[i h]|]; [apply g_ev_bc | apply R_refl].
  - unfold next_id. cbn [fst snd]. set (C1 := with_corr C _). set (C2 := with_ops C1 _).
    assert (R C C2) as H by (apply R_frame2; [unfold C2, C1; score | reflexivity | reflexivity]).
    destruct (c_clients C2).
    + pose proof (g_op_known (filter (fun n => match assoc n l with Some i => bc_connected C2 i | None => false end) (shuf (g_mode (c_cfg C2)) (map fst (c_brokers C2)))
                             ++ filter (fun n => negb (match assoc n l with Some i => bc_connected C2 i | None => false end)) (shuf (g_mode (c_cfg C2)) (map fst (c_brokers C2))))
                            C2 (length (c_ops C1)) ((c_corr C + 1) mod 2147483648)) as X.
      eapply R_trans; [exact H | exact X].
    + eapply R_trans; [exact H | apply g_op_fail].
  - apply g_update_brokers.
  - destruct (c_clients C) as [cl|] eqn:Ec; [|apply R_refl].
    pose proof (g_close_brokerclients (with_clients C None) (map snd cl)) as H1.
    destruct (close_brokerclients (with_clients C None) (map snd cl)) as [C1 o1]. cbn [fst] in H1.
    pose proof (g_cancel_boots (length (c_ops C1)) C1 0) as H2.
    destruct (cancel_boots C1 (length (c_ops C1)) 0) as [C2 o2]. cbn [fst] in H2.
    assert (R C C2) as H by (eapply R_trans; [apply (R_clients C cl None Ec)|]; eapply R_trans; eauto).
    destruct (c_dl (with_topics C2 [])); cbn [fst]; (eapply R_trans; [exact H|]; apply R_frame2; [score | reflexivity | reflexivity]).
  - apply R_frame2; [score | reflexivity | reflexivity].
  - apply g_ev_bc.
  - apply g_ev_bc.
  - apply g_ev_bc.
  - apply g_ev_bc.
  - destruct (nth_error (c_timers C) t) as [[i h|i|p a|p]|]; [| | | |apply R_refl].
    + unfold creq_at. destruct (nth_error (c_bcs C) i) as [b|]; [|apply R_refl].
      destruct (nth_error (b_reqs b) h) as [[ow [t'|] to]|]; try apply R_refl.
      destruct (Nat.eqb t t'); [|apply R_refl].
      set (C1 := upd_creq C i h _). assert (R C C1) as H1 by (apply R_creq; intro; repeat split; auto).
      pose proof (g_ev_bc C1 i (BrokerClient.ECancel h)) as H2. destruct (ev_bc C1 i (BrokerClient.ECancel h)) as [C2 o2]. cbn [fst] in H2.
      destruct (g_dot (c_cfg C2)); cbn [fst]; [|eapply R_trans; eauto].
      pose proof (g_ev_bc C2 i BrokerClient.EDisconnect) as H3. destruct (ev_bc C2 i BrokerClient.EDisconnect). cbn [fst] in *.
      eapply R_trans; [exact H1|]. eapply R_trans; eauto.
    + destruct (nth_error (c_bcs C) i) as [b|]; [|apply R_refl].
      destruct (match b_timer b with Some t' => Nat.eqb t t' | None => false end); [|apply R_refl].
      eapply R_trans; [|apply g_ev_bc]. apply R_frame2; [apply upd_bc_core; intros; reflexivity | reflexivity | reflexivity].
    + destruct (phase_of C p); try apply R_refl. destruct (Nat.eqb a a0 && Nat.eqb t t0); [|apply R_refl].
      pose proof (g_boot_next C p rest) as Y. destruct (boot_next C p rest). exact Y.
    + destruct (phase_of C p); try apply R_refl. destruct (Nat.eqb t t0); [|apply R_refl]. unfold next_id. cbn [fst snd].
      set (C1 := with_corr C _). set (C2 := restart_op C1 p _).
      assert (R C C2) as H by (apply R_frame2; [unfold C2, C1; score | reflexivity | reflexivity]).
      destruct (c_clients C2).
      * eapply R_trans; [exact H | apply g_op_known].
      * eapply R_trans; [exact H | apply g_op_fail].
  - destruct (nth_error (c_boots C) a) as [[[p rid] [| |]]|]; try apply R_refl.
    destruct (phase_of C p); try apply R_refl. destruct (Nat.eqb a a0); [|apply R_refl].
    unfold new_timer. cbn [fst]. apply R_frame2; [split; [reflexivity | eexists; reflexivity] | reflexivity | reflexivity].
  - destruct (nth_error (c_boots C) a) as [[[p rid] [| |]]|]; try apply R_refl.
    destruct (phase_of C p); try apply R_refl. destruct (Nat.eqb a a0); [|apply R_refl].
    pose proof (g_boot_next (set_boot C a KDead) p rest) as Y. destruct (boot_next (set_boot C a KDead) p rest). cbn [fst] in *.
    eapply R_trans; [apply g_set_boot | exact Y].
  - destruct (nth_error (c_boots C) a) as [[[p rid'] [|pend|]]|]; try apply R_refl.
    destruct (pend && zlist_eqb (id4 rid) (id4 rid')); [|apply R_refl].
    destruct (phase_of (set_boot C a (KLive false)) p); try apply g_set_boot. destruct (Nat.eqb a a0); [|apply g_set_boot].
    pose proof (g_succ1 (set_boot C a (KLive false)) p (id4 rid ++ payload)) as Y. destruct (succ1 _ p _). cbn [fst] in *.
    eapply R_trans; [apply g_set_boot | exact Y].
  - destruct (nth_error (c_boots C) a) as [[[p rid'] [|pend|]]|]; try apply R_refl.
    destruct pend; [|apply g_set_boot].
    destruct (phase_of (set_boot C a KDead) p); try apply g_set_boot. destruct (Nat.eqb a a0); [|apply g_set_boot].
    pose proof (g_boot_next (set_boot C a KDead) p rest) as Y. destruct (boot_next (set_boot C a KDead) p rest). cbn [fst] in *.
    eapply R_trans; [apply g_set_boot | exact Y].
  - (* EResend *)
    destruct (c_clients C) as [cl|] eqn:Ec; [|apply R_refl].
    destruct (nth_error (c_direct C) d) as [[i h0]|]; [|apply R_refl].
    match goal with |- R C (fst (match make_req C i ?rid expect mint ?ow with _ => _ end)) =>
      pose proof (g_make_req C i rid expect mint ow) as H3; destruct (make_req C i rid expect mint ow) as [[C3 r] o3] end.
    cbn [fst] in H3.
    destruct r; cbn [fst]; [exact H3 | |]; (eapply R_trans; [exact H3|]; apply R_frame2; [score | reflexivity | reflexivity]).
Qed.

Theorem g_run : forall evs C, R C (fst (run C evs)).
Proof.
  induction evs as [|e evs IH]; intros C; cbn [run]; [apply R_refl|].
  pose proof (g_step C e) as H1. destruct (step C e) as [C1 o1]. cbn [fst] in H1.
  pose proof (IH C1) as H2. destruct (run C1 evs). cbn [fst] in *. eapply R_trans; eauto.
Qed.
End Generic.

(* ------------------------------------------------------------------ instance 1: a closed client stays closed *)
Definition Rnone (C C' : cstate) : Prop := c_clients C = None -> c_clients C' = None.

Lemma Rnone_step C e : Rnone C (fst (step C e)).
Proof.
  apply g_step; unfold Rnone.
  - auto.
  - intros A B C0 H1 H2 H. auto.
  - intros C0 C' _ _ E H. congruence.
  - intros C0 i e0 H. pose proof (apply_bc_rest C0 i e0) as (_ & X & _). congruence.
  - intros C0 i q _ H. exact H.
  - intros C0 i h f _ H. exact H.
  - intros C0 cl x E H. congruence.
  - intros C0 cl node a E _ H. congruence.
Qed.

(* ------------------------------------------------------------------ instance 2: broker clients only move forward *)
Definition AllCInv (C : cstate) : Prop := forall i b, nth_error (c_bcs C) i = Some b -> CInv (b_st b).

Definition bc_le (b b' : bcent) : Prop :=
  b_node b' = b_node b
  /\ (closed (b_st b) -> closed (b_st b'))
  /\ (forall h, sfired (b_st b) h -> sfired (b_st b') h)
  /\ (exists x, sdlog (b_st b') = sdlog (b_st b) ++ x)
  /\ (forall h q, nth_error (b_reqs b) h = Some q -> exists q', nth_error (b_reqs b') h = Some q' /\ q_owner q' = q_owner q).

Definition mono (C C' : cstate) : Prop :=
  forall i b, nth_error (c_bcs C) i = Some b -> exists b', nth_error (c_bcs C') i = Some b' /\ bc_le b b'.

Definition Rmono (C C' : cstate) : Prop := AllCInv C -> AllCInv C' /\ mono C C'.

Lemma bc_le_refl b : bc_le b b.
Proof. repeat split; auto. - exists []. rewrite app_nil_r. reflexivity. - intros h q H. exists q. auto. Qed.

Lemma bc_le_trans a b c : bc_le a b -> bc_le b c -> bc_le a c.
Proof.
  intros (A1 & A2 & A3 & [x A4] & A5) (B1 & B2 & B3 & [y B4] & B5). repeat split; auto; try congruence.
  - exists (x ++ y). rewrite B4, A4, app_assoc. reflexivity.
  - intros h q H. destruct (A5 h q H) as (q1 & H1 & E1). destruct (B5 h q1 H1) as (q2 & H2 & E2). exists q2. split; congruence.
Qed.

Lemma mono_cores C C' : cores C' = cores C -> AllCInv C -> AllCInv C' /\ mono C C'.
Proof.
  intros E A. split.
  - intros i b' Hb'. pose proof (cores_nth _ _ _ Hb') as H. rewrite E in H.
    destruct (cores_nth_inv _ _ _ _ _ H) as (b & Hb & _ & Es & _). rewrite <- Es. exact (A i b Hb).
  - intros i b Hb. pose proof (cores_nth _ _ _ Hb) as H. rewrite <- E in H.
    destruct (cores_nth_inv _ _ _ _ _ H) as (b' & Hb' & En & Es & Eq). exists b'. split; [exact Hb'|].
    unfold bc_le. rewrite En, Es, Eq. apply bc_le_refl.
Qed.

Lemma Rmono_refl C : Rmono C C.
Proof. intros A. split; [exact A|]. intros i b Hb. exists b. split; [exact Hb | apply bc_le_refl]. Qed.

Lemma Rmono_trans A B C : Rmono A B -> Rmono B C -> Rmono A C.
Proof.
  intros H1 H2 HA. destruct (H1 HA) as [HB M1]. destruct (H2 HB) as [HC M2]. split; [exact HC|].
  intros i b Hb. destruct (M1 i b Hb) as (b1 & Hb1 & L1). destruct (M2 i b1 Hb1) as (b2 & Hb2 & L2).
  exists b2. split; [exact Hb2 | eapply bc_le_trans; eauto].
Qed.

Lemma Rmono_frame2 C C' : same_core C C' -> c_cfg C' = c_cfg C -> c_clients C' = c_clients C -> Rmono C C'.
Proof. intros [E _] _ _ A. apply mono_cores; [exact E | exact A]. Qed.

Lemma Rmono_apply C0 i e0 : Rmono C0 (fst (apply_bc C0 i e0)).
Proof.
  intros A. unfold apply_bc. destruct (nth_error (c_bcs C0) i) as [b|] eqn:Eb.
  2:{ cbn [fst]. split; [exact A|]. intros j b Hb. exists b. split; [exact Hb | apply bc_le_refl]. }
  destruct (BrokerClient.step (b_st b) e0) as [s' mo] eqn:Es. cbn [fst].
  pose proof (A i b Eb) as I. destruct (fired_after_step _ _ _ _ I Es) as (I' & X & F).
  split.
  + intros j b' Hb'. cbn [upd_bc with_bcs c_bcs] in Hb'. apply nth_upd_inv in Hb'.
    destruct Hb' as [[<- (x & Hx & ->)]|[N Hb']]; [exact I' | exact (A j b' Hb')].
  + intros j b0 Hb0. cbn [upd_bc with_bcs c_bcs]. destruct (Nat.eq_dec i j) as [<-|N].
    * rewrite (nth_upd_same _ _ _ _ Eb). rewrite Eb in Hb0. injection Hb0 as <-. eexists. split; [reflexivity|].
      unfold bc_le. cbn [set_st b_st b_node b_reqs]. split; [reflexivity|]. split; [|split; [|split; [exact X|]]].
      -- intro Cl. exact (proj1 (closed_step _ _ _ _ I Cl Es)).
      -- intros h Hh. unfold sfired. rewrite F. apply in_or_app. right. exact Hh.
      -- intros h q Hq. exists q. auto.
    * rewrite nth_upd_other by exact N. exists b0. split; [exact Hb0 | apply bc_le_refl].
Qed.

Lemma Rmono_reqs_app C0 i q : q_to q = false -> Rmono C0 (upd_bc C0 i (fun b => set_reqs (b_reqs b ++ [q]) b)).
Proof.
  intros _ A. split.
  + intros j b' Hb'. cbn [upd_bc with_bcs c_bcs] in Hb'. apply nth_upd_inv in Hb'.
    destruct Hb' as [[<- (x & Hx & ->)]|[N Hb']]; [exact (A _ _ Hx) | exact (A j b' Hb')].
  + intros j b0 Hb0. cbn [upd_bc with_bcs c_bcs]. destruct (Nat.eq_dec i j) as [<-|N].
    * rewrite (nth_upd_same _ _ _ _ Hb0). eexists. split; [reflexivity|]. unfold bc_le. cbn [set_reqs b_st b_node b_reqs].
      split; [reflexivity|]. split; [auto|]. split; [auto|]. split; [exists []; rewrite app_nil_r; reflexivity|].
      intros h q0 Hq. exists q0. split; [apply nth_error_app_l; exact Hq | reflexivity].
    * rewrite nth_upd_other by exact N. exists b0. split; [exact Hb0 | apply bc_le_refl].
Qed.

Lemma Rmono_creq C0 i h f :
  (forall q, q_owner (f q) = q_owner q /\ q_timer (f q) = None /\ (q_to q = true -> q_to (f q) = true)) -> Rmono C0 (upd_creq C0 i h f).
Proof.
  intros Fo A. unfold upd_creq. split.
  + intros j b' Hb'. cbn [upd_bc with_bcs c_bcs] in Hb'. apply nth_upd_inv in Hb'.
    destruct Hb' as [[<- (x & Hx & ->)]|[N Hb']]; [exact (A _ _ Hx) | exact (A j b' Hb')].
  + intros j b0 Hb0. cbn [upd_bc with_bcs c_bcs]. destruct (Nat.eq_dec i j) as [<-|N].
    * rewrite (nth_upd_same _ _ _ _ Hb0). eexists. split; [reflexivity|]. unfold bc_le. cbn [set_reqs b_st b_node b_reqs].
      split; [reflexivity|]. split; [auto|]. split; [auto|]. split; [exists []; rewrite app_nil_r; reflexivity|].
      intros h0 q0 Hq. destruct (Nat.eq_dec h h0) as [<-|Nh].
      -- exists (f q0). split; [apply nth_upd_same; exact Hq | apply (proj1 (Fo q0))].
      -- exists q0. split; [rewrite nth_upd_other by exact Nh; exact Hq | reflexivity].
    * rewrite nth_upd_other by exact N. exists b0. split; [exact Hb0 | apply bc_le_refl].
Qed.

Lemma Rmono_clients C0 (cl : list (Z * nat)) x : c_clients C0 = Some cl -> Rmono C0 (with_clients C0 x).
Proof. intros _ A. apply mono_cores; [reflexivity | exact A]. Qed.

Lemma Rmono_newbc C0 (cl : list (Z * nat)) node a : c_clients C0 = Some cl -> assoc node cl = None ->
  Rmono C0 (with_clients (with_bcs C0 (c_bcs C0 ++ [mkBc node (BrokerClient.with_addr BrokerClient.init a) [] None]))
                         (Some (cl ++ [(node, length (c_bcs C0))]))).
Proof.
  intros _ _ A. split.
  + intros j b' Hb'. cbn [with_clients with_bcs c_bcs] in Hb'. apply nth_error_snoc_inv in Hb'.
    destruct Hb' as [Hb'|[_ ->]]; [exact (A j b' Hb') | cbn [b_st]; apply cinv_with_addr, CInv_init].
  + intros j b0 Hb0. cbn [with_clients with_bcs c_bcs]. exists b0. split; [apply nth_error_app_l; exact Hb0 | apply bc_le_refl].
Qed.

Ltac rmono_prims :=
  first [exact Rmono_refl | exact Rmono_trans | exact Rmono_frame2 | exact Rmono_apply | exact Rmono_reqs_app
        | exact Rmono_creq | exact Rmono_clients | exact Rmono_newbc].
Ltac by_mono L := apply (L Rmono); try rmono_prims.

Lemma Rmono_step C e : Rmono C (fst (step C e)). Proof. by_mono g_step. Qed.
Lemma Rmono_run evs C : Rmono C (fst (run C evs)). Proof. by_mono g_run. Qed.
Lemma Rmono_make_req C i rid ex mint ow : Rmono C (fst (fst (make_req C i rid ex mint ow))). Proof. by_mono g_make_req. Qed.
Lemma Rmono_get_client C cl n C1 i : c_clients C = Some cl -> get_client C cl n = Some (C1, i) -> Rmono C C1.
Proof. by_mono g_get_client. Qed.
Lemma Rmono_op_known nodes C p rid : Rmono C (fst (op_known C p rid nodes)). Proof. by_mono g_op_known. Qed.
Lemma Rmono_close_each l C : Rmono C (fst (close_each C l)). Proof. by_mono g_close_each. Qed.
Lemma Rmono_close_brokerclients C l : Rmono C (fst (close_brokerclients C l)). Proof. by_mono g_close_brokerclients. Qed.
Lemma Rmono_update_each bs C cl : Rmono C (update_each C cl bs). Proof. by_mono g_update_each. Qed.
Lemma Rmono_update_brokers C bs rm : Rmono C (fst (update_brokers C bs rm)). Proof. by_mono g_update_brokers. Qed.
Lemma Rmono_succ1 C p f : Rmono C (fst (succ1 C p f)). Proof. by_mono g_succ1. Qed.
Lemma Rmono_ev_bc C i e : Rmono C (fst (ev_bc C i e)). Proof. by_mono g_ev_bc. Qed.
Lemma Rmono_cancel_boots n C p : Rmono C (fst (cancel_boots C n p)). Proof. by_mono g_cancel_boots. Qed.
Lemma Rmono_on_def succ : (forall C p f, Rmono C (fst (succ C p f))) -> forall C i h oc, Rmono C (fst (on_def succ C i h oc)).
Proof. intro Hs. by_mono g_on_def; exact Hs. Qed.
Lemma Rmono_proc succ : (forall C p f, Rmono C (fst (succ C p f))) -> forall os C i, Rmono C (fst (proc succ C i os)).
Proof. intro Hs. by_mono g_proc; exact Hs. Qed.
Lemma Rmono_bc_event succ : (forall C p f, Rmono C (fst (succ C p f))) -> forall C i e, Rmono C (fst (bc_event succ C i e)).
Proof. intro Hs. by_mono g_bc_event; exact Hs. Qed.

Lemma AllCInv_init g : AllCInv (init g).
Proof. intros i b H. destruct i; discriminate. Qed.
