(* C04, part 1: the spec parser's primitive types read back what afkak's primitive writers (Model.Prim) wrote.
   Bridge: KafkaSpecReq.sp_int / sp_uint agree with Prim.unpack on every input, so PrimFacts.unpack_pack applies. *)
From AV Require Import Base.Util Model.Prim Model.Partitioner Model.KafkaSpecReq Model.Requests Proofs.PrimFacts.
From Coq Require Import Lia.

Lemma be_value_acc l acc : be_value l acc = acc * 256 ^ Z.of_nat (length l) + dec_be_unsigned l.
Proof.
  revert acc. induction l as [|b r IH]; intros acc.
  - cbn. lia.
  - cbn [be_value dec_be_unsigned length]. rewrite IH, pow256_S. lia.
Qed.

Lemma be_value_0 l : be_value l 0 = dec_be_unsigned l.
Proof. rewrite be_value_acc. lia. Qed.

Lemma take_length_le {A} n (l : list A) : (n <= length l)%nat -> length (take n l) = n.
Proof.
  revert l. induction n as [|n IH]; intros l H; cbn; auto.
  destruct l as [|x l]; cbn in *; [lia|]. rewrite IH; auto. lia.
Qed.

Lemma sp_uint_unpack f d v r :
  fmt_signed f = false -> unpack f d = Ok (v, r) -> sp_uint (fmt_size f) d = Some (v, r).
Proof.
  intros S. unfold unpack, sp_uint, pbind, sp_split, pret.
  destruct (Nat.ltb (length d) (fmt_size f)); [discriminate|].
  rewrite S. intros E; injection E as <- <-. now rewrite be_value_0.
Qed.

Lemma sp_int_unpack f d v r :
  fmt_signed f = true -> unpack f d = Ok (v, r) -> sp_int (fmt_size f) d = Some (v, r).
Proof.
  intros S. unfold unpack, sp_int, sp_uint, pbind, sp_split, pret.
  destruct (Nat.ltb (length d) (fmt_size f)) eqn:L; [discriminate|].
  apply Nat.ltb_ge in L.
  rewrite S. intros E; injection E as <- <-. rewrite be_value_0.
  unfold dec_be_signed. rewrite (take_length_le _ _ L).
  set (u := dec_be_unsigned (take (fmt_size f) d)).
  destruct pow_sizes as (P1 & P2 & P4 & P8).
  destruct f; try discriminate S; cbn [fmt_size] in *.
  - rewrite P1. change (2 ^ (8 * Z.of_nat 1 - 1)) with 128. change (2 ^ (8 * Z.of_nat 1)) with 256.
    destruct (u <? 128) eqn:A, (2 * u <? 256) eqn:B; try reflexivity; lia.
  - rewrite P2. change (2 ^ (8 * Z.of_nat 2 - 1)) with 32768. change (2 ^ (8 * Z.of_nat 2)) with 65536.
    destruct (u <? 32768) eqn:A, (2 * u <? 65536) eqn:B; try reflexivity; lia.
  - rewrite P4. change (2 ^ (8 * Z.of_nat 4 - 1)) with 2147483648. change (2 ^ (8 * Z.of_nat 4)) with 4294967296.
    destruct (u <? 2147483648) eqn:A, (2 * u <? 4294967296) eqn:B; try reflexivity; lia.
  - rewrite P8. change (2 ^ (8 * Z.of_nat 8 - 1)) with 9223372036854775808.
    change (2 ^ (8 * Z.of_nat 8)) with 18446744073709551616.
    destruct (u <? 9223372036854775808) eqn:A, (2 * u <? 18446744073709551616) eqn:B; try reflexivity; lia.
Qed.

(* ---- the integer types ---- *)
Lemma INT16_pack v w rest : pack Fh v = Ok w -> INT16 (w ++ rest) = Some (v, rest).
Proof. intros H. apply (sp_int_unpack Fh); [reflexivity|]. now apply unpack_pack. Qed.
Lemma INT32_pack v w rest : pack Fi v = Ok w -> INT32 (w ++ rest) = Some (v, rest).
Proof. intros H. apply (sp_int_unpack Fi); [reflexivity|]. now apply unpack_pack. Qed.
Lemma INT64_pack v w rest : pack Fq v = Ok w -> INT64 (w ++ rest) = Some (v, rest).
Proof. intros H. apply (sp_int_unpack Fq); [reflexivity|]. now apply unpack_pack. Qed.
Lemma UINT8_pack v w rest : pack FB v = Ok w -> UINT8 (w ++ rest) = Some (v, rest).
Proof. intros H. apply (sp_uint_unpack FB); [reflexivity|]. now apply unpack_pack. Qed.
Lemma UINT32_pack v w rest : pack FI v = Ok w -> UINT32 (w ++ rest) = Some (v, rest).
Proof. intros H. apply (sp_uint_unpack FI); [reflexivity|]. now apply unpack_pack. Qed.

(* ---- sized byte runs ---- *)
Lemma sp_sized_app b rest : sp_sized (len b) (b ++ rest) = Some (b, rest).
Proof.
  unfold sp_sized, len. pose proof (Zle_0_nat (length b)).
  destruct (Z.of_nat (length b) <? 0) eqn:A; [apply Z.ltb_lt in A; lia|].
  destruct (Z.of_nat (length (b ++ rest)) <? Z.of_nat (length b)) eqn:B.
  { apply Z.ltb_lt in B. rewrite app_length in B. lia. }
  cbn [orb]. unfold sp_split. rewrite Nat2Z.id.
  replace (Nat.ltb (length (b ++ rest)) (length b)) with false
    by (symmetry; apply Nat.ltb_ge; rewrite app_length; lia).
  now rewrite take_app_exact, drop_app_exact.
Qed.

(* ---- strings and byte strings: writer -> spec type ---- *)
Lemma write_i32_len_not_m1 b : len b =? -1 = false.
Proof. pose proof (len_nonneg b). apply Z.eqb_neq. lia. Qed.

Lemma NULLABLE_BYTES_write s w rest : write_int_string s = Ok w -> NULLABLE_BYTES (w ++ rest) = Some (s, rest).
Proof.
  destruct s as [b|]; cbn [write_int_string].
  - destruct (write_i32 (len b)) as [h|] eqn:E; cbn [bind]; [|discriminate].
    intros X; injection X as <-. unfold NULLABLE_BYTES, pbind. rewrite <- app_assoc.
    rewrite (INT32_pack _ _ _ E), write_i32_len_not_m1, sp_sized_app. reflexivity.
  - intros E. unfold NULLABLE_BYTES, pbind. rewrite (INT32_pack _ _ _ E). reflexivity.
Qed.

Lemma BYTES_write b w rest : write_int_string (Some b) = Ok w -> BYTES (w ++ rest) = Some (b, rest).
Proof.
  cbn [write_int_string]. destruct (write_i32 (len b)) as [h|] eqn:E; cbn [bind]; [|discriminate].
  intros X; injection X as <-. unfold BYTES, pbind. rewrite <- app_assoc.
  rewrite (INT32_pack _ _ _ E), sp_sized_app. reflexivity.
Qed.

Lemma NULLABLE_STRING_write s w rest : write_short_bytes s = Ok w -> NULLABLE_STRING (w ++ rest) = Some (s, rest).
Proof.
  destruct s as [b|]; cbn [write_short_bytes].
  - destruct (32767 <? len b); [discriminate|].
    destruct (write_i16 (len b)) as [h|] eqn:E; cbn [bind]; [|discriminate].
    intros X; injection X as <-. unfold NULLABLE_STRING, pbind. rewrite <- app_assoc.
    rewrite (INT16_pack _ _ _ E), write_i32_len_not_m1, sp_sized_app. reflexivity.
  - intros X; injection X as <-. unfold NULLABLE_STRING, pbind.
    rewrite (INT16_pack (-1) [255; 255] rest eq_refl). reflexivity.
Qed.

Lemma STRING_write b w rest : write_short_bytes (Some b) = Ok w -> STRING (w ++ rest) = Some (b, rest).
Proof.
  cbn [write_short_bytes]. destruct (32767 <? len b); [discriminate|].
  destruct (write_i16 (len b)) as [h|] eqn:E; cbn [bind]; [|discriminate].
  intros X; injection X as <-. unfold STRING, pbind. rewrite <- app_assoc.
  rewrite (INT16_pack _ _ _ E), sp_sized_app. reflexivity.
Qed.

(* text: what reaches the wire is the ASCII / UTF-8 encoding of the code points *)
Definition ascii_bytes (t : text) : option (list Z) :=
  match t with Some cps => if ascii_cps cps then Some cps else None | None => None end.
Definition utf8_bytes (t : text) : option (list Z) :=
  match t with Some cps => utf8 cps | None => None end.


Lemma STRING_ascii t w rest :
  write_short_ascii t = Ok w -> t <> None ->
  exists b, ascii_bytes t = Some b /\ STRING (w ++ rest) = Some (b, rest).
Proof.
  destruct t as [cps|]; [|congruence]. cbn [write_short_ascii ascii_bytes].
  destruct (ascii_cps cps); [|discriminate]. intros H _. exists cps. split; [reflexivity|].
  now apply STRING_write.
Qed.

Lemma STRING_text t w rest :
  write_short_text t = Ok w -> t <> None ->
  exists b, utf8_bytes t = Some b /\ STRING (w ++ rest) = Some (b, rest).
Proof.
  destruct t as [cps|]; [|congruence]. cbn [write_short_text utf8_bytes].
  destruct (utf8 cps) as [b|]; [|discriminate]. intros H _. exists b. split; [reflexivity|].
  now apply STRING_write.
Qed.

(* every writer emits at least one byte (used for the array bound "count <= bytes that remain") *)
Lemma pack_nonempty f v w : pack f v = Ok w -> w <> [].
Proof.
  unfold pack. destruct (fmt_in f v); [|discriminate]. intros E; injection E as <-.
  intros C. apply (f_equal (@length Z)) in C. rewrite enc_be_length in C. destruct f; discriminate C.
Qed.

Lemma app_nonempty_l {A} (a b : list A) : a <> [] -> a ++ b <> [].
Proof. destruct a; [congruence|discriminate]. Qed.

Lemma write_short_bytes_nonempty s w : write_short_bytes s = Ok w -> w <> [].
Proof.
  destruct s as [b|]; cbn [write_short_bytes].
  - destruct (32767 <? len b); [discriminate|].
    destruct (write_i16 (len b)) as [h|] eqn:E; cbn [bind]; [|discriminate].
    intros X; injection X as <-. apply app_nonempty_l. eapply pack_nonempty; eauto.
  - intros X; injection X as <-. discriminate.
Qed.
Lemma write_short_ascii_nonempty s w : write_short_ascii s = Ok w -> w <> [].
Proof.
  destruct s as [b|]; cbn [write_short_ascii].
  - destruct (ascii_cps b); [|discriminate]. apply write_short_bytes_nonempty.
  - intros X; injection X as <-. discriminate.
Qed.
Lemma write_short_text_nonempty s w : write_short_text s = Ok w -> w <> [].
Proof.
  destruct s as [b|]; cbn [write_short_text].
  - destruct (utf8 b); [|discriminate]. apply write_short_bytes_nonempty.
  - intros X; injection X as <-. discriminate.
Qed.

(* ---- arrays ---- *)
Lemma enc_all_length_le {A} (enc : A -> res (list Z)) xs w :
  (forall a wa, In a xs -> enc a = Ok wa -> wa <> []) ->
  enc_all enc xs = Ok w -> (length xs <= length w)%nat.
Proof.
  revert w. induction xs as [|x r IH]; intros w NE H; cbn [enc_all length] in *; [lia|].
  destruct (enc x) as [a|] eqn:Ea; cbn [bind] in H; [|discriminate].
  destruct (enc_all enc r) as [b|] eqn:Eb; cbn [bind] in H; [|discriminate].
  injection H as <-. rewrite app_length.
  assert (a <> []) by (eapply NE; [left; reflexivity|exact Ea]).
  assert (length r <= length b)%nat.
  { apply IH; [|reflexivity]. intros a0 wa I E. eapply NE; [right; exact I|exact E]. }
  destruct a; [congruence|cbn [length]; lia].
Qed.

Lemma sp_repeat_enc_all {A B} (enc : A -> res (list Z)) (p : P B) (f : A -> B) xs w rest :
  (forall a wa r, In a xs -> enc a = Ok wa -> p (wa ++ r) = Some (f a, r)) ->
  enc_all enc xs = Ok w ->
  sp_repeat p (length xs) (w ++ rest) = Some (map f xs, rest).
Proof.
  revert w. induction xs as [|x r IH]; intros w HP H; cbn [enc_all length sp_repeat map] in *.
  - injection H as <-. reflexivity.
  - destruct (enc x) as [a|] eqn:Ea; cbn [bind] in H; [|discriminate].
    destruct (enc_all enc r) as [b|] eqn:Eb; cbn [bind] in H; [|discriminate].
    injection H as <-. unfold pbind. rewrite <- app_assoc.
    rewrite (HP x a (b ++ rest) (or_introl eq_refl) Ea).
    rewrite (IH b); [reflexivity| |reflexivity].
    intros a0 wa r0 I E. apply HP; [right; exact I|exact E].
Qed.

(* the count written by afkak ([llen xs], packed as int32) followed by the elements parses as ARRAY *)
Lemma ARRAY_enc_all {A B} (enc : A -> res (list Z)) (p : P B) (f : A -> B) xs c w rest :
  (forall a wa r, In a xs -> enc a = Ok wa -> p (wa ++ r) = Some (f a, r) /\ wa <> []) ->
  pack Fi (llen xs) = Ok c ->
  enc_all enc xs = Ok w ->
  ARRAY p (c ++ w ++ rest) = Some (map f xs, rest).
Proof.
  intros HP Hc Hw. unfold ARRAY. rewrite (INT32_pack _ _ _ Hc). unfold llen.
  pose proof (Zle_0_nat (length xs)).
  destruct (Z.of_nat (length xs) <? 0) eqn:C1; [apply Z.ltb_lt in C1; lia|].
  assert (L : (length xs <= length w)%nat).
  { eapply enc_all_length_le; [|exact Hw]. intros a wa I E. exact (proj2 (HP a wa [] I E)). }
  destruct (Z.of_nat (length (w ++ rest)) <? Z.of_nat (length xs)) eqn:C2.
  { apply Z.ltb_lt in C2. rewrite app_length in C2. lia. }
  cbn [orb]. rewrite Nat2Z.id. eapply sp_repeat_enc_all; [|exact Hw].
  intros a wa r I E. exact (proj1 (HP a wa r I E)).
Qed.
