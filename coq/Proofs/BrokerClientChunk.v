(* M6 composed with M7: what a connected broker client does with received bytes depends only on the byte stream, not on
   how the transport cut it (C06 "frames split or coalesced arbitrarily"), and it is the fold of a one-frame
   specification over a partial map  id |-> (handle, tombstone?)  (C06 no-crosstalk as a refinement). *)
From AV Require Import Base.Util Proofs.UtilFacts Model.Framing Model.BrokerClient
  Proofs.FramingFacts Proofs.BrokerClientTbl Proofs.BrokerClientInv Proofs.BrokerClientC06.
From Coq Require Import Lia.

Lemma deliver_app : forall a b t, deliver t (a ++ b) =
  (fst (deliver (fst (deliver t a)) b), snd (deliver t a) ++ snd (deliver (fst (deliver t a)) b)).
Proof.
  induction a as [|f a IH]; intros b t; cbn [app deliver].
  - cbn [fst snd app]. destruct (deliver t b); reflexivity.
  - destruct (handle_response t f) as [t1 o1]. rewrite IH.
    destruct (deliver t1 a) as [t2 o2]. cbn [fst snd]. destruct (deliver t2 b) as [t3 o3]. cbn [fst snd].
    rewrite app_assoc. reflexivity.
Qed.

(* the state and outputs after handleResponse was called with the frames [fs], the receive buffer left as [r] *)
Definition after_frames (s : state) (fs : list (list Z)) (r : list Z) : state * list output :=
  (with_rxbuf (with_t s (fst (deliver (s_t s) fs))) r, snd (deliver (s_t s) fs)).

Lemma data_in_more s c fs r : parse ok4 (s_rxbuf s ++ c) = (fs, RxMore r) -> data_in s c = after_frames s fs r.
Proof.
  intros H. unfold data_in, after_frames. rewrite data_received_parse, H.
  destruct (deliver (s_t s) fs). reflexivity.
Qed.

Lemma with_same s : with_rxbuf (with_t s (s_t s)) (s_rxbuf s) = s.
Proof. destruct s; reflexivity. Qed.

Lemma after_frames_after s fs1 r1 fs2 r2 :
  let s1 := fst (after_frames s fs1 r1) in
  (fst (after_frames s1 fs2 r2), snd (after_frames s fs1 r1) ++ snd (after_frames s1 fs2 r2))
  = after_frames s (fs1 ++ fs2) r2.
Proof.
  unfold after_frames. cbn [fst snd]. rewrite deliver_app. cbn [fst snd].
  destruct s; reflexivity.
Qed.

(* C06_client_chunking: any chunking of the same bytes (that do not abort the receiver) *)
Theorem client_chunking : forall chunks s fs r, s_proto s = true -> irreducible ok4 (s_rxbuf s) ->
  parse ok4 (s_rxbuf s ++ concat chunks) = (fs, RxMore r) ->
  run s (map EData chunks) = after_frames s fs r.
Proof.
  induction chunks as [|c cs IH]; intros s fs r P Hb H.
  - cbn [concat] in H. rewrite app_nil_r in H. unfold irreducible in Hb. rewrite Hb in H. injection H as <- <-.
    cbn [map run]. unfold after_frames. cbn [deliver fst snd]. rewrite with_same. reflexivity.
  - cbn [concat map run] in *. cbn [step]. rewrite P. rewrite app_assoc in H.
    destruct (parse ok4 (s_rxbuf s ++ c)) as [fs1 e1] eqn:E1.
    destruct e1 as [r1| | |].
    + destruct (parse_app_more ok4 _ (concat cs) _ _ E1) as [P1 P2]. rewrite P1 in H.
      destruct (parse ok4 (r1 ++ concat cs)) as [fs2 e2] eqn:E2. injection H as <- ->.
      rewrite (data_in_more s c fs1 r1 E1).
      pose proof (after_frames_after s fs1 r1 fs2 r) as A. cbv zeta in A.
      destruct (after_frames s fs1 r1) as [s1 o1] eqn:EA. cbn [fst snd] in A.
      assert (P1' : s_proto s1 = true).
      { unfold after_frames in EA. injection EA as <- _. destruct s; exact P. }
      assert (B1 : s_rxbuf s1 = r1).
      { unfold after_frames in EA. injection EA as <- _. destruct s; reflexivity. }
      rewrite (IH s1 fs2 r P1'); [| unfold irreducible; rewrite B1; exact P2 | rewrite B1; exact E2].
      destruct (after_frames s1 fs2 r) as [s2 o2]. cbn [fst snd] in A. exact A.
    + rewrite (parse_app_limit ok4 _ (concat cs) _ _ E1) in H. discriminate.
    + rewrite (parse_app_raised ok4 _ (concat cs) _ E1) in H. discriminate.
    + exfalso. exact (parse_no_fuel ok4 _ _ E1).
Qed.

(* two chunkings of the same bytes: same final state, same outputs in the same order *)
Corollary client_chunking_two s chunks1 chunks2 fs r : s_proto s = true -> irreducible ok4 (s_rxbuf s) ->
  concat chunks1 = concat chunks2 -> parse ok4 (s_rxbuf s ++ concat chunks1) = (fs, RxMore r) ->
  run s (map EData chunks1) = run s (map EData chunks2).
Proof.
  intros P Hb E H. rewrite (client_chunking chunks1 s fs r P Hb H).
  rewrite E in H. rewrite (client_chunking chunks2 s fs r P Hb H). reflexivity.
Qed.

(* the receive buffer of a connection that never aborted holds no complete frame *)
Lemma data_in_irreducible s c fs r : parse ok4 (s_rxbuf s ++ c) = (fs, RxMore r) ->
  irreducible ok4 (s_rxbuf (fst (data_in s c))).
Proof.
  intro H. rewrite (data_in_more s c fs r H). unfold after_frames. cbn [fst].
  destruct (parse_app_more ok4 _ [] _ _ H) as [_ P2]. destruct s; exact P2.
Qed.

(* ------------------------------------------------------------------ refinement: the table as a partial map *)
(* abstract state: correlation id |-> (handle of its Deferred, tombstone?) *)
Definition amap := Z -> option (nat * bool).
Definition abs (t : tbl) : amap :=
  fun id => match lookup id (t_reqs t) with Some r => Some (r_h r, r_cancelled r) | None => None end.

(* abstract effect of ONE response frame carrying id [cid]: only the binding of [cid] is looked at, only it is removed;
   a Deferred fires iff the binding exists and is not a tombstone, and it is the one bound to [cid] *)
Definition spec_frame (m : amap) (f : list Z) : amap * list output :=
  match corr_id f with
  | None => (m, [ORaised 4])
  | Some cid => (fun id => if id =? cid then None else m id,
                 match m cid with Some (h, false) => [ODef h (Succ f)] | _ => [] end)
  end.

Fixpoint spec_frames (m : amap) (fs : list (list Z)) : amap * list output :=
  match fs with
  | [] => (m, [])
  | f :: r => (fst (spec_frames (fst (spec_frame m f)) r), snd (spec_frame m f) ++ snd (spec_frames (fst (spec_frame m f)) r))
  end.

Definition amap_eq (a b : amap) : Prop := forall id, a id = b id.

Lemma lookup_del id cid rs : lookup id (del cid rs) = if id =? cid then None else lookup id rs.
Proof.
  unfold lookup, del. induction rs as [|x rs IH]; cbn [filter find].
  - destruct (id =? cid); reflexivity.
  - destruct (r_id x =? cid) eqn:E1; cbn [negb].
    + destruct (id =? cid) eqn:E2; [exact IH|].
      cbn [find]. replace (r_id x =? id) with false; [exact IH|].
      symmetry. apply Z.eqb_neq. apply Z.eqb_eq in E1. apply Z.eqb_neq in E2. congruence.
    + cbn [find]. destruct (r_id x =? id) eqn:E3.
      * replace (id =? cid) with false; [reflexivity|].
        symmetry. apply Z.eqb_neq. apply Z.eqb_eq in E3. apply Z.eqb_neq in E1. congruence.
      * exact IH.
Qed.

Theorem frame_refines t f : TInv t ->
  amap_eq (abs (fst (handle_response t f))) (fst (spec_frame (abs t) f))
  /\ snd (handle_response t f) = snd (spec_frame (abs t) f).
Proof.
  intro T. unfold spec_frame. destruct (corr_id f) as [cid|] eqn:Ec.
  - destruct (handle_response_frame t f cid T Ec) as [X _]. cbn [fst snd].
    assert (Ea : abs t cid = match lookup cid (t_reqs t) with Some r => Some (r_h r, r_cancelled r) | None => None end)
      by reflexivity.
    rewrite Ea. clear Ea.
    destruct (lookup cid (t_reqs t)) as [r|] eqn:L.
    + destruct (r_cancelled r) eqn:C; rewrite X; cbn [fst snd]; (split; [|reflexivity]);
        intro id; unfold abs; cbn [t_reqs]; rewrite lookup_del; destruct (id =? cid); reflexivity.
    + rewrite X. cbn [fst snd]. split; [|reflexivity].
      intro id. destruct (id =? cid) eqn:E; [|reflexivity]. apply Z.eqb_eq in E. subst id. unfold abs. rewrite L. reflexivity.
  - unfold handle_response. rewrite Ec. cbn [fst snd]. split; [intro id; reflexivity | reflexivity].
Qed.

Lemma spec_frame_ext m1 m2 f : amap_eq m1 m2 ->
  amap_eq (fst (spec_frame m1 f)) (fst (spec_frame m2 f)) /\ snd (spec_frame m1 f) = snd (spec_frame m2 f).
Proof.
  intro E. unfold spec_frame. destruct (corr_id f) as [cid|]; cbn [fst snd].
  - split; [intro id; destruct (id =? cid); [reflexivity | apply E] | rewrite (E cid); reflexivity].
  - split; [exact E | reflexivity].
Qed.

Lemma spec_frames_ext : forall fs m1 m2, amap_eq m1 m2 ->
  amap_eq (fst (spec_frames m1 fs)) (fst (spec_frames m2 fs)) /\ snd (spec_frames m1 fs) = snd (spec_frames m2 fs).
Proof.
  induction fs as [|f fs IH]; intros m1 m2 E; cbn [spec_frames fst snd].
  - split; [exact E | reflexivity].
  - destruct (spec_frame_ext m1 m2 f E) as [A B]. destruct (IH _ _ A) as [C D].
    split; [exact C | rewrite B, D; reflexivity].
Qed.

Theorem deliver_refines : forall fs t, TInv t ->
  amap_eq (abs (fst (deliver t fs))) (fst (spec_frames (abs t) fs))
  /\ snd (deliver t fs) = snd (spec_frames (abs t) fs).
Proof.
  induction fs as [|f fs IH]; intros t T; cbn [deliver spec_frames].
  - cbn [fst snd]. split; [intro id; reflexivity | reflexivity].
  - pose proof (handle_response_ok t f _ _ T (surjective_pairing _)) as (T1 & _ & _).
    destruct (frame_refines t f T) as [A B].
    destruct (handle_response t f) as [t1 o1]. cbn [fst snd] in *.
    destruct (IH t1 T1) as [C D]. destruct (deliver t1 fs) as [t2 o2]. cbn [fst snd] in *.
    destruct (spec_frames_ext fs _ _ A) as [E F].
    split.
    + intro id. rewrite (C id). apply E.
    + rewrite B, D, F. reflexivity.
Qed.

(* C06_no_crosstalk_refinement: bytes in ANY chunking = the fold of the one-frame specification over the frames of
   the stream *)
Theorem data_refines s chunks fs r : CInv s -> s_proto s = true -> irreducible ok4 (s_rxbuf s) ->
  parse ok4 (s_rxbuf s ++ concat chunks) = (fs, RxMore r) ->
  amap_eq (abs (s_t (fst (run s (map EData chunks))))) (fst (spec_frames (abs (s_t s)) fs))
  /\ snd (run s (map EData chunks)) = snd (spec_frames (abs (s_t s)) fs)
  /\ s_rxbuf (fst (run s (map EData chunks))) = r.
Proof.
  intros C P Hb H. rewrite (client_chunking chunks s fs r P Hb H). unfold after_frames. cbn [fst snd].
  destruct (deliver_refines fs (s_t s) (ci_t s C)) as [A B].
  split; [|split; [exact B|]]; destruct s; [exact A | reflexivity].
Qed.

(* what the specification says about ids: a frame list in which id [x] does not occur leaves the binding of [x]
   alone and fires nothing bound to it *)
Lemma spec_frames_other : forall fs m x, (forall f, In f fs -> corr_id f <> Some x) ->
  fst (spec_frames m fs) x = m x.
Proof.
  induction fs as [|f fs IH]; intros m x Hf; cbn [spec_frames fst]; [reflexivity|].
  rewrite IH by (intros g Hg; apply Hf; right; exact Hg).
  unfold spec_frame. destruct (corr_id f) as [cid|] eqn:Ec; cbn [fst]; [|reflexivity].
  destruct (x =? cid) eqn:E; [|reflexivity]. apply Z.eqb_eq in E. subst.
  exfalso. apply (Hf f (or_introl eq_refl)). exact Ec.
Qed.

(* ------------------------------------------------------------------ a success comes from a frame received in that very call,
   for a table entry that is live and was written on this connection *)
Lemma deliver_success : forall fs t h fr, TInv t -> In (ODef h (Succ fr)) (snd (deliver t fs)) ->
  In fr fs /\ exists r, In r (t_reqs t) /\ r_h r = h /\ r_cancelled r = false /\ corr_id fr = Some (r_id r).
Proof.
  induction fs as [|f fs IH]; intros t h fr T Hin; cbn [deliver] in Hin; [contradiction|].
  pose proof (handle_response_ok t f _ _ T (surjective_pairing _)) as (T1 & _ & _).
  assert (S : sub_flags t (fst (handle_response t f))) by apply handle_response_sub.
  destruct (corr_id f) as [cid|] eqn:Ec.
  - destruct (handle_response_frame t f cid T Ec) as [X Y].
    destruct (handle_response t f) as [t1 o1] eqn:EH. cbn [fst snd] in *.
    destruct (deliver t1 fs) as [t2 o2] eqn:ED. cbn [snd] in Hin. apply in_app_iff in Hin. destruct Hin as [Hin|Hin].
    + destruct (lookup cid (t_reqs t)) as [r|] eqn:L.
      * pose proof (lookup_some _ _ _ L) as [Hr Ei].
        destruct (r_cancelled r) eqn:Cc; injection X as X1 X2; subst t1 o1; cbn in Hin; [contradiction|].
        destruct Hin as [E|[]]. injection E as <- <-. split; [left; reflexivity|].
        exists r. repeat split; auto. congruence.
      * injection X as X1 X2. subst t1 o1. contradiction.
    + assert (Hin' : In (ODef h (Succ fr)) (snd (deliver t1 fs))) by (rewrite ED; exact Hin).
      destruct (IH t1 h fr T1 Hin') as (A & r & Hr & E1 & E2 & E3). split; [right; exact A|].
      (* entries of t1 are entries of t *)
      destruct (lookup cid (t_reqs t)) as [r0|] eqn:L.
      * destruct (r_cancelled r0); injection X as X1 X2; subst t1 o1; cbn [t_reqs] in Hr; apply in_del in Hr;
          exists r; repeat split; tauto.
      * injection X as X1 X2. subst t1 o1. exists r. repeat split; auto.
  - unfold handle_response in *. rewrite Ec in *. cbn [fst snd] in *.
    destruct (deliver t fs) as [t2 o2] eqn:ED. cbn [snd] in Hin. destruct Hin as [E|Hin]; [discriminate|].
    assert (Hin' : In (ODef h (Succ fr)) (snd (deliver t fs))) by (rewrite ED; exact Hin).
    destruct (IH t h fr T Hin') as (A & B). split; [right; exact A | exact B].
Qed.

Theorem success_from_received_frame s chunk h fr : CInv s ->
  In (ODef h (Succ fr)) (snd (step s (EData chunk))) ->
  s_proto s = true
  /\ In fr (fst (data_received ok4 (s_rxbuf s) chunk))
  /\ exists r, In r (reqs s) /\ r_h r = h /\ r_cancelled r = false /\ r_sent r = true /\ r_expect r = true
               /\ corr_id fr = Some (r_id r).
Proof.
  intros C Hin. cbn [step] in Hin. destruct (s_proto s) eqn:P; [|contradiction].
  split; [reflexivity|]. unfold data_in in Hin.
  destruct (data_received ok4 (s_rxbuf s) chunk) as [fs e]. cbn [fst].
  assert (Hd : In (ODef h (Succ fr)) (snd (deliver (s_t s) fs))).
  { destruct (deliver (s_t s) fs) as [t1 o1]. cbn [snd].
    destruct e; cbn [snd] in Hin; auto; apply in_app_iff in Hin; destruct Hin as [Hin|[Hin|[]]]; auto; discriminate. }
  destruct (deliver_success fs (s_t s) h fr (ci_t s C) Hd) as (A & r & Hr & E1 & E2 & E3).
  split; [exact A|]. exists r. pose proof (ci_sent s C P) as F. rewrite Forall_forall in F.
  destruct (F r Hr) as [F1 F2]. repeat split; auto.
Qed.
