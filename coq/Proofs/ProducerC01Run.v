(* Every event of Model/Producer.v satisfies the step summary; the invariant of runs; the C01 lemmas. *)
From AV Require Import Base.Util Model.Producer Proofs.ProducerBase Proofs.ProducerC01Spec Proofs.ProducerC01Lists
  Proofs.ProducerC01Fires Proofs.ProducerC01Batch Proofs.ProducerC01Step Proofs.ProducerC01Inv.
From Coq Require Import Lia.

Arguments K_BROKER : simpl never.

Lemma phase_wf_mono : forall s s', ph s' = ph s -> incl (outstanding s') (outstanding s) -> phase_wf s -> phase_wf s'.
Proof.
  unfold phase_wf; intros s s' P I W. rewrite P. destruct (ph s); auto; (destruct W; split; auto; eapply clear_mono; eauto).
Qed.

Lemma tsum_stepsum : forall s s2 o2, ph s = Idle -> tsum s s2 o2 -> stepsum s s2 o2.
Proof.
  intros s s2 o2 P [F A I K W PR N S]. constructor; auto.
  - intros x H. apply I in H. unfold live; apply in_or_app; auto.
  - intros x H O. unfold live in H. rewrite P in H; simpl in H. rewrite app_nil_r in H. auto.
  - apply prod_clause_right; auto.
Qed.

Lemma tsum_idle_stop : forall c s s2 o2, ph s = Idle -> stopping s = true ->
  (try_send_batch c s = (s2, o2) \/ check_send_batch c s = (s2, o2)) -> s2 = s /\ o2 = [].
Proof.
  intros c s s2 o2 P ST [H|H]; [rewrite try_busy in H|rewrite check_busy in H]; auto; inv H; auto.
Qed.

Lemma minus_snoc_fresh : forall l n, ~ In n l -> minus (l ++ [n]) [n] = l.
Proof.
  intros l n H. unfold minus. rewrite filter_app.
  assert (E : filter (fun y : Z => negb (zmem y [n])) [n] = []).
  { simpl. unfold zmem; simpl. rewrite Z.eqb_refl; reflexivity. }
  rewrite E, app_nil_r. apply (minus_none l [n]). intros x [<- |[]]; auto.
Qed.

Section Steps.
Variable c : cfg.

(* ------------------------------------------------------------------ user calls *)
Lemma send_bad_ssum : forall s e k f, pre s -> takes_id e = true -> newrec s e = [] ->
  ssum c s e (set_ids s (nsend s + 1) (nload s) (ntimer s)) [OOutcome (nsend s) (OFail k f)].
Proof.
  intros s e k f [W ST PO PL BK] T NR. constructor; simpl; auto.
  - unfold plus, newid; rewrite T. constructor; simpl.
    + intros x [<- |[]]. apply in_or_app; simpl; auto.
    + intros _; repeat constructor; simpl; tauto.
    + symmetry. apply minus_snoc_fresh. intros I. apply PO in I; lia.
  - intros x H. rewrite NR in H. destruct H as [H|[]]. auto.
  - unfold prod_step; simpl. destruct (ph s); auto. left; split; auto. repeat constructor.
  - rewrite T; auto.
  - unfold newid; rewrite T. intros sid [<- |[]] I. apply PO in I; lia.
  - apply all_fail_justified. intros sid oc [I|[]]. inv I; eauto.
Qed.

Lemma send_ok_ssum : forall s t ch cnt b s' o, pre s -> (cnt <? 1) || (b <? 0) = false -> stopping s = false ->
  step c s (ESend t ch cnt b) = (s', o) -> ssum c s (ESend t ch cnt b) s' o.
Proof.
  intros s t ch cnt b s' o [W ST PO PL BK] V NST H. unfold step, core in H. rewrite V, NST in H. cbn [apply_epi] in H.
  set (x := {| s_id := nsend s; s_topic := t; s_choice := ch; s_cnt := cnt; s_bytes := b |}) in *.
  set (s0 := set_ids s (nsend s + 1) (nload s) (ntimer s)) in *.
  set (s1 := set_outstanding (set_queue s0 (queue s0 ++ [x]) (wcnt s0 + cnt) (wbytes s0 + b)) (outstanding s0 ++ [nsend s])) in *.
  destruct (check_send_batch c s1) as [s2 o2] eqn:E. inv H.
  assert (NR : newrec s (ESend t ch cnt b) = [x]) by (simpl; rewrite V, NST; reflexivity).
  assert (W1 : phase_wf s1).
  { unfold phase_wf in *; simpl. destruct (ph s) eqn:P; auto; (destruct W as [W CL]; split; auto;
    intros pl y A NI B O; apply in_app_or in O as [O|[O|[]]]; [eapply CL; eauto|];
    assert (L : In y (live s)) by (unfold live; rewrite P; apply in_or_app; right; apply In_all_sends; eauto);
    apply PL in L; lia). }
  destruct (ph s) eqn:P.
  { (* idle: the batch may be dispatched *)
    assert (P1 : ph s1 = Idle) by exact P.
    pose proof (check_tsum _ _ _ _ (BK : broken s1 = false) P1 E) as [F A I K W2 PR N S].
    constructor; auto.
    + eapply fires_eq_out; [|exact F]. reflexivity.
    + intros y H. apply I in H. simpl in H. rewrite NR. apply in_app_or in H as [H|H]; auto.
      left. unfold live; apply in_or_app; auto.
    + intros y H O. apply K; auto. simpl. rewrite NR in H. apply in_or_app. destruct H as [H|H]; auto.
      unfold live in H. rewrite P in H. simpl in H. rewrite app_nil_r in H. auto.
    + unfold prod_step. apply prod_clause_right; auto.
    + intros ST2. rewrite S in ST2. simpl in ST2.
      destruct (tsum_idle_stop c s1 s' o P1 ST2 (or_intror E)) as [-> _]. exact P.
    + intros sid [<- |[]] _. rewrite NR. exists x; simpl; auto.
    + apply all_fail_justified; auto. }
  all: rewrite check_busy in E by (left; simpl; rewrite P; discriminate); inv E.
  all: constructor; auto;
    [ apply fires_same; reflexivity
    | intros y H; rewrite NR; unfold live in *; simpl in *; rewrite P in *; rewrite <- app_assoc in H;
      apply in_app_or in H as [H|H]; [left; apply in_or_app; auto|];
      apply in_app_or in H as [H|H]; [right; auto|left; apply in_or_app; auto]
    | intros y H _; rewrite NR in H; unfold live in *; simpl in *; rewrite P in *; rewrite <- app_assoc;
      destruct H as [H|H]; [apply in_app_or in H as [H|H]; apply in_or_app; auto; right; apply in_or_app; auto|
                            apply in_or_app; right; apply in_or_app; auto]
    | unfold prod_step; simpl; rewrite P; auto; left; split; auto; constructor
    | simpl; intros ST2; apply ST in ST2; congruence
    | intros sid [<- |[]] _; rewrite NR; exists x; simpl; auto
    | apply all_fail_justified, all_fail_nil ].
Qed.

Lemma cancel_ssum : forall s sid s' o, pre s -> step c s (ECancel sid) = (s', o) -> ssum c s (ECancel sid) s' o.
Proof.
  intros s sid s' o [W ST PO PL BK] H. unfold step, core in H.
  destruct (cancel_send s sid) as [s1 o1] eqn:E. cbn [apply_epi] in H. inv H. rewrite app_nil_r.
  destruct (cancel_send_sum _ _ _ _ E) as (F & AF & NP & P & S & N & QI & QK).
  apply ssum_of_stepsum; auto; [|rewrite S, P; auto|apply all_fail_justified; auto].
  constructor; auto.
  - intros x I. unfold live in *. rewrite P in I. apply in_app_or in I as [I|I]; apply in_or_app; auto.
  - intros x I O. unfold live in *. rewrite P. apply in_app_or in I as [I|I]; apply in_or_app; auto.
  - eapply phase_wf_mono; eauto. eapply fires_sub; eauto.
  - rewrite P. destruct (ph s); auto.
Qed.

Lemma tick_ssum : forall s s' o, pre s -> step c s ETick = (s', o) -> ssum c s ETick s' o.
Proof.
  intros s s' o [W ST PO PL BK] H. unfold step, core in H. destruct (looper s); cbn [apply_epi] in H.
  - destruct (try_send_batch c s) as [s2 o2] eqn:E. inv H. simpl.
    destruct (ph s) eqn:P.
    { pose proof (try_tsum _ _ _ _ BK P E) as T. apply ssum_of_stepsum; auto.
      * apply tsum_stepsum; auto.
      * intros ST2. rewrite (t_stop _ _ _ T) in ST2.
        destruct (tsum_idle_stop c s s' o P ST2 (or_introl E)) as [-> _]. exact P.
      * apply all_fail_justified. apply (t_fail _ _ _ T). }
    all: rewrite try_busy in E by (left; rewrite P; discriminate); inv E.
    all: apply ssum_of_stepsum; auto; try (apply stepsum_refl; auto); try (apply all_fail_justified, all_fail_nil); try (rewrite P; auto).
  - inv H. apply ssum_of_stepsum; auto; [apply stepsum_refl; auto|apply all_fail_justified, all_fail_nil].
Qed.

(* ------------------------------------------------------------------ the client's cache changes *)
Lemma meta_ssum : forall s e s' o, pre s ->
  (exists t err hp, e = EMetaSet t err hp) \/ e = EMetaClearAll -> step c s e = (s', o) -> ssum c s e s' o.
Proof.
  intros s e s' o [W ST PO PL BK] HE H.
  assert (T : takes_id e = false) by (destruct HE as [(t & err & hp & ->)| ->]; reflexivity).
  assert (X : exists cch, s' = set_client s (api s) cch /\ o = []).
  { destruct HE as [(t & err & hp & ->)| ->]; unfold step, core in H; cbn [apply_epi] in H; inv H; eauto. }
  destruct X as (cch & -> & ->).
  apply ssum_of_stepsum; auto; [apply stepsum_same; auto|apply all_fail_justified, all_fail_nil].
Qed.

(* ------------------------------------------------------------------ events of the batch in flight *)
Lemma not_stopping : forall s, pre s -> ph s <> Idle -> stopping s = false.
Proof. intros s PR NI. destruct (stopping s) eqn:E; auto. apply (p_stop _ PR) in E. contradiction. Qed.

Lemma load_ssum : forall s lid ok k s' o, pre s -> step c s (ELoadDone lid ok k) = (s', o) ->
  ssum c s (ELoadDone lid ok k) s' o.
Proof.
  intros s lid ok k s' o PR H. unfold step, core in H. destruct (ph s) as [|reqs ls| | |] eqn:P.
  2:{ destruct (map_lookups _ s reqs ls) as [[s1 o1] ls1] eqn:E1.
      destruct (lookups_progress s1 reqs ls1) as [[s2 o2] done] eqn:E2.
      unfold fin_if in H. destruct (apply_epi c s2 (if done then Fin else NoEpi)) as [s3 o3] eqn:E3. inv H.
      assert (NI : ph s <> Idle) by (rewrite P; discriminate).
      pose proof (not_stopping _ PR NI) as ST.
      apply map_lookups_xl in E1 as (X1 & L1 & N1).
      2:{ intros st x l st' o' l' Hf. destruct l; try discriminate. destruct (lid0 =? lid); [|discriminate].
          inv Hf. destruct ok; [eapply lookup_loaded_xl; eauto|inv H0; xl_done]. }
      destruct (xl_facts _ _ _ X1 L1) as (F1 & K1 & NP1 & AF1 & P1 & O1).
      assert (ST1 : stopping s1 = false) by (destruct K1; congruence).
      pose proof (p_wf _ PR) as W. unfold phase_wf in W. rewrite P in W.
      assert (BK1 : broken s1 = false) by (destruct K1; rewrite (p_ok _ PR) in *; congruence).
      destruct (lookups_progress_sum _ _ _ _ _ _ E2 ST1 BK1) as [BS AF2]; [congruence|].
      eapply (batch_ssum c reqs s _ s2 (o1 ++ o2) done s' o3); eauto.
      - eapply bsum_pre; eauto.
      - rewrite P; reflexivity.
      - apply all_fail_justified; auto with prod. }
  all: cbn [apply_epi] in H; inv H.
  all: apply ssum_of_stepsum; auto; try (apply stepsum_refl; apply PR); try (apply (p_stop _ PR)); try (apply all_fail_justified, all_fail_nil).
Qed.

Lemma timer_ssum : forall s tid s' o, pre s -> step c s (ETimer tid) = (s', o) -> ssum c s (ETimer tid) s' o.
Proof.
  intros s tid s' o PR H. unfold step, core in H. destruct (ph s) as [|reqs ls| | |pls cur tid'] eqn:P.
  2:{ destruct (map_lookups _ s reqs ls) as [[s1 o1] ls1] eqn:E1.
      destruct (lookups_progress s1 reqs ls1) as [[s2 o2] done] eqn:E2.
      unfold fin_if in H. destruct (apply_epi c s2 (if done then Fin else NoEpi)) as [s3 o3] eqn:E3. inv H.
      assert (NI : ph s <> Idle) by (rewrite P; discriminate).
      pose proof (not_stopping _ PR NI) as ST.
      apply map_lookups_xl in E1 as (X1 & L1 & N1).
      2:{ intros st x l st' o' l' Hf. destruct l; try discriminate. destruct (tid0 =? tid); [|discriminate].
          inv Hf. eapply lookup_head_xl; eauto. }
      destruct (xl_facts _ _ _ X1 L1) as (F1 & K1 & NP1 & AF1 & P1 & O1).
      assert (ST1 : stopping s1 = false) by (destruct K1; congruence).
      pose proof (p_wf _ PR) as W. unfold phase_wf in W. rewrite P in W.
      assert (BK1 : broken s1 = false) by (destruct K1; rewrite (p_ok _ PR) in *; congruence).
      destruct (lookups_progress_sum _ _ _ _ _ _ E2 ST1 BK1) as [BS AF2]; [congruence|].
      eapply (batch_ssum c reqs s _ s2 (o1 ++ o2) done s' o3); eauto.
      - eapply bsum_pre; eauto.
      - rewrite P; reflexivity.
      - apply all_fail_justified; auto with prod. }
  4:{ rewrite (p_ok _ PR) in H. destruct (tid' =? tid); cbn [apply_epi] in H; inv H.
      - pose proof (p_wf _ PR) as W. unfold phase_wf in W. rewrite P in W.
        assert (NI : ph s <> Idle) by (rewrite P; discriminate).
        pose proof (not_stopping _ PR NI) as ST.
        apply ssum_of_stepsum; auto; [|simpl; congruence|apply all_fail_justified, all_fail_no_outcome; reflexivity].
        constructor; simpl; auto.
        + apply fires_same; reflexivity.
        + unfold live; simpl. rewrite P. apply incl_refl.
        + unfold live; simpl. rewrite P. auto.
      - apply ssum_of_stepsum; auto; try (apply stepsum_refl; apply PR); try (apply (p_stop _ PR)); try (apply all_fail_justified, all_fail_nil). }
  all: cbn [apply_epi] in H; inv H.
  all: apply ssum_of_stepsum; auto; try (apply stepsum_refl; apply PR); try (apply (p_stop _ PR)); try (apply all_fail_justified, all_fail_nil).
Qed.

Lemma version_ssum : forall s r s' o, pre s -> step c s (EVersion r) = (s', o) -> ssum c s (EVersion r) s' o.
Proof.
  intros s r s' o PR H. unfold step, core in H. destruct (ph s) as [| |reqs res| |] eqn:P.
  3:{ assert (NI : ph s <> Idle) by (rewrite P; discriminate).
      pose proof (not_stopping _ PR NI) as ST.
      pose proof (p_wf _ PR) as W. unfold phase_wf in W. rewrite P in W.
      assert (G : forall a, exists s2 o2 done, send_requests (set_client s a (cache s)) reqs res = (s2, o2, done) /\
                  bsum reqs s s2 o2 done /\ all_fail o2).
      { intros a. destruct (send_requests (set_client s a (cache s)) reqs res) as [[s2 o2] done] eqn:E.
        exists s2, o2, done. split; auto.
        destruct (send_requests_sum _ _ _ _ _ _ E ST (p_ok _ PR) W) as [BS AF]. split; auto.
        change o2 with ([] ++ o2). eapply bsum_pre; [| | |exact BS].
        - constructor; reflexivity.
        - apply fires_same; reflexivity.
        - constructor. }
      destruct (r =? 0); [|destruct (r =? 1)].
      - destruct (G 1) as (s2 & o2 & done & E & BS & AF). rewrite E in H. unfold fin_if in H.
        destruct (apply_epi c s2 (if done then Fin else NoEpi)) as [s3 o3] eqn:E3. inv H.
        eapply batch_ssum; eauto; [rewrite P; reflexivity|apply all_fail_justified; auto].
      - destruct (G 2) as (s2 & o2 & done & E & BS & AF). rewrite E in H. unfold fin_if in H.
        destruct (apply_epi c s2 (if done then Fin else NoEpi)) as [s3 o3] eqn:E3. inv H.
        eapply batch_ssum; eauto; [rewrite P; reflexivity|apply all_fail_justified; auto].
      - destruct (version_failed s reqs r) as [[s2 o2] done] eqn:E. unfold fin_if in H.
        destruct (apply_epi c s2 (if done then Fin else NoEpi)) as [s3 o3] eqn:E3. inv H.
        destruct (version_failed_sum _ _ _ _ _ _ E) as [BS AF].
        eapply batch_ssum; eauto; [rewrite P; reflexivity|apply all_fail_justified; auto]. }
  all: cbn [apply_epi] in H; inv H.
  all: apply ssum_of_stepsum; auto; try (apply stepsum_refl; apply PR); try (apply (p_stop _ PR)); try (apply all_fail_justified, all_fail_nil).
Qed.

Lemma result_ssum : forall s v s' o, pre s -> step c s (EResult v) = (s', o) -> ssum c s (EResult v) s' o.
Proof.
  intros s v s' o PR H. unfold step, core in H. destruct (ph s) as [| | |pls cur|] eqn:P.
  4:{ destruct (result_ok c cur v) eqn:RO.
      - destruct (handle_result c s pls cur v) as [[s2 o2] done] eqn:E. unfold fin_if in H.
        destruct (apply_epi c s2 (if done then Fin else NoEpi)) as [s3 o3] eqn:E3. inv H.
        assert (NI : ph s <> Idle) by (rewrite P; discriminate).
        pose proof (p_wf _ PR) as W. unfold phase_wf in W. rewrite P in W. destruct W as [W CL].
        destruct (handle_result_sum _ _ _ _ _ _ _ _ E RO W CL) as (F & NP & J & D & M).
        pose proof (handle_result_ok _ _ _ _ _ _ _ _ E) as [[K _ _] _].
        eapply (batch_ssum c (all_sends pls)); eauto.
        + constructor; auto.
          * intros T. destruct (M T) as (cur' & tid & PH & CL'). rewrite PH. simpl. splits; auto using incl_refl.
            -- unfold phase_wf; rewrite PH; auto.
            -- unfold prod_clause; rewrite PH; auto.
            -- discriminate.
        + rewrite P; reflexivity.
        + intros sid oc I S. exists pls, cur, v. splits; auto.
      - cbn [apply_epi] in H; inv H.
        apply ssum_of_stepsum; auto; try (apply stepsum_refl; apply PR); try (apply (p_stop _ PR)); try (apply all_fail_justified, all_fail_nil). }
  all: cbn [apply_epi] in H; inv H.
  all: apply ssum_of_stepsum; auto; try (apply stepsum_refl; apply PR); try (apply (p_stop _ PR)); try (apply all_fail_justified, all_fail_nil).
Qed.

(* ------------------------------------------------------------------ stop() *)
Lemma stop_ssum : forall s cv s' o, pre s -> step c s (EStop cv) = (s', o) -> ssum c s (EStop cv) s' o.
Proof.
  intros s cv s' o PR H. unfold step in H.
  set (s0 := set_flags s true (looper s)) in *.
  destruct (cancel_batch c s0 cv) as [[s1 o1] done] eqn:E. unfold fin_if in H.
  destruct (apply_epi c s1 (if done then Fin else NoEpi)) as [s2 o2] eqn:E2.
  destruct (cancel_all (set_flags s2 true false) (outstanding (set_flags s2 true false))) as [s4 o4] eqn:E4. inv H.
  assert (W0 : phase_wf s0) by (eapply phase_wf_mono; [reflexivity|apply incl_refl|apply PR]).
  destruct (cancel_batch_sum _ _ _ _ _ _ E eq_refl W0) as (F1 & K1 & D1 & J1).
  assert (ST1 : stopping s1 = true) by (destruct K1; simpl in *; congruence).
  assert (X2 : ph s2 = Idle /\ outstanding s2 = outstanding s1 /\ queue s2 = queue s /\ nsend s2 = nsend s /\ oids o2 = [] /\ all_fail o2).
  { destruct K1 as [Q1 _ _ _ _ N1]. simpl in *. destruct done; simpl in E2.
    - unfold finish, finish0 in E2. rewrite check_busy in E2 by (right; exact ST1). inv E2. simpl.
      splits; auto. apply all_fail_no_outcome; reflexivity.
    - destruct (D1 eq_refl) as (PI & -> & ->). inv E2. simpl in *. splits; auto. apply all_fail_nil. }
  destruct X2 as (P2 & O2 & Q2 & N2 & OI2 & AF2).
  destruct (cancel_all_sum _ _ _ _ E4) as (F4 & AF4 & NP4 & P4 & S4 & N4 & QI4 & CLR4). simpl in *.
  assert (EMP : outstanding s' = []).
  { assert (NO : forall i, ~ In i (outstanding s')).
    { intros i I. apply (CLR4 i); [apply (fires_sub _ _ _ F4); auto|auto]. }
    destruct (outstanding s') as [|i r]; auto. exfalso; apply (NO i); simpl; auto. }
  constructor.
  - eapply fires_eq_out with (s0 := s0); [unfold plus, newid; simpl; symmetry; apply app_nil_r|].
    eapply fires_trans; [exact F1|]. eapply fires_trans; [apply fires_same; [exact O2|exact OI2]|].
    eapply fires_eq_out; [|exact F4]. reflexivity.
  - intros x I. left. unfold live in *. rewrite P4, P2 in I. simpl in I. rewrite app_nil_r in I.
    apply QI4 in I. simpl in I. rewrite Q2 in I. apply in_or_app; auto.
  - intros x _ O. rewrite EMP in O. destruct O.
  - unfold phase_wf. rewrite P4, P2. auto.
  - unfold prod_step. rewrite P4, P2. auto.
  - rewrite N4; simpl. rewrite N2. lia.
  - intros _. rewrite P4; auto.
  - intros sid [].
  - intros sid oc I S. apply in_app_or in I as [I|I].
    + destruct (J1 _ _ I S) as (pls & cur & v & A & -> & B). exists pls, cur, v. splits; auto.
    + apply in_app_or in I as [I|I]; [apply AF2 in I|apply AF4 in I]; destruct I as (k & f & ->); discriminate.
Qed.

(* ------------------------------------------------------------------ every event *)
Lemma broken_ssum : forall s s' o, pre s -> step c s (EBroken false) = (s', o) -> ssum c s (EBroken false) s' o.
Proof.
  intros s s' o [W ST PO PL BK] H. unfold step, core in H. cbn [apply_epi] in H. inv H.
  apply ssum_of_stepsum; auto; [apply stepsum_same; auto|apply all_fail_justified, all_fail_nil].
Qed.

Theorem step_ssum : forall s e s' o, pre s -> honest_ev e = true -> step c s e = (s', o) -> ssum c s e s' o.
Proof.
  intros s e s' o PR HE H. destruct e.
  - destruct ((cnt <? 1) || (bytes <? 0)) eqn:V.
    + unfold step, core in H. rewrite V in H. cbn [apply_epi] in H. inv H.
      apply send_bad_ssum; auto. simpl. rewrite V; auto.
    + destruct (stopping s) eqn:NST.
      * unfold step, core in H. rewrite V, NST in H. cbn [apply_epi] in H. inv H.
        apply send_bad_ssum; auto. simpl. rewrite V, NST; auto.
      * apply send_ok_ssum; auto.
  - unfold step, core in H. cbn [apply_epi] in H. inv H. apply send_bad_ssum; auto.
  - apply cancel_ssum; auto.
  - apply tick_ssum; auto.
  - apply meta_ssum; eauto 6.
  - apply meta_ssum; auto.
  - apply load_ssum; auto.
  - apply timer_ssum; auto.
  - apply version_ssum; auto.
  - apply result_ssum; auto.
  - discriminate.
  - destruct b; [discriminate|]. apply broken_ssum; auto.
  - apply stop_ssum; auto.
Qed.
End Steps.
