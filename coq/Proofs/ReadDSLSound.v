(* The readers of _util.py as translated from their source (Model.DecAst.ast_util_*, reader language Model.ReadDSL:
   integer cursor, length tests, slices) ARE the suffix-based readers of Model.Prim:
       reader(data, cur)  =  Prim reader on data[cur:]      with new cursor = len data - len (what remains)
   for every buffer and every cursor 0 <= cur <= len data. *)
From Coq Require Import Lia.
From AV Require Import Base.Util Model.Prim Model.DecDSL Model.ReadDSL Model.DecAst.

(* ------------------------------------------------------------------ lists *)
Lemma ldrop_length {A} n (l : list A) : length (drop n l) = (length l - n)%nat.
Proof. revert l. induction n as [|n IH]; intros [|x l]; cbn; auto. Qed.
Lemma ltake_length {A} n (l : list A) : length (take n l) = Nat.min n (length l).
Proof. revert l. induction n as [|n IH]; intros [|x l]; cbn; auto. Qed.
Lemma drop_nil {A} a : drop a (@nil A) = [].
Proof. now destruct a. Qed.
Lemma drop_drop {A} a b (l : list A) : drop a (drop b l) = drop (b + a) l.
Proof.
  revert l. induction b as [|b IH]; intros l; [reflexivity|].
  destruct l as [|x l]; cbn [drop Nat.add]; [apply drop_nil|apply IH].
Qed.
Lemma take_take {A} n (l : list A) : take n (take n l) = take n l.
Proof. revert l. induction n as [|n IH]; intros [|x l]; cbn; auto. now rewrite IH. Qed.
Lemma drop_take_all {A} n (l : list A) : drop n (take n l) = [].
Proof. revert l. induction n as [|n IH]; intros [|x l]; cbn; auto. Qed.
Lemma take_plus {A} a b (l : list A) : take a (take (a + b) l) = take a l.
Proof. revert l. induction a as [|a IH]; intros [|x l]; cbn; auto. now rewrite IH. Qed.
Lemma take_nil {A} a : take a (@nil A) = [].
Proof. now destruct a. Qed.
Lemma drop_take_plus {A} a b (l : list A) : drop a (take (a + b) l) = take b (drop a l).
Proof.
  revert l. induction a as [|a IH]; intros l; [reflexivity|].
  destruct l as [|x l]; cbn [take drop Nat.add]; [now rewrite take_nil|apply IH].
Qed.

Lemma len_drop n (l : list Z) : (n <= length l)%nat -> len (drop n l) = len l - Z.of_nat n.
Proof. intros H. unfold len. rewrite ldrop_length. lia. Qed.

(* one field read from a slice of exactly its size *)
Lemma unpack_exact f (s : list Z) :
  (fmt_size f <= length s)%nat ->
  unpack f (take (fmt_size f) s) = Ok (fst (match unpack f s with Ok vr => vr | Err _ => (0, []) end), []) /\
  exists v, unpack f s = Ok (v, drop (fmt_size f) s).
Proof.
  intros H. unfold unpack. rewrite ltake_length.
  replace (Nat.ltb (Nat.min (fmt_size f) (length s)) (fmt_size f)) with false by (symmetry; apply Nat.ltb_ge; lia).
  replace (Nat.ltb (length s) (fmt_size f)) with false by (symmetry; apply Nat.ltb_ge; lia).
  rewrite take_take, drop_take_all. cbn [fst]. split; [reflexivity|]. eexists. reflexivity.
Qed.

(* ------------------------------------------------------------------ read_short_bytes / read_int_string *)
Definition prog_read_string (f : ifmt) : list rstmt :=
  let K := RConst (Z.of_nat (fmt_size f)) in
  [RIfRaise (RLt RLen (RAdd RCur K)) Underflow; RUnpack1 f RCur (RAdd RCur K) 0;
   RIfReturnNone (REq (RVar 0) (RConst (-1))) (RAdd RCur K); RIfRaise (RLt (RVar 0) (RConst (-1))) Protocol;
   RAdvance K; RIfRaise (RLt RLen (RAdd RCur (RVar 0))) Underflow; RSlice RCur (RAdd RCur (RVar 0)) 1;
   RReturn 1 (RAdd RCur (RVar 0))].

Definition rv_ob (o : option (list Z)) : rval := match o with Some b => RBytes b | None => RNone end.

Lemma read_string_sound f data cur :
  0 <= cur <= len data ->
  rrun (prog_read_string f) [] data cur
  = match read_string f (drop (Z.to_nat cur) data) with
    | Ok (v, rest) => Ok (rv_ob v, len data - len rest)
    | Err e => Err e
    end.
Proof.
  intros Hc. set (c := Z.to_nat cur). set (sfx := drop c data). set (K := fmt_size f).
  assert (Hcl : (c <= length data)%nat) by (unfold c, len in *; lia).
  assert (Ls : len sfx = len data - cur) by (unfold sfx; rewrite len_drop by assumption; unfold c; lia).
  unfold rrun, prog_read_string, read_string. fold K. cbn [rexec rtest reval bind].
  destruct (len data <? cur + Z.of_nat K) eqn:T1.
  - apply Z.ltb_lt in T1. unfold unpack. fold K.
    replace (Nat.ltb (length sfx) K) with true by (symmetry; apply Nat.ltb_lt; unfold len in *; lia). reflexivity.
  - apply Z.ltb_ge in T1.
    assert (HK : (K <= length sfx)%nat) by (unfold len in *; lia).
    destruct (unpack_exact f sfx HK) as [U1 [v U2]]. fold K in U1, U2. rewrite U2 in U1. cbn [fst] in U1.
    unfold py_slice. replace ((cur <? 0) || (cur + Z.of_nat K <? cur)) with false
      by (symmetry; apply orb_false_intro; [apply Z.ltb_ge|apply Z.ltb_ge]; lia).
    replace (Z.to_nat (cur + Z.of_nat K - cur)) with K by lia. fold c. fold sfx.
    cbn [bind unpack_all]. rewrite U1. cbn [bind unpack_all]. rewrite U2. cbn [bind rset rget reval rtest rexec].
    destruct (v =? -1) eqn:E1.
    + rewrite len_drop by assumption. f_equal. f_equal. lia.
    + destruct (v <? -1) eqn:E2; [reflexivity|]. apply Z.eqb_neq in E1. apply Z.ltb_ge in E2.
      rewrite len_drop by assumption.
      replace (len data <? cur + Z.of_nat K + v) with (len sfx - Z.of_nat K <? v)
        by (apply eq_true_iff_eq; rewrite !Z.ltb_lt; lia).
      destruct (len sfx - Z.of_nat K <? v) eqn:T2; [reflexivity|]. apply Z.ltb_ge in T2.
      replace ((cur + Z.of_nat K <? 0) || (cur + Z.of_nat K + v <? cur + Z.of_nat K)) with false
        by (symmetry; apply orb_false_intro; apply Z.ltb_ge; lia).
      cbn [bind rset rget]. replace (cur + Z.of_nat K + v - (cur + Z.of_nat K)) with v by lia.
      replace (Z.to_nat (cur + Z.of_nat K)) with (c + K)%nat by (unfold c; lia).
      rewrite <- (drop_drop K c data). fold sfx. f_equal. f_equal.
      unfold len. rewrite !ldrop_length. unfold len in *. lia.
Qed.

Lemma sound_util_read_short_bytes data cur :
  0 <= cur <= len data ->
  rrun ast_util_read_short_bytes [] data cur
  = match read_short_bytes (drop (Z.to_nat cur) data) with
    | Ok (v, rest) => Ok (rv_ob v, len data - len rest)
    | Err e => Err e
    end.
Proof. exact (read_string_sound Fh data cur). Qed.

Lemma sound_util_read_int_string data cur :
  0 <= cur <= len data ->
  rrun ast_util_read_int_string [] data cur
  = match read_int_string (drop (Z.to_nat cur) data) with
    | Ok (v, rest) => Ok (rv_ob v, len data - len rest)
    | Err e => Err e
    end.
Proof. exact (read_string_sound Fi data cur). Qed.

(* ------------------------------------------------------------------ read_short_ascii / read_short_text *)
Lemma decoded_sound d data cur :
  0 <= cur <= len data ->
  rrun_decoded ast_util_read_short_bytes d data cur
  = match read_short_decoded (codec_valid (rd_codec d)) (drop (Z.to_nat cur) data) with
    | Ok (b, rest) => Ok (RBytes b, len data - len rest)
    | Err e => Err e
    end.
Proof.
  intros Hc. unfold rrun_decoded, read_short_decoded. rewrite (sound_util_read_short_bytes data cur Hc).
  destruct (read_short_bytes (drop (Z.to_nat cur) data)) as [[[b|] rest]|e]; cbn [bind rv_ob]; try reflexivity.
  destruct (codec_valid (rd_codec d) b); reflexivity.
Qed.

Lemma sound_util_read_short_ascii data cur :
  0 <= cur <= len data ->
  rrun_decoded ast_util_read_short_bytes ast_util_read_short_ascii data cur
  = match read_short_ascii (drop (Z.to_nat cur) data) with
    | Ok (b, rest) => Ok (RBytes b, len data - len rest)
    | Err e => Err e
    end.
Proof. exact (decoded_sound ast_util_read_short_ascii data cur). Qed.

Lemma sound_util_read_short_text data cur :
  0 <= cur <= len data ->
  rrun_decoded ast_util_read_short_bytes ast_util_read_short_text data cur
  = match read_short_text (drop (Z.to_nat cur) data) with
    | Ok (b, rest) => Ok (RBytes b, len data - len rest)
    | Err e => Err e
    end.
Proof. exact (decoded_sound ast_util_read_short_text data cur). Qed.

(* ------------------------------------------------------------------ relative_unpack, any format *)
Definition csize (fs : list ifmt) : nat := fold_right (fun f n => (fmt_size f + n)%nat) O fs.

Lemma unpack_seq_enough fs : forall s,
  (csize fs <= length s)%nat ->
  exists vs, unpack_seq fs s = Ok (vs, drop (csize fs) s) /\ unpack_all fs (take (csize fs) s) = Ok vs.
Proof.
  induction fs as [|f r IH]; intros s H.
  - exists []. cbn. split; reflexivity.
  - cbn [csize fold_right] in *. fold (csize r) in *.
    assert (Hf : (fmt_size f <= length s)%nat) by lia.
    destruct (unpack_exact f s Hf) as [_ [v U]].
    destruct (IH (drop (fmt_size f) s)) as [vs [S1 S2]]; [rewrite ldrop_length; lia|].
    exists (v :: vs). cbn [unpack_seq unpack_all]. rewrite U. cbn [bind]. rewrite S1. cbn [bind]. rewrite drop_drop. split; [reflexivity|].
    assert (U' : unpack f (take (fmt_size f + csize r) s) = Ok (v, take (csize r) (drop (fmt_size f) s))).
    { unfold unpack in *. rewrite ltake_length.
      replace (Nat.ltb (Nat.min (fmt_size f + csize r) (length s)) (fmt_size f)) with false by (symmetry; apply Nat.ltb_ge; lia).
      replace (Nat.ltb (length s) (fmt_size f)) with false in U by (symmetry; apply Nat.ltb_ge; lia).
      rewrite take_plus, drop_take_plus. injection U as <-. reflexivity. }
    rewrite U'. now rewrite S2.
Qed.

Lemma unpack_seq_short fs : forall s, (length s < csize fs)%nat -> unpack_seq fs s = Err Underflow.
Proof.
  induction fs as [|f r IH]; intros s H; [cbn in H; lia|].
  cbn [csize fold_right] in H. fold (csize r) in H. cbn [unpack_seq].
  destruct (Nat.lt_ge_cases (length s) (fmt_size f)) as [Hs|Hs].
  - unfold unpack. replace (Nat.ltb (length s) (fmt_size f)) with true by (symmetry; now apply Nat.ltb_lt). reflexivity.
  - destruct (unpack_exact f s Hs) as [_ [v U]]. rewrite U. cbn [bind]. rewrite IH; [reflexivity|]. rewrite ldrop_length. lia.
Qed.

Lemma sound_util_relative_unpack fmt data cur :
  0 <= cur <= len data ->
  rrun ast_util_relative_unpack fmt data cur
  = match unpack_seq fmt (drop (Z.to_nat cur) data) with
    | Ok (vs, rest) => Ok (RTuple vs, len data - len rest)
    | Err e => Err e
    end.
Proof.
  intros Hc. set (c := Z.to_nat cur). set (sfx := drop c data).
  assert (Hcl : (c <= length data)%nat) by (unfold c, len in *; lia).
  assert (Ls : len sfx = len data - cur) by (unfold sfx; rewrite len_drop by assumption; unfold c; lia).
  unfold rrun, ast_util_relative_unpack. cbn [rexec rtest reval bind rset rget]. unfold calcsize. fold (csize fmt).
  destruct (len data <? cur + Z.of_nat (csize fmt)) eqn:T.
  - apply Z.ltb_lt in T. rewrite unpack_seq_short; [reflexivity|]. unfold len in *. lia.
  - apply Z.ltb_ge in T.
    destruct (unpack_seq_enough fmt sfx) as [vs [S1 S2]]; [unfold len in *; lia|].
    unfold py_slice. replace ((cur <? 0) || (cur + Z.of_nat (csize fmt) <? cur)) with false
      by (symmetry; apply orb_false_intro; apply Z.ltb_ge; lia).
    replace (Z.to_nat (cur + Z.of_nat (csize fmt) - cur)) with (csize fmt) by lia. fold c. fold sfx.
    cbn [bind]. rewrite S2, S1. cbn [bind rset rget]. f_equal. f_equal.
    unfold len. rewrite ldrop_length. unfold len in *. lia.
Qed.
