(* Translator tie of C04: what the committed encoder-language terms (Model/EncAst.v) compute.
   For every encoder X and ALL arguments:   run ast_X (the arguments as values) = Model.Requests.encode_X arguments,
   i.e. the term the translator must produce from the source denotes the hand-written model the C04 theorems are about. *)
From Coq Require Import String Lia.
From AV Require Import Base.Util Model.Prim Model.MsgSet Model.Requests Model.EncDSL Model.EncAst
     Proofs.ReqParseGroup Proofs.ReqParseProducer.
Open Scope string_scope.
Open Scope list_scope.

(* ---- arguments as values ---- *)
Definition vbytes (b : list Z) : val := VStr (Some b).
Definition vpair (f g : text -> val) (p : text * obytes) : val := VTup [f (fst p); g (snd p)].

(* ---- generic facts ---- *)
Lemma enc_all_map {A B} (f : B -> res (list Z)) (g : A -> B) l : enc_all f (map g l) = enc_all (fun a => f (g a)) l.
Proof. induction l as [|x r IH]; cbn [map enc_all]; [reflexivity|]. now rewrite IH. Qed.

Lemma llen_map {A B} (g : A -> B) l : llen (map g l) = llen l.
Proof. unfold llen. now rewrite map_length. Qed.

Lemma pack1 f z : pack_list [(f, z)] = pack f z.
Proof. cbn [pack_list]. destruct (pack f z); cbn [bind]; [now rewrite app_nil_r|reflexivity]. Qed.

(* flatten nested do-blocks by cases on every step, then compare the concatenations *)
Ltac bind_cases :=
  unfold text, obytes in *;
  repeat match goal with
         | |- context [bind ?e _] =>
             lazymatch e with
             | bind _ _ => fail
             | _ => destruct e; cbn [bind]
             end
         end;
  rewrite ?app_nil_r, <- ?app_assoc; try reflexivity.

Ltac dsl := cbn [run run_item eval eval_int eval_str eval_fields nth_error app vfield assoc String.eqb Ascii.eqb Bool.eqb
                 bind vbytes fst snd].

(* ------------------------------------------------------------------ _encode_message_header *)
Theorem header_sound cid corr key ver :
  run ast_encode_message_header [vbytes cid; VInt corr; VInt key; VInt ver] = encode_message_header cid corr key ver.
Proof. unfold ast_encode_message_header, encode_message_header. dsl. bind_cases. Qed.

(* ------------------------------------------------------------------ ApiVersions *)
Theorem api_versions_sound cid corr key ver :
  run ast_encode_api_versions_request [vbytes cid; VInt corr; VRec [("api_key", VInt key); ("api_version", VInt ver)]]
  = encode_api_versions_request cid corr key ver.
Proof. unfold ast_encode_api_versions_request, encode_api_versions_request. dsl. bind_cases. Qed.

(* ------------------------------------------------------------------ Metadata *)
Theorem metadata_sound cid corr topics :
  run ast_encode_metadata_request [vbytes cid; VInt corr; VList (map VStr topics)] = encode_metadata_request cid corr topics.
Proof.
  unfold ast_encode_metadata_request, encode_metadata_request. cbn [run]. rewrite run_item_for. dsl.
  rewrite llen_map, pack1, enc_all_map.
  rewrite (enc_all_ext _ write_short_ascii).
  2:{ intros t _. dsl. destruct (write_short_ascii t); cbn [bind]; [now rewrite app_nil_r|reflexivity]. }
  unfold METADATA_KEY. bind_cases.
Qed.

(* ------------------------------------------------------------------ FindCoordinator *)
Theorem consumermetadata_sound cid corr group :
  run ast_encode_consumermetadata_request [vbytes cid; VInt corr; VStr group] = encode_consumermetadata_request cid corr group.
Proof. unfold ast_encode_consumermetadata_request, encode_consumermetadata_request, CONSUMER_METADATA_KEY. dsl. bind_cases. Qed.

(* ------------------------------------------------------------------ Heartbeat, LeaveGroup *)
Theorem heartbeat_sound cid corr group gen member :
  run ast_encode_heartbeat_request
      [vbytes cid; VInt corr; VRec [("group", VStr group); ("generation_id", VInt gen); ("member_id", VStr member)]]
  = encode_heartbeat_request cid corr group gen member.
Proof.
  unfold ast_encode_heartbeat_request, encode_heartbeat_request, HEARTBEAT_KEY. dsl. rewrite pack1. bind_cases.
Qed.

Theorem leave_group_sound cid corr group member :
  run ast_encode_leave_group_request [vbytes cid; VInt corr; VRec [("group", VStr group); ("member_id", VStr member)]]
  = encode_leave_group_request cid corr group member.
Proof. unfold ast_encode_leave_group_request, encode_leave_group_request, LEAVE_GROUP_KEY. dsl. bind_cases. Qed.

(* ------------------------------------------------------------------ JoinGroup, SyncGroup and the embedded blobs *)
Definition join_val (p : join_group_request) : val :=
  VRec [("group", VStr (jg_group p)); ("session_timeout", VInt (jg_session_timeout p)); ("member_id", VStr (jg_member_id p));
        ("protocol_type", VStr (jg_protocol_type p));
        ("group_protocols", VList (map (fun gp : text * obytes =>
                                          VRec [("protocol_name", VStr (fst gp)); ("protocol_metadata", VStr (snd gp))])
                                       (jg_protocols p)))].

Theorem join_group_sound cid corr p :
  run ast_encode_join_group_request [vbytes cid; VInt corr; join_val p] = encode_join_group_request cid corr p.
Proof.
  unfold ast_encode_join_group_request, encode_join_group_request, JOIN_GROUP_KEY, join_val. cbn [run]. rewrite run_item_for. dsl.
  rewrite llen_map, !pack1, enc_all_map.
  rewrite (enc_all_ext _ (fun gp : text * obytes => do n <- write_short_ascii (fst gp); do md <- write_int_string (snd gp); Ok (n ++ md))).
  2:{ intros gp _. dsl. bind_cases. }
  bind_cases.
Qed.

Definition sync_val (p : sync_group_request) : val :=
  VRec [("group", VStr (sg_group p)); ("generation_id", VInt (sg_generation_id p)); ("member_id", VStr (sg_member_id p));
        ("group_assignment", VList (map (fun ma : text * obytes =>
                                           VRec [("member_id", VStr (fst ma)); ("member_metadata", VStr (snd ma))])
                                        (sg_assignment p)))].

Theorem sync_group_sound cid corr p :
  run ast_encode_sync_group_request [vbytes cid; VInt corr; sync_val p] = encode_sync_group_request cid corr p.
Proof.
  unfold ast_encode_sync_group_request, encode_sync_group_request, SYNC_GROUP_KEY, sync_val. cbn [run]. rewrite run_item_for. dsl.
  rewrite llen_map, !pack1, enc_all_map.
  rewrite (enc_all_ext _ (fun ma : text * obytes => do n <- write_short_text (fst ma); do md <- write_int_string (snd ma); Ok (n ++ md))).
  2:{ intros ma _. dsl. bind_cases. }
  bind_cases.
Qed.

Theorem join_protocol_metadata_sound version subs ud :
  run ast_encode_join_group_protocol_metadata [VInt version; VList (map VStr subs); VStr ud]
  = encode_join_group_protocol_metadata version subs ud.
Proof.
  unfold ast_encode_join_group_protocol_metadata, encode_join_group_protocol_metadata. cbn [run]. rewrite run_item_for. dsl.
  rewrite llen_map, enc_all_map.
  rewrite (enc_all_ext _ write_short_text).
  2:{ intros t _. dsl. destruct (write_short_text t); cbn [bind]; [now rewrite app_nil_r|reflexivity]. }
  bind_cases.
Qed.

Lemma ints_of_map l : ints_of (map VInt l) = Ok l.
Proof. induction l as [|x r IH]; cbn [map ints_of]; [reflexivity|]. rewrite IH. reflexivity. Qed.

Theorem sync_member_assignment_sound version asg ud :
  run ast_encode_sync_group_member_assignment
      [VInt version; VList (map (fun tp : text * list Z => VTup [VStr (fst tp); VList (map VInt (snd tp))]) asg); VStr ud]
  = encode_sync_group_member_assignment version asg ud.
Proof.
  unfold ast_encode_sync_group_member_assignment, encode_sync_group_member_assignment. cbn [run]. rewrite run_item_for. dsl.
  rewrite llen_map, enc_all_map.
  rewrite (enc_all_ext _ (fun tp : text * list Z =>
                            do n <- write_short_ascii (fst tp);
                            do ps <- pack_list ((Fi, len (snd tp)) :: map (fun x => (Fi, x)) (snd tp)); Ok (n ++ ps))).
  2:{ intros tp _. dsl. rewrite ints_of_map. cbn [bind]. bind_cases. }
  cbn [pack_list]. bind_cases.
Qed.

(* ------------------------------------------------------------------ grouped payloads *)
Lemma group_map_gen {P Q} (topic : P -> text) (part : P -> Z) (topic' : Q -> text) (part' : Q -> Z) (F : P -> Q) ps :
  (forall p, topic' (F p) = topic p) -> (forall p, part' (F p) = part p) ->
  group_by_topic_and_partition topic' part' (map F ps) = map_vals (map_vals F) (group_by_topic_and_partition topic part ps).
Proof.
  intros Ht Hp. induction ps as [|x ps IH] using rev_ind; [reflexivity|].
  rewrite map_app. cbn [map]. rewrite !group_snoc, IH. unfold group_step. rewrite Ht, Hp.
  symmetry. apply aset_map. intros o.
  rewrite (aset_map Z.eqb F (part x) (fun _ => x) (fun _ => F x)); [|reflexivity].
  destruct o; reflexivity.
Qed.

Definition vgrouped {P} (fv : P -> val) (g : list (text * list (Z * P))) : list val :=
  map (fun tp => VTup [VStr (fst tp); VList (map (fun pp => VTup [VInt (fst pp); fv (snd pp)]) (snd tp))]) g.

Lemma vgroup_map {P} (topic : P -> text) (part : P -> Z) (fv : P -> val) ps :
  (forall p, vtopic (fv p) = topic p) -> (forall p, vpartition (fv p) = part p) ->
  vgroup (map fv ps) = vgrouped fv (group_by_topic_and_partition topic part ps).
Proof.
  intros Ht Hp. unfold vgroup, vgrouped. rewrite (group_map_gen topic part vtopic vpartition fv ps Ht Hp).
  unfold map_vals. rewrite map_map. apply map_ext. intros [t inner]. cbn [fst snd]. rewrite map_map. reflexivity.
Qed.

(* the two nested loops over a grouped dict, against Model.Requests.encode_topics *)
Lemma grouped_loops {P} (fv : P -> val) (enc_part : Z * P -> res (list Z)) (inner_body : prog) env (g : list (text * list (Z * P))) :
  (forall t inner pt x, run inner_body ((env ++ [VTup [VStr t; VList (map (fun pp => VTup [VInt (fst pp); fv (snd pp)]) inner)]])
                                        ++ [VTup [VInt pt; fv x]]) = enc_part (pt, x)) ->
  enc_all (fun v => run [IAscii (EIdx (EVar (length env)) 0);
                         IPack [(Fi, ELen (EIdx (EVar (length env)) 1))];
                         IFor (EIdx (EVar (length env)) 1) inner_body] (env ++ [v])) (vgrouped fv g)
  = encode_topics enc_part g.
Proof.
  intros H. unfold vgrouped, encode_topics. rewrite enc_all_map. apply enc_all_ext. intros [t inner] _.
  cbn [run]. rewrite run_item_for.
  cbn [run_item eval_fields]. unfold eval_str, eval_int. cbn [eval].
  rewrite !nth_error_app2 by lia. rewrite !Nat.sub_diag. cbn [nth_error bind fst snd].
  rewrite llen_map, pack1, enc_all_map.
  rewrite (enc_all_ext _ enc_part).
  2:{ intros [pt x] _. apply H. }
  bind_cases.
Qed.

Lemma llen_vgrouped {P} (fv : P -> val) g : llen (vgrouped fv g) = llen g.
Proof. unfold vgrouped. apply llen_map. Qed.

(* ------------------------------------------------------------------ Fetch *)
Definition fetch_val (p : fetch_payload) : val :=
  VRec [("topic", VStr (fe_topic p)); ("partition", VInt (fe_partition p)); ("offset", VInt (fe_offset p));
        ("max_bytes", VInt (fe_max_bytes p))].

Definition offset_val (p : offset_payload) : val :=
  VRec [("topic", VStr (of_topic p)); ("partition", VInt (of_partition p)); ("time", VInt (of_time p));
        ("max_offsets", VInt (of_max_offsets p))].

Definition commit_val (p : commit_payload) : val :=
  VRec [("topic", VStr (co_topic p)); ("partition", VInt (co_partition p)); ("offset", VInt (co_offset p));
        ("timestamp", VInt (co_timestamp p)); ("metadata", VStr (co_metadata p))].

Theorem fetch_sound cid corr ps max_wait min_bytes v :
  run ast_encode_fetch_request [vbytes cid; VInt corr; VList (map fetch_val ps); VInt max_wait; VInt min_bytes; VInt v]
  = encode_fetch_request cid corr ps max_wait min_bytes v.
Proof.
  unfold ast_encode_fetch_request, encode_fetch_request, FETCH_KEY, fetch_header_version. cbn [run]. rewrite run_item_for.
  cbn [eval nth_error app]. rewrite (vgroup_map fe_topic fe_partition fetch_val ps) by reflexivity.
  pose proof (grouped_loops fetch_val
                (fun pp : Z * fetch_payload => pack_list [(Fi, fst pp); (Fq, fe_offset (snd pp)); (Fi, fe_max_bytes (snd pp))])
                [IPack [(Fi, EIdx (EVar 7) 0); (Fq, EField (EIdx (EVar 7) 1) "offset"); (Fi, EField (EIdx (EVar 7) 1) "max_bytes")]]
                [vbytes cid; VInt corr; VList (map fetch_val ps); VInt max_wait; VInt min_bytes; VInt v]
                (group_by_topic_and_partition fe_topic fe_partition ps)) as G.
  cbn [length app] in G. rewrite G; [|intros; unfold fetch_val, offset_val, commit_val; dsl; bind_cases]. clear G.
  dsl. rewrite (vgroup_map fe_topic fe_partition fetch_val ps) by reflexivity. dsl. rewrite llen_vgrouped.
  unfold eval_int. cbn [eval nth_error]. destruct (2 <=? v)%Z; dsl; bind_cases.
Qed.

(* ------------------------------------------------------------------ ListOffsets *)
Theorem offset_sound cid corr ps :
  run ast_encode_offset_request [vbytes cid; VInt corr; VList (map offset_val ps)] = encode_offset_request cid corr ps.
Proof.
  unfold ast_encode_offset_request, encode_offset_request, OFFSET_KEY. cbn [run]. rewrite run_item_for.
  cbn [eval nth_error app]. rewrite (vgroup_map of_topic of_partition offset_val ps) by reflexivity.
  pose proof (grouped_loops offset_val
                (fun pp : Z * offset_payload => pack_list [(Fi, fst pp); (Fq, of_time (snd pp)); (Fi, of_max_offsets (snd pp))])
                [IPack [(Fi, EIdx (EVar 4) 0); (Fq, EField (EIdx (EVar 4) 1) "time"); (Fi, EField (EIdx (EVar 4) 1) "max_offsets")]]
                [vbytes cid; VInt corr; VList (map offset_val ps)]
                (group_by_topic_and_partition of_topic of_partition ps)) as G.
  cbn [length app] in G. rewrite G; [|intros; unfold fetch_val, offset_val, commit_val; dsl; bind_cases]. clear G.
  dsl. rewrite (vgroup_map of_topic of_partition offset_val ps) by reflexivity. dsl. rewrite llen_vgrouped.
  bind_cases.
Qed.

(* ------------------------------------------------------------------ OffsetCommit *)
Theorem offset_commit_sound cid corr group gen consumer ps :
  run ast_encode_offset_commit_request [vbytes cid; VInt corr; VStr group; VInt gen; VStr consumer; VList (map commit_val ps)]
  = encode_offset_commit_request cid corr group gen consumer ps.
Proof.
  unfold ast_encode_offset_commit_request, encode_offset_commit_request, OFFSET_COMMIT_KEY. cbn [run]. rewrite run_item_for.
  cbn [eval nth_error app]. rewrite (vgroup_map co_topic co_partition commit_val ps) by reflexivity.
  pose proof (grouped_loops commit_val
                (fun pp : Z * commit_payload =>
                   do f <- pack_list [(Fi, fst pp); (Fq, co_offset (snd pp)); (Fq, co_timestamp (snd pp))];
                   do m <- write_short_bytes (co_metadata (snd pp)); Ok (f ++ m))
                [IPack [(Fi, EIdx (EVar 7) 0); (Fq, EField (EIdx (EVar 7) 1) "offset"); (Fq, EField (EIdx (EVar 7) 1) "timestamp")];
                 IShortBytes (EField (EIdx (EVar 7) 1) "metadata")]
                [vbytes cid; VInt corr; VStr group; VInt gen; VStr consumer; VList (map commit_val ps)]
                (group_by_topic_and_partition co_topic co_partition ps)) as G.
  cbn [length app] in G. rewrite G; [|intros; unfold fetch_val, offset_val, commit_val; dsl; bind_cases]. clear G.
  dsl. rewrite (vgroup_map co_topic co_partition commit_val ps) by reflexivity. dsl. rewrite llen_vgrouped, !pack1.
  bind_cases.
Qed.

(* ------------------------------------------------------------------ OffsetFetch: the inner loop runs over the dict KEYS *)
Definition ofetch_val (p : ofetch_payload) : val :=
  VRec [("topic", VStr (og_topic p)); ("partition", VInt (og_partition p))].

Theorem offset_fetch_sound cid corr group ps :
  run ast_encode_offset_fetch_request [vbytes cid; VInt corr; VStr group; VList (map ofetch_val ps)]
  = encode_offset_fetch_request cid corr group ps.
Proof.
  unfold ast_encode_offset_fetch_request, encode_offset_fetch_request, OFFSET_FETCH_KEY. cbn [run]. rewrite run_item_for.
  cbn [eval nth_error app]. rewrite (vgroup_map og_topic og_partition ofetch_val ps) by reflexivity.
  assert (G : enc_all (fun v => run [IAscii (EIdx (EVar 4) 0); IPack [(Fi, ELen (EIdx (EVar 4) 1))];
                                     IFor (EKeys (EIdx (EVar 4) 1)) [IPack [(Fi, EVar 5)]]]
                                    ([vbytes cid; VInt corr; VStr group; VList (map ofetch_val ps)] ++ [v]))
                      (vgrouped ofetch_val (group_by_topic_and_partition og_topic og_partition ps))
              = encode_topics (fun pp : Z * ofetch_payload => pack Fi (fst pp))
                              (group_by_topic_and_partition og_topic og_partition ps)).
  { unfold vgrouped, encode_topics. rewrite enc_all_map. apply enc_all_ext. intros [t inner] _.
    cbn [run]. rewrite run_item_for. dsl. rewrite llen_map, pack1, map_map. cbn [fst snd]. rewrite enc_all_map.
    rewrite (enc_all_ext _ (fun pp : Z * ofetch_payload => pack Fi (fst pp))).
    2:{ intros [pt x] _. dsl. rewrite pack1. destruct (pack Fi pt); cbn [bind]; [now rewrite app_nil_r|reflexivity]. }
    bind_cases. }
  cbn [app] in G. rewrite G. clear G.
  dsl. rewrite (vgroup_map og_topic og_partition ofetch_val ps) by reflexivity. dsl. rewrite llen_vgrouped, !pack1.
  bind_cases.
Qed.

(* ------------------------------------------------------------------ Produce (message lists that carry their timestamps)
   The encoder language does not model the clock: ILetMsgSet stamps a format-1 message that has no timestamp with 0.
   For payloads whose format-1 messages all carry a timestamp ([stamped]; true of everything create_message builds) the
   clock is never read and the term computes exactly the model, whatever the clock. *)
Definition produce_val (p : produce_payload) : val :=
  VRec [("topic", VStr (pr_topic p)); ("partition", VInt (pr_partition p)); ("messages", VMsgs (pr_messages p))].

Definition msgs_stamped (msgs : list message) : bool := forallb (fun m => negb (uses_clock m)) msgs.
Definition stamped (ps : list produce_payload) : bool := forallb (fun p => msgs_stamped (pr_messages p)) ps.

Lemma encode_message_no_clock a b m : uses_clock m = false -> encode_message a m = encode_message b m.
Proof.
  unfold uses_clock, encode_message. intros U. destruct (m_magic m =? 0)%Z; [reflexivity|].
  destruct (m_magic m =? 1)%Z; [|reflexivity]. destruct (m_ts m); [reflexivity|discriminate U].
Qed.

Lemma encode_set_no_clock clock clock' msgs : forall k k' o i mg,
  msgs_stamped msgs = true ->
  encode_message_set_from clock k msgs o i mg = encode_message_set_from clock' k' msgs o i mg.
Proof.
  induction msgs as [|m r IH]; intros k k' o i mg H; cbn [encode_message_set_from]; [reflexivity|].
  unfold msgs_stamped in H. cbn [forallb] in H. apply andb_prop in H. destruct H as [Hm Hr]. apply negb_true_iff in Hm.
  rewrite Hm. rewrite (encode_message_no_clock (clock k) (clock' k') m Hm). rewrite (IH k k' (o + i)%Z i mg Hr). reflexivity.
Qed.

Definition enc_produce_part (magic : Z) (pp : Z * produce_payload) : res (list Z) :=
  do ms <- encode_message_set (fun _ => 0%Z) O (pr_messages (snd pp)) None magic;
  do ph <- pack_list [(Fi, fst pp); (Fi, len ms)];
  Ok (ph ++ ms).

Lemma produce_partitions_no_clock clock magic : forall ps k,
  (forall pp, In pp ps -> msgs_stamped (pr_messages (snd pp)) = true) ->
  encode_produce_partitions clock k magic ps = enc_all (enc_produce_part magic) ps.
Proof.
  induction ps as [|[pt x] r IH]; intros k H; cbn [encode_produce_partitions enc_all]; [reflexivity|].
  rewrite (IH _ (fun pp I => H pp (or_intror I))). unfold enc_produce_part, encode_message_set. cbn [fst snd].
  rewrite (encode_set_no_clock clock (fun _ => 0%Z) (pr_messages x) k O 0%Z 0%Z magic (H (pt, x) (or_introl eq_refl))).
  bind_cases.
Qed.

Lemma produce_topics_no_clock clock magic : forall g k,
  (forall tp pp, In tp g -> In pp (snd tp) -> msgs_stamped (pr_messages (snd pp)) = true) ->
  encode_produce_topics clock k magic g = encode_topics (enc_produce_part magic) g.
Proof.
  unfold encode_topics. induction g as [|[t inner] r IH]; intros k H; cbn [encode_produce_topics enc_all]; [reflexivity|].
  rewrite (IH _ (fun tp pp I1 I2 => H tp pp (or_intror I1) I2)).
  rewrite (produce_partitions_no_clock clock magic inner k (fun pp I => H (t, inner) pp (or_introl eq_refl) I)).
  cbn [fst snd]. bind_cases.
Qed.

Theorem produce_sound clock cid corr ps acks timeout v :
  stamped ps = true ->
  run ast_encode_produce_request [vbytes cid; VInt corr; VList (map produce_val ps); VInt acks; VInt timeout; VInt v]
  = encode_produce_request clock cid corr ps acks timeout v.
Proof.
  intros ST.
  unfold ast_encode_produce_request, encode_produce_request, PRODUCE_KEY, produce_header_version. cbn [run]. rewrite run_item_for.
  cbn [eval nth_error app]. rewrite (vgroup_map pr_topic pr_partition produce_val ps) by reflexivity.
  rewrite (produce_topics_no_clock clock (produce_magic v) (group_by_topic_and_partition pr_topic pr_partition ps) O).
  2:{ intros [t inner] [pt x] I1 I2. cbn [snd] in *.
      destruct (group_sound pr_topic pr_partition ps t inner pt x I1 I2) as (Ix & _ & _).
      unfold stamped in ST. rewrite forallb_forall in ST. exact (ST x Ix). }
  pose proof (grouped_loops produce_val (enc_produce_part (produce_magic v))
                [ILetMsgSet (EField (EIdx (EVar 7) 1) "messages") (EIfGe (EVar 5) 2 (EConst 1) (EConst 0))
                   [IPack [(Fi, EIdx (EVar 7) 0); (Fi, ELen (EVar 8))]; IRaw (EVar 8)]]
                [vbytes cid; VInt corr; VList (map produce_val ps); VInt acks; VInt timeout; VInt v]
                (group_by_topic_and_partition pr_topic pr_partition ps)) as G.
  cbn [length app] in G. rewrite G; clear G.
  - dsl. rewrite (vgroup_map pr_topic pr_partition produce_val ps) by reflexivity. dsl. rewrite llen_vgrouped.
    unfold eval_int. cbn [eval nth_error]. destruct (2 <=? v)%Z; dsl; bind_cases.
  - intros t inner pt x. cbn [run]. rewrite run_item_let. unfold produce_val, enc_produce_part, produce_magic.
    dsl. unfold eval_int. cbn [eval nth_error fst snd]. destruct (2 <=? v)%Z; cbn [bind];
      destruct (encode_message_set (fun _ => 0%Z) O (pr_messages x) None _) as [ms|]; cbn [bind]; try reflexivity;
      dsl; bind_cases.
Qed.
